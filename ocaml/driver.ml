(* driver.ml — generic line-protocol driver around the extracted model.
   request : <op> <arg>*   arg = decimal | 0x<hex number> | x<hex bytes>
   response: rendering of the model's [obs] value (one line per request). *)
module Z = Zipmodel

let rec pos_of_int (i : int) : Z.positive =
  if i = 1 then Z.XH else if i land 1 = 0 then Z.XO (pos_of_int (i lsr 1)) else Z.XI (pos_of_int (i lsr 1))
let n_of_int (i : int) : Z.n = if i = 0 then Z.N0 else Z.Npos (pos_of_int i)

(* N from big-endian hex digits *)
let n_of_hex (s : string) : Z.n =
  let bits = ref [] in                       (* least significant first *)
  for k = String.length s - 1 downto 0 do
    let v = int_of_string ("0x" ^ String.make 1 s.[k]) in
    bits := !bits @ [v land 1 = 1; v land 2 = 2; v land 4 = 4; v land 8 = 8]
  done;
  let rec strip = function [] -> [] | l -> (match List.rev l with true :: _ -> l | _ :: r -> strip (List.rev r) | [] -> []) in
  let l = strip !bits in
  let rec build = function
    | [] -> None
    | [true] -> Some Z.XH
    | b :: r -> (match build r with Some p -> Some (if b then Z.XI p else Z.XO p) | None -> if b then Some Z.XH else None) in
  match build l with None -> Z.N0 | Some p -> Z.Npos p

let rec pos_bits (p : Z.positive) : bool list = match p with   (* lsb first *)
  | Z.XH -> [true] | Z.XO q -> false :: pos_bits q | Z.XI q -> true :: pos_bits q

let n_to_string (x : Z.n) : string =
  match x with
  | Z.N0 -> "0"
  | Z.Npos p ->
    let bits = pos_bits p in
    if List.length bits <= 62 then begin
      let v = ref 0 in
      List.iteri (fun i b -> if b then v := !v lor (1 lsl i)) bits; string_of_int !v
    end else begin
      let arr = Array.of_list bits in
      let nd = (Array.length arr + 3) / 4 in
      let b = Buffer.create (nd + 2) in
      Buffer.add_string b "0x";
      for d = nd - 1 downto 0 do
        let v = ref 0 in
        for k = 0 to 3 do
          let i = d * 4 + k in if i < Array.length arr && arr.(i) then v := !v lor (1 lsl k)
        done;
        Buffer.add_char b "0123456789abcdef".[!v]
      done; Buffer.contents b
    end

let byte_of_int (i : int) : Z.byte = Obj.magic i      (* constant constructors X00..Xff are the ints 0..255 *)
let int_of_byte (b : Z.byte) : int = Obj.magic b

let bytes_of_hex (s : string) : Z.byte list =
  let n = String.length s / 2 in
  let rec go i acc = if i < 0 then acc else
      go (i - 1) (byte_of_int (int_of_string ("0x" ^ String.sub s (2 * i) 2)) :: acc) in
  go (n - 1) []

let hex_of_bytes (l : Z.byte list) : string =
  let b = Buffer.create 64 in
  Buffer.add_char b 'x';
  List.iter (fun x -> Buffer.add_string b (Printf.sprintf "%02x" (int_of_byte x))) l;
  Buffer.contents b

let text_of_bytes (l : Z.byte list) : string =
  let b = Buffer.create 16 in List.iter (fun x -> Buffer.add_char b (Char.chr (int_of_byte x))) l; Buffer.contents b

let bytes_of_text (s : string) : Z.byte list =
  List.init (String.length s) (fun i -> byte_of_int (Char.code s.[i]))

let parse_arg (s : string) : Z.arg =
  if String.length s >= 1 && s.[0] = 'x' then Z.AB (bytes_of_hex (String.sub s 1 (String.length s - 1)))
  else if String.length s >= 2 && s.[0] = '0' && s.[1] = 'x' then Z.AN (n_of_hex (String.sub s 2 (String.length s - 2)))
  else Z.AN (n_of_int (int_of_string s))

let rec render (b : Buffer.t) (o : Z.obs) : unit =
  match o with
  | Z.ON x -> Buffer.add_string b (n_to_string x)
  | Z.OB l -> Buffer.add_string b (hex_of_bytes l)
  | Z.OT t -> Buffer.add_string b (text_of_bytes t)
  | Z.OL l -> Buffer.add_char b '[';
    List.iteri (fun i x -> if i > 0 then Buffer.add_char b ' '; render b x) l;
    Buffer.add_char b ']'

let () =
  try
    while true do
      let line = input_line stdin in
      let toks = List.filter (fun s -> s <> "") (String.split_on_char ' ' line) in
      match toks with
      | [] -> print_newline ()
      | op :: args ->
        let b = Buffer.create 256 in
        (try render b (Z.dispatch (bytes_of_text op) (List.map parse_arg args))
         with Stack_overflow -> Buffer.add_string b "MODEL-STACK-OVERFLOW"
            | Failure m -> Buffer.add_string b ("MODEL-FAILURE " ^ m));
        print_string (Buffer.contents b); print_newline ()
    done
  with End_of_file -> ()
