//! C05 — everything a caller can do with untrusted bytes; reports outcome classes, wall time and peak heap
use crate::alloc;
use crate::ops_reader::{err_obs, read_loop};
use crate::util::*;
use std::io::{Cursor, Read};
use std::time::Instant;
use zip::ZipArchive;

const READ_CAP: u64 = 64 << 20;

fn cls<T>(r: &Result<T, zip::result::ZipError>) -> String {
    match r {
        Ok(_) => "Ok".into(),
        Err(e) => err_obs(e),
    }
}

fn drain<R: Read>(f: &mut R) -> String {
    let mut lim = f.take(READ_CAP);
    let mut buf = [0u8; 4096];
    let mut n = 0u64;
    loop {
        match lim.read(&mut buf) {
            Ok(0) => return format!("[Ok {}]", n),
            Ok(k) => n += k as u64,
            Err(_) => return format!("[Err {}]", n),
        }
    }
}

pub fn dispatch(op: &str, a: &[Arg]) -> Option<String> {
    Some(match op {
        "hostile" => {
            let data = a[0].b().to_vec();
            let t0 = Instant::now();
            let base = alloc::reset_peak();
            let mut out = vec![];
            let r = std::panic::catch_unwind(|| ZipArchive::new(Cursor::new(data.clone())));
            let open_peak = alloc::peak().saturating_sub(base);
            match r {
                Err(e) => out.push(format!("[PANIC open {}]", panic_class(&e))),
                Ok(Err(e)) => out.push(format!("[open {}]", err_obs(&e))),
                Ok(Ok(mut ar)) => {
                    out.push(format!("[open Ok {}]", ar.len()));
                    let _ = (ar.offset(), ar.comment().len(), ar.is_empty());
                    let names: Vec<String> = ar.file_names().take(8).map(|s| s.to_string()).collect();
                    let n = std::cmp::min(ar.len(), 8);
                    for i in 0..=n {
                        for mode in 0..4 {
                            let r = std::panic::catch_unwind(std::panic::AssertUnwindSafe(|| {
                                let f = match mode {
                                    0 => ar.by_index(i).map(Ok),
                                    1 => ar.by_index_decrypt(i, b"pw"),
                                    2 => ar.by_index_raw(i).map(Ok),
                                    _ => match names.get(i) {
                                        Some(nm) => ar.by_name(nm).map(Ok),
                                        None => ar.by_name("\u{1}absent").map(Ok),
                                    },
                                };
                                match f {
                                    Err(e) => err_obs(&e),
                                    Ok(Err(_)) => "InvalidPassword".into(),
                                    Ok(Ok(mut f)) => {
                                        // every accessor
                                        #[allow(deprecated)]
                                        let _ = (f.name().len(), f.name_raw().len(), f.comment().len(), f.compression(), f.compressed_size(),
                                                 f.size(), f.last_modified(), f.is_dir(), f.is_file(), f.unix_mode(), f.crc32(),
                                                 f.extra_data().len(), f.data_start(), f.header_start(), f.central_header_start(),
                                                 f.version_made_by(), f.enclosed_name().is_some(), f.mangled_name(), f.sanitized_name());
                                        let _ = f.last_modified().to_time();
                                        drain(&mut f)
                                    }
                                }
                            }));
                            match r {
                                Ok(s) => out.push(s),
                                Err(e) => out.push(format!("[PANIC entry{} mode{} {}]", i, mode, panic_class(&e))),
                            }
                        }
                    }
                }
            }
            // streaming reader
            let r = std::panic::catch_unwind(|| {
                let mut cur = Cursor::new(data.clone());
                let mut k = 0;
                loop {
                    match zip::read::read_zipfile_from_stream(&mut cur) {
                        Ok(Some(mut f)) => {
                            let _ = (f.name().len(), f.size(), f.enclosed_name().is_some(), f.mangled_name());
                            let _ = drain(&mut f);
                            k += 1;
                            if k > 10000 {
                                return "stream-cap".to_string();
                            }
                        }
                        Ok(None) => return format!("[stream end {}]", k),
                        Err(e) => return format!("[stream {} {}]", k, err_obs(&e)),
                    }
                }
            });
            match r {
                Ok(s) => out.push(s),
                Err(e) => out.push(format!("[PANIC stream {}]", panic_class(&e))),
            }
            // visitor API
            struct V(usize, usize);
            impl zip::unstable::stream::ZipStreamVisitor for V {
                fn visit_file(&mut self, f: &mut zip::read::ZipFile<'_>) -> zip::result::ZipResult<()> {
                    self.0 += 1;
                    let _ = drain(f);
                    Ok(())
                }
                fn visit_additional_metadata(&mut self, m: &zip::unstable::stream::ZipStreamFileMetadata) -> zip::result::ZipResult<()> {
                    self.1 += 1;
                    let _ = (m.name().len(), m.comment().len(), m.unix_mode(), m.is_dir(), m.enclosed_name().is_some(), m.mangled_name());
                    Ok(())
                }
            }
            let r = std::panic::catch_unwind(|| {
                let mut v = V(0, 0);
                let r = zip::unstable::stream::ZipStreamReader::new(Cursor::new(data.clone())).visit(&mut v);
                format!("[visit {} {} {}]", cls(&r), v.0, v.1)
            });
            match r {
                Ok(s) => out.push(s),
                Err(e) => out.push(format!("[PANIC visit {}]", panic_class(&e))),
            }
            // open for append (and drop, which finalises)
            let r = std::panic::catch_unwind(|| {
                let r = zip::ZipWriter::new_append(Cursor::new(data.clone()));
                let s = match &r {
                    Ok(_) => "Ok".to_string(),
                    Err(e) => err_obs(e),
                };
                drop(r);
                format!("[append {}]", s)
            });
            match r {
                Ok(s) => out.push(s),
                Err(e) => out.push(format!("[PANIC append {}]", panic_class(&e))),
            }
            let ms = t0.elapsed().as_millis();
            let total_peak = alloc::peak().saturating_sub(base);
            format!("[{} total_peak={} open_peak={} len={} ms={}]", out.join(" "), total_peak, open_peak, data.len(), ms)
        }
        _ => return None,
    })
}
