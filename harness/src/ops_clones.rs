//! C20: several cloned handles of one archive.
//! clones x<data> haspw x<pw> (h op arg)*     op 0 = open entry arg, 1 = read up to arg bytes, 2 = close; single thread
//! clonethreads x<data> haspw x<pw> nthreads seed rounds   every thread owns a clone, reads all entries in its own order
use crate::ops_reader::{err_obs, io_obs};
use crate::util::*;
use std::io::{Cursor, Read};
use zip::ZipArchive;

// compile-time: the handle is Send and Sync whenever its reader is
#[allow(dead_code)]
fn assert_send_sync<T: Send + Sync>() {}
#[allow(dead_code)]
fn static_assertions() {
    assert_send_sync::<ZipArchive<Cursor<Vec<u8>>>>();
    assert_send_sync::<ZipArchive<std::fs::File>>();
    assert_send_sync::<ZipArchive<Cursor<&'static [u8]>>>();
    assert_send_sync::<ZipArchive<std::io::BufReader<std::fs::File>>>();
}

type Ar = ZipArchive<Cursor<Vec<u8>>>;

fn read_all(ar: &mut Ar, order: &[usize], chunk: usize, yld: bool, haspw: bool, pw: &[u8]) -> Vec<(usize, String)> {
    let mut res = vec![];
    for &i in order {
        let r = if haspw { ar.by_index_decrypt(i, pw) } else { ar.by_index(i).map(Ok) };
        res.push((
            i,
            match r {
                Err(e) => format!("[Err {}]", err_obs(&e)),
                Ok(Err(_)) => "InvalidPassword".to_string(),
                Ok(Ok(mut f)) => {
                    let mut v = vec![];
                    let mut buf = vec![0u8; chunk];
                    let mut out = None;
                    loop {
                        if yld {
                            std::thread::yield_now();
                        }
                        match f.read(&mut buf) {
                            Ok(0) => break,
                            Ok(k) => v.extend_from_slice(&buf[..k]),
                            Err(e) => {
                                out = Some(format!("[ReadErr {}]", io_obs(&e)));
                                break;
                            }
                        }
                    }
                    out.unwrap_or_else(|| format!("[Ok {} {}]", ob(f.name().as_bytes()), ob(&v)))
                }
            },
        ));
    }
    res
}

pub fn dispatch(op: &str, a: &[Arg]) -> Option<String> {
    Some(match op {
        "clones" => {
            let first = match ZipArchive::new(Cursor::new(a[0].b().to_vec())) {
                Ok(x) => x,
                Err(e) => return Some(format!("[OpenErr {}]", err_obs(&e))),
            };
            let haspw = a[1].n() != 0;
            let pw = a[2].b().to_vec();
            let nh = a[3..].chunks(3).map(|c| c[0].n() as usize).max().unwrap_or(0) + 1;
            // handle 0 is the original, the others are clones of it (taken before any use)
            let mut handles: Vec<Box<Ar>> = vec![Box::new(first)];
            for _ in 1..nh {
                let c = (*handles[0]).clone();
                handles.push(Box::new(c));
            }
            // an open entry borrows its handle; handles are boxed and never moved while an entry is open
            let mut files: Vec<Option<zip::read::ZipFile<'static>>> = (0..nh).map(|_| None).collect();
            let mut outs = vec![];
            for c in a[3..].chunks(3) {
                let h = c[0].n() as usize;
                let arg = c[2].n() as usize;
                match c[1].n() {
                    0 => {
                        files[h] = None;
                        let p: *mut Ar = &mut *handles[h];
                        let r = unsafe {
                            if haspw {
                                (*p).by_index_decrypt(arg, &pw)
                            } else {
                                (*p).by_index(arg).map(Ok)
                            }
                        };
                        outs.push(match r {
                            Err(e) => format!("[Err {}]", err_obs(&e)),
                            Ok(Err(_)) => "InvalidPassword".to_string(),
                            Ok(Ok(f)) => {
                                let s = format!("[Ok {} {} {} {}]", ob(f.name().as_bytes()), on(f.size()), on(f.crc32()), on(f.data_start()));
                                files[h] = Some(f);
                                s
                            }
                        });
                    }
                    1 => outs.push(match files[h].as_mut() {
                        None => "NOENTRY".to_string(),
                        Some(f) => {
                            let mut buf = vec![0u8; arg];
                            match f.read(&mut buf) {
                                Ok(k) => format!("[Ok {}]", ob(&buf[..k])),
                                Err(e) => format!("[Err {}]", io_obs(&e)),
                            }
                        }
                    }),
                    _ => {
                        files[h] = None;
                        outs.push("closed".to_string());
                    }
                }
            }
            files.clear();
            ol(&outs)
        }
        "clonethreads" => {
            let first: Ar = match ZipArchive::new(Cursor::new(a[0].b().to_vec())) {
                Ok(x) => x,
                Err(e) => return Some(format!("[OpenErr {}]", err_obs(&e))),
            };
            let haspw = a[1].n() != 0;
            let pw = a[2].b().to_vec();
            let nthreads = a[3].n() as usize;
            let seed = a[4].n() as u64;
            let rounds = a[5].n() as usize;
            let n = first.len();
            let order0: Vec<usize> = (0..n).collect();
            // reference: a handle used alone
            let mut alone = first.clone();
            let mut reference = read_all(&mut alone, &order0, 4096, false, haspw, &pw);
            reference.sort();
            let shared = std::sync::Arc::new(first);
            let mut mismatches = 0usize;
            let mut detail = String::new();
            for round in 0..rounds {
                let mut joins = vec![];
                for t in 0..nthreads {
                    let mut x = seed ^ ((round as u64) << 32) ^ ((t as u64 + 1).wrapping_mul(0x9e3779b97f4a7c15));
                    let mut order: Vec<usize> = (0..n).collect();
                    for i in (1..n).rev() {
                        x ^= x << 13;
                        x ^= x >> 7;
                        x ^= x << 17;
                        order.swap(i, (x % (i as u64 + 1)) as usize);
                    }
                    let chunk = [1usize, 7, 64, 4096][(x % 4) as usize];
                    let sh = shared.clone();
                    let pw2 = pw.clone();
                    let o = order.clone();
                    joins.push((order, chunk, std::thread::spawn(move || {
                        // cloning through a shared reference inside the thread needs Sync; owning the clone needs Send
                        let mut mine: Ar = (*sh).clone();
                        read_all(&mut mine, &o, chunk, true, haspw, &pw2)
                    })));
                }
                for (order, chunk, j) in joins {
                    match j.join() {
                        Ok(mut res) => {
                            res.sort();
                            if res != reference {
                                mismatches += 1;
                                if detail.is_empty() {
                                    let k = res.iter().zip(reference.iter()).position(|(x, y)| x != y).unwrap_or(0);
                                    detail = format!(
                                        "[round {} order {:?} chunk {} entry {} got {} want {}]",
                                        round,
                                        &order[..std::cmp::min(order.len(), 8)],
                                        chunk,
                                        k,
                                        res.get(k).map(|x| x.1.chars().take(120).collect::<String>()).unwrap_or_default(),
                                        reference.get(k).map(|x| x.1.chars().take(120).collect::<String>()).unwrap_or_default()
                                    )
                                    .replace(' ', "_");
                                }
                            }
                        }
                        Err(e) => {
                            mismatches += 1;
                            if detail.is_empty() {
                                detail = format!("[PANIC {}]", panic_class(&e));
                            }
                        }
                    }
                }
            }
            format!("[{} {} {} {}]", on(n as u64), on((nthreads * rounds) as u64), on(mismatches as u64), if detail.is_empty() { "none".to_string() } else { detail })
        }
        _ => return None,
    })
}
