//! C20: several cloned handles of one archive.
//! clones x<data> haspw x<pw> (h op arg)*     op 0 = open entry arg, 1 = read up to arg bytes, 2 = close; single thread
//! clonethreads x<data> haspw x<pw> nthreads seed rounds   every thread owns a clone, reads all entries in its own order
use crate::ops_reader::{err_obs, io_obs};
use crate::util::*;
use std::io::{Cursor, Read};
use zip::ZipArchive;

// compile-time: the handle is Send and Sync whenever its reader is
#[allow(dead_code)]
fn assert_send_sync<T: Send + Sync>() {}
#[allow(dead_code)]
fn static_assertions() {
    assert_send_sync::<ZipArchive<Cursor<Vec<u8>>>>();
    assert_send_sync::<ZipArchive<std::fs::File>>();
    assert_send_sync::<ZipArchive<Cursor<&'static [u8]>>>();
    assert_send_sync::<ZipArchive<std::io::BufReader<std::fs::File>>>();
}

type Ar = ZipArchive<Cursor<Vec<u8>>>;

// ---- clonegate: interleaving at I/O-call granularity.  Handle A is stopped in front of its k-th read/seek call, a
// second clone B opens and reads the same entry completely, then A continues.  Every clone has its own cursor; what
// they share is the archive's metadata (incl. the per-entry data_start cell).
struct Ctl {
    st: std::sync::Mutex<CtlState>,
    cv: std::sync::Condvar,
    next_id: std::sync::atomic::AtomicU64,
}
#[derive(Default)]
struct CtlState {
    armed: Option<(u64, usize)>,
    reached: bool,
    go: bool,
    a_done: bool,
}
struct GateReader {
    inner: Cursor<std::sync::Arc<[u8]>>,
    id: u64,
    calls: usize,
    ctl: std::sync::Arc<Ctl>,
}
impl Clone for GateReader {
    fn clone(&self) -> Self {
        GateReader {
            inner: self.inner.clone(),
            id: self.ctl.next_id.fetch_add(1, std::sync::atomic::Ordering::SeqCst),
            calls: 0,
            ctl: self.ctl.clone(),
        }
    }
}
impl GateReader {
    fn gate(&mut self) {
        self.calls += 1;
        let mut st = self.ctl.st.lock().unwrap();
        if st.armed == Some((self.id, self.calls)) {
            st.reached = true;
            self.ctl.cv.notify_all();
            while !st.go {
                st = self.ctl.cv.wait(st).unwrap();
            }
        }
    }
}
impl Read for GateReader {
    fn read(&mut self, buf: &mut [u8]) -> std::io::Result<usize> {
        self.gate();
        self.inner.read(buf)
    }
}
impl std::io::Seek for GateReader {
    fn seek(&mut self, pos: std::io::SeekFrom) -> std::io::Result<u64> {
        self.gate();
        self.inner.seek(pos)
    }
}
fn read_one<R: Read + std::io::Seek>(ar: &mut ZipArchive<R>, i: usize, haspw: bool, pw: &[u8]) -> String {
    let r = if haspw { ar.by_index_decrypt(i, pw) } else { ar.by_index(i).map(Ok) };
    match r {
        Err(e) => format!("[Err {}]", err_obs(&e)),
        Ok(Err(_)) => "InvalidPassword".to_string(),
        Ok(Ok(mut f)) => {
            let mut v = vec![];
            match f.read_to_end(&mut v) {
                Ok(_) => format!("[Ok {}]", ob(&v)),
                Err(e) => format!("[ReadErr {}]", io_obs(&e)),
            }
        }
    }
}

fn read_all(ar: &mut Ar, order: &[usize], chunk: usize, yld: bool, haspw: bool, pw: &[u8]) -> Vec<(usize, String)> {
    let mut res = vec![];
    for &i in order {
        let r = if haspw { ar.by_index_decrypt(i, pw) } else { ar.by_index(i).map(Ok) };
        res.push((
            i,
            match r {
                Err(e) => format!("[Err {}]", err_obs(&e)),
                Ok(Err(_)) => "InvalidPassword".to_string(),
                Ok(Ok(mut f)) => {
                    let mut v = vec![];
                    let mut buf = vec![0u8; chunk];
                    let mut out = None;
                    loop {
                        if yld {
                            std::thread::yield_now();
                        }
                        match f.read(&mut buf) {
                            Ok(0) => break,
                            Ok(k) => v.extend_from_slice(&buf[..k]),
                            Err(e) => {
                                out = Some(format!("[ReadErr {}]", io_obs(&e)));
                                break;
                            }
                        }
                    }
                    out.unwrap_or_else(|| format!("[Ok {} {}]", ob(f.name().as_bytes()), ob(&v)))
                }
            },
        ));
    }
    res
}

pub fn dispatch(op: &str, a: &[Arg]) -> Option<String> {
    Some(match op {
        // clonegate x<data> haspw x<pw>: for every entry and every gate position k: A stopped before its k-th I/O call
        // while B reads the same entry; both must return what a handle used alone returns
        "clonegate" => {
            let data: std::sync::Arc<[u8]> = std::sync::Arc::from(a[0].b().to_vec());
            let haspw = a[1].n() != 0;
            let pw = a[2].b().to_vec();
            let ctl = std::sync::Arc::new(Ctl {
                st: std::sync::Mutex::new(CtlState::default()),
                cv: std::sync::Condvar::new(),
                next_id: std::sync::atomic::AtomicU64::new(1),
            });
            let base = match ZipArchive::new(GateReader { inner: Cursor::new(data.clone()), id: 0, calls: 0, ctl: ctl.clone() }) {
                Ok(x) => x,
                Err(e) => return Some(format!("[OpenErr {}]", err_obs(&e))),
            };
            let n = base.len();
            let mut scenarios = 0usize;
            let mut mismatches = 0usize;
            let mut detail = String::new();
            for idx in 0..n {
                let mut alone = base.clone();
                let want = read_one(&mut alone, idx, haspw, &pw);
                let mut k = 1usize;
                loop {
                    let mut ha = base.clone();
                    let mut hb = base.clone();
                    // ha's reader is the clone made first: ids are handed out in clone order (alone, ha, hb, ...)
                    let id_a = ctl.next_id.load(std::sync::atomic::Ordering::SeqCst) - 2;
                    {
                        let mut st = ctl.st.lock().unwrap();
                        *st = CtlState { armed: Some((id_a, k)), reached: false, go: false, a_done: false };
                    }
                    let ctl2 = ctl.clone();
                    let pw2 = pw.clone();
                    let ta = std::thread::spawn(move || {
                        let r = std::panic::catch_unwind(std::panic::AssertUnwindSafe(|| read_one(&mut ha, idx, haspw, &pw2)))
                            .unwrap_or_else(|e| format!("[PANIC {}]", panic_class(&e)));
                        let mut st = ctl2.st.lock().unwrap();
                        st.a_done = true;
                        ctl2.cv.notify_all();
                        r
                    });
                    let reached;
                    {
                        let mut st = ctl.st.lock().unwrap();
                        while !(st.reached || st.a_done) {
                            st = ctl.cv.wait(st).unwrap();
                        }
                        reached = st.reached;
                    }
                    let rb = read_one(&mut hb, idx, haspw, &pw);
                    {
                        let mut st = ctl.st.lock().unwrap();
                        st.go = true;
                        ctl.cv.notify_all();
                    }
                    let ra = ta.join().unwrap_or_else(|_| "[PANIC thread]".to_string());
                    scenarios += 1;
                    if ra != want || rb != want {
                        mismatches += 1;
                        if detail.is_empty() {
                            detail = format!("[entry {} gate {} A {} B {} want {}]", idx, k,
                                ra.chars().take(60).collect::<String>(), rb.chars().take(60).collect::<String>(),
                                want.chars().take(60).collect::<String>()).replace(' ', "_");
                        }
                    }
                    if !reached || k > 200 {
                        break;
                    }
                    k += 1;
                }
            }
            format!("[{} {} {}]", scenarios, mismatches, if detail.is_empty() { "NONE".to_string() } else { detail })
        }
        "clones" => {
            let first = match ZipArchive::new(Cursor::new(a[0].b().to_vec())) {
                Ok(x) => x,
                Err(e) => return Some(format!("[OpenErr {}]", err_obs(&e))),
            };
            let haspw = a[1].n() != 0;
            let pw = a[2].b().to_vec();
            let nh = a[3..].chunks(3).map(|c| c[0].n() as usize).max().unwrap_or(0) + 1;
            // handle 0 is the original, the others are clones of it (taken before any use)
            let mut handles: Vec<Box<Ar>> = vec![Box::new(first)];
            for _ in 1..nh {
                let c = (*handles[0]).clone();
                handles.push(Box::new(c));
            }
            // an open entry borrows its handle; handles are boxed and never moved while an entry is open
            let mut files: Vec<Option<zip::read::ZipFile<'static>>> = (0..nh).map(|_| None).collect();
            let mut outs = vec![];
            for c in a[3..].chunks(3) {
                let h = c[0].n() as usize;
                let arg = c[2].n() as usize;
                match c[1].n() {
                    // 0: open entry arg with the password of the request; 5: with a proper prefix of it (first half);
                    // 6: with the empty password
                    op @ (0 | 5 | 6) => {
                        files[h] = None;
                        let p: *mut Ar = &mut *handles[h];
                        let pwx: Vec<u8> = match op {
                            5 => pw[..pw.len() / 2].to_vec(),
                            6 => vec![],
                            _ => pw.to_vec(),
                        };
                        let r = unsafe {
                            if haspw || op != 0 {
                                (*p).by_index_decrypt(arg, &pwx)
                            } else {
                                (*p).by_index(arg).map(Ok)
                            }
                        };
                        outs.push(match r {
                            Err(e) => format!("[Err {}]", err_obs(&e)),
                            Ok(Err(_)) => "InvalidPassword".to_string(),
                            Ok(Ok(f)) => {
                                let s = format!("[Ok {} {} {} {}]", ob(f.name().as_bytes()), on(f.size()), on(f.crc32()), on(f.data_start()));
                                files[h] = Some(f);
                                s
                            }
                        });
                    }
                    1 => outs.push(match files[h].as_mut() {
                        None => "NOENTRY".to_string(),
                        Some(f) => {
                            let mut buf = vec![0u8; arg];
                            match f.read(&mut buf) {
                                Ok(k) => format!("[Ok {}]", ob(&buf[..k])),
                                Err(e) => format!("[Err {}]", io_obs(&e)),
                            }
                        }
                    }),
                    // 3: data_start() of the entry this handle holds open (implementation-only scripts)
                    3 => outs.push(match files[h].as_ref() {
                        None => "NOENTRY".to_string(),
                        Some(f) => format!("[DS {}]", on(f.data_start())),
                    }),
                    // 4: open entry arg through by_index_raw (no password, no decoder)
                    4 => {
                        files[h] = None;
                        let p: *mut Ar = &mut *handles[h];
                        let r = unsafe { (*p).by_index_raw(arg) };
                        outs.push(match r {
                            Err(e) => format!("[Err {}]", err_obs(&e)),
                            Ok(f) => {
                                let s = format!("[Ok {} {} {} {}]", ob(f.name().as_bytes()), on(f.size()), on(f.crc32()), on(f.data_start()));
                                files[h] = Some(f);
                                s
                            }
                        });
                    }
                    _ => {
                        files[h] = None;
                        outs.push("closed".to_string());
                    }
                }
            }
            files.clear();
            ol(&outs)
        }
        "clonethreads" => {
            let first: Ar = match ZipArchive::new(Cursor::new(a[0].b().to_vec())) {
                Ok(x) => x,
                Err(e) => return Some(format!("[OpenErr {}]", err_obs(&e))),
            };
            let haspw = a[1].n() != 0;
            let pw = a[2].b().to_vec();
            let nthreads = a[3].n() as usize;
            let seed = a[4].n() as u64;
            let rounds = a[5].n() as usize;
            let n = first.len();
            let order0: Vec<usize> = (0..n).collect();
            // reference: a handle used alone
            let mut alone = first.clone();
            let mut reference = read_all(&mut alone, &order0, 4096, false, haspw, &pw);
            reference.sort();
            let shared = std::sync::Arc::new(first);
            let mut mismatches = 0usize;
            let mut detail = String::new();
            for round in 0..rounds {
                let mut joins = vec![];
                for t in 0..nthreads {
                    let mut x = seed ^ ((round as u64) << 32) ^ ((t as u64 + 1).wrapping_mul(0x9e3779b97f4a7c15));
                    let mut order: Vec<usize> = (0..n).collect();
                    for i in (1..n).rev() {
                        x ^= x << 13;
                        x ^= x >> 7;
                        x ^= x << 17;
                        order.swap(i, (x % (i as u64 + 1)) as usize);
                    }
                    let chunk = [1usize, 7, 64, 4096][(x % 4) as usize];
                    let sh = shared.clone();
                    let pw2 = pw.clone();
                    let o = order.clone();
                    joins.push((order, chunk, std::thread::spawn(move || {
                        // cloning through a shared reference inside the thread needs Sync; owning the clone needs Send
                        let mut mine: Ar = (*sh).clone();
                        read_all(&mut mine, &o, chunk, true, haspw, &pw2)
                    })));
                }
                for (order, chunk, j) in joins {
                    match j.join() {
                        Ok(mut res) => {
                            res.sort();
                            if res != reference {
                                mismatches += 1;
                                if detail.is_empty() {
                                    let k = res.iter().zip(reference.iter()).position(|(x, y)| x != y).unwrap_or(0);
                                    detail = format!(
                                        "[round {} order {:?} chunk {} entry {} got {} want {}]",
                                        round,
                                        &order[..std::cmp::min(order.len(), 8)],
                                        chunk,
                                        k,
                                        res.get(k).map(|x| x.1.chars().take(120).collect::<String>()).unwrap_or_default(),
                                        reference.get(k).map(|x| x.1.chars().take(120).collect::<String>()).unwrap_or_default()
                                    )
                                    .replace(' ', "_");
                                }
                            }
                        }
                        Err(e) => {
                            mismatches += 1;
                            if detail.is_empty() {
                                detail = format!("[PANIC {}]", panic_class(&e));
                            }
                        }
                    }
                }
            }
            format!("[{} {} {} {}]", on(n as u64), on((nthreads * rounds) as u64), on(mismatches as u64), if detail.is_empty() { "none".to_string() } else { detail })
        }
        _ => return None,
    })
}
