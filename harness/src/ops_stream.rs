//! C10 — streaming reader ops
use crate::ops_reader::{err_obs, io_obs, read_loop};
use crate::util::*;
use std::io::{Cursor, Read};
use zip::unstable::stream::{ZipStreamFileMetadata, ZipStreamReader, ZipStreamVisitor};

fn time_obs(t: zip::DateTime) -> String {
    ol(&[on(t.year()), on(t.month()), on(t.day()), on(t.hour()), on(t.minute()), on(t.second())])
}

fn smeta(f: &zip::read::ZipFile) -> String {
    #[allow(deprecated)]
    let m = f.compression().to_u16();
    ol(&[
        ob(f.name().as_bytes()),
        ob(f.name_raw()),
        on(m),
        on(f.compressed_size()),
        on(f.size()),
        on(f.crc32()),
        time_obs(f.last_modified()),
        match f.unix_mode() {
            Some(x) => on(x),
            None => "NONE".into(),
        },
        ob(f.comment().as_bytes()),
    ])
}

fn consume<R: Read>(f: &mut R, k: u8, csize: u64) -> String {
    if k == 255 {
        return read_loop(f, 4096);
    }
    let want = std::cmp::min(k as u64, csize) as usize;
    let mut buf = vec![0u8; want];
    match f.read_exact(&mut buf) {
        Ok(()) => format!("[Part {}]", ob(&buf)),
        Err(e) => format!("[Err {}]", io_obs(&e)),
    }
}

struct V {
    files: Vec<String>,
    metas: Vec<String>,
}
impl ZipStreamVisitor for V {
    fn visit_file(&mut self, f: &mut zip::read::ZipFile<'_>) -> zip::result::ZipResult<()> {
        self.files.push(ob(f.name().as_bytes()));
        Ok(())
    }
    fn visit_additional_metadata(&mut self, m: &ZipStreamFileMetadata) -> zip::result::ZipResult<()> {
        // ZipStreamFileMetadata exposes fewer accessors than the model's record: name, comment, mode
        self.metas.push(format!(
            "[{} {} {}]",
            ob(m.name().as_bytes()),
            match m.unix_mode() {
                Some(x) => on(x),
                None => "NONE".into(),
            },
            ob(m.comment().as_bytes())
        ));
        Ok(())
    }
}

pub fn dispatch(op: &str, a: &[Arg]) -> Option<String> {
    Some(match op {
        // stream_consume x<data> x<pattern>: entry j is read for pattern[j % len] bytes (255 = to the end) then dropped
        "stream_consume" => {
            let pattern = a[1].b().to_vec();
            let mut cur = Cursor::new(a[0].b().to_vec());
            let mut outs = vec![];
            let mut j = 0usize;
            loop {
                let k = if pattern.is_empty() { 255 } else { pattern[j % pattern.len()] };
                let r = std::panic::catch_unwind(std::panic::AssertUnwindSafe(|| {
                    match zip::read::read_zipfile_from_stream(&mut cur) {
                        Ok(Some(mut f)) => {
                            let m = smeta(&f);
                            #[allow(deprecated)]
                            let stored = f.compression().to_u16() == 0;
                            let cs = if stored { f.compressed_size() } else { f.size() };
                            let c = consume(&mut f, k, cs);
                            (format!("[{} {}]", m, c), true)
                        }
                        Ok(None) => ("END".to_string(), false),
                        Err(e) => (format!("[Err {}]", err_obs(&e)), false),
                    }
                }));
                j += 1;
                match r {
                    Ok((s, cont)) => {
                        outs.push(s);
                        if !cont || j > 100000 {
                            break;
                        }
                    }
                    Err(e) => {
                        outs.push(format!("[PANIC {}]", panic_class(&e)));
                        break;
                    }
                }
            }
            ol(&outs)
        }
        // faultstream x<data> k mode: the streaming API over a source whose k-th read (counted from 0) fails; k beyond the
        // run = failure-free.  mode 0 = ZipStreamReader::visit, mode 1 = read_zipfile_from_stream until the end, every
        // entry read completely, mode 2 = the same with every entry dropped unread.  -> [reads-made [files] [metas] result]
        "faultstream" => {
            struct FaultRead {
                inner: Cursor<Vec<u8>>,
                n: std::rc::Rc<std::cell::Cell<u64>>,
                fail_at: u64,
            }
            impl Read for FaultRead {
                fn read(&mut self, b: &mut [u8]) -> std::io::Result<usize> {
                    let c = self.n.get();
                    self.n.set(c + 1);
                    if c == self.fail_at {
                        return Err(std::io::Error::new(std::io::ErrorKind::Other, "injected"));
                    }
                    self.inner.read(b)
                }
            }
            let n = std::rc::Rc::new(std::cell::Cell::new(0u64));
            let mut src = FaultRead { inner: Cursor::new(a[0].b().to_vec()), n: n.clone(), fail_at: a[1].n() as u64 };
            if a[2].n() == 0 {
                let mut v = V { files: vec![], metas: vec![] };
                let r = ZipStreamReader::new(src).visit(&mut v);
                format!(
                    "[{} {} {} {}]",
                    on(n.get()),
                    ol(&v.files),
                    ol(&v.metas),
                    match r {
                        Ok(()) => "[Ok unit]".to_string(),
                        Err(e) => format!("[Err {}]", err_obs(&e)),
                    }
                )
            } else {
                let mut outs = vec![];
                let res;
                loop {
                    match zip::read::read_zipfile_from_stream(&mut src) {
                        Ok(Some(mut f)) => {
                            let m = smeta(&f);
                            // mode 2: the entry is dropped unread (its data is skipped by Drop)
                            let c = if a[2].n() == 1 { read_loop(&mut f, 4096) } else { "SKIP".to_string() };
                            outs.push(format!("[{} {}]", m, c));
                        }
                        Ok(None) => {
                            res = "END".to_string();
                            break;
                        }
                        Err(e) => {
                            res = format!("[Err {}]", err_obs(&e));
                            break;
                        }
                    }
                    if outs.len() > 10000 {
                        res = "LOOP".to_string();
                        break;
                    }
                }
                format!("[{} {} [] {}]", on(n.get()), ol(&outs), res)
            }
        }
        "visit" => {
            let mut v = V { files: vec![], metas: vec![] };
            let r = ZipStreamReader::new(Cursor::new(a[0].b().to_vec())).visit(&mut v);
            format!(
                "[{} {} {}]",
                ol(&v.files),
                ol(&v.metas),
                match r {
                    Ok(()) => "[Ok unit]".to_string(),
                    Err(e) => format!("[Err {}]", err_obs(&e)),
                }
            )
        }
        // stream_vs_seek x<data> x<pattern> [x<plan>]: the streamed sequence must equal the seekable reader's, entry by
        // entry; with a plan the stream source delivers at most plan[i] bytes on its i-th read (short reads)
        "stream_vs_seek" => {
            let data = a[0].b().to_vec();
            let pattern = a[1].b().to_vec();
            let plan = if a.len() > 2 { a[2].b().to_vec() } else { vec![] };
            let mut ar = match zip::ZipArchive::new(Cursor::new(data.clone())) {
                Ok(ar) => ar,
                Err(e) => return Some(format!("[SeekOpenErr {}]", err_obs(&e))),
            };
            let mut cur = crate::ops_reader::ChunkReader {
                inner: Cursor::new(data),
                plan,
                i: 0,
                enabled: std::rc::Rc::new(std::cell::Cell::new(true)),
            };
            let mut j = 0usize;
            loop {
                let k = if pattern.is_empty() { 255 } else { pattern[j % pattern.len()] };
                match zip::read::read_zipfile_from_stream(&mut cur) {
                    Ok(Some(mut f)) => {
                        if j >= ar.len() {
                            return Some(format!("[DIFF stream has more entries than the directory ({})]", ar.len()));
                        }
                        let mut g = match ar.by_index(j) {
                            Ok(g) => g,
                            Err(e) => return Some(format!("[SeekEntryErr {} {}]", j, err_obs(&e))),
                        };
                        #[allow(deprecated)]
                        let same_meta = f.name() == g.name()
                            && f.size() == g.size()
                            && f.compressed_size() == g.compressed_size()
                            && f.compression().to_u16() == g.compression().to_u16()
                            && f.last_modified().datepart() == g.last_modified().datepart()
                            && f.last_modified().timepart() == g.last_modified().timepart()
                            && f.crc32() == g.crc32();
                        if !same_meta {
                            return Some(format!("[DIFF meta at {}]", j));
                        }
                        let n = if k == 255 { u64::MAX } else { k as u64 };
                        let mut a1 = vec![];
                        let mut a2 = vec![];
                        let r1 = (&mut f).take(n).read_to_end(&mut a1).is_ok();
                        let r2 = (&mut g).take(n).read_to_end(&mut a2).is_ok();
                        if r1 != r2 || a1 != a2 {
                            return Some(format!("[DIFF content at {}]", j));
                        }
                    }
                    Ok(None) => {
                        if j != ar.len() {
                            return Some(format!("[DIFF stream ended after {} of {} entries]", j, ar.len()));
                        }
                        return Some(format!("[SAME {}]", j));
                    }
                    Err(e) => return Some(format!("[StreamErr {} {}]", j, err_obs(&e))),
                }
                j += 1;
            }
        }
        _ => return None,
    })
}
