//! reader ops: open / entry / byname (seekable reader over an in-memory archive)
use crate::util::*;
use std::io::{Cursor, Read};
use std::os::unix::ffi::OsStrExt;
use zip::result::ZipError;
use zip::ZipArchive;

pub fn io_kind(e: &std::io::Error) -> &'static str {
    use std::io::ErrorKind::*;
    match e.kind() {
        UnexpectedEof => "UnexpectedEof",
        Other => "Other",
        BrokenPipe => "BrokenPipe",
        InvalidData => "InvalidData",
        InvalidInput => "InvalidInput",
        _ => "OtherKind",
    }
}

pub fn io_msg(e: &std::io::Error) -> &'static str {
    let m = e.to_string();
    let table: &[(&str, &str)] = &[
        ("Invalid checksum", "IInvalidChecksum"),
        ("No file has been started", "INoFileStarted"),
        ("ZipWriter was already closed", "IClosed"),
        ("Large file option has not been set", "ILargeFile"),
        ("Not writing to extra field", "INotExtra"),
        ("Extra data exceeds extra field", "IExtraTooLong"),
        ("Incomplete extra data header", "IExtraIncomplete"),
        ("No custom ZIP64 extra data allowed", "IExtraZip64"),
        ("requires crate feature", "IExtraReserved"),
        ("Extra data size exceeds extra field", "IExtraSize"),
        ("Invalid authentication code", "IAuthCode"),
        ("failed to write whole buffer", "IWriteZero"),
        ("failed to fill whole buffer", "IFillBuffer"),
        ("injected", "IInjected"),
        ("AES data ends before its authentication code", "IAesTruncated"),
    ];
    for (k, v) in table {
        if m.contains(k) {
            return v;
        }
    }
    "INone"
}

pub fn msg_name(m: &str) -> &'static str {
    let table: &[(&str, &str)] = &[
        ("Invalid digital signature header", "MInvalidSignatureHeader"),
        ("Invalid zip header", "MInvalidZipHeader"),
        ("Could not find central directory end", "MNoCde"),
        ("Invalid zip64 locator digital signature header", "MInvalidZip64Locator"),
        ("Could not find ZIP64 central directory end", "MNoZip64Cde"),
        ("Invalid central directory size or offset", "MInvalidCdSizeOrOffset"),
        ("Support for multi-disk files is not implemented", "MMultiDisk"),
        ("File cannot contain ZIP64 central directory end", "MNoZip64Room"),
        ("Could not seek to start of central directory", "MSeekCd"),
        ("Invalid Central Directory header", "MInvalidCdHeader"),
        ("AES encryption without AES extra data field", "MAesNoExtra"),
        ("Archive header is too large", "MHeaderTooLarge"),
        ("AES extra data field has an unsupported length", "MAesExtraLen"),
        ("Invalid AES vendor version", "MAesVendorVersion"),
        ("Invalid AES vendor", "MAesVendor"),
        ("Invalid AES encryption strength", "MAesStrength"),
        ("Invalid local file header", "MInvalidLocalHeader"),
        ("Compression method not supported", "MMethodNotSupported"),
        ("Password required to decrypt file", "MPasswordRequired"),
        ("Encrypted files are not supported", "MEncryptedStream"),
        ("The file length is not available in the local header", "MDataDescriptorStream"),
        ("Invalid file path", "MInvalidFilePath"),
        ("Unsupported compression level", "MUnsupportedLevel"),
        ("AES compression is not supported for writing", "MAesWrite"),
        ("Unsupported compression", "MUnsupportedCompression"),
        ("AES entry is too short", "MAesTooShort"),
        ("too long", "MTooLong"),
    ];
    for (k, v) in table {
        if m == *k {
            return v;
        }
    }
    for (k, v) in table {
        if m.contains(k) {
            return v;
        }
    }
    "MOtherMsg"
}

pub fn io_obs(e: &std::io::Error) -> String {
    // a ZipError wrapped into an io::Error (From<ZipError> for io::Error) keeps its identity
    if let Some(inner) = e.get_ref() {
        if let Some(z) = inner.downcast_ref::<ZipError>() {
            return err_obs(z);
        }
    }
    format!("[Io {} {}]", io_kind(e), io_msg(e))
}

pub fn err_obs(e: &ZipError) -> String {
    match e {
        ZipError::Io(e) => io_obs(e),
        ZipError::InvalidArchive(m) => format!("[Invalid {}]", msg_name(m)),
        ZipError::UnsupportedArchive(m) => format!("[Unsupported {}]", msg_name(m)),
        ZipError::FileNotFound => "[NotFound]".to_string(),
    }
}

pub fn meta_obs(f: &zip::read::ZipFile) -> String {
    let t = f.last_modified();
    #[allow(deprecated)]
    let m = f.compression().to_u16();
    let (v1, v2) = f.version_made_by();
    ol(&[
        ob(f.name().as_bytes()),
        ob(f.name_raw()),
        ob(f.comment().as_bytes()),
        on(m),
        on(f.compressed_size()),
        on(f.size()),
        on(f.crc32()),
        ol(&[on(t.year()), on(t.month()), on(t.day()), on(t.hour()), on(t.minute()), on(t.second())]),
        match f.unix_mode() {
            Some(x) => on(x),
            None => "NONE".into(),
        },
        ob(f.extra_data()),
        on(f.header_start()),
        on(f.central_header_start()),
        on(f.data_start()),
        on(v1),
        on(v2),
        obool(f.is_dir()),
        match f.enclosed_name() {
            Some(p) => ob(p.as_os_str().as_bytes()),
            None => "NONE".into(),
        },
        ob(f.mangled_name().as_os_str().as_bytes()),
    ])
}

/// read to the end with a fixed buffer size; on error report the bytes delivered before it
pub fn read_loop<R: Read>(f: &mut R, bufsize: usize) -> String {
    let mut acc = vec![];
    // bufsize 0: alternate zero-length reads with 3-byte reads
    let zero = bufsize == 0;
    let mut buf = vec![0u8; if zero { 3 } else { bufsize }];
    loop {
        if zero {
            match f.read(&mut []) {
                Ok(0) => {}
                Ok(_) => return "[BAD-ZERO-READ]".into(),
                Err(e) => return format!("[Err {} {}]", io_obs(&e), ob(&acc)),
            }
        }
        match f.read(&mut buf) {
            Ok(0) => return format!("[Ok {}]", ob(&acc)),
            Ok(n) => acc.extend_from_slice(&buf[..n]),
            Err(e) => return format!("[Err {} {}]", io_obs(&e), ob(&acc)),
        }
    }
}

/// a Read+Seek source that serves its first reads in the chunk sizes of a finite plan once enabled, full reads afterwards
pub struct ChunkReader {
    pub inner: Cursor<Vec<u8>>,
    pub plan: Vec<u8>,
    pub i: usize,
    pub enabled: std::rc::Rc<std::cell::Cell<bool>>,
}
impl Read for ChunkReader {
    fn read(&mut self, buf: &mut [u8]) -> std::io::Result<usize> {
        if !self.enabled.get() || self.i >= self.plan.len() {
            return self.inner.read(buf);
        }
        let c = std::cmp::max(1, self.plan[self.i] as usize);
        self.i += 1;
        let n = std::cmp::min(buf.len(), c);
        self.inner.read(&mut buf[..n])
    }
}
impl std::io::Seek for ChunkReader {
    fn seek(&mut self, p: std::io::SeekFrom) -> std::io::Result<u64> {
        self.inner.seek(p)
    }
}

/// read with a cyclic schedule of caller buffer sizes (0 = zero-length read); reports bytes and chunk lengths,
/// then checks that end of file is sticky
pub fn read_sched<R: Read>(f: &mut R, bufs: &[u8]) -> String {
    let mut acc = vec![];
    let mut lens = vec![];
    let mut j = 0usize;
    let mut buf = vec![0u8; 256];
    loop {
        let sz = if bufs.is_empty() { 64 } else { bufs[j % bufs.len()] as usize };
        j += 1;
        if j > 10_000_000 {
            return "[LIVELOCK]".into();
        }
        match f.read(&mut buf[..sz]) {
            Ok(0) if sz > 0 => break,
            Ok(n) => {
                if n > sz {
                    return "[BAD-COUNT]".into();
                }
                acc.extend_from_slice(&buf[..n]);
                lens.push(on(n as u64));
            }
            Err(e) => return format!("[Err {} {} {}]", io_obs(&e), ob(&acc), ol(&lens)),
        }
    }
    for _ in 0..3 {
        match f.read(&mut buf[..5]) {
            Ok(0) => {}
            _ => return format!("[EOF-NOT-STICKY {}]", ob(&acc)),
        }
    }
    format!("[Ok {} {}]", ob(&acc), ol(&lens))
}

pub fn dispatch(op: &str, a: &[Arg]) -> Option<String> {
    Some(match op {
        // entry_sched x<data> idx haspw x<pw> x<plan> x<bufs> mode   (mode 0: short reads start after the entry
        // is opened; mode 1: from the very first byte, result compared with the unfragmented run)
        "entry_sched" => {
            let data = a[0].b().to_vec();
            let i = a[1].n() as usize;
            let mode = a[6].n();
            let run = |plan: Vec<u8>, always: bool| -> String {
                let enabled = std::rc::Rc::new(std::cell::Cell::new(always));
                let src = ChunkReader { inner: Cursor::new(data.clone()), plan, i: 0, enabled: enabled.clone() };
                let mut ar = match ZipArchive::new(src) {
                    Ok(ar) => ar,
                    Err(e) => return format!("[OpenErr {}]", err_obs(&e)),
                };
                // mode 1 also compares what the archive itself reports (entry count, comment, offset, names)
                let arch = if always || mode != 0 {
                    format!("[{} {} {} {}] ", on(ar.len() as u64), ob(ar.comment()), on(ar.offset()), ol(&ar.file_names().map(|n| ob(n.as_bytes())).collect::<std::collections::BTreeSet<_>>().into_iter().collect::<Vec<_>>()))
                } else {
                    String::new()
                };
                let r = if a[2].n() == 0 { ar.by_index(i).map(Ok) } else { ar.by_index_decrypt(i, a[3].b()) };
                match r {
                    Err(e) => format!("[{}Err {}]", arch, err_obs(&e)),
                    Ok(Err(_)) => format!("{}InvalidPassword", arch),
                    Ok(Ok(mut f)) => {
                        enabled.set(true);
                        let m = meta_obs(&f);
                        format!("[{}Ok {} {}]", arch, m, read_sched(&mut f, a[5].b()))
                    }
                }
            };
            if mode == 0 {
                run(a[4].b().to_vec(), false)
            } else {
                let x = run(a[4].b().to_vec(), true);
                let y = run(vec![], false);
                // chunk lengths legitimately differ; compare everything but the trailing list of lengths
                let strip = |s: &str| -> String {
                    match s.rfind(" [") { Some(k) if s.ends_with("]]]") => s[..k].to_string(), _ => s.to_string() }
                };
                if strip(&x) == strip(&y) { format!("[SAME {}]", strip(&x)) } else { format!("[DIFF {} {}]", x, y) }
            }
        }
        // faultread x<data> k haspw x<pw>: open + read every entry over a source whose k-th I/O call (read or seek,
        // counted from 0) fails; k beyond the run = failure-free.  -> [calls-made open-result [entry results]]
        "faultread" => {
            struct FaultSrc {
                inner: Cursor<Vec<u8>>,
                n: std::rc::Rc<std::cell::Cell<u64>>,
                fail_at: u64,
            }
            impl FaultSrc {
                fn tick(&self) -> std::io::Result<()> {
                    let c = self.n.get();
                    self.n.set(c + 1);
                    if c == self.fail_at {
                        Err(std::io::Error::new(std::io::ErrorKind::Other, "injected"))
                    } else {
                        Ok(())
                    }
                }
            }
            impl Read for FaultSrc {
                fn read(&mut self, b: &mut [u8]) -> std::io::Result<usize> {
                    self.tick()?;
                    self.inner.read(b)
                }
            }
            impl std::io::Seek for FaultSrc {
                fn seek(&mut self, p: std::io::SeekFrom) -> std::io::Result<u64> {
                    self.tick()?;
                    self.inner.seek(p)
                }
            }
            let n = std::rc::Rc::new(std::cell::Cell::new(0u64));
            let src = FaultSrc { inner: Cursor::new(a[0].b().to_vec()), n: n.clone(), fail_at: a[1].n() as u64 };
            let mut outs = vec![];
            let open = match ZipArchive::new(src) {
                Err(e) => format!("[Err {}]", err_obs(&e)),
                Ok(mut ar) => {
                    for i in 0..ar.len() {
                        let r = if a[2].n() == 0 { ar.by_index(i).map(Ok) } else { ar.by_index_decrypt(i, a[3].b()) };
                        outs.push(match r {
                            Err(e) => format!("[Err {}]", err_obs(&e)),
                            Ok(Err(_)) => "InvalidPassword".to_string(),
                            Ok(Ok(mut f)) => {
                                let nm = ob(f.name().as_bytes());
                                let mut v = vec![];
                                match f.read_to_end(&mut v) {
                                    Ok(_) => format!("[Ok {} {}]", nm, ob(&v)),
                                    Err(e) => format!("[ReadErr {} {}]", nm, io_obs(&e)),
                                }
                            }
                        });
                    }
                    format!("[Ok {} {}]", on(ar.len() as u64), ob(ar.comment()))
                }
            };
            format!("[{} {} {}]", on(n.get()), open, ol(&outs))
        }
        // faultappend x<base> k: new_append + one stored entry + finish over a device whose k-th I/O call fails
        "faultappend" => {
            use std::io::Write;
            struct Dev {
                inner: std::rc::Rc<std::cell::RefCell<Cursor<Vec<u8>>>>,
                n: std::rc::Rc<std::cell::Cell<u64>>,
                fail_at: u64,
            }
            impl Dev {
                fn tick(&self) -> std::io::Result<()> {
                    let c = self.n.get();
                    self.n.set(c + 1);
                    if c == self.fail_at {
                        Err(std::io::Error::new(std::io::ErrorKind::Other, "injected"))
                    } else {
                        Ok(())
                    }
                }
            }
            impl Read for Dev {
                fn read(&mut self, b: &mut [u8]) -> std::io::Result<usize> {
                    self.tick()?;
                    self.inner.borrow_mut().read(b)
                }
            }
            impl Write for Dev {
                fn write(&mut self, b: &[u8]) -> std::io::Result<usize> {
                    self.tick()?;
                    self.inner.borrow_mut().write(b)
                }
                fn flush(&mut self) -> std::io::Result<()> {
                    self.tick()
                }
            }
            impl std::io::Seek for Dev {
                fn seek(&mut self, p: std::io::SeekFrom) -> std::io::Result<u64> {
                    self.tick()?;
                    self.inner.borrow_mut().seek(p)
                }
            }
            let n = std::rc::Rc::new(std::cell::Cell::new(0u64));
            let buf = std::rc::Rc::new(std::cell::RefCell::new(Cursor::new(a[0].b().to_vec())));
            let dev = Dev { inner: buf.clone(), n: n.clone(), fail_at: a[1].n() as u64 };
            let mut outs = vec![];
            match zip::ZipWriter::new_append(dev) {
                Err(e) => outs.push(format!("[Err {}]", err_obs(&e))),
                Ok(mut w) => {
                    outs.push("[Ok unit]".to_string());
                    let o = zip::write::FileOptions::default()
                        .compression_method(zip::CompressionMethod::Stored)
                        .last_modified_time(zip::DateTime::default());
                    outs.push(match w.start_file("appended", o) {
                        Ok(()) => "[Ok unit]".into(),
                        Err(e) => format!("[Err {}]", err_obs(&e)),
                    });
                    outs.push(match w.write_all(b"appended data") {
                        Ok(()) => "[Ok unit]".into(),
                        Err(e) => format!("[Err {}]", io_obs(&e)),
                    });
                    outs.push(match w.finish() {
                        Ok(_) => "[Ok unit]".into(),
                        Err(e) => format!("[Err {}]", err_obs(&e)),
                    });
                }
            }
            let fin = ob(buf.borrow().get_ref());
            format!("[{} {} {}]", on(n.get()), ol(&outs), fin)
        }
        // rawlist x<data>: every entry through by_index_raw: accessors + undecoded bytes
        "rawlist" => {
            let mut ar = match ZipArchive::new(Cursor::new(a[0].b().to_vec())) {
                Ok(ar) => ar,
                Err(e) => return Some(format!("[OpenErr {}]", err_obs(&e))),
            };
            let mut outs = vec![];
            for i in 0..ar.len() {
                outs.push(match ar.by_index_raw(i) {
                    Err(e) => format!("[Err {}]", err_obs(&e)),
                    Ok(mut f) => {
                        let m = meta_obs(&f);
                        let mut v = vec![];
                        match f.read_to_end(&mut v) {
                            Ok(_) => format!("[Ok {} {}]", m, ob(&v)),
                            Err(e) => format!("[Ok {} [ReadErr {}]]", m, io_obs(&e)),
                        }
                    }
                });
            }
            format!("[Ok {} {}]", ob(ar.comment()), ol(&outs))
        }
        "open" => match ZipArchive::new(Cursor::new(a[0].b().to_vec())) {
            Ok(ar) => {
                let mut names: Vec<Vec<u8>> = ar.file_names().map(|s| s.as_bytes().to_vec()).collect();
                names.sort();
                let names: Vec<String> = names.iter().map(|n| ob(n)).collect();
                format!("[Ok [{} {} {} {}]]", on(ar.offset()), ob(ar.comment()), on(ar.len() as u64), ol(&names))
            }
            Err(e) => format!("[Err {}]", err_obs(&e)),
        },
        "entry" => {
            let mut ar = match ZipArchive::new(Cursor::new(a[0].b().to_vec())) {
                Ok(ar) => ar,
                Err(e) => return Some(format!("[OpenErr {}]", err_obs(&e))),
            };
            let i = a[1].n() as usize;
            let bufsize = a[4].n() as usize;
            let r = if a[2].n() == 0 {
                ar.by_index(i).map(Ok)
            } else {
                ar.by_index_decrypt(i, a[3].b())
            };
            match r {
                Err(e) => format!("[Err {}]", err_obs(&e)),
                Ok(Err(_)) => "InvalidPassword".to_string(),
                Ok(Ok(mut f)) => {
                    let m = meta_obs(&f);
                    // bufsize >= 1_000_000: read_exact(bufsize - 1_000_000, capped at the declared size), then read_to_end
                    let r = std::panic::catch_unwind(std::panic::AssertUnwindSafe(|| {
                        if bufsize >= 1_000_000 {
                            let k = std::cmp::min((bufsize - 1_000_000) as u64, f.size()) as usize;
                            let mut acc = vec![0u8; k];
                            if let Err(e) = f.read_exact(&mut acc) {
                                return format!("[Err {} x]", io_obs(&e));
                            }
                            match f.read_to_end(&mut acc) {
                                Ok(_) => format!("[Ok {}]", ob(&acc)),
                                Err(e) => format!("[Err {} {}]", io_obs(&e), ob(&acc)),
                            }
                        } else {
                            read_loop(&mut f, bufsize)
                        }
                    }));
                    match r {
                        Ok(s) => format!("[Ok {} {}]", m, s),
                        Err(e) => {
                            std::mem::forget(f);
                            format!("[Ok {} [PANIC {}]]", m, panic_class(&e))
                        }
                    }
                }
            }
        }
        // entry_hiccup x<data> idx k chunk: like `entry` without password, read with read_to_end over a source that
        // delivers at most `chunk` bytes per read and whose k-th read after the entry is opened returns
        // ErrorKind::Interrupted once (read_to_end retries it, as std documents)
        "entry_hiccup" => {
            struct Hiccup {
                inner: Cursor<Vec<u8>>,
                armed: std::rc::Rc<std::cell::Cell<i64>>,
                chunk: usize,
            }
            impl Read for Hiccup {
                fn read(&mut self, b: &mut [u8]) -> std::io::Result<usize> {
                    let c = self.armed.get();
                    if c >= 0 {
                        self.armed.set(c - 1);
                        if c == 0 {
                            return Err(std::io::Error::new(std::io::ErrorKind::Interrupted, "interrupted"));
                        }
                    }
                    let n = std::cmp::min(b.len(), self.chunk);
                    self.inner.read(&mut b[..n])
                }
            }
            impl std::io::Seek for Hiccup {
                fn seek(&mut self, p: std::io::SeekFrom) -> std::io::Result<u64> {
                    self.inner.seek(p)
                }
            }
            let armed = std::rc::Rc::new(std::cell::Cell::new(-1i64));
            let src = Hiccup { inner: Cursor::new(a[0].b().to_vec()), armed: armed.clone(), chunk: std::cmp::max(1, a[3].n() as usize) };
            let mut ar = match ZipArchive::new(src) {
                Ok(ar) => ar,
                Err(e) => return Some(format!("[OpenErr {}]", err_obs(&e))),
            };
            let r = match ar.by_index(a[1].n() as usize) {
                Err(e) => format!("[Err {}]", err_obs(&e)),
                Ok(mut f) => {
                    let m = meta_obs(&f);
                    armed.set(a[2].n() as i64);
                    let mut acc = vec![];
                    match f.read_to_end(&mut acc) {
                        Ok(_) => format!("[Ok {} [Ok {}]]", m, ob(&acc)),
                        Err(e) => format!("[Ok {} [Err {} {}]]", m, io_obs(&e), ob(&acc)),
                    }
                }
            };
            r
        }
        // every entry through read_zipfile_from_stream, in order
        "stream_all" => {
            let data = a[0].b().to_vec();
            let bufsize = a[1].n() as usize;
            let mut cur = Cursor::new(data);
            let mut outs = vec![];
            loop {
                let r = std::panic::catch_unwind(std::panic::AssertUnwindSafe(|| {
                    match zip::read::read_zipfile_from_stream(&mut cur) {
                        Ok(Some(mut f)) => {
                            let name = ob(f.name().as_bytes());
                            let crc = f.crc32();
                            let r = read_loop(&mut f, bufsize);
                            (format!("[{} {} {}]", name, on(crc), r), true)
                        }
                        Ok(None) => ("END".to_string(), false),
                        Err(e) => (format!("[Err {}]", err_obs(&e)), false),
                    }
                }));
                match r {
                    Ok((s, cont)) => {
                        outs.push(s);
                        if !cont || outs.len() > 100000 {
                            break;
                        }
                    }
                    Err(e) => {
                        outs.push(format!("[PANIC {}]", panic_class(&e)));
                        break;
                    }
                }
            }
            ol(&outs)
        }
        // zcwrite x<pw> method level(255 = default) x<content> x<name>: the crate writes one ZipCrypto-encrypted entry
        "zcwrite" => {
            use std::io::Write;
            use zip::unstable::write::FileOptionsExt;
            #[allow(deprecated)]
            let method = zip::CompressionMethod::from_u16(a[1].n() as u16);
            let mut o = zip::write::FileOptions::default()
                .compression_method(method)
                .last_modified_time(zip::DateTime::from_date_and_time(2018, 11, 17, 10, 38, 30).unwrap())
                .with_deprecated_encryption(a[0].b());
            if a[2].n() != 255 {
                o = o.compression_level(Some(a[2].n() as i32));
            }
            let mut w = zip::ZipWriter::new(Cursor::new(Vec::new()));
            let name = String::from_utf8(a[4].b().to_vec()).unwrap();
            let plain = zip::write::FileOptions::default().compression_method(zip::CompressionMethod::Stored);
            w.start_file("first.txt", plain).unwrap();
            w.write_all(b"plain first entry").unwrap();
            if let Err(e) = w.start_file(name, o) {
                return Some(format!("[Err {}]", err_obs(&e)));
            }
            if let Err(e) = w.write_all(a[3].b()) {
                return Some(format!("[Err {}]", io_obs(&e)));
            }
            w.start_file("last.txt", plain).unwrap();
            w.write_all(b"plain last entry").unwrap();
            match w.finish() {
                Ok(c) => format!("[Ok {}]", ob(&c.into_inner())),
                Err(e) => format!("[Err {}]", err_obs(&e)),
            }
        }
        // compress m lvlflag lvlabs x<chunk> [x<chunk>...]: the codec libraries called directly with the crate's parameters,
        // fed one write_all per chunk exactly as ZipWriter::write_all feeds them (the output of a streaming encoder
        // may depend on where its input was split)
        "compress" => {
            use std::io::Write;
            let lvl: i32 = match a[1].n() {
                1 => a[2].n() as i32,
                _ => -(a[2].n() as i32),
            };
            let chunks: Vec<&[u8]> = a[3..].iter().map(|x| x.b()).collect();
            match a[0].n() {
                8 => {
                    let mut e = flate2::write::DeflateEncoder::new(Vec::new(), flate2::Compression::new(lvl as u32));
                    for c in &chunks { e.write_all(c).unwrap(); }
                    ob(&e.finish().unwrap())
                }
                12 => {
                    let mut e = bzip2::write::BzEncoder::new(Vec::new(), bzip2::Compression::new(lvl as u32));
                    for c in &chunks { e.write_all(c).unwrap(); }
                    ob(&e.finish().unwrap())
                }
                93 => {
                    let mut e = zstd::stream::write::Encoder::new(Vec::new(), lvl).unwrap();
                    for c in &chunks { e.write_all(c).unwrap(); }
                    ob(&e.finish().unwrap())
                }
                _ => "BADMETHOD".to_string(),
            }
        }
        "zstd_compress" => ob(&zstd::encode_all(a[0].b(), a[1].n() as i32).unwrap()),
        "byname" => {
            let mut ar = match ZipArchive::new(Cursor::new(a[0].b().to_vec())) {
                Ok(ar) => ar,
                Err(e) => return Some(format!("[OpenErr {}]", err_obs(&e))),
            };
            let name = String::from_utf8(a[1].b().to_vec()).unwrap();
            let r = ar.by_name(&name);
            match r {
                Ok(f) => format!("[Ok {}]", on(f.central_header_start())),
                Err(e) => format!("[Err {}]", err_obs(&e)),
            }
        }
        _ => return None,
    })
}
