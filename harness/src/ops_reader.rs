//! reader ops: open / entry / byname (seekable reader over an in-memory archive)
use crate::util::*;
use std::io::{Cursor, Read};
use std::os::unix::ffi::OsStrExt;
use zip::result::ZipError;
use zip::ZipArchive;

pub fn io_kind(e: &std::io::Error) -> &'static str {
    use std::io::ErrorKind::*;
    match e.kind() {
        UnexpectedEof => "UnexpectedEof",
        Other => "Other",
        BrokenPipe => "BrokenPipe",
        InvalidData => "InvalidData",
        InvalidInput => "InvalidInput",
        _ => "OtherKind",
    }
}

pub fn io_msg(e: &std::io::Error) -> &'static str {
    let m = e.to_string();
    let table: &[(&str, &str)] = &[
        ("Invalid checksum", "IInvalidChecksum"),
        ("No file has been started", "INoFileStarted"),
        ("ZipWriter was already closed", "IClosed"),
        ("Large file option has not been set", "ILargeFile"),
        ("Not writing to extra field", "INotExtra"),
        ("Extra data exceeds extra field", "IExtraTooLong"),
        ("Incomplete extra data header", "IExtraIncomplete"),
        ("No custom ZIP64 extra data allowed", "IExtraZip64"),
        ("requires crate feature", "IExtraReserved"),
        ("Extra data size exceeds extra field", "IExtraSize"),
        ("Invalid authentication code", "IAuthCode"),
        ("failed to write whole buffer", "IWriteZero"),
        ("failed to fill whole buffer", "IFillBuffer"),
        ("injected", "IInjected"),
    ];
    for (k, v) in table {
        if m.contains(k) {
            return v;
        }
    }
    "INone"
}

pub fn msg_name(m: &str) -> &'static str {
    let table: &[(&str, &str)] = &[
        ("Invalid digital signature header", "MInvalidSignatureHeader"),
        ("Invalid zip header", "MInvalidZipHeader"),
        ("Could not find central directory end", "MNoCde"),
        ("Invalid zip64 locator digital signature header", "MInvalidZip64Locator"),
        ("Could not find ZIP64 central directory end", "MNoZip64Cde"),
        ("Invalid central directory size or offset", "MInvalidCdSizeOrOffset"),
        ("Support for multi-disk files is not implemented", "MMultiDisk"),
        ("File cannot contain ZIP64 central directory end", "MNoZip64Room"),
        ("Could not seek to start of central directory", "MSeekCd"),
        ("Invalid Central Directory header", "MInvalidCdHeader"),
        ("AES encryption without AES extra data field", "MAesNoExtra"),
        ("Archive header is too large", "MHeaderTooLarge"),
        ("AES extra data field has an unsupported length", "MAesExtraLen"),
        ("Invalid AES vendor version", "MAesVendorVersion"),
        ("Invalid AES vendor", "MAesVendor"),
        ("Invalid AES encryption strength", "MAesStrength"),
        ("Invalid local file header", "MInvalidLocalHeader"),
        ("Compression method not supported", "MMethodNotSupported"),
        ("Password required to decrypt file", "MPasswordRequired"),
        ("Encrypted files are not supported", "MEncryptedStream"),
        ("The file length is not available in the local header", "MDataDescriptorStream"),
        ("Invalid file path", "MInvalidFilePath"),
        ("Unsupported compression level", "MUnsupportedLevel"),
        ("AES compression is not supported for writing", "MAesWrite"),
        ("Unsupported compression", "MUnsupportedCompression"),
        ("AES entry is too short", "MAesTooShort"),
        ("too long", "MTooLong"),
    ];
    for (k, v) in table {
        if m == *k {
            return v;
        }
    }
    for (k, v) in table {
        if m.contains(k) {
            return v;
        }
    }
    "MOtherMsg"
}

pub fn io_obs(e: &std::io::Error) -> String {
    // a ZipError wrapped into an io::Error (From<ZipError> for io::Error) keeps its identity
    if let Some(inner) = e.get_ref() {
        if let Some(z) = inner.downcast_ref::<ZipError>() {
            return err_obs(z);
        }
    }
    format!("[Io {} {}]", io_kind(e), io_msg(e))
}

pub fn err_obs(e: &ZipError) -> String {
    match e {
        ZipError::Io(e) => io_obs(e),
        ZipError::InvalidArchive(m) => format!("[Invalid {}]", msg_name(m)),
        ZipError::UnsupportedArchive(m) => format!("[Unsupported {}]", msg_name(m)),
        ZipError::FileNotFound => "[NotFound]".to_string(),
    }
}

pub fn meta_obs(f: &zip::read::ZipFile) -> String {
    let t = f.last_modified();
    #[allow(deprecated)]
    let m = f.compression().to_u16();
    let (v1, v2) = f.version_made_by();
    ol(&[
        ob(f.name().as_bytes()),
        ob(f.name_raw()),
        ob(f.comment().as_bytes()),
        on(m),
        on(f.compressed_size()),
        on(f.size()),
        on(f.crc32()),
        ol(&[on(t.year()), on(t.month()), on(t.day()), on(t.hour()), on(t.minute()), on(t.second())]),
        match f.unix_mode() {
            Some(x) => on(x),
            None => "NONE".into(),
        },
        ob(f.extra_data()),
        on(f.header_start()),
        on(f.central_header_start()),
        on(f.data_start()),
        on(v1),
        on(v2),
        obool(f.is_dir()),
        match f.enclosed_name() {
            Some(p) => ob(p.as_os_str().as_bytes()),
            None => "NONE".into(),
        },
        ob(f.mangled_name().as_os_str().as_bytes()),
    ])
}

/// read to the end with a fixed buffer size; on error report the bytes delivered before it
pub fn read_loop<R: Read>(f: &mut R, bufsize: usize) -> String {
    let mut acc = vec![];
    // bufsize 0: alternate zero-length reads with 3-byte reads
    let zero = bufsize == 0;
    let mut buf = vec![0u8; if zero { 3 } else { bufsize }];
    loop {
        if zero {
            match f.read(&mut []) {
                Ok(0) => {}
                Ok(_) => return "[BAD-ZERO-READ]".into(),
                Err(e) => return format!("[Err {} {}]", io_obs(&e), ob(&acc)),
            }
        }
        match f.read(&mut buf) {
            Ok(0) => return format!("[Ok {}]", ob(&acc)),
            Ok(n) => acc.extend_from_slice(&buf[..n]),
            Err(e) => return format!("[Err {} {}]", io_obs(&e), ob(&acc)),
        }
    }
}

pub fn dispatch(op: &str, a: &[Arg]) -> Option<String> {
    Some(match op {
        "open" => match ZipArchive::new(Cursor::new(a[0].b().to_vec())) {
            Ok(ar) => {
                let mut names: Vec<Vec<u8>> = ar.file_names().map(|s| s.as_bytes().to_vec()).collect();
                names.sort();
                let names: Vec<String> = names.iter().map(|n| ob(n)).collect();
                format!("[Ok [{} {} {} {}]]", on(ar.offset()), ob(ar.comment()), on(ar.len() as u64), ol(&names))
            }
            Err(e) => format!("[Err {}]", err_obs(&e)),
        },
        "entry" => {
            let mut ar = match ZipArchive::new(Cursor::new(a[0].b().to_vec())) {
                Ok(ar) => ar,
                Err(e) => return Some(format!("[OpenErr {}]", err_obs(&e))),
            };
            let i = a[1].n() as usize;
            let bufsize = a[4].n() as usize;
            let r = if a[2].n() == 0 {
                ar.by_index(i).map(Ok)
            } else {
                ar.by_index_decrypt(i, a[3].b())
            };
            match r {
                Err(e) => format!("[Err {}]", err_obs(&e)),
                Ok(Err(_)) => "InvalidPassword".to_string(),
                Ok(Ok(mut f)) => {
                    let m = meta_obs(&f);
                    let r = std::panic::catch_unwind(std::panic::AssertUnwindSafe(|| read_loop(&mut f, bufsize)));
                    match r {
                        Ok(s) => format!("[Ok {} {}]", m, s),
                        Err(e) => {
                            std::mem::forget(f);
                            format!("[Ok {} [PANIC {}]]", m, panic_class(&e))
                        }
                    }
                }
            }
        }
        // every entry through read_zipfile_from_stream, in order
        "stream_all" => {
            let data = a[0].b().to_vec();
            let bufsize = a[1].n() as usize;
            let mut cur = Cursor::new(data);
            let mut outs = vec![];
            loop {
                let r = std::panic::catch_unwind(std::panic::AssertUnwindSafe(|| {
                    match zip::read::read_zipfile_from_stream(&mut cur) {
                        Ok(Some(mut f)) => {
                            let name = ob(f.name().as_bytes());
                            let crc = f.crc32();
                            let r = read_loop(&mut f, bufsize);
                            (format!("[{} {} {}]", name, on(crc), r), true)
                        }
                        Ok(None) => ("END".to_string(), false),
                        Err(e) => (format!("[Err {}]", err_obs(&e)), false),
                    }
                }));
                match r {
                    Ok((s, cont)) => {
                        outs.push(s);
                        if !cont || outs.len() > 100000 {
                            break;
                        }
                    }
                    Err(e) => {
                        outs.push(format!("[PANIC {}]", panic_class(&e)));
                        break;
                    }
                }
            }
            ol(&outs)
        }
        "zstd_compress" => ob(&zstd::encode_all(a[0].b(), a[1].n() as i32).unwrap()),
        "byname" => {
            let mut ar = match ZipArchive::new(Cursor::new(a[0].b().to_vec())) {
                Ok(ar) => ar,
                Err(e) => return Some(format!("[OpenErr {}]", err_obs(&e))),
            };
            let name = String::from_utf8(a[1].b().to_vec()).unwrap();
            let r = ar.by_name(&name);
            match r {
                Ok(f) => format!("[Ok {}]", on(f.central_header_start())),
                Err(e) => format!("[Err {}]", err_obs(&e)),
            }
        }
        _ => return None,
    })
}
