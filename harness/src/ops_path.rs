//! C06 — path accessors, through both the seekable and the streaming reader
use crate::mkzip::{build, E};
use crate::util::*;
use std::io::Cursor;
use std::os::unix::ffi::OsStrExt;
use std::path::{Component, Path};
use zip::unstable::stream::{ZipStreamFileMetadata, ZipStreamReader, ZipStreamVisitor};

fn comps(p: &Path) -> String {
    let v: Vec<String> = p
        .components()
        .map(|c| match c {
            Component::RootDir => "R".to_string(),
            Component::CurDir => "C".to_string(),
            Component::ParentDir => "P".to_string(),
            Component::Normal(n) => format!("[N {}]", ob(n.as_bytes())),
            Component::Prefix(_) => "X".to_string(),
        })
        .collect();
    ol(&v)
}

struct V(Vec<(Option<Vec<u8>>, Vec<u8>)>, Vec<(Option<Vec<u8>>, Vec<u8>)>);
impl ZipStreamVisitor for V {
    fn visit_file(&mut self, f: &mut zip::read::ZipFile<'_>) -> zip::result::ZipResult<()> {
        self.0.push((
            f.enclosed_name().map(|p| p.as_os_str().as_bytes().to_vec()),
            f.mangled_name().as_os_str().as_bytes().to_vec(),
        ));
        Ok(())
    }
    fn visit_additional_metadata(&mut self, m: &ZipStreamFileMetadata) -> zip::result::ZipResult<()> {
        self.1.push((
            m.enclosed_name().map(|p| p.as_os_str().as_bytes().to_vec()),
            m.mangled_name().as_os_str().as_bytes().to_vec(),
        ));
        Ok(())
    }
}

pub fn dispatch(op: &str, a: &[Arg]) -> Option<String> {
    Some(match op {
        "path" => {
            let name = a[0].b().to_vec();
            let e = E { name: name.clone(), flags: 1 << 11, made_by: (3 << 8) | 20, ..Default::default() };
            let z = build(&[e], &[], &[]);
            let mut ar = zip::ZipArchive::new(Cursor::new(z.clone())).unwrap();
            let f = ar.by_index(0).unwrap();
            let enc = f.enclosed_name().map(|p| p.as_os_str().as_bytes().to_vec());
            let man = f.mangled_name().as_os_str().as_bytes().to_vec();
            let c = comps(Path::new(std::ffi::OsStr::from_bytes(&name)));
            drop(f);
            // the same accessors through the streaming reader must agree
            let mut v = V(vec![], vec![]);
            let sr = ZipStreamReader::new(Cursor::new(z)).visit(&mut v);
            let mut tag = String::new();
            if sr.is_err() || v.0.len() != 1 || v.0[0] != (enc.clone(), man.clone()) {
                tag = " STREAM-DIFF".into();
            }
            for m in &v.1 {
                if *m != (enc.clone(), man.clone()) {
                    tag = " STREAM-META-DIFF".into();
                }
            }
            format!(
                "[{} {} {}]{}",
                match &enc {
                    Some(p) => ob(p),
                    None => "NONE".into(),
                },
                ob(&man),
                c,
                tag
            )
        }
        // pathraw flag x<raw>: the raw name bytes as a foreign producer stores them (flag = UTF-8 bit); the accessors work
        // on the DECODED name, whose byte positions differ from the raw ones for CP437 / invalid UTF-8 bytes
        "pathraw" => {
            let raw = a[1].b().to_vec();
            let e = E { name: raw.clone(), flags: if a[0].n() != 0 { 1 << 11 } else { 0 }, made_by: (3 << 8) | 20, ..Default::default() };
            let z = build(&[e], &[], &[]);
            let mut ar = zip::ZipArchive::new(Cursor::new(z.clone())).unwrap();
            let f = ar.by_index(0).unwrap();
            let enc = f.enclosed_name().map(|p| p.as_os_str().as_bytes().to_vec());
            let man = f.mangled_name().as_os_str().as_bytes().to_vec();
            let decoded = f.name().as_bytes().to_vec();
            let c = comps(Path::new(std::ffi::OsStr::from_bytes(&decoded)));
            drop(f);
            let mut v = V(vec![], vec![]);
            let sr = ZipStreamReader::new(Cursor::new(z)).visit(&mut v);
            let mut tag = String::new();
            if sr.is_err() || v.0.len() != 1 || v.0[0] != (enc.clone(), man.clone()) {
                tag = " STREAM-DIFF".into();
            }
            for m in &v.1 {
                if *m != (enc.clone(), man.clone()) {
                    tag = " STREAM-META-DIFF".into();
                }
            }
            format!(
                "[{} {} {}]{}",
                match &enc {
                    Some(p) => ob(p),
                    None => "NONE".into(),
                },
                ob(&man),
                c,
                tag
            )
        }
        // model-free closed-form sweep over all strings of length <= L over {a . / \ NUL}
        "path_sweep" => {
            let l = a[0].n() as usize;
            let alpha = [b'a', b'.', b'/', b'\\', 0u8];
            let mut count = 0u64;
            for len in 0..=l {
                let mut idx = vec![0usize; len];
                loop {
                    let name: Vec<u8> = idx.iter().map(|&i| alpha[i]).collect();
                    if let Some(bad) = sweep_one(&name) {
                        return Some(format!("[FAIL {} {}]", ob(&name), bad));
                    }
                    count += 1;
                    let mut k = 0;
                    while k < len {
                        idx[k] += 1;
                        if idx[k] < alpha.len() {
                            break;
                        }
                        idx[k] = 0;
                        k += 1;
                    }
                    if k == len {
                        break;
                    }
                }
            }
            format!("[OK {}]", count)
        }
        _ => return None,
    })
}

/// lexical resolution of `base.join(p)`; None if it leaves base at any step
fn stays_inside(p: &Path) -> bool {
    let mut depth: i64 = 0;
    for c in p.components() {
        match c {
            Component::RootDir | Component::Prefix(_) => return false,
            Component::ParentDir => {
                depth -= 1;
                if depth < 0 {
                    return false;
                }
            }
            Component::Normal(_) => depth += 1,
            Component::CurDir => {}
        }
    }
    true
}

fn sweep_one(name: &[u8]) -> Option<&'static str> {
    let e = E { name: name.to_vec(), flags: 1 << 11, made_by: (3 << 8) | 20, ..Default::default() };
    let z = build(&[e], &[], &[]);
    let mut ar = zip::ZipArchive::new(Cursor::new(z)).unwrap();
    let f = ar.by_index(0).unwrap();
    let raw = Path::new(std::ffi::OsStr::from_bytes(name));
    let safe = !name.contains(&0) && stays_inside(raw);
    match f.enclosed_name() {
        Some(p) => {
            if !safe {
                return Some("enclosed_name accepted an unsafe name");
            }
            if p.as_os_str().as_bytes() != name {
                return Some("enclosed_name changed the name");
            }
        }
        None => {
            if safe {
                return Some("enclosed_name rejected a safe name");
            }
        }
    }
    let m = f.mangled_name();
    if !m.components().all(|c| matches!(c, Component::Normal(_))) || !stays_inside(&m) || m.is_absolute() {
        return Some("mangled_name has a non-ordinary component");
    }
    // in order, from the part before the first NUL, separators normalised
    let cut: Vec<u8> = name.iter().take_while(|&&b| b != 0).map(|&b| if b == b'\\' { b'/' } else { b }).collect();
    let want: Vec<Vec<u8>> = Path::new(std::ffi::OsStr::from_bytes(&cut))
        .components()
        .filter_map(|c| if let Component::Normal(n) = c { Some(n.as_bytes().to_vec()) } else { None })
        .collect();
    let got: Vec<Vec<u8>> = m.components().map(|c| c.as_os_str().as_bytes().to_vec()).collect();
    if want != got {
        return Some("mangled_name components differ from the ordinary components of the name");
    }
    None
}
