//! C18 — DOS date/time operations
use crate::util::*;
use std::panic;
use zip::DateTime;

fn dt_obs(dt: &DateTime) -> String {
    let dtc = *dt;
    let dp = panic::catch_unwind(move || dtc.datepart());
    ol(&[
        on(dt.year()),
        on(dt.month()),
        on(dt.day()),
        on(dt.hour()),
        on(dt.minute()),
        on(dt.second()),
        match dp {
            Ok(d) => on(d),
            Err(_) => "NONE".into(),
        },
        on(dt.timepart()),
    ])
}

pub fn dispatch(op: &str, a: &[Arg]) -> Option<String> {
    Some(match op {
        "dos_from" => dt_obs(&DateTime::from_msdos(a[0].n() as u16, a[1].n() as u16)),
        "dos_ctor" => {
            // arguments beyond the Rust parameter types cannot be passed at all
            if a[0].n() > 65535 || a[1..].iter().any(|x| x.n() > 255) {
                return Some("NONE".into());
            }
            match DateTime::from_date_and_time(
                a[0].n() as u16,
                a[1].n() as u8,
                a[2].n() as u8,
                a[3].n() as u8,
                a[4].n() as u8,
                a[5].n() as u8,
            ) {
                Ok(dt) => dt_obs(&dt),
                Err(()) => "NONE".into(),
            }
        }
        "dos_to_time" => {
            let dt = DateTime::from_msdos(a[0].n() as u16, a[1].n() as u16);
            match dt.to_time() {
                Ok(t) => on(t.unix_timestamp() as u64),
                Err(_) => "NONE".into(),
            }
        }
        "dos_try_from" => {
            let mut odt = time::OffsetDateTime::from_unix_timestamp(a[0].n() as i64).unwrap();
            // optional: the same instant seen in another UTC offset (seconds east, seconds west): the conversion takes the
            // calendar fields of the value as given, in its own offset
            if a.len() >= 3 {
                let off = a[1].n() as i32 - a[2].n() as i32;
                odt = odt.to_offset(time::UtcOffset::from_whole_seconds(off).unwrap());
            }
            // optional 4th argument: a sub-second part in nanoseconds (DOS time has none: it is dropped, never rounded up)
            if a.len() >= 4 {
                odt += time::Duration::nanoseconds(a[3].n() as i64);
            }
            match DateTime::try_from(odt) {
                Ok(dt) => dt_obs(&dt),
                Err(_) => "NONE".into(),
            }
        }
        // the same for an instant before 1970: dos_try_from_neg n  means the timestamp -n
        "dos_try_from_neg" => {
            let odt = time::OffsetDateTime::from_unix_timestamp(-(a[0].n() as i64)).unwrap();
            match DateTime::try_from(odt) {
                Ok(dt) => dt_obs(&dt),
                Err(_) => "NONE".into(),
            }
        }
        // closed form of C18_pack_unpack over all 2^32 pairs (oracle; run in release)
        "dos_all" => {
            let lo = a[0].n() as u32;
            let hi = a[1].n() as u32; // date words [lo, hi)
            for d in lo..hi {
                for t in 0..=65535u32 {
                    let dt = DateTime::from_msdos(d as u16, t as u16);
                    let ok = panic::catch_unwind(move || {
                        dt.datepart() == d as u16 && dt.timepart() == t as u16
                    })
                    .unwrap_or(false);
                    if !ok {
                        return Some(format!("[FAIL {} {}]", d, t));
                    }
                }
            }
            "OK".into()
        }
        _ => return None,
    })
}
