//! minimal independent archive builder used where the archive is incidental to the operation
#[derive(Clone, Default)]
pub struct E {
    pub name: Vec<u8>,
    pub flags: u16,
    pub method: u16,
    pub time: u16,
    pub date: u16,
    pub crc: u32,
    pub usize_: u32,
    pub made_by: u16,
    pub ext_attr: u32,
    pub extra_local: Vec<u8>,
    pub extra_central: Vec<u8>,
    pub comment: Vec<u8>,
    pub payload: Vec<u8>,
}

fn p16(v: &mut Vec<u8>, x: u16) {
    v.extend_from_slice(&x.to_le_bytes());
}
fn p32(v: &mut Vec<u8>, x: u32) {
    v.extend_from_slice(&x.to_le_bytes());
}

pub fn build(entries: &[E], prefix: &[u8], comment: &[u8]) -> Vec<u8> {
    let mut v = prefix.to_vec();
    let mut offs = vec![];
    for e in entries {
        offs.push((v.len() - prefix.len()) as u32);
        p32(&mut v, 0x04034b50);
        p16(&mut v, 20);
        p16(&mut v, e.flags);
        p16(&mut v, e.method);
        p16(&mut v, e.time);
        p16(&mut v, e.date);
        p32(&mut v, e.crc);
        p32(&mut v, e.payload.len() as u32);
        p32(&mut v, e.usize_);
        p16(&mut v, e.name.len() as u16);
        p16(&mut v, e.extra_local.len() as u16);
        v.extend_from_slice(&e.name);
        v.extend_from_slice(&e.extra_local);
        v.extend_from_slice(&e.payload);
    }
    let cd_start = v.len() - prefix.len();
    for (e, off) in entries.iter().zip(offs) {
        p32(&mut v, 0x02014b50);
        p16(&mut v, e.made_by);
        p16(&mut v, 20);
        p16(&mut v, e.flags);
        p16(&mut v, e.method);
        p16(&mut v, e.time);
        p16(&mut v, e.date);
        p32(&mut v, e.crc);
        p32(&mut v, e.payload.len() as u32);
        p32(&mut v, e.usize_);
        p16(&mut v, e.name.len() as u16);
        p16(&mut v, e.extra_central.len() as u16);
        p16(&mut v, e.comment.len() as u16);
        p16(&mut v, 0);
        p16(&mut v, 0);
        p32(&mut v, e.ext_attr);
        p32(&mut v, off);
        v.extend_from_slice(&e.name);
        v.extend_from_slice(&e.extra_central);
        v.extend_from_slice(&e.comment);
    }
    let cd_size = v.len() - prefix.len() - cd_start;
    p32(&mut v, 0x06054b50);
    p16(&mut v, 0);
    p16(&mut v, 0);
    p16(&mut v, entries.len() as u16);
    p16(&mut v, entries.len() as u16);
    p32(&mut v, cd_size as u32);
    p32(&mut v, cd_start as u32);
    p16(&mut v, comment.len() as u16);
    v.extend_from_slice(comment);
    v
}
