//! C19 — name/comment decoding
use crate::mkzip::{build, E};
use crate::util::*;
use std::io::{Cursor, Read, Write};
use zip::unstable::stream::{ZipStreamFileMetadata, ZipStreamReader, ZipStreamVisitor};

struct V(Vec<Vec<u8>>, Vec<(Vec<u8>, Vec<u8>)>);
impl ZipStreamVisitor for V {
    fn visit_file(&mut self, f: &mut zip::read::ZipFile<'_>) -> zip::result::ZipResult<()> {
        self.0.push(f.name().as_bytes().to_vec());
        Ok(())
    }
    fn visit_additional_metadata(&mut self, m: &ZipStreamFileMetadata) -> zip::result::ZipResult<()> {
        self.1.push((m.name().as_bytes().to_vec(), m.comment().as_bytes().to_vec()));
        Ok(())
    }
}

pub fn dispatch(op: &str, a: &[Arg]) -> Option<String> {
    Some(match op {
        // text <flag> x<raw>: raw used as entry name, entry comment and (undecoded) archive comment
        "text" => {
            // first argument: bit 0 = the UTF-8 flag; the remaining bits (>> 1) are OR-ed into the general purpose flags
            // (reserved / unrelated bits a foreign producer may set)
            let flag = a[0].n() & 1 != 0;
            let other = (a[0].n() >> 1) as u16;
            let raw = a[1].b().to_vec();
            // optional third argument: an entry comment of its own (default: the same bytes as the name)
            let cm = if a.len() > 2 { a[2].b().to_vec() } else { raw.clone() };
            let e = E {
                name: raw.clone(),
                comment: cm.clone(),
                flags: (if flag { 1 << 11 } else { 0 }) | other,
                made_by: (3 << 8) | 20,
                ..Default::default()
            };
            let z = build(&[e], &[], &raw);
            let mut ar = zip::ZipArchive::new(Cursor::new(z.clone())).unwrap();
            let arc = ar.comment().to_vec();
            let f = ar.by_index(0).unwrap();
            let name = f.name().as_bytes().to_vec();
            let comment = f.comment().as_bytes().to_vec();
            let rawn = f.name_raw().to_vec();
            drop(f);
            let mut tag = String::new();
            if a.len() <= 2 && comment != name {
                tag.push_str(" COMMENT-DIFF");
            }
            if arc != raw {
                tag.push_str(" ARCHIVE-COMMENT-CHANGED");
            }
            let byname = ar.by_name(std::str::from_utf8(&name).unwrap()).map(|f| f.name_raw().to_vec());
            if byname.ok() != Some(rawn.clone()) {
                tag.push_str(" BYNAME-DIFF");
            }
            let mut v = V(vec![], vec![]);
            let sr = ZipStreamReader::new(Cursor::new(z)).visit(&mut v);
            if sr.is_err() || v.0 != vec![name.clone()] {
                tag.push_str(" STREAM-DIFF");
            }
            for m in &v.1 {
                if *m != (name.clone(), comment.clone()) {
                    tag.push_str(" STREAM-META-DIFF");
                }
            }
            if a.len() > 2 {
                format!("[{} {} {}]{}", ob(&name), ob(&rawn), ob(&comment), tag)
            } else {
                format!("[{} {}]{}", ob(&name), ob(&rawn), tag)
            }
        }
        // wname x<utf8>: give the string to the writer as an entry name, read it back
        "wname" => {
            let s = String::from_utf8(a[0].b().to_vec()).unwrap();
            let mut w = zip::ZipWriter::new(Cursor::new(Vec::new()));
            let opts = zip::write::FileOptions::default().compression_method(zip::CompressionMethod::Stored);
            if let Err(e) = w.start_file(s.clone(), opts) {
                return Some(format!("[Err {:?}]", e).replace(' ', "_"));
            }
            w.write_all(b"x").unwrap();
            let z = w.finish().unwrap().into_inner();
            let mut ar = zip::ZipArchive::new(Cursor::new(z.clone())).unwrap();
            let mut f = ar.by_index(0).unwrap();
            let mut content = vec![];
            f.read_to_end(&mut content).unwrap();
            // bit 11 of the general purpose flags in the local header (offset 6)
            let flag = u16::from_le_bytes([z[6], z[7]]) & (1 << 11) != 0;
            format!("[{} {} {}]", obool(flag), ob(f.name().as_bytes()), ob(f.name_raw()))
        }
        _ => return None,
    })
}
