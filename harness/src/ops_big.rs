//! C08: archives beyond the 32-bit limits over a sparse in-memory device.
//! bigw <chunk> <comment> (<name> <size> <large> <method> <first>)*   -> writer over a sparse sink, then the reader on it
//! bigr <len> (<off> <bytes>)*                                         -> reader over a sparse source built from extents
use crate::ops_reader::err_obs;
use crate::util::*;
use std::collections::BTreeMap;
use std::io::{self, Read, Seek, SeekFrom, Write};

const PAGE: u64 = 4096;

#[derive(Clone, Default)]
pub struct Sparse {
    pub pages: BTreeMap<u64, Box<[u8; 4096]>>,
    pub len: u64,
    pub pos: u64,
}
impl Write for Sparse {
    fn write(&mut self, b: &[u8]) -> io::Result<usize> {
        let mut off = 0usize;
        while off < b.len() {
            let p = self.pos / PAGE;
            let o = (self.pos % PAGE) as usize;
            let n = std::cmp::min(b.len() - off, PAGE as usize - o);
            let chunk = &b[off..off + n];
            let zero = chunk.iter().all(|&x| x == 0);
            if zero {
                if let Some(pg) = self.pages.get_mut(&p) {
                    pg[o..o + n].copy_from_slice(chunk);
                }
            } else {
                let pg = self.pages.entry(p).or_insert_with(|| Box::new([0u8; 4096]));
                pg[o..o + n].copy_from_slice(chunk);
            }
            self.pos += n as u64;
            off += n;
        }
        if self.pos > self.len {
            self.len = self.pos;
        }
        Ok(b.len())
    }
    fn flush(&mut self) -> io::Result<()> {
        Ok(())
    }
}
impl Read for Sparse {
    fn read(&mut self, b: &mut [u8]) -> io::Result<usize> {
        if self.pos >= self.len {
            return Ok(0);
        }
        let want = std::cmp::min(b.len() as u64, self.len - self.pos) as usize;
        let mut off = 0usize;
        while off < want {
            let p = self.pos / PAGE;
            let o = (self.pos % PAGE) as usize;
            let n = std::cmp::min(want - off, PAGE as usize - o);
            match self.pages.get(&p) {
                Some(pg) => b[off..off + n].copy_from_slice(&pg[o..o + n]),
                None => b[off..off + n].iter_mut().for_each(|x| *x = 0),
            }
            self.pos += n as u64;
            off += n;
        }
        Ok(want)
    }
}
impl Seek for Sparse {
    fn seek(&mut self, p: SeekFrom) -> io::Result<u64> {
        let np: i128 = match p {
            SeekFrom::Start(x) => x as i128,
            SeekFrom::End(d) => self.len as i128 + d as i128,
            SeekFrom::Current(d) => self.pos as i128 + d as i128,
        };
        if np < 0 {
            return Err(io::Error::new(io::ErrorKind::InvalidInput, "seek before start"));
        }
        self.pos = np as u64;
        Ok(self.pos)
    }
}
impl Sparse {
    /// maximal runs of non-zero pages, trimmed to their non-zero extent
    pub fn extents(&self) -> Vec<(u64, Vec<u8>)> {
        let mut out: Vec<(u64, Vec<u8>)> = vec![];
        for (p, pg) in &self.pages {
            if pg.iter().all(|&x| x == 0) {
                continue;
            }
            let start = p * PAGE;
            let end = std::cmp::min(start + PAGE, self.len);
            let slice = &pg[..(end - start) as usize];
            match out.last_mut() {
                Some((o, v)) if *o + v.len() as u64 == start => v.extend_from_slice(slice),
                _ => out.push((start, slice.to_vec())),
            }
        }
        // trim zeros at both ends of every run
        out.into_iter()
            .filter_map(|(o, v)| {
                let a = v.iter().position(|&x| x != 0)?;
                let b = v.iter().rposition(|&x| x != 0)? + 1;
                Some((o + a as u64, v[a..b].to_vec()))
            })
            .collect()
    }
}

fn read_back(dev: Sparse, verify_limit: u64) -> String {
    let mut ar = match zip::ZipArchive::new(dev) {
        Ok(a) => a,
        Err(e) => return format!("[OpenErr {}]", err_obs(&e)),
    };
    let mut ents = vec![];
    let n = ar.len();
    // listing of every entry is too long for 65k-entry archives: first 3, last 3 and every 9973rd
    for i in 0..n {
        if !(i < 3 || i + 3 >= n || i % 9973 == 0) {
            continue;
        }
        ents.push(match ar.by_index(i) {
            Err(e) => format!("[{} Err {}]", i, err_obs(&e)),
            Ok(mut f) => {
                let head = format!(
                    "{} {} {} {} {} {} {}",
                    i,
                    ob(f.name().as_bytes()),
                    on(f.size()),
                    on(f.compressed_size()),
                    on(f.crc32()),
                    on(f.header_start()),
                    on(f.data_start())
                );
                if f.size() <= verify_limit && f.compressed_size() <= verify_limit {
                    let mut total: u64 = 0;
                    let mut nonzero = false;
                    let mut buf = vec![0u8; 1 << 20];
                    let r = loop {
                        match f.read(&mut buf) {
                            Ok(0) => break "eof".to_string(),
                            Ok(k) => {
                                total += k as u64;
                                if total > 1 && buf[..k].iter().skip(if total == k as u64 { 1 } else { 0 }).any(|&x| x != 0) {
                                    nonzero = true;
                                }
                            }
                            Err(e) => break format!("ReadErr-{:?}", e.kind()),
                        }
                    };
                    format!("[{} {} {} {}]", head, on(total), r, obool(nonzero))
                } else {
                    format!("[{} SKIPPED]", head)
                }
            }
        });
    }
    format!("[Ok {} {} {} {}]", on(ar.len() as u64), on(ar.offset()), ob(ar.comment()), ol(&ents))
}

pub fn dispatch(op: &str, a: &[Arg]) -> Option<String> {
    Some(match op {
        "bigw" => {
            let chunk = a[0].n() as usize;
            let comment = a[1].b().to_vec();
            let verify_limit = a[2].n() as u64;
            let mut w = zip::ZipWriter::new(Sparse::default());
            w.set_raw_comment(comment);
            let zeros = vec![0u8; chunk];
            let mut calls = vec![];
            let mut i = 3;
            while i + 6 <= a.len() {
                let base = String::from_utf8_lossy(a[i].b()).to_string();
                let size = a[i + 1].n() as u64;
                let large = a[i + 2].n() != 0;
                let method = match a[i + 3].n() {
                    8 => zip::CompressionMethod::Deflated,
                    _ => zip::CompressionMethod::Stored,
                };
                let first = a[i + 4].n() as u8;
                let repeat = a[i + 5].n() as u64;
                i += 6;
                let mut nfail = 0u64;
                for rep in 0..repeat {
                    let name = if repeat > 1 { format!("{}{}", base, rep) } else { base.clone() };
                    let opts = zip::write::FileOptions::default()
                        .compression_method(method)
                        .large_file(large)
                        .unix_permissions(0o644)
                        .last_modified_time(zip::DateTime::default());
                    let sres = match w.start_file(name, opts) {
                        Ok(()) => "[Ok unit]".to_string(),
                        Err(e) => format!("[Err {}]", err_obs(&e)),
                    };
                    let ok = sres.starts_with("[Ok");
                    let mut left = if ok { size } else { 0 };
                    let mut done: u64 = 0;
                    let mut res = "[Ok unit]".to_string();
                    let mut firstbuf = true;
                    while left > 0 {
                        let k = std::cmp::min(left, chunk as u64) as usize;
                        let r = if firstbuf && first != 0 {
                            let mut v = zeros[..k].to_vec();
                            v[0] = first;
                            w.write_all(&v)
                        } else {
                            w.write_all(&zeros[..k])
                        };
                        firstbuf = false;
                        match r {
                            Ok(()) => {
                                done += k as u64;
                                left -= k as u64;
                            }
                            Err(e) => {
                                res = format!("[Err {} {}]", crate::ops_reader::io_obs(&e), on(done));
                                break;
                            }
                        }
                    }
                    // repeated specs report only failures (65k identical lines otherwise)
                    if repeat == 1 {
                        calls.push(sres);
                        calls.push(res);
                    } else if !ok || !res.starts_with("[Ok") {
                        nfail += 1;
                        if nfail <= 3 {
                            calls.push(format!("[{} {} {}]", rep, sres, res));
                        }
                    }
                }
                if repeat > 1 {
                    calls.push(format!("[repeat {} failures {}]", on(repeat), on(nfail)));
                }
            }
            match w.finish() {
                Ok(dev) => {
                    let ext: Vec<String> = dev.extents().iter().map(|(o, v)| format!("[{} {}]", on(*o), ob(v))).collect();
                    let len = dev.len;
                    let mut d2 = dev;
                    d2.pos = 0;
                    format!("[{} [Ok {} {}] {}]", ol(&calls), on(len), ol(&ext), read_back(d2, verify_limit))
                }
                Err(e) => format!("[{} [Err {}] NONE]", ol(&calls), err_obs(&e)),
            }
        }
        // bigcopy <len> <verify> (<off> <bytes>)* : raw-copy every entry of a sparse source into a writer over a sparse sink
        "bigcopy" => {
            let mut dev = Sparse::default();
            dev.len = a[0].n() as u64;
            let verify_limit = a[1].n() as u64;
            let mut i = 2;
            while i + 1 < a.len() {
                dev.pos = a[i].n() as u64;
                let l = dev.len;
                dev.write_all(a[i + 1].b()).unwrap();
                dev.len = std::cmp::max(l, dev.len);
                i += 2;
            }
            dev.pos = 0;
            let mut src = match zip::ZipArchive::new(dev) {
                Ok(x) => x,
                Err(e) => return Some(format!("[SrcErr {}]", err_obs(&e))),
            };
            let mut w = zip::ZipWriter::new(Sparse::default());
            let mut calls = vec![];
            for k in 0..src.len() {
                let f = match src.by_index_raw(k) {
                    Ok(f) => f,
                    Err(e) => {
                        calls.push(format!("[SrcErr {}]", err_obs(&e)));
                        continue;
                    }
                };
                calls.push(match w.raw_copy_file(f) {
                    Ok(()) => "[Ok unit]".to_string(),
                    Err(e) => format!("[Err {}]", err_obs(&e)),
                });
            }
            match w.finish() {
                Ok(dev) => {
                    let ext: Vec<String> = dev.extents().iter().map(|(o, v)| format!("[{} {}]", on(*o), ob(v))).collect();
                    let len = dev.len;
                    let mut d2 = dev;
                    d2.pos = 0;
                    format!("[{} [Ok {} {}] {}]", ol(&calls), on(len), ol(&ext), read_back(d2, verify_limit))
                }
                Err(e) => format!("[{} [Err {}] NONE]", ol(&calls), err_obs(&e)),
            }
        }
        // bigappend len verify (off x<bytes>)*: a sparse foreign archive is listed, opened for append, gets one small entry,
        // is finished and listed again: [before calls after]
        "bigappend" => {
            let mk = |a: &[Arg]| {
                let mut dev = Sparse::default();
                dev.len = a[0].n() as u64;
                let mut i = 2;
                while i + 1 < a.len() {
                    dev.pos = a[i].n() as u64;
                    let l = dev.len;
                    dev.write_all(a[i + 1].b()).unwrap();
                    dev.len = std::cmp::max(l, dev.len);
                    i += 2;
                }
                dev.pos = 0;
                dev
            };
            let verify_limit = a[1].n() as u64;
            let before = read_back(mk(a), verify_limit);
            let mut calls = vec![];
            match zip::ZipWriter::new_append(mk(a)) {
                Err(e) => format!("[{} [[AppendErr {}]] NONE]", before, err_obs(&e)),
                Ok(mut w) => {
                    let opts = zip::write::FileOptions::default().compression_method(zip::CompressionMethod::Stored)
                        .last_modified_time(zip::DateTime::default());
                    calls.push(match w.start_file("appended", opts) { Ok(()) => "[Ok unit]".to_string(), Err(e) => format!("[Err {}]", err_obs(&e)) });
                    calls.push(match w.write_all(b"\x07ew") { Ok(()) => "[Ok unit]".to_string(), Err(e) => format!("[Err {}]", crate::ops_reader::io_obs(&e)) });
                    match w.finish() {
                        Ok(dev) => {
                            let mut d2 = dev;
                            d2.pos = 0;
                            format!("[{} {} {}]", before, ol(&calls), read_back(d2, verify_limit))
                        }
                        Err(e) => format!("[{} {} [FinishErr {}]]", before, ol(&calls), err_obs(&e)),
                    }
                }
            }
        }
        "bigr" => {
            let mut dev = Sparse::default();
            dev.len = a[0].n() as u64;
            let verify_limit = a[1].n() as u64;
            let mut i = 2;
            while i + 1 < a.len() {
                dev.pos = a[i].n() as u64;
                let l = dev.len;
                dev.write_all(a[i + 1].b()).unwrap();
                dev.len = std::cmp::max(l, dev.len);
                i += 2;
            }
            dev.pos = 0;
            read_back(dev, verify_limit)
        }
        _ => return None,
    })
}
