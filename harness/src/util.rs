use std::any::Any;

#[derive(Clone, Debug)]
pub enum Arg {
    N(u128),
    B(Vec<u8>),
}

pub fn parse_arg(s: &str) -> Arg {
    if let Some(h) = s.strip_prefix('x') {
        let b = (0..h.len() / 2)
            .map(|i| u8::from_str_radix(&h[2 * i..2 * i + 2], 16).unwrap())
            .collect();
        Arg::B(b)
    } else if let Some(h) = s.strip_prefix("0x") {
        Arg::N(u128::from_str_radix(h, 16).unwrap())
    } else {
        Arg::N(s.parse::<u128>().unwrap())
    }
}

impl Arg {
    pub fn n(&self) -> u128 {
        match self {
            Arg::N(n) => *n,
            _ => panic!("harness: expected number"),
        }
    }
    pub fn b(&self) -> &[u8] {
        match self {
            Arg::B(b) => b,
            _ => panic!("harness: expected bytes"),
        }
    }
}

/// numbers: decimal below 2^62, hex above (same rule as ocaml/driver.ml)
pub fn on<T: Into<u128>>(n: T) -> String {
    let n: u128 = n.into();
    if n < (1u128 << 62) {
        format!("{}", n)
    } else {
        format!("0x{:x}", n)
    }
}

pub fn ob(b: &[u8]) -> String {
    let mut s = String::with_capacity(1 + 2 * b.len());
    s.push('x');
    for x in b {
        s.push_str(&format!("{:02x}", x));
    }
    s
}

pub fn ol(items: &[String]) -> String {
    format!("[{}]", items.join(" "))
}

pub fn obool(b: bool) -> String {
    (if b { "true" } else { "false" }).to_string()
}

pub fn panic_msg(e: &Box<dyn Any + Send>) -> String {
    if let Some(s) = e.downcast_ref::<&str>() {
        s.to_string()
    } else if let Some(s) = e.downcast_ref::<String>() {
        s.clone()
    } else {
        "?".to_string()
    }
}

/// map a panic message to the model's panic_site constructor name
pub fn panic_class(e: &Box<dyn Any + Send>) -> String {
    let m = panic_msg(e);
    let table: &[(&str, &str)] = &[
        ("called `Result::unwrap()` on an `Err` value: InvalidPassword", "PUnwrapPassword"),
        ("Compression method not supported", "PMethodNotSupported"),
        ("ZipFileReader was in an invalid state", "PInvalidReaderState"),
        ("Invalid reader state", "PInvalidReaderState"),
        ("Should have switched to stored and unencrypted beforehand", "PGetPlain"),
        ("Could not consume all of the output", "PStreamDrain"),
        ("attempt to subtract with overflow", "PArithSub"),
        ("attempt to add with overflow", "PArithAdd"),
        ("attempt to multiply with overflow", "PArithMul"),
        ("assertion `left == right` failed\n  left: ", "PAssertEq"),
        ("assertion", "PAssert"),
        ("called `Option::unwrap()` on a `None` value", "PUnwrapNone"),
        ("harness:", "HARNESS"),
    ];
    for (k, v) in table {
        if m.contains(k) {
            return v.to_string();
        }
    }
    format!("POther:{}", m.replace(' ', "_"))
}
