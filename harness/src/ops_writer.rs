//! writer programs: the same flat encoding as Extract/Dispatch.v parse_wprog
use crate::ops_reader::{err_obs, io_obs};
use crate::util::*;
use std::cell::RefCell;
use std::io::{self, Cursor, Read, Seek, SeekFrom, Write};
use std::rc::Rc;
use zip::unstable::write::FileOptionsExt;
use zip::write::FileOptions;

/// shared in-memory sink with a plan of short writes / failures (0 = fail, n = accept at most n, 255 = full)
pub struct Shared {
    pub buf: Rc<RefCell<Cursor<Vec<u8>>>>,
    pub plan: Rc<RefCell<Vec<u8>>>,
    pub calls: Rc<RefCell<usize>>,
}
impl Shared {
    fn event(&self) -> Option<u8> {
        *self.calls.borrow_mut() += 1;
        let mut p = self.plan.borrow_mut();
        if p.is_empty() {
            None
        } else {
            Some(p.remove(0))
        }
    }
}
fn injected() -> io::Error {
    io::Error::new(io::ErrorKind::Other, "injected")
}
impl Write for Shared {
    fn write(&mut self, b: &[u8]) -> io::Result<usize> {
        match self.event() {
            Some(0) => Err(injected()),
            Some(255) | None => self.buf.borrow_mut().write(b),
            Some(n) => {
                let k = std::cmp::min(b.len(), std::cmp::max(1, n as usize));
                self.buf.borrow_mut().write(&b[..k])
            }
        }
    }
    fn flush(&mut self) -> io::Result<()> {
        match self.event() {
            Some(0) => Err(injected()),
            _ => Ok(()),
        }
    }
}
impl Seek for Shared {
    fn seek(&mut self, p: SeekFrom) -> io::Result<u64> {
        match self.event() {
            Some(0) => Err(injected()),
            _ => self.buf.borrow_mut().seek(p),
        }
    }
}
impl Read for Shared {
    fn read(&mut self, b: &mut [u8]) -> io::Result<usize> {
        self.buf.borrow_mut().read(b)
    }
}

fn opts(a: &[Arg]) -> FileOptions {
    // method lvlflag lvlabs date time permflag perm large pwflag pw
    #[allow(deprecated)]
    let mut o = FileOptions::default()
        .compression_method(zip::CompressionMethod::from_u16(a[0].n() as u16))
        .last_modified_time(zip::DateTime::from_msdos(a[3].n() as u16, a[4].n() as u16))
        .large_file(a[7].n() != 0);
    o = o.compression_level(match a[1].n() {
        0 => None,
        1 => Some(a[2].n() as i32),
        _ => Some(-(a[2].n() as i32)),
    });
    if a[5].n() != 0 {
        // FileOptions::unix_permissions masks with 0o777; the model's o_perm is the masked value
        o = o.unix_permissions(a[6].n() as u32);
    }
    if a[8].n() != 0 {
        o = o.with_deprecated_encryption(a[9].b());
    }
    o
}

fn s(b: &[u8]) -> String {
    String::from_utf8(b.to_vec()).expect("harness: names must be UTF-8")
}

fn unit(r: zip::result::ZipResult<()>) -> String {
    match r {
        Ok(()) => "[Ok unit]".into(),
        Err(e) => format!("[Err {}]", err_obs(&e)),
    }
}
fn num(r: zip::result::ZipResult<u64>) -> String {
    match r {
        Ok(n) => format!("[Ok {}]", on(n)),
        Err(e) => format!("[Err {}]", err_obs(&e)),
    }
}

pub fn dispatch(op: &str, a: &[Arg]) -> Option<String> {
    if op != "wprog" && op != "wprog_calls" {
        return None;
    }
    let buf = Rc::new(RefCell::new(Cursor::new(Vec::new())));
    let plan = Rc::new(RefCell::new(Vec::new()));
    let calls = Rc::new(RefCell::new(0usize));
    // first pass: plan and append base
    let mut i = 0;
    let mut base: Option<Vec<u8>> = None;
    let mut prog: Vec<(u128, usize)> = vec![];
    while i < a.len() {
        let code = a[i].n();
        let start = i + 1;
        let n = match code {
            1 | 3 | 7 => 11,
            4 | 8 => 12,
            2 | 9 => 1,
            5 | 6 | 11 => 0,
            10 => 4,
            13 => 5,
            14 => {
                base = Some(a[start].b().to_vec());
                1
            }
            15 => {
                *plan.borrow_mut() = a[start].b().to_vec();
                1
            }
            _ => return Some("BADPROG".into()),
        };
        if code != 13 && code != 14 && code != 15 {
            prog.push((code, start));
        }
        i = start + n;
    }
    let sink = Shared { buf: buf.clone(), plan: plan.clone(), calls: calls.clone() };
    let mut outs: Vec<String> = vec![];
    let mut w = match base {
        None => zip::ZipWriter::new(sink),
        Some(b) => {
            *buf.borrow_mut() = Cursor::new(b);
            // the plan applies to the writer's own I/O only (as in the model): open with an empty plan
            let saved = plan.borrow().clone();
            plan.borrow_mut().clear();
            let r = zip::ZipWriter::new_append(sink);
            *plan.borrow_mut() = saved;
            match r {
                Ok(w) => w,
                Err(e) => return Some(format!("[AppendErr {}]", err_obs(&e))),
            }
        }
    };
    *calls.borrow_mut() = 0;
    let mut finished = false;
    let mut panicked = false;
    for (code, st) in prog {
        let r = std::panic::catch_unwind(std::panic::AssertUnwindSafe(|| match code {
            1 => unit(w.start_file(s(a[st].b()), opts(&a[st + 1..]))),
            2 => match w.write_all(a[st].b()) {
                Ok(()) => "[Ok unit]".to_string(),
                Err(e) => format!("[Err {}]", io_obs(&e)),
            },
            3 => num(w.start_file_with_extra_data(s(a[st].b()), opts(&a[st + 1..]))),
            4 => num(w.start_file_aligned(s(a[st].b()), opts(&a[st + 1..]), a[st + 11].n() as u16)),
            5 => num(w.end_local_start_central_extra_data()),
            6 => num(w.end_extra_data()),
            7 => unit(w.add_directory(s(a[st].b()), opts(&a[st + 1..]))),
            8 => unit(w.add_symlink(s(a[st].b()), s(a[st + 11].b()), opts(&a[st + 1..]))),
            9 => {
                w.set_raw_comment(a[st].b().to_vec());
                "[Ok unit]".to_string()
            }
            10 => {
                let mut src = match zip::ZipArchive::new(Cursor::new(a[st].b().to_vec())) {
                    Ok(x) => x,
                    Err(e) => return format!("[SrcErr {}]", err_obs(&e)),
                };
                let f = match src.by_index_raw(a[st + 1].n() as usize) {
                    Ok(f) => f,
                    Err(e) => return format!("[SrcErr {}]", err_obs(&e)),
                };
                if a[st + 2].n() == 0 {
                    unit(w.raw_copy_file(f))
                } else {
                    unit(w.raw_copy_file_rename(f, s(a[st + 3].b())))
                }
            }
            11 => match w.finish() {
                Ok(_) => format!("[Ok {}]", ob(buf.borrow().get_ref())),
                Err(e) => format!("[Err {}]", err_obs(&e)),
            },
            _ => "BAD".to_string(),
        }));
        match r {
            Ok(o) => {
                if code == 11 && o.starts_with("[Ok") {
                    finished = true;
                }
                outs.push(o)
            }
            Err(e) => {
                outs.push(format!("[PANIC {}]", panic_class(&e)));
                panicked = true;
                break;
            }
        }
    }
    // drop
    let dr = if panicked {
        // dropping a writer after a panic may panic again: isolate it
        let r = std::panic::catch_unwind(std::panic::AssertUnwindSafe(move || drop(w)));
        match r {
            Ok(()) => "[Ok unit]".to_string(),
            Err(e) => format!("[PANIC {}]", panic_class(&e)),
        }
    } else {
        let r = std::panic::catch_unwind(std::panic::AssertUnwindSafe(move || drop(w)));
        match r {
            Ok(()) => "[Ok unit]".to_string(),
            Err(e) => format!("[PANIC {}]", panic_class(&e)),
        }
    };
    let _ = finished;
    let fin = ob(buf.borrow().get_ref());
    if op == "wprog_calls" {
        return Some(format!("[{}]", *calls.borrow()));
    }
    Some(format!("[{} {} {}]", ol(&outs), dr, fin))
}
