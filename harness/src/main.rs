//! impl_run — the implementation side of the correspondence line protocol.
//! request : <op> <arg>*   arg = decimal | 0x<hex number> | x<hex bytes>
//! response: one line per request, rendered exactly like the extracted model's `obs`.
use std::io::{self, BufRead, Write};
use std::panic;

mod util;
mod alloc;
mod ops_hostile;

#[global_allocator]
static GLOBAL: alloc::Counting = alloc::Counting;
mod ops_dos;
mod ops_path;
mod ops_text;
mod ops_reader;
mod ops_stream;
mod ops_extract;
mod ops_writer;
mod ops_big;
mod ops_clones;
mod mkzip;

pub use util::*;

fn dispatch(op: &str, args: &[Arg]) -> String {
    // aes_entry x<data> idx x<pw> x<dk> bufsize: the derived key is for the model only
    if op == "aes_entry" {
        let a = vec![args[0].clone(), args[1].clone(), Arg::N(1), args[2].clone(), args[4].clone()];
        return ops_reader::dispatch("entry", &a).unwrap();
    }
    if let Some(r) = ops_dos::dispatch(op, args) {
        return r;
    }
    if let Some(r) = ops_path::dispatch(op, args) {
        return r;
    }
    if let Some(r) = ops_text::dispatch(op, args) {
        return r;
    }
    if let Some(r) = ops_reader::dispatch(op, args) {
        return r;
    }
    if let Some(r) = ops_hostile::dispatch(op, args) {
        return r;
    }
    if let Some(r) = ops_stream::dispatch(op, args) {
        return r;
    }
    if let Some(r) = ops_extract::dispatch(op, args) {
        return r;
    }
    if let Some(r) = ops_writer::dispatch(op, args) {
        return r;
    }
    if let Some(r) = ops_big::dispatch(op, args) {
        return r;
    }
    if let Some(r) = ops_clones::dispatch(op, args) {
        return r;
    }
    "BADOP".to_string()
}

fn main() {
    panic::set_hook(Box::new(|_| {}));
    unsafe {
        libc::umask(0o022);
    }
    let stdin = io::stdin();
    let stdout = io::stdout();
    let mut out = io::BufWriter::new(stdout.lock());
    for line in stdin.lock().lines() {
        let line = line.unwrap();
        let mut toks = line.split_whitespace();
        let op = match toks.next() {
            Some(o) => o.to_string(),
            None => {
                writeln!(out).unwrap();
                continue;
            }
        };
        let args: Vec<Arg> = toks.map(parse_arg).collect();
        let r = panic::catch_unwind(|| dispatch(&op, &args));
        let s = match r {
            Ok(s) => s,
            Err(e) => format!("[PANIC {}]", panic_class(&e)),
        };
        writeln!(out, "{}", s).unwrap();
        out.flush().unwrap();
    }
}
