//! C07 — extraction into a sandbox directory; the whole sandbox (target + canary sibling) is listed afterwards
use crate::ops_reader::err_obs;
use crate::util::*;
use std::fs;
use std::io::Cursor;
use std::os::unix::ffi::OsStrExt;
use std::os::unix::fs::PermissionsExt;
use std::path::{Path, PathBuf};
use std::sync::atomic::{AtomicUsize, Ordering};

static COUNTER: AtomicUsize = AtomicUsize::new(0);

fn sandbox_root() -> PathBuf {
    let base = std::env::var("ZV_SANDBOX").unwrap_or_else(|_| "/verif/.cache/sandbox".to_string());
    PathBuf::from(base).join(format!("{}-{}", std::process::id(), COUNTER.fetch_add(1, Ordering::Relaxed)))
}

fn list(dir: &Path, rel: &mut Vec<u8>, out: &mut Vec<(Vec<u8>, String)>) {
    let mut ents: Vec<_> = match fs::read_dir(dir) {
        Ok(r) => r.filter_map(|e| e.ok()).collect(),
        Err(_) => return,
    };
    ents.sort_by_key(|e| e.file_name());
    for e in ents {
        let name = e.file_name();
        let keep = rel.len();
        if !rel.is_empty() {
            rel.push(b'/');
        }
        rel.extend_from_slice(name.as_bytes());
        let md = match fs::symlink_metadata(e.path()) {
            Ok(m) => m,
            Err(_) => {
                rel.truncate(keep);
                continue;
            }
        };
        let mode = md.permissions().mode() & 0o7777;
        if md.file_type().is_dir() {
            out.push((rel.clone(), format!("[{} D {}]", ob(rel), mode)));
            // make sure we can descend and later delete
            let _ = fs::set_permissions(e.path(), fs::Permissions::from_mode(0o755));
            list(&e.path(), rel, out);
        } else if md.file_type().is_symlink() {
            out.push((rel.clone(), format!("[{} L {}]", ob(rel), mode)));
        } else {
            let c = fs::read(e.path()).unwrap_or_default();
            out.push((rel.clone(), format!("[{} F {} {}]", ob(rel), mode, ob(&c))));
        }
        rel.truncate(keep);
    }
}

fn res_obs(r: &zip::result::ZipResult<()>) -> String {
    match r {
        Ok(()) => "Ok".to_string(),
        Err(zip::result::ZipError::Io(e)) if e.get_ref().is_none() && e.raw_os_error().is_some() => "[Err Fs]".to_string(),
        Err(e) => format!("[Err {}]", err_obs(e)),
    }
}

pub fn dispatch(op: &str, a: &[Arg]) -> Option<String> {
    Some(match op {
        // extract x<archive> mode(0 = ZipArchive::extract, 1 = ZipStreamReader::extract)
        "extract" => {
            let sb = sandbox_root();
            let _ = fs::remove_dir_all(&sb);
            fs::create_dir_all(sb.join("t")).unwrap();
            fs::create_dir_all(sb.join("canary")).unwrap();
            fs::write(sb.join("canary/f"), b"canary").unwrap();
            fs::set_permissions(sb.join("t"), fs::Permissions::from_mode(0o755)).unwrap();
            fs::set_permissions(sb.join("canary"), fs::Permissions::from_mode(0o755)).unwrap();
            fs::set_permissions(sb.join("canary/f"), fs::Permissions::from_mode(0o644)).unwrap();
            let data = a[0].b().to_vec();
            let target = sb.join("t");
            let r = std::panic::catch_unwind(|| {
                if a[1].n() == 0 {
                    match zip::ZipArchive::new(Cursor::new(data)) {
                        Ok(mut ar) => res_obs(&ar.extract(&target)),
                        Err(e) => format!("[OpenErr {}]", err_obs(&e)),
                    }
                } else {
                    res_obs(&zip::unstable::stream::ZipStreamReader::new(Cursor::new(data)).extract(&target))
                }
            });
            let r = match r {
                Ok(s) => s,
                Err(e) => format!("[PANIC {}]", panic_class(&e)),
            };
            let mut out = vec![];
            list(&sb, &mut Vec::new(), &mut out);
            out.sort();
            let _ = fs::remove_dir_all(&sb);
            format!("[{} {}]", r, ol(&out.into_iter().map(|x| x.1).collect::<Vec<_>>()))
        }
        _ => return None,
    })
}
