(* Model/Writer.v — ZipWriter (src/write.rs) as a state machine over a plan-driven sink.
   Statement-by-statement model of: write, start_entry, finish_file, start_file, start_file_aligned,
   start_file_with_extra_data, end_local_start_central_extra_data, end_extra_data, add_directory,
   add_symlink, raw_copy_file(_rename), set_raw_comment, finish, finalize, Drop, new_append, switch_to,
   the header writers and validate_extra_data.  Every call returns the (possibly partially mutated) state
   together with its result, because Rust's `?` leaves the mutations made so far in place.
   Compressors are an oracle [enc]; every panic site is a [Panic] outcome.
   The model follows the tree AFTER the fix: commits D1 D7 D8 D9 D11 D15 D17 D18 D19 D21 (see known_findings.txt). *)
From Coq Require Import ZArith.
From ZipV Require Import Base.Bytes Base.Outcome Gen.GenLib Gen.SpecGen Gen.CompressionGen Gen.TypesGen
     Gen.ZipCryptoGen Gen.WriteGen Model.Cp437 Model.Readers Model.Reader Spec.Utf8.
Open Scope N_scope.

(* ---------- the sink: Cursor<Vec<u8>> semantics + a plan of short writes / failures *)
Inductive wev := WShort (n : N) | WFail.
Record dev := { d_buf : bytes; d_pos : N; d_plan : list wev }.

Definition zeros (n : N) : bytes := repeat x00 (N.to_nat n).
Definition put_at (buf : bytes) (pos : N) (bs : bytes) : bytes :=
  take pos buf ++ zeros (pos - len buf) ++ bs ++ drop (pos + len bs) buf.

Definition io_fail {A} : res A := Err (EIo KOther IInjected).

Definition dev_write (d : dev) (bs : bytes) : dev * res N :=
  match d_plan d with
  | WFail :: p => ({| d_buf := d_buf d; d_pos := d_pos d; d_plan := p |}, io_fail)
  | WShort n :: p =>
      let k := N.min (len bs) (N.max 1 n) in
      ({| d_buf := put_at (d_buf d) (d_pos d) (take k bs); d_pos := d_pos d + k; d_plan := p |}, Ok k)
  | [] => ({| d_buf := put_at (d_buf d) (d_pos d) bs; d_pos := d_pos d + len bs; d_plan := [] |}, Ok (len bs))
  end.

Fixpoint dev_write_all_fuel (fuel : nat) (d : dev) (bs : bytes) : dev * res unit :=
  match bs with
  | [] => (d, Ok tt)                       (* write_all of an empty slice performs no call *)
  | _ =>
      match fuel with
      | O => (d, Panic POutOfFuel)
      | S f =>
          match dev_write d bs with
          | (d1, Ok k) => if k =? 0 then (d1, Err (EIo KOther IWriteZero)) else dev_write_all_fuel f d1 (drop k bs)
          | (d1, Err e) => (d1, Err e)
          | (d1, Panic p) => (d1, Panic p)
          end
      end
  end.
Definition dev_write_all (d : dev) (bs : bytes) : dev * res unit := dev_write_all_fuel (S (length bs)) d bs.

Definition dev_event (d : dev) : dev * res unit :=
  match d_plan d with
  | WFail :: p => ({| d_buf := d_buf d; d_pos := d_pos d; d_plan := p |}, io_fail)
  | _ :: p => ({| d_buf := d_buf d; d_pos := d_pos d; d_plan := p |}, Ok tt)
  | [] => (d, Ok tt)
  end.
Definition dev_seek (d : dev) (pos : N) : dev * res unit :=
  match dev_event d with
  | (d1, Ok _) => ({| d_buf := d_buf d1; d_pos := pos; d_plan := d_plan d1 |}, Ok tt)
  | r => r
  end.
Definition dev_pos (d : dev) : dev * res N :=            (* stream_position = seek(Current(0)) *)
  match dev_event d with
  | (d1, Ok _) => (d1, Ok (d_pos d1))
  | (d1, Err e) => (d1, Err e)
  | (d1, Panic p) => (d1, Panic p)
  end.
Definition dev_seek_end (d : dev) : dev * res N :=        (* seek(SeekFrom::End(0)) *)
  match dev_event d with
  | (d1, Ok _) => ({| d_buf := d_buf d1; d_pos := len (d_buf d1); d_plan := d_plan d1 |}, Ok (len (d_buf d1)))
  | (d1, Err e) => (d1, Err e)
  | (d1, Panic p) => (d1, Panic p)
  end.
Definition dev_flush (d : dev) : dev * res unit := dev_event d.

(* write a list of chunks, one write_all each *)
Fixpoint dev_write_chunks (d : dev) (cs : list bytes) : dev * res unit :=
  match cs with
  | [] => (d, Ok tt)
  | c :: r => match dev_write_all d c with
              | (d1, Ok _) => dev_write_chunks d1 r
              | bad => bad
              end
  end.

(* ---------- per-file record kept by the writer *)
Record wfile := {
  w_system : N; w_made_by : N; w_encrypted : bool; w_method : CompressionMethod; w_level : option Z;
  w_time : DateTime; w_crc : N; w_csize : N; w_usize : N; w_name : bytes; w_extra : bytes;
  w_header_start : N; w_data_start : N; w_ext_attr : N; w_large : bool }.

Definition wf_set_extra (f : wfile) (x : bytes) : wfile :=
  {| w_system := w_system f; w_made_by := w_made_by f; w_encrypted := w_encrypted f; w_method := w_method f; w_level := w_level f;
     w_time := w_time f; w_crc := w_crc f; w_csize := w_csize f; w_usize := w_usize f; w_name := w_name f; w_extra := x;
     w_header_start := w_header_start f; w_data_start := w_data_start f; w_ext_attr := w_ext_attr f; w_large := w_large f |}.
Definition wf_set_data_start (f : wfile) (x : N) : wfile :=
  {| w_system := w_system f; w_made_by := w_made_by f; w_encrypted := w_encrypted f; w_method := w_method f; w_level := w_level f;
     w_time := w_time f; w_crc := w_crc f; w_csize := w_csize f; w_usize := w_usize f; w_name := w_name f; w_extra := w_extra f;
     w_header_start := w_header_start f; w_data_start := x; w_ext_attr := w_ext_attr f; w_large := w_large f |}.
Definition wf_set_sizes (f : wfile) (crc us cs : N) : wfile :=
  {| w_system := w_system f; w_made_by := w_made_by f; w_encrypted := w_encrypted f; w_method := w_method f; w_level := w_level f;
     w_time := w_time f; w_crc := crc; w_csize := cs; w_usize := us; w_name := w_name f; w_extra := w_extra f;
     w_header_start := w_header_start f; w_data_start := w_data_start f; w_ext_attr := w_ext_attr f; w_large := w_large f |}.

Definition wf_gen (f : wfile) : ZipFileData :=
  {| ZipFileData_system := System_from_u8 (w_system f); ZipFileData_version_made_by := w_made_by f;
     ZipFileData_encrypted := w_encrypted f; ZipFileData_using_data_descriptor := false;
     ZipFileData_compression_method := w_method f; ZipFileData_last_modified_time := w_time f;
     ZipFileData_crc32 := w_crc f; ZipFileData_compressed_size := w_csize f;
     ZipFileData_uncompressed_size := w_usize f; ZipFileData_header_start := w_header_start f;
     ZipFileData_central_header_start := 0; ZipFileData_external_attributes := w_ext_attr f;
     ZipFileData_large_file := w_large f |}.
Definition version_needed (f : wfile) : N := ZipFileData_version_needed (wf_gen f).

Definition flag_of (f : wfile) : N := (if is_ascii (w_name f) then 0 else 2048) + (if w_encrypted f then 1 else 0).

(* ---------- header writers (one list element = one write_all call) *)
Definition local_header_chunks (f : wfile) : res (list bytes) :=
  let* d := of_opt (DateTime_datepart (w_time f)) PDatepartSub in
  let* xl := of_opt (add_chk 16 (if w_large f then 20 else 0) (len (w_extra f) mod 65536)) PExtraLenAdd in
  Ok ([le32 LOCAL_FILE_HEADER_SIGNATURE; le16 (version_needed f); le16 (flag_of f);
       le16 (CompressionMethod_to_u16 (w_method f)); le16 (DateTime_timepart (w_time f)); le16 d; le32 (w_crc f)]
      ++ (if w_large f then [le32 ZIP64_BYTES_THR; le32 ZIP64_BYTES_THR]
          else [le32 (w_csize f mod 2 ^ 32); le32 (w_usize f mod 2 ^ 32)])
      ++ [le16 (len (w_name f) mod 65536); le16 xl; w_name f]
      ++ (if w_large f then [le16 1; le16 16; le64 (w_usize f); le64 (w_csize f)] else [])).

Definition central_z64 (f : wfile) : bytes :=
  let u := ZIP64_BYTES_THR <=? w_usize f in
  let c := ZIP64_BYTES_THR <=? w_csize f in
  let h := ZIP64_BYTES_THR <=? w_header_start f in
  let body := (if u then le64 (w_usize f) else []) ++ (if c then le64 (w_csize f) else []) ++ (if h then le64 (w_header_start f) else []) in
  match body with [] => [] | _ => le16 1 ++ le16 (len body) ++ body end.

Definition central_header_chunks (f : wfile) : res (list bytes) :=
  let z := central_z64 f in
  if 65535 <? len z + len (w_extra f) then Err (EInvalid MTooLong) else
  let* d := of_opt (DateTime_datepart (w_time f)) PDatepartSub in
  Ok [le32 CENTRAL_DIRECTORY_HEADER_SIGNATURE; le16 (N.lor (N.shiftl (w_system f) 8) (w_made_by f)); le16 (version_needed f);
      le16 (flag_of f); le16 (CompressionMethod_to_u16 (w_method f)); le16 (DateTime_timepart (w_time f)); le16 d;
      le32 (w_crc f); le32 (N.min (w_csize f) ZIP64_BYTES_THR); le32 (N.min (w_usize f) ZIP64_BYTES_THR);
      le16 (len (w_name f) mod 65536); le16 (len z + len (w_extra f)); le16 0; le16 0; le16 0; le32 (w_ext_attr f);
      le32 (N.min (w_header_start f) ZIP64_BYTES_THR); w_name f; z; w_extra f].

(* ---------- validate_extra_data *)
Definition reserved_id (kind : N) : bool := (kind <=? 31) || existsb (N.eqb kind) EXTRA_FIELD_MAPPING.

Fixpoint validate_records (fuel : nat) (data : bytes) : res unit :=
  match data with
  | [] => Ok tt
  | _ =>
      match fuel with
      | O => Panic POutOfFuel
      | S f =>
          if len data <? 4 then Err (EIo KOther IExtraIncomplete) else
          let kind := unle (take 2 data) in
          let size := unle (take 2 (drop 2 data)) in
          if kind =? 1 then Err (EIo KOther IExtraZip64) else
          if reserved_id kind then Err (EIo KOther IExtraReserved) else
          if len data - 4 <? size then Err (EIo KOther IExtraSize) else
          validate_records f (drop (4 + size) data)
      end
  end.
Definition validate_extra_data (f : wfile) : res unit :=
  if 65535 <? len (w_extra f) + (if w_large f then 20 else 0) then Err (EIo KInvalidData IExtraTooLong)
  else validate_records (S (length (w_extra f))) (w_extra f).

(* ---------- the writer state *)
Inductive winner :=
| WClosed (last : option dev)         (* the sink is gone; [last] remembers its final content for observation only *)
| WStorer (d : dev)
| WEnc (d : dev) (buf : bytes) (k : zc_keys)
| WComp (m : CompressionMethod) (lvl : Z) (d : dev) (e : option (bytes * zc_keys)) (pending : bytes).

Definition dev_of (i : winner) : option dev :=
  match i with
  | WClosed l => l
  | WStorer d | WEnc d _ _ | WComp _ _ d _ _ => Some d
  end.
Definition close_of (i : winner) : winner := WClosed (dev_of i).
Definition is_closed (i : winner) : bool := match i with WClosed _ => true | _ => false end.

Record wstate := {
  ws_inner : winner; ws_files : list wfile; ws_start : N; ws_written : N; ws_hashed : bytes;
  ws_to_file : bool; ws_to_extra : bool; ws_central_only : bool; ws_raw : bool; ws_comment : bytes }.

Definition set_inner (s : wstate) (i : winner) : wstate :=
  {| ws_inner := i; ws_files := ws_files s; ws_start := ws_start s; ws_written := ws_written s; ws_hashed := ws_hashed s;
     ws_to_file := ws_to_file s; ws_to_extra := ws_to_extra s; ws_central_only := ws_central_only s; ws_raw := ws_raw s;
     ws_comment := ws_comment s |}.
Definition set_files (s : wstate) (fs : list wfile) : wstate :=
  {| ws_inner := ws_inner s; ws_files := fs; ws_start := ws_start s; ws_written := ws_written s; ws_hashed := ws_hashed s;
     ws_to_file := ws_to_file s; ws_to_extra := ws_to_extra s; ws_central_only := ws_central_only s; ws_raw := ws_raw s;
     ws_comment := ws_comment s |}.
Definition set_stats (s : wstate) (start written : N) (hashed : bytes) : wstate :=
  {| ws_inner := ws_inner s; ws_files := ws_files s; ws_start := start; ws_written := written; ws_hashed := hashed;
     ws_to_file := ws_to_file s; ws_to_extra := ws_to_extra s; ws_central_only := ws_central_only s; ws_raw := ws_raw s;
     ws_comment := ws_comment s |}.
Definition set_flags (s : wstate) (to_file to_extra central_only raw : bool) : wstate :=
  {| ws_inner := ws_inner s; ws_files := ws_files s; ws_start := ws_start s; ws_written := ws_written s; ws_hashed := ws_hashed s;
     ws_to_file := to_file; ws_to_extra := to_extra; ws_central_only := central_only; ws_raw := raw;
     ws_comment := ws_comment s |}.
Definition set_comment (s : wstate) (c : bytes) : wstate :=
  {| ws_inner := ws_inner s; ws_files := ws_files s; ws_start := ws_start s; ws_written := ws_written s; ws_hashed := ws_hashed s;
     ws_to_file := ws_to_file s; ws_to_extra := ws_to_extra s; ws_central_only := ws_central_only s; ws_raw := ws_raw s;
     ws_comment := c |}.

Definition new_writer (plan : list wev) : wstate :=
  {| ws_inner := WStorer {| d_buf := []; d_pos := 0; d_plan := plan |}; ws_files := []; ws_start := 0; ws_written := 0;
     ws_hashed := []; ws_to_file := false; ws_to_extra := false; ws_central_only := false; ws_raw := false; ws_comment := [] |}.

Definition closed_err : err := EIo KBrokenPipe IClosed.

(* replace the last file *)
Definition upd_last (fs : list wfile) (g : wfile -> wfile) : list wfile :=
  match rev fs with [] => [] | l :: r => rev r ++ [g l] end.
Definition last_file (fs : list wfile) : option wfile := match rev fs with [] => None | l :: _ => Some l end.

Section Writer.
  Variable enc : CompressionMethod -> Z -> bytes -> bytes.     (* the compressor oracle *)
  Variable crc : bytes -> N.

  (* with a plain sink: run a device action, store the device back *)
  Definition with_plain {A} (s : wstate) (k : dev -> dev * res A) : wstate * res A :=
    match ws_inner s with
    | WStorer d => let '(d', r) := k d in (set_inner s (WStorer d'), r)
    | WEnc d b kk => let '(d', r) := k d in (set_inner s (WEnc d' b kk), r)     (* fix D21: the sink under the wrapper *)
    | _ => (s, Panic PGetPlain)
    end.

  (* ---------- GenericZipWriter::switch_to *)
  Definition level_ok (m : CompressionMethod) (lvl : option Z) : option Z :=
    match m with
    | CompressionMethod_Deflated => let l := match lvl with Some l => l | None => 6%Z end in
                                    if (0 <=? l)%Z && (l <=? 9)%Z then Some l else None
    | CompressionMethod_Bzip2 => let l := match lvl with Some l => l | None => 6%Z end in
                                 if (1 <=? l)%Z && (l <=? 9)%Z then Some l else None       (* fix D17 *)
    | CompressionMethod_Zstd => let l := match lvl with Some l => l | None => 3%Z end in
                                if (-7 <=? l)%Z && (l <=? 22)%Z then Some l else None
    | _ => None
    end.

  Definition cur_method (i : winner) : option CompressionMethod :=
    match i with
    | WClosed _ => None
    | WStorer _ | WEnc _ _ _ => Some CompressionMethod_Stored
    | WComp m _ _ _ _ => Some m
    end.

  (* finish a compressor: its output goes to the plain sink or into the encryption buffer *)
  Definition finish_comp (i : winner) : winner * res unit :=
    match i with
    | WComp m lvl d None pending =>
        let out := enc m lvl pending in
        match dev_write_all d out with
        | (d', Ok _) => (WStorer d', Ok tt)
        | (d', Err e) =>
            (* finish() consumed the encoder; on failure it is dropped, and the Drop of the flate2 and bzip2
               encoders tries once more to write what is still buffered (errors ignored); zstd's does not *)
            let d'' := match m with
                       | CompressionMethod_Deflated | CompressionMethod_Bzip2 =>
                           fst (dev_write_all d' (drop (d_pos d' - d_pos d) out))
                       | _ => d'
                       end in
            (WClosed (Some d''), Err e)
        | (d', Panic p) => (WClosed (Some d'), Panic p)
        end
    | WComp m lvl d (Some (buf, k)) pending => (WEnc d (buf ++ enc m lvl pending) k, Ok tt)
    | other => (other, Ok tt)
    end.

  Definition switch_to (s : wstate) (m : CompressionMethod) (lvl : option Z) : wstate * res unit :=
    match cur_method (ws_inner s) with
    | None => (s, Err closed_err)
    | Some cm =>
        if CompressionMethod_eqb cm m then (s, Ok tt) else
        match finish_comp (ws_inner s) with
        | (i1, Ok _) =>
            (* i1 is now a Storer (plain or encrypting) *)
            match m with
            | CompressionMethod_Stored =>
                match lvl with
                | Some _ => (set_inner s (close_of i1), Err (EUnsupported MUnsupportedLevel))
                | None => (set_inner s i1, Ok tt)
                end
            | CompressionMethod_Deflated | CompressionMethod_Bzip2 | CompressionMethod_Zstd =>
                match level_ok m lvl with
                | None => (set_inner s (close_of i1), Err (EUnsupported MUnsupportedLevel))
                | Some l =>
                    match i1 with
                    | WStorer d => (set_inner s (WComp m l d None []), Ok tt)
                    | WEnc d buf k => (set_inner s (WComp m l d (Some (buf, k)) []), Ok tt)
                    | _ => (set_inner s (close_of i1), Panic PUnreachable)
                    end
                end
            | CompressionMethod_Aes => (set_inner s (close_of i1), Err (EUnsupported MAesWrite))
            | CompressionMethod_Unsupported _ => (set_inner s (close_of i1), Err (EUnsupported MUnsupportedCompression))
            end
        | (i1, Err e) => (set_inner s i1, Err e)
        | (i1, Panic p) => (set_inner s i1, Panic p)
        end
    end.

  (* ---------- update_local_file_header *)
  Definition update_local (d : dev) (f : wfile) : dev * res unit :=
    match dev_seek d (w_header_start f + 14) with
    | (d1, Ok _) =>
        match dev_write_all d1 (le32 (w_crc f)) with
        | (d2, Ok _) =>
            if w_large f then
              match dev_seek d2 (w_header_start f + 30 + len (w_name f) + 4) with
              | (d3, Ok _) => dev_write_chunks d3 [le64 (w_usize f); le64 (w_csize f)]
              | bad => bad
              end
            else if ZIP64_BYTES_THR <? w_csize f then (d2, Err (EIo KOther ILargeFile))
            else dev_write_chunks d2 [le32 (w_csize f mod 2 ^ 32); le32 (w_usize f mod 2 ^ 32)]
        | bad => bad
        end
    | bad => bad
    end.

  (* ---------- end_extra_data (needed by finish_file) *)
  Definition end_extra_data (s : wstate) : wstate * res N :=
    if negb (ws_to_extra s) then (s, Err (EIo KOther INotExtra)) else
    match ws_inner s with WClosed _ => (s, Err closed_err) | _ =>
    match last_file (ws_files s) with
    | None => (s, Panic PLastUnwrap)
    | Some f =>
        match validate_extra_data f with
        | Err e => (s, Err e)
        | Panic p => (s, Panic p)
        | Ok _ =>
            if ws_central_only s then
              (set_flags s (ws_to_file s) false false (ws_raw s), Ok (w_data_start f))
            else
              match with_plain s (fun d => dev_write_all d (w_extra f)) with
              | (s1, Ok _) =>
                  let header_end := w_data_start f + len (w_extra f) in
                  let s2 := set_files (set_stats s1 header_end (ws_written s1) (ws_hashed s1))
                                      (upd_last (ws_files s1) (fun g => wf_set_data_start g header_end)) in
                  match add_chk 16 (if w_large f then 20 else 0) (len (w_extra f) mod 65536) with
                  | None => (s2, Panic PExtraLenAdd)
                  | Some xl =>
                      match with_plain s2 (fun d =>
                              match dev_seek d (w_header_start f + 28) with
                              | (d1, Ok _) => match dev_write_all d1 (le16 xl) with
                                              | (d2, Ok _) => dev_seek d2 header_end
                                              | bad => bad end
                              | bad => bad end) with
                      | (s3, Ok _) =>
                          match switch_to s3 (w_method f) (w_level f) with
                          | (s4, Ok _) => (set_flags s4 (ws_to_file s4) false false (ws_raw s4), Ok header_end)
                          | (s4, Err e) => (s4, Err e)
                          | (s4, Panic p) => (s4, Panic p)
                          end
                      | (s3, Err e) => (s3, Err e)
                      | (s3, Panic p) => (s3, Panic p)
                      end
                  end
              | (s1, Err e) => (s1, Err e)
              | (s1, Panic p) => (s1, Panic p)
              end
        end
    end end.

  (* ---------- finish_file *)
  Definition finish_file (s : wstate) : wstate * res unit :=
    let '(s0, r0) := if ws_to_extra s then (let '(s', r) := end_extra_data s in (s', match r with Ok _ => Ok tt | Err e => Err e | Panic p => Panic p end))
                     else (s, Ok tt) in
    match r0 with
    | Ok _ =>
        match switch_to s0 CompressionMethod_Stored None with
        | (s1, Ok _) =>
            (* an encrypting storer is finished: header byte, encryption of the whole buffer, one write_all, flush *)
            let '(s2, r2) :=
              match ws_inner s1 with
              | WEnc d buf k =>
                  let c := crc (ws_hashed s1) in
                  let buf' := firstn 11 buf ++ [n2b (N.shiftr c 24)] ++ skipn 12 buf in
                  let '(_, ct) := zc_encrypt k buf' in
                  match dev_write_all d ct with
                  | (d1, Ok _) => match dev_flush d1 with
                                  | (d2, Ok _) => (set_inner s1 (WStorer d2), Ok tt)
                                  | (d2, Err e) => (set_inner s1 (WClosed (Some d2)), Err e)
                                  | (d2, Panic p) => (set_inner s1 (WClosed (Some d2)), Panic p)
                                  end
                  | (d1, Err e) => (set_inner s1 (WClosed (Some d1)), Err e)
                  | (d1, Panic p) => (set_inner s1 (WClosed (Some d1)), Panic p)
                  end
              | WStorer _ => (s1, Ok tt)
              | _ => (s1, Panic PUnreachable)
              end in
            match r2 with
            | Ok _ =>
                match ws_inner s2 with
                | WStorer _ =>
                    if ws_raw s2 then (set_flags s2 false (ws_to_extra s2) (ws_central_only s2) false, Ok tt) else
                    match last_file (ws_files s2) with
                    | None => (s2, Ok tt)
                    | Some f =>
                        match with_plain s2 dev_pos with
                        | (s3, Ok file_end) =>
                            if file_end <? ws_start s3 then (s3, Err (EIo KOther INone)) else      (* fix D7 *)
                            let f' := wf_set_sizes f (crc (ws_hashed s3)) (ws_written s3) (file_end - ws_start s3) in
                            let s4 := set_files s3 (upd_last (ws_files s3) (fun _ => f')) in
                            match with_plain s4 (fun d => match update_local d f' with
                                                          | (d1, Ok _) => dev_seek d1 file_end
                                                          | bad => bad end) with
                            | (s5, Ok _) => (set_flags s5 false (ws_to_extra s5) (ws_central_only s5) false, Ok tt)
                            | (s5, Err e) => (s5, Err e)
                            | (s5, Panic p) => (s5, Panic p)
                            end
                        | (s3, Err e) => (s3, Err e)
                        | (s3, Panic p) => (s3, Panic p)
                        end
                    end
                | _ => (s2, Panic PGetPlain)
                end
            | Err e => (s2, Err e)
            | Panic p => (s2, Panic p)
            end
        | (s1, Err e) => (s1, Err e)
        | (s1, Panic p) => (s1, Panic p)
        end
    | Err e => (s0, Err e)
    | Panic p => (s0, Panic p)
    end.

  (* ---------- options and start_entry *)
  Record wopts := { o_method : CompressionMethod; o_level : option Z; o_time : DateTime; o_perm : option N;
                    o_large : bool; o_encrypt : option bytes }.

  Definition mk_wfile (name : bytes) (o : wopts) (raw : option (N * N * N)) (header_start : N) : wfile :=
    let '(rc, rcs, rus) := match raw with Some v => v | None => (0, 0, 0) end in
    let perm := match o_perm o with Some p => p | None => 33188 end in     (* 0o100644 *)
    {| w_system := 3; w_made_by := DEFAULT_VERSION; w_encrypted := opt_is_some (o_encrypt o);
       w_method := o_method o; w_level := o_level o; w_time := o_time o; w_crc := rc; w_csize := rcs; w_usize := rus;
       w_name := name; w_extra := []; w_header_start := header_start; w_data_start := 0;
       w_ext_attr := (perm * 65536) mod 2 ^ 32; w_large := o_large o |}.

  Definition start_entry (s : wstate) (name : bytes) (o : wopts) (raw : option (N * N * N)) : wstate * res unit :=
    if 65535 <? len name then (s, Err (EInvalid MTooLong)) else            (* fix D1 *)
    match finish_file s with
    | (s1, Ok _) =>
        match with_plain s1 dev_pos with
        | (s2, Ok header_start) =>
            let f := mk_wfile name o raw header_start in
            match local_header_chunks f with
            | Ok cs =>
                match with_plain s2 (fun d => dev_write_chunks d cs) with
                | (s3, Ok _) =>
                    match with_plain s3 dev_pos with
                    | (s4, Ok header_end) =>
                        let s5 := set_files (set_stats s4 header_end 0 []) (ws_files s4 ++ [wf_set_data_start f header_end]) in
                        match o_encrypt o with
                        | None => (s5, Ok tt)
                        | Some pw =>
                            match ws_inner s5 with
                            | WStorer d => (set_inner s5 (WEnc d (repeat x00 12) (zc_derive pw)), Ok tt)
                            | _ => (s5, Panic PUnwrapWriter)
                            end
                        end
                    | (s4, Err e) => (s4, Err e)
                    | (s4, Panic p) => (s4, Panic p)
                    end
                | (s3, Err e) => (s3, Err e)
                | (s3, Panic p) => (s3, Panic p)
                end
            | Err e => (s2, Err e)
            | Panic p => (s2, Panic p)
            end
        | (s2, Err e) => (s2, Err e)
        | (s2, Panic p) => (s2, Panic p)
        end
    | (s1, Err e) => (s1, Err e)
    | (s1, Panic p) => (s1, Panic p)
    end.

  Definition with_perm (o : wopts) (default kind : N) : wopts :=
    {| o_method := o_method o; o_level := o_level o; o_time := o_time o;
       o_perm := Some (N.lor (match o_perm o with Some p => p | None => default end) kind);
       o_large := o_large o; o_encrypt := o_encrypt o |}.
  Definition with_stored (o : wopts) : wopts :=
    {| o_method := CompressionMethod_Stored; o_level := o_level o; o_time := o_time o; o_perm := o_perm o;
       o_large := o_large o; o_encrypt := o_encrypt o |}.

  Definition start_file (s : wstate) (name : bytes) (o : wopts) : wstate * res unit :=
    let o' := with_perm o 420 32768 in                      (* 0o644 | 0o100000 *)
    match start_entry s name o' None with
    | (s1, Ok _) =>
        match switch_to s1 (o_method o') (o_level o') with
        | (s2, Ok _) => (set_flags s2 true (ws_to_extra s2) (ws_central_only s2) (ws_raw s2), Ok tt)
        | bad => bad
        end
    | bad => bad
    end.

  Definition start_file_with_extra_data (s : wstate) (name : bytes) (o : wopts) : wstate * res N :=
    let o' := with_perm o 420 32768 in
    match start_entry s name o' None with
    | (s1, Ok _) =>
        let s2 := set_flags s1 true true (ws_central_only s1) (ws_raw s1) in
        match last_file (ws_files s2) with
        | Some f => (s2, Ok (w_data_start f))
        | None => (s2, Panic PLastUnwrap)
        end
    | (s1, Err e) => (s1, Err e)
    | (s1, Panic p) => (s1, Panic p)
    end.

  Definition end_local_start_central (s : wstate) : wstate * res N :=
    match end_extra_data s with
    | (s1, Ok ds) =>
        (set_flags (set_files s1 (upd_last (ws_files s1) (fun g => wf_set_extra g []))) (ws_to_file s1) true true (ws_raw s1), Ok ds)
    | bad => bad
    end.

  (* ---------- ZipWriter::write (one call) and write_all *)
  Definition zw_write (s : wstate) (buf : bytes) : wstate * res N :=
    if negb (ws_to_file s) then (s, Err (EIo KOther INoFileStarted)) else
    match ws_inner s with
    | WClosed _ => (s, Err closed_err)
    | i =>
        if ws_to_extra s then
          (set_files s (upd_last (ws_files s) (fun g => wf_set_extra g (w_extra g ++ buf))), Ok (len buf))
        else
          let '(i', r) :=
            match i with
            | WStorer d => let '(d', r) := dev_write d buf in (WStorer d', r)
            | WEnc d b k => (WEnc d (b ++ buf) k, Ok (len buf))
            | WComp m l d e pending => (WComp m l d e (pending ++ buf), Ok (len buf))
            | WClosed l => (WClosed l, Err closed_err)
            end in
          match r with
          | Ok count =>
              let s1 := set_stats (set_inner s i') (ws_start s) (ws_written s + count) (ws_hashed s ++ take count buf) in
              let large := match last_file (ws_files s1) with Some f => w_large f | None => false end in
              if (ZIP64_BYTES_THR <? ws_written s1) && negb large
              then (set_inner s1 (close_of (ws_inner s1)), Err (EIo KOther ILargeFile))
              else (s1, Ok count)
          | Err e => (set_inner s i', Err e)
          | Panic p => (set_inner s i', Panic p)
          end
    end.

  Fixpoint zw_write_all_fuel (fuel : nat) (s : wstate) (buf : bytes) : wstate * res unit :=
    match buf with
    | [] => (s, Ok tt)
    | _ =>
        match fuel with
        | O => (s, Panic POutOfFuel)
        | S f =>
            match zw_write s buf with
            | (s1, Ok k) => if k =? 0 then (s1, Err (EIo KOther IWriteZero)) else zw_write_all_fuel f s1 (drop k buf)
            | (s1, Err e) => (s1, Err e)
            | (s1, Panic p) => (s1, Panic p)
            end
        end
    end.
  Definition zw_write_all (s : wstate) (buf : bytes) : wstate * res unit := zw_write_all_fuel (S (length buf)) s buf.

  (* ---------- start_file_aligned *)
  Definition start_file_aligned (s : wstate) (name : bytes) (o : wopts) (align : N) : wstate * res N :=
    match start_file_with_extra_data s name o with
    | (s1, Ok data_start) =>
        let '(s2, r2) :=
          if (1 <? align) && negb (data_start mod align =? 0) then
            let pad := (align - (data_start + 4) mod align) mod align in
            match zw_write_all s1 [x7a; x61] with
            | (sa, Ok _) =>
                match zw_write_all sa (le16 (pad mod 65536)) with
                | (sb, Ok _) =>
                    match zw_write_all sb (zeros pad) with
                    | (sc, Ok _) =>
                        match end_local_start_central sc with
                        | (sd, Ok ds) => if ds mod align =? 0 then (sd, Ok tt) else (sd, Panic PAlignAssert)
                        | (sd, Err e) => (sd, Err e)
                        | (sd, Panic p) => (sd, Panic p)
                        end
                    | bad => bad
                    end
                | bad => bad
                end
            | bad => bad
            end
          else (s1, Ok tt) in
        match r2 with
        | Ok _ =>
            match end_extra_data s2 with
            | (s3, Ok extra_end) => (s3, Ok (extra_end - data_start))
            | bad => bad
            end
        | Err e => (s2, Err e)
        | Panic p => (s2, Panic p)
        end
    | bad => bad
    end.

  (* ---------- add_directory / add_symlink *)
  Definition ends_sep (n : bytes) : bool :=
    match rev_append n [] with b :: _ => Byte.eqb b x2f || Byte.eqb b x5c | [] => false end.

  Definition add_directory (s : wstate) (name : bytes) (o : wopts) : wstate * res unit :=
    let o' := with_stored (with_perm o 493 16384) in               (* 0o755 | 0o40000 *)
    let name' := if ends_sep name then name else name ++ [x2f] in
    match start_entry s name' o' None with
    | (s1, Ok _) => (set_flags s1 false (ws_to_extra s1) (ws_central_only s1) (ws_raw s1), Ok tt)
    | bad => bad
    end.

  Definition add_symlink (s : wstate) (name target : bytes) (o : wopts) : wstate * res unit :=
    let o' := with_stored (with_perm o 511 40960) in               (* 0o777 | 0o120000 *)
    match start_entry s name o' None with
    | (s1, Ok _) =>
        match zw_write_all (set_flags s1 true (ws_to_extra s1) (ws_central_only s1) (ws_raw s1)) target with
        | (s2, Ok _) => (set_flags s2 false (ws_to_extra s2) (ws_central_only s2) (ws_raw s2), Ok tt)
        | bad => bad
        end
    | bad => bad
    end.

  (* ---------- raw_copy_file_rename: the source entry is given by its record and its raw bytes *)
  Definition raw_copy (s : wstate) (src : zfd) (rawbytes : bytes) (name : bytes) : wstate * res unit :=
    let o := {| o_method := f_method src; o_level := None; o_time := f_time src;
                o_perm := unix_mode src;                                   (* fix D18: the mode is kept unmasked *)
                o_large := ZIP64_BYTES_THR <? N.max (f_csize src) (f_usize src); o_encrypt := None |} in
    match start_entry s name o (Some (f_crc src, f_csize src, f_usize src)) with
    | (s1, Ok _) =>
        zw_write_all (set_flags s1 true (ws_to_extra s1) (ws_central_only s1) true) rawbytes
    | bad => bad
    end.

  (* ---------- finalize / finish / drop *)
  Fixpoint write_central_all (d : dev) (fs : list wfile) : dev * res unit :=
    match fs with
    | [] => (d, Ok tt)
    | f :: r =>
        match central_header_chunks f with
        | Ok cs => match dev_write_chunks d cs with
                   | (d1, Ok _) => write_central_all d1 r
                   | bad => bad
                   end
        | Err e => (d, Err e)
        | Panic p => (d, Panic p)
        end
    end.

  Definition end_records (nfiles central_start central_size : N) (comment : bytes) : list bytes :=
    (if (ZIP64_ENTRY_THR <? nfiles) || (ZIP64_BYTES_THR <? N.max central_size central_start) then
       [le32 ZIP64_CENTRAL_DIRECTORY_END_SIGNATURE; le64 44; le16 DEFAULT_VERSION; le16 DEFAULT_VERSION; le32 0; le32 0;
        le64 nfiles; le64 nfiles; le64 central_size; le64 central_start;
        le32 ZIP64_CENTRAL_DIRECTORY_END_LOCATOR_SIGNATURE; le32 0; le64 (central_start + central_size); le32 1]
     else [])
    ++ [le32 CENTRAL_DIRECTORY_END_SIGNATURE; le16 0; le16 0; le16 (N.min nfiles ZIP64_ENTRY_THR); le16 (N.min nfiles ZIP64_ENTRY_THR);
        le32 (N.min central_size ZIP64_BYTES_THR); le32 (N.min central_start ZIP64_BYTES_THR); le16 (len comment mod 65536); comment].

  (* write_central_and_footer: returns where the directory starts *)
  Definition write_cd_footer (files : list wfile) (comment : bytes) (d : dev) : dev * res N :=
    match dev_pos d with
    | (d1, Ok central_start) =>
        match write_central_all d1 files with
        | (d2, Ok _) =>
            match dev_pos d2 with
            | (d3, Ok cend) =>
                if cend <? central_start then (d3, Panic PArith) else
                match dev_write_chunks d3 (end_records (N.of_nat (length files)) central_start (cend - central_start) comment) with
                | (d4, Ok _) => (d4, Ok central_start)
                | (d4, Err e) => (d4, Err e)
                | (d4, Panic p) => (d4, Panic p)
                end
            | (d3, Err e) => (d3, Err e)
            | (d3, Panic p) => (d3, Panic p)
            end
        | (d2, Err e) => (d2, Err e)
        | (d2, Panic p) => (d2, Panic p)
        end
    | (d1, Err e) => (d1, Err e)
    | (d1, Panic p) => (d1, Panic p)
    end.

  Definition finalize (s : wstate) : wstate * res unit :=
    if 65535 <? len (ws_comment s) then (s, Err (EInvalid MTooLong)) else          (* fix D1 *)
    match finish_file s with
    | (s1, Ok _) =>
        with_plain s1 (fun d =>
          match write_cd_footer (ws_files s1) (ws_comment s1) d with
          | (d1, Ok central_start) =>
              match dev_pos d1 with
              | (d2, Ok footer_end) =>
                  match dev_seek_end d2 with
                  | (d3, Ok sink_end) =>
                      (* fix D19: stale bytes of an older, longer directory behind the end record: write the
                         directory and end records again so that they end where the sink ends *)
                      if footer_end <? sink_end then
                        if footer_end <? central_start then (d3, Panic PArith) else
                        match dev_seek d3 (sink_end - (footer_end - central_start)) with
                        | (d4, Ok _) =>
                            match write_cd_footer (ws_files s1) (ws_comment s1) d4 with
                            | (d5, Ok _) => (d5, Ok tt)
                            | (d5, Err e) => (d5, Err e)
                            | (d5, Panic p) => (d5, Panic p)
                            end
                        | bad => bad
                        end
                      else (d3, Ok tt)
                  | (d3, Err e) => (d3, Err e)
                  | (d3, Panic p) => (d3, Panic p)
                  end
              | (d2, Err e) => (d2, Err e)
              | (d2, Panic p) => (d2, Panic p)
              end
          | (d1, Err e) => (d1, Err e)
          | (d1, Panic p) => (d1, Panic p)
          end)
    | bad => bad
    end.

  (* finish(): finalize, then the writer is closed and the sink handed back *)
  Definition finish (s : wstate) : wstate * res bytes :=
    match finalize s with
    | (s1, Ok _) =>
        match ws_inner s1 with
        | WStorer d => (set_inner s1 (WClosed (Some d)), Ok (d_buf d))
        | _ => (s1, Panic PUnwrapWriter)
        end
    | (s1, Err e) => (s1, Err e)
    | (s1, Panic p) => (s1, Panic p)
    end.

  (* Drop: finalize unless already closed; errors are only printed.  When finalisation fails while a
     deflate/bzip2 encoder is still active, the encoder's own Drop finishes its stream into the sink
     (flate2 and bzip2 do, zstd does not); errors of that write are ignored. *)
  Definition drop_inner (i : winner) : winner :=
    match i with
    | WComp m lvl d None pending =>
        match m with
        | CompressionMethod_Deflated | CompressionMethod_Bzip2 => WClosed (Some (fst (dev_write_all d (enc m lvl pending))))
        | _ => WClosed (Some d)
        end
    | other => close_of other
    end.

  Definition drop_writer (s : wstate) : wstate * res unit :=
    match ws_inner s with
    | WClosed _ => (s, Ok tt)
    | _ => match finalize s with
           | (s1, Panic p) => (s1, Panic p)
           | (s1, _) => (set_inner s1 (drop_inner (ws_inner s1)), Ok tt)
           end
    end.

  (* the bytes in the sink, whatever the state *)
  Definition sink_bytes (s : wstate) : option bytes :=
    match dev_of (ws_inner s) with Some d => Some (d_buf d) | None => None end.

  (* ---------- new_append *)
  Definition wfile_of_zfd (f : zfd) : wfile :=
    {| w_system := System_to_N (f_system f); w_made_by := f_made_by f; w_encrypted := f_encrypted f; w_method := f_method f;
       w_level := None; w_time := f_time f; w_crc := f_crc f; w_csize := f_csize f; w_usize := f_usize f;
       w_name := f_name f; w_extra := f_extra f; w_header_start := f_header_start f; w_data_start := 0;
       w_ext_attr := f_ext_attr f; w_large := f_large f |}.

  Definition new_append (data : bytes) (plan : list wev) : res wstate :=
    let* (e, cde_pos) := find_eocd data in
    if negb (e_disk e =? e_disk_cd e) then Err (EUnsupported MMultiDisk) else
    let* (archive_offset, directory_start, n) := get_directory_counts data e cde_pos in
    if cde_pos <? directory_start then Err (EInvalid MInvalidCdSizeOrOffset) else      (* fix D15 *)
    let* files := parse_cd (S (length data)) data n directory_start archive_offset in
    Ok {| ws_inner := WStorer {| d_buf := data; d_pos := directory_start; d_plan := plan |};
          ws_files := map wfile_of_zfd files; ws_start := 0; ws_written := 0; ws_hashed := [];
          ws_to_file := false; ws_to_extra := false; ws_central_only := false; ws_raw := true;
          ws_comment := e_comment e |}.
End Writer.
