(* Model/Reader.v — the seekable reader over an in-memory byte string (Cursor<Vec<u8>> semantics):
   spec.rs CentralDirectoryEnd::find_and_parse, Zip64 locator/record, read.rs get_directory_counts,
   ZipArchive::new, central_header_to_zip_file(_inner), parse_extra_field (with its progressive
   mutation and swallowed Io errors), find_content, make_crypto_reader, make_reader, by_index*.
   Every panic site of the Rust is a [Panic] outcome here. *)
From ZipV Require Import Base.Bytes Base.Outcome Gen.GenLib Gen.SpecGen Gen.CompressionGen Gen.TypesGen
     Gen.ZipCryptoGen Gen.AesGen Model.Cp437 Model.Readers.
Open Scope N_scope.

Definition eof_err : err := EIo KUnexpectedEof IFillBuffer.

(* read_exact of k bytes at absolute position pos of a Cursor *)
Definition rd_at (data : bytes) (pos k : N) : res bytes :=
  if pos + k <=? len data then Ok (take k (drop pos data)) else Err eof_err.
Definition u16_at data pos := let* b := rd_at data pos 2 in Ok (unle b).
Definition u32_at data pos := let* b := rd_at data pos 4 in Ok (unle b).
Definition u64_at data pos := let* b := rd_at data pos 8 in Ok (unle b).

(* ---------- end of central directory *)
Record eocd := { e_disk : N; e_disk_cd : N; e_n_disk : N; e_n : N; e_cd_size : N; e_cd_off : N; e_comment : bytes }.

Definition eocd_gen (e : eocd) : CentralDirectoryEnd :=
  {| CentralDirectoryEnd_disk_number := e_disk e; CentralDirectoryEnd_disk_with_central_directory := e_disk_cd e;
     CentralDirectoryEnd_number_of_files_on_this_disk := e_n_disk e; CentralDirectoryEnd_number_of_files := e_n e;
     CentralDirectoryEnd_central_directory_size := e_cd_size e; CentralDirectoryEnd_central_directory_offset := e_cd_off e |}.
Definition record_too_small (e : eocd) : bool := CentralDirectoryEnd_record_too_small (eocd_gen e).

Definition parse_eocd (data : bytes) (pos : N) : res eocd :=
  let* magic := u32_at data pos in
  if negb (magic =? CENTRAL_DIRECTORY_END_SIGNATURE) then Err (EInvalid MInvalidSignatureHeader) else
  let* d := u16_at data (pos + 4) in
  let* dc := u16_at data (pos + 6) in
  let* nd := u16_at data (pos + 8) in
  let* n := u16_at data (pos + 10) in
  let* sz := u32_at data (pos + 12) in
  let* off := u32_at data (pos + 16) in
  let* cl := u16_at data (pos + 20) in
  let* c := rd_at data (pos + 22) cl in
  Ok {| e_disk := d; e_disk_cd := dc; e_n_disk := nd; e_n := n; e_cd_size := sz; e_cd_off := off; e_comment := c |}.

Definition starts_with_sig (bs : bytes) (sig : N) : bool :=
  match bs with
  | b0 :: b1 :: b2 :: b3 :: _ => unle [b0; b1; b2; b3] =? sig
  | _ => false
  end.

(* highest position p in [off, limit] at which the signature occurs, scanning the tail once *)
Fixpoint last_sig (tl : bytes) (off limit : N) (sig : N) (best : option N) : option N :=
  match tl with
  | [] => best
  | _ :: r =>
      let best' := if (off <=? limit) && starts_with_sig tl sig then Some off else best in
      last_sig r (off + 1) limit sig best'
  end.

Definition find_eocd (data : bytes) : res (eocd * N) :=
  let file_length := len data in
  let bound := file_length - (22 + 65535) in
  if file_length <? 22 then Err (EInvalid MInvalidZipHeader) else
  match last_sig (drop bound data) bound (file_length - 22) CENTRAL_DIRECTORY_END_SIGNATURE None with
  | Some pos => let* e := parse_eocd data pos in Ok (e, pos)
  | None => Err (EInvalid MNoCde)
  end.

(* ---------- ZIP64 locator and record *)
Record z64loc := { l_disk_cd : N; l_off : N; l_disks : N }.
Record z64eocd := { z_made : N; z_need : N; z_disk : N; z_disk_cd : N; z_n_disk : N; z_n : N; z_cd_size : N; z_cd_off : N }.

(* first position p in [off, limit] at which the signature occurs *)
Fixpoint first_sig (tl : bytes) (off limit : N) (sig : N) : option N :=
  match tl with
  | [] => None
  | _ :: r =>
      if limit <? off then None
      else if starts_with_sig tl sig then Some off
      else first_sig r (off + 1) limit sig
  end.

Definition find_z64 (data : bytes) (nominal upper : N) : res (z64eocd * N) :=
  match first_sig (drop nominal data) nominal upper ZIP64_CENTRAL_DIRECTORY_END_SIGNATURE with
  | None => Err (EInvalid MNoZip64Cde)
  | Some pos =>
      let* _ := u64_at data (pos + 4) in
      let* made := u16_at data (pos + 12) in
      let* need := u16_at data (pos + 14) in
      let* d := u32_at data (pos + 16) in
      let* dc := u32_at data (pos + 20) in
      let* nd := u64_at data (pos + 24) in
      let* n := u64_at data (pos + 32) in
      let* sz := u64_at data (pos + 40) in
      let* off := u64_at data (pos + 48) in
      Ok ({| z_made := made; z_need := need; z_disk := d; z_disk_cd := dc; z_n_disk := nd; z_n := n;
             z_cd_size := sz; z_cd_off := off |}, pos - nominal)
  end.

Definition get_directory_counts (data : bytes) (e : eocd) (cde_pos : N) : res (N * N * N) :=
  let back := 20 + 22 + len (e_comment e) in
  let* loc :=
    if back <=? len data then
      let lp := len data - back in
      match u32_at data lp with
      | Ok magic =>
          if negb (magic =? ZIP64_CENTRAL_DIRECTORY_END_LOCATOR_SIGNATURE) then Ok None
          else
            let* dc := u32_at data (lp + 4) in
            let* off := u64_at data (lp + 8) in
            let* nd := u32_at data (lp + 16) in
            Ok (Some {| l_disk_cd := dc; l_off := off; l_disks := nd |})
      | Err e => Err e
      | Panic p => Panic p
      end
    else Ok None in
  match loc with
  | None =>
      if e_cd_size e + e_cd_off e <=? cde_pos then
        let archive_offset := cde_pos - e_cd_size e - e_cd_off e in
        Ok (archive_offset, e_cd_off e + archive_offset, e_n_disk e)
      else Err (EInvalid MInvalidCdSizeOrOffset)
  | Some l =>
      if negb (record_too_small e) && negb (e_disk e =? l_disk_cd l) then Err (EUnsupported MMultiDisk) else
      if cde_pos <? 60 then Err (EInvalid MNoZip64Room) else
      let* (z, archive_offset) := find_z64 data (l_off l) (cde_pos - 60) in
      if negb (z_disk z =? z_disk_cd z) then Err (EUnsupported MMultiDisk) else
      if fits 64 (z_cd_off z + archive_offset)
      then Ok (archive_offset, z_cd_off z + archive_offset, z_n z)
      else Err (EInvalid MInvalidCdSizeOrOffset)
  end.

(* ---------- per-file data *)
Record zfd := {
  f_system : System; f_made_by : N; f_encrypted : bool; f_dd : bool; f_utf8 : bool;
  f_method : CompressionMethod; f_time : DateTime; f_crc : N; f_csize : N; f_usize : N;
  f_name : bytes; f_name_raw : bytes; f_extra : bytes; f_comment : bytes;
  f_header_start : N; f_central_start : N; f_ext_attr : N; f_large : bool;
  f_aes : option (AesMode * N)            (* mode, vendor version 1|2 *)
}.

Definition set_sizes (f : zfd) (us cs hs : N) (large : bool) : zfd :=
  {| f_system := f_system f; f_made_by := f_made_by f; f_encrypted := f_encrypted f; f_dd := f_dd f; f_utf8 := f_utf8 f;
     f_method := f_method f; f_time := f_time f; f_crc := f_crc f; f_csize := cs; f_usize := us;
     f_name := f_name f; f_name_raw := f_name_raw f; f_extra := f_extra f; f_comment := f_comment f;
     f_header_start := hs; f_central_start := f_central_start f; f_ext_attr := f_ext_attr f; f_large := large;
     f_aes := f_aes f |}.
Definition set_aes (f : zfd) (a : AesMode * N) (m : CompressionMethod) : zfd :=
  {| f_system := f_system f; f_made_by := f_made_by f; f_encrypted := f_encrypted f; f_dd := f_dd f; f_utf8 := f_utf8 f;
     f_method := m; f_time := f_time f; f_crc := f_crc f; f_csize := f_csize f; f_usize := f_usize f;
     f_name := f_name f; f_name_raw := f_name_raw f; f_extra := f_extra f; f_comment := f_comment f;
     f_header_start := f_header_start f; f_central_start := f_central_start f; f_ext_attr := f_ext_attr f;
     f_large := f_large f; f_aes := Some a |}.

(* parse_extra_field: returns the (progressively mutated) file and how the walk ended.
   [Err (EIo ..)] results are swallowed by both callers, other errors abort the entry. *)
Definition ex_u (ex : bytes) (pos k : N) : res N := let* b := rd_at ex pos k in Ok (unle b).

(* ZIP64 extended information: each field is read only when its 32-bit value is the sentinel, in the
   fixed order usize, csize, header offset; a failed read keeps the mutations made so far *)
Definition z64_step (ex : bytes) (acc : zfd * N * option err) (which : N) : zfd * N * option err :=
  let '(g, p, e) := acc in
  match e with Some _ => acc | None =>
    let cur := if which =? 0 then f_usize g else if which =? 1 then f_csize g else f_header_start g in
    if cur =? ZIP64_BYTES_THR then
      let g1 := if which =? 2 then g else set_sizes g (f_usize g) (f_csize g) (f_header_start g) true in
      match ex_u ex p 8 with
      | Ok v =>
          let g2 := if which =? 0 then set_sizes g1 v (f_csize g1) (f_header_start g1) (f_large g1)
                    else if which =? 1 then set_sizes g1 (f_usize g1) v (f_header_start g1) (f_large g1)
                    else set_sizes g1 (f_usize g1) (f_csize g1) v (f_large g1) in
          (g2, p + 8, None)
      | Err er => (g1, p, Some er)
      | Panic _ => acc
      end
    else acc
  end.
Definition z64_fields (ex : bytes) (f : zfd) (p0 : N) : zfd * N * option err :=
  z64_step ex (z64_step ex (z64_step ex (f, p0, None) 0) 1) 2.

Inductive aes_parse := AesOk (a : AesMode * N) (m : CompressionMethod) | AesErr (e : err).
Definition aes_field (ex : bytes) (p0 : N) : aes_parse :=
  match ex_u ex p0 2, ex_u ex (p0 + 2) 2, ex_u ex (p0 + 4) 1, ex_u ex (p0 + 5) 2 with
  | Ok vv, Ok vid, Ok mode, Ok cm =>
      if negb (vid =? 17729) then AesErr (EInvalid MAesVendor) else     (* 0x4541 *)
      if negb ((vv =? 1) || (vv =? 2)) then AesErr (EInvalid MAesVendorVersion) else
      if negb ((1 <=? mode) && (mode <=? 3)) then AesErr (EInvalid MAesStrength) else
      let am := if mode =? 1 then AesMode_Aes128 else if mode =? 2 then AesMode_Aes192 else AesMode_Aes256 in
      AesOk (am, vv) (CompressionMethod_from_u16 cm)
  | Err er, _, _, _ => AesErr er
  | _, Err er, _, _ => AesErr er
  | _, _, Err er, _ => AesErr er
  | _, _, _, Err er => AesErr er
  | _, _, _, _ => AesErr eof_err       (* unreachable: ex_u never panics *)
  end.

Fixpoint parse_extra (fuel : nat) (f : zfd) (pos : N) : zfd * res unit :=
  let ex := f_extra f in
  if len ex <=? pos then (f, Ok tt) else
  match fuel with
  | O => (f, Panic POutOfFuel)
  | S fuel' =>
      match ex_u ex pos 2 with
      | Err er => (f, Err er)
      | Panic p => (f, Panic p)
      | Ok kind =>
      match ex_u ex (pos + 2) 2 with
      | Err er => (f, Err er)
      | Panic p => (f, Panic p)
      | Ok flen =>
          let p0 := pos + 4 in
          if kind =? 1 then
            let '(g, p, e) := z64_fields ex f p0 in
            match e with
            | Some er => (g, Err er)
            | None =>
                (* len_left = flen - consumed is a signed quantity in the source: skip only when positive *)
                let consumed := p - p0 in
                let next := if consumed <? flen then p + (flen - consumed) else p in
                parse_extra fuel' g next
            end
          else if kind =? 39169 then     (* 0x9901 AES *)
            if negb (flen =? 7) then (f, Err (EUnsupported MAesExtraLen)) else
            match aes_field ex p0 with
            | AesErr er => (f, Err er)
            | AesOk a m =>
                (* len_left is still 7 here: the cursor is moved 7 further bytes (faithful to the source) *)
                parse_extra fuel' (set_aes f a m) (p0 + 7 + 7)
            end
          else parse_extra fuel' f (p0 + flen)
      end end
  end.

Definition parse_extra_field (f : zfd) : zfd * res unit :=
  parse_extra (S (N.to_nat (len (f_extra f)))) f 0.

Definition is_io (e : err) : bool := match e with EIo _ _ => true | _ => false end.

(* central_header_to_zip_file at absolute position pos; returns the file and the next position *)
Definition parse_central (data : bytes) (pos archive_offset : N) : res (zfd * N) :=
  let* sig := u32_at data pos in
  if negb (sig =? CENTRAL_DIRECTORY_HEADER_SIGNATURE) then Err (EInvalid MInvalidCdHeader) else
  let* made := u16_at data (pos + 4) in
  let* _ := u16_at data (pos + 6) in
  let* flags := u16_at data (pos + 8) in
  let* method := u16_at data (pos + 10) in
  let* mtime := u16_at data (pos + 12) in
  let* mdate := u16_at data (pos + 14) in
  let* crc := u32_at data (pos + 16) in
  let* cs := u32_at data (pos + 20) in
  let* us := u32_at data (pos + 24) in
  let* nl := u16_at data (pos + 28) in
  let* el := u16_at data (pos + 30) in
  let* cl := u16_at data (pos + 32) in
  let* _ := u16_at data (pos + 34) in
  let* _ := u16_at data (pos + 36) in
  let* attr := u32_at data (pos + 38) in
  let* off := u32_at data (pos + 42) in
  let* name := rd_at data (pos + 46) nl in
  let* extra := rd_at data (pos + 46 + nl) el in
  let* comment := rd_at data (pos + 46 + nl + el) cl in
  let utf8 := N.testbit flags 11 in
  let* dt := of_opt (DateTime_from_msdos mdate mtime) PArith in
  let f0 := {| f_system := System_from_u8 (cast 8 (N.shiftr made 8)); f_made_by := cast 8 made;
               f_encrypted := N.testbit flags 0; f_dd := N.testbit flags 3; f_utf8 := utf8;
               f_method := CompressionMethod_from_u16 method; f_time := dt; f_crc := crc; f_csize := cs; f_usize := us;
               f_name := decode_text utf8 name; f_name_raw := name; f_extra := extra;
               f_comment := decode_text utf8 comment; f_header_start := off; f_central_start := pos;
               f_ext_attr := attr; f_large := false; f_aes := None |} in
  let '(f1, r) := parse_extra_field f0 in
  let* _ := match r with
            | Ok _ => Ok tt
            | Err e => if is_io e then Ok tt else Err e
            | Panic p => Panic p
            end in
  if CompressionMethod_eqb (f_method f1) CompressionMethod_Aes && opt_is_none (f_aes f1)
  then Err (EInvalid MAesNoExtra) else
  if fits 64 (f_header_start f1 + archive_offset)
  then Ok (set_sizes f1 (f_usize f1) (f_csize f1) (f_header_start f1 + archive_offset) (f_large f1),
           pos + 46 + nl + el + cl)
  else Err (EInvalid MHeaderTooLarge).

Fixpoint parse_cd (fuel : nat) (data : bytes) (n pos archive_offset : N) : res (list zfd) :=
  if n =? 0 then Ok [] else
  match fuel with
  | O => Panic POutOfFuel
  | S fuel' =>
      let* (f, pos') := parse_central data pos archive_offset in
      let* rest := parse_cd fuel' data (n - 1) pos' archive_offset in
      Ok (f :: rest)
  end.

Record archive := { ar_data : bytes; ar_files : list zfd; ar_offset : N; ar_comment : bytes }.

Definition open (data : bytes) : res archive :=
  let* (e, cde_pos) := find_eocd data in
  if negb (record_too_small e) && negb (e_disk e =? e_disk_cd e) then Err (EUnsupported MMultiDisk) else
  let* (archive_offset, directory_start, n) := get_directory_counts data e cde_pos in
  let* files := parse_cd (S (length data)) data n directory_start archive_offset in
  Ok {| ar_data := data; ar_files := files; ar_offset := archive_offset; ar_comment := e_comment e |}.

(* what Vec::with_capacity is asked for, in entries (C05: bounded by the input length) *)
Definition prealloc_entries (n cde_pos : N) : N := if cde_pos <? n then 0 else n.

(* name -> index map: later duplicates overwrite earlier ones *)
Fixpoint find_last_name (files : list zfd) (i : N) (name : bytes) (best : option N) : option N :=
  match files with
  | [] => best
  | f :: r => find_last_name r (i + 1) name (if bytes_eqb (f_name f) name then Some i else best)
  end.
Definition index_of_name (ar : archive) (name : bytes) : option N := find_last_name (ar_files ar) 0 name None.

(* ---------- find_content *)
Definition find_content (data : bytes) (f : zfd) : res (N * take_st src) :=
  let hs := f_header_start f in
  let* sig := u32_at data hs in
  if negb (sig =? LOCAL_FILE_HEADER_SIGNATURE) then Err (EInvalid MInvalidLocalHeader) else
  let* nl := u16_at data (hs + 26) in
  let* el := u16_at data (hs + 28) in
  let* ds := of_opt (add_chk 64 (hs + 30 + nl) el) PFindContentAdd in
  Ok (ds, {| t_inner := {| s_data := drop ds data; s_plan := [] |}; t_limit := f_csize f |}).

(* ---------- crypto layer selection (make_crypto_reader) *)
Section Crypto.
  Variable kdf : bytes -> bytes -> N -> bytes.   (* PBKDF2-HMAC-SHA1, 1000 iterations: password, salt, length *)
  Variable blk : bytes -> bytes -> bytes.
  Variable mac : bytes -> bytes -> bytes.

  Definition tsrc_read : reader (take_st src) := take_read src_read.

  Inductive crypto :=
  | CPlain (s : take_st src)
  | CZip (s : zc_st (take_st src))
  | CAes (s : aes_st (I := take_st src)) (ae2 : bool).

  Definition crypto_read (c : crypto) (n : N) : res (bytes * crypto) :=
    match c with
    | CPlain s => let* (b, s') := tsrc_read s n in Ok (b, CPlain s')
    | CZip s => let* (b, s') := zc_read tsrc_read s n in Ok (b, CZip s')
    | CAes s v => let* (b, s') := aes_read blk mac tsrc_read s n in Ok (b, CAes s' v)
    end.

  (* after fix D3: the AES marker is rejected like an unknown method *)
  Definition is_unsupported (m : CompressionMethod) : bool :=
    match m with CompressionMethod_Unsupported _ | CompressionMethod_Aes => true | _ => false end.

  Definition aes_overhead (m : AesMode) : N := PWD_VERIFY_LENGTH + AUTH_CODE_LENGTH + AesMode_key_length m / 2.

  (* Ok (Some c) = reader; Ok None = InvalidPassword *)
  Definition make_crypto_reader (f : zfd) (s : take_st src) (password : option bytes) : res (option crypto) :=
    if is_unsupported (f_method f) then Err (EUnsupported MMethodNotSupported) else
    match password, f_aes f with
    | Some pw, Some (mode, vv) =>
        let klen := AesMode_key_length mode in
        let slen := klen / 2 in
        if f_csize f <? aes_overhead mode then Err (EInvalid MAesTooShort) else     (* fix D4 *)
        let data_length := f_csize f - aes_overhead mode in
        let* (salt, s1) := read_exact tsrc_read s slen in
        let* (pv, s2) := read_exact tsrc_read s1 2 in
        let dk := kdf pw salt (2 * klen + 2) in
        if negb (bytes_eqb pv (drop (2 * klen) dk)) then Ok None else
        Ok (Some (CAes {| a_inner := s2; a_remaining := data_length; a_ctr := ctr_init (take klen dk);
                          a_hkey := take klen (drop klen dk); a_seen := []; a_final := false |} (vv =? 2)))
    | Some pw, None =>
        let check := if f_dd f then N.shiftr (DateTime_timepart (f_time f)) 8 else N.shiftr (f_crc f) 24 in
        let* v := zc_validate tsrc_read s pw check in
        match v with None => Ok None | Some z => Ok (Some (CZip z)) end
    | None, Some _ => Ok None
    | None, None => Ok (Some (CPlain s))
    end.

  Definition by_index_opt (ar : archive) (i : N) (password : option bytes) : res (option (zfd * N * crypto)) :=
    match nth_error (ar_files ar) (N.to_nat i) with
    | None => Err ENotFound
    | Some f =>
        if opt_is_none password && f_encrypted f then Err (EUnsupported MPasswordRequired) else
        let password := if f_encrypted f then password else None in
        let* (ds, s) := find_content (ar_data ar) f in
        let* c := make_crypto_reader f s password in
        match c with None => Ok None | Some c => Ok (Some (f, ds, c)) end
    end.

  (* by_index / by_name: the InvalidPassword result is now an error (fix D2), formerly an unwrap panic *)
  Definition by_index (ar : archive) (i : N) : res (zfd * N * crypto) :=
    let* r := by_index_opt ar i None in
    match r with Some x => Ok x | None => Err (EUnsupported MPasswordRequired) end.

  (* ---------- the entry reader (make_reader): Crc32Reader outermost on every decoder arm *)
  Variable crc : bytes -> N.

  Definition ae2_of (c : crypto) : bool := match c with CAes _ v => v | _ => false end.

  Definition stored_st := crc_st crypto.
  Definition make_stored (f : zfd) (c : crypto) : stored_st :=
    {| k_inner := c; k_seen := []; k_check := f_crc f; k_ae2 := ae2_of c |}.
  Definition stored_read : reader stored_st := crc_read crc crypto_read.
  (* ZipFile::read (after fix D13): an empty buffer never reaches the decoder stack *)
  Definition zipfile_read : reader stored_st := fun s n => if n =? 0 then Ok ([], s) else stored_read s n.

  Definition method_supported (m : CompressionMethod) : bool :=
    match m with
    | CompressionMethod_Stored | CompressionMethod_Deflated | CompressionMethod_Bzip2 | CompressionMethod_Zstd => true
    | _ => false
    end.
End Crypto.

(* entry metadata as the accessors present it: the generated (translated) functions of src/types.rs
   are applied to the translated view of the record *)
Definition zfd_gen (f : zfd) : ZipFileData :=
  {| ZipFileData_system := f_system f; ZipFileData_version_made_by := f_made_by f;
     ZipFileData_encrypted := f_encrypted f; ZipFileData_using_data_descriptor := f_dd f;
     ZipFileData_compression_method := f_method f; ZipFileData_last_modified_time := f_time f;
     ZipFileData_crc32 := f_crc f; ZipFileData_compressed_size := f_csize f;
     ZipFileData_uncompressed_size := f_usize f; ZipFileData_header_start := f_header_start f;
     ZipFileData_central_header_start := f_central_start f; ZipFileData_external_attributes := f_ext_attr f;
     ZipFileData_large_file := f_large f |}.
Definition unix_mode (f : zfd) : option N := ZipFileData_unix_mode (zfd_gen f).
