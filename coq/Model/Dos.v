(* Model/Dos.v — hand model of the calendar conversions of src/types.rs
   (DateTime::to_time, TryFrom<OffsetDateTime>), which call the `time` crate.
   The `time` crate's validity rules are *defined* here (Gregorian leap rule, hour<=23,
   minute<=59, second<=59) and compared with the crate by the correspondence run. *)
From ZipV Require Import Base.Bytes Base.Outcome Gen.GenLib Gen.TypesGen.
Open Scope N_scope.

Definition is_leap (y : N) : bool :=
  ((y mod 4 =? 0) && negb (y mod 100 =? 0)) || (y mod 400 =? 0).

Definition days_in_month (y m : N) : N :=
  if (m =? 2) then (if is_leap y then 29 else 28)
  else if (m =? 4) || (m =? 6) || (m =? 9) || (m =? 11) then 30 else 31.

Definition valid_date (y m d : N) : bool :=
  (1 <=? m) && (m <=? 12) && (1 <=? d) && (d <=? days_in_month y m).

(* days since 1970-01-01 for a date with y >= 1 (H. Hinnant's days_from_civil, era >= 0) *)
Definition days_from_civil (y m d : N) : N :=
  let y' := if m <=? 2 then y - 1 else y in
  let era := y' / 400 in
  let yoe := y' - era * 400 in
  let mp := if 2 <? m then m - 3 else m + 9 in
  let doy := (153 * mp + 2) / 5 + d - 1 in
  let doe := yoe * 365 + yoe / 4 - yoe / 100 + doy in
  era * 146097 + doe - 719468.

Definition civil_from_days (z0 : N) : N * N * N :=
  let z := z0 + 719468 in
  let era := z / 146097 in
  let doe := z - era * 146097 in
  let yoe := (doe - doe / 1460 + doe / 36524 - doe / 146096) / 365 in
  let y := yoe + era * 400 in
  let doy := doe - (365 * yoe + yoe / 4 - yoe / 100) in
  let mp := (5 * doy + 2) / 153 in
  let d := doy - (153 * mp + 2) / 5 + 1 in
  let m := if mp <? 10 then mp + 3 else mp - 9 in
  (if m <=? 2 then y + 1 else y, m, d).

(* DateTime::to_time: Ok(unix seconds, UTC) or Err(ComponentRange) = None *)
Definition to_time (dt : DateTime) : option N :=
  if valid_date (DateTime_year dt) (DateTime_month dt) (DateTime_day dt)
     && (DateTime_hour dt <=? 23) && (DateTime_minute dt <=? 59) && (DateTime_second dt <=? 59)
  then Some (days_from_civil (DateTime_year dt) (DateTime_month dt) (DateTime_day dt) * 86400
             + DateTime_hour dt * 3600 + DateTime_minute dt * 60 + DateTime_second dt)
  else None.

(* DateTime::try_from(OffsetDateTime) for a UTC instant given as unix seconds >= 0 *)
Definition try_from_unix (ts : N) : option DateTime :=
  let days := ts / 86400 in
  let sod := ts mod 86400 in
  let '(y, m, d) := civil_from_days days in
  if (1980 <=? y) && (y <=? 2107) then
    Some {| DateTime_year := y; DateTime_month := m; DateTime_day := d;
            DateTime_hour := sod / 3600; DateTime_minute := (sod mod 3600) / 60;
            DateTime_second := sod mod 60 |}
  else None.

Definition DateTime_default : DateTime :=
  {| DateTime_year := 1980; DateTime_month := 1; DateTime_day := 1;
     DateTime_hour := 0; DateTime_minute := 0; DateTime_second := 0 |}.
