(* Model/Path.v — ZipFileData::{enclosed_name, file_name_sanitized} (src/types.rs:356-398).
   Names are the UTF-8 bytes of the decoded file_name; '/', '\', '.', NUL are ASCII, so the
   byte-level model is exact for every Rust String. *)
From ZipV Require Import Base.Bytes Spec.PathSpec.
Open Scope N_scope.

Definition has_nul (n : bytes) : bool := existsb (Byte.eqb nul) n.

(* the component loop with its checked depth counter *)
Fixpoint depth_walk (depth : N) (cs : list comp) : bool :=
  match cs with
  | [] => true
  | RootDir :: _ => false
  | ParentDir :: r => if depth =? 0 then false else depth_walk (depth - 1) r
  | Normal _ :: r => depth_walk (depth + 1) r
  | CurDir :: r => depth_walk depth r
  end.

Definition enclosed_name (n : bytes) : option bytes :=
  if has_nul n then None
  else if depth_walk 0 (components n) then Some n else None.

Fixpoint until_nul (n : bytes) : bytes :=
  match n with
  | [] => []
  | b :: r => if Byte.eqb b nul then [] else b :: until_nul r
  end.

Definition slashify (n : bytes) : bytes :=
  map (fun b => if Byte.eqb b backslash then slash else b) n.

Definition mangled_name (n : bytes) : bytes :=
  join slash (normals (components (slashify (until_nul n)))).
