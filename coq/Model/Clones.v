(* Model/Clones.v — several handles on one archive (ZipArchive::clone).
   Rust: a clone shares the parsed metadata (Arc<Shared>) and owns a clone of the reader.  The only mutable
   datum reachable from two handles is each entry's data start (an atomic, 0 = not yet known), stored by
   find_content on every successful local-header parse and loaded only by the data_start() accessor.  The model: one shared cache + per-handle state (the entry reader currently open, whose
   position lives in the handle's own reader). *)
From Coq Require Import ZArith.
From ZipV Require Import Base.Bytes Base.Outcome Gen.GenLib Gen.CompressionGen Model.Readers Model.Reader.
Open Scope N_scope.

Section Clones.
  Variable kdf : bytes -> bytes -> N -> bytes.
  Variable blk : bytes -> bytes -> bytes.
  Variable mac : bytes -> bytes -> bytes.
  Variable crc : bytes -> N.

  Definition cache := list (option N).
  Fixpoint cache_get (c : cache) (i : nat) : option N :=
    match c, i with
    | [], _ => None
    | v :: _, O => v
    | _ :: r, S j => cache_get r j
    end.
  Fixpoint cache_set (c : cache) (i : nat) (v : N) : cache :=
    match c, i with
    | [], O => [Some v]
    | [], S j => None :: cache_set [] j v
    | _ :: r, O => Some v :: r
    | x :: r, S j => x :: cache_set r j v
    end.

  (* find_content never consults the cache (it re-parses the local header on every open); it only STORES the
     data start it computed, and ZipFile::data_start() LOADS it *)
  Definition data_start_accessor (c : cache) (i : nat) : N := match cache_get c i with Some v => v | None => 0 end.

  Inductive hentry :=
  | HNone                                   (* no entry open on this handle *)
  | HStored (st : stored_st)        (* an entry whose bytes the model can produce *)
  | HOpaque.                                (* a compressed entry: opened, content outside the model *)

  Inductive cop := COpen (i : N) (pw : option bytes) | CRead (n : N) | CClose.

  Inductive cobs :=
  | OOpened (f : zfd) (ds : N) | OBadPassword | OFail (e : err) | OPanic (p : panic_site)
  | OData (b : bytes) | OOpaque | ONoEntry | OClosed.

  (* one API call on one handle: new cache, new handle state, observation *)
  Definition cstep (ar : archive) (c : cache) (h : hentry) (op : cop) : cache * hentry * cobs :=
    match op with
    | COpen i pw =>
        match nth_error (ar_files ar) (N.to_nat i) with
        | None => (c, HNone, OFail ENotFound)
        | Some f =>
            if opt_is_none pw && f_encrypted f then (c, HNone, OFail (EUnsupported MPasswordRequired)) else
            let pw' := if f_encrypted f then pw else None in
            match find_content (ar_data ar) f with
            | Err e => (c, HNone, OFail e)
            | Panic p => (c, HNone, OPanic p)
            | Ok (ds, s) =>
                let c' := cache_set c (N.to_nat i) ds in
                match make_crypto_reader kdf f s pw' with
                | Err e => (c', HNone, OFail e)
                | Panic p => (c', HNone, OPanic p)
                | Ok None => (c', HNone, match pw with None => OFail (EUnsupported MPasswordRequired) | Some _ => OBadPassword end)
                | Ok (Some cr) =>
                    if CompressionMethod_eqb (f_method f) CompressionMethod_Stored
                    then (c', HStored (make_stored f cr), OOpened f (data_start_accessor c' (N.to_nat i)))
                    else (c', HOpaque, OOpened f (data_start_accessor c' (N.to_nat i)))
                end
            end
        end
    | CRead n =>
        match h with
        | HNone => (c, HNone, ONoEntry)
        | HOpaque => (c, HOpaque, OOpaque)
        | HStored st =>
            match zipfile_read blk mac crc st n with
            | Ok (b, st') => (c, HStored st', OData b)
            | Err e => (c, HStored st, OFail e)
            | Panic p => (c, HStored st, OPanic p)
            end
        end
    | CClose => (c, HNone, OClosed)
    end.

  (* a schedule: which handle performs which call, in global order *)
  Definition hstates := list hentry.
  Fixpoint hget (hs : hstates) (k : nat) : hentry :=
    match hs, k with
    | [], _ => HNone
    | h :: _, O => h
    | _ :: r, S j => hget r j
    end.
  Fixpoint hset (hs : hstates) (k : nat) (v : hentry) : hstates :=
    match hs, k with
    | [], O => [v]
    | [], S j => HNone :: hset [] j v
    | _ :: r, O => v :: r
    | x :: r, S j => x :: hset r j v
    end.

  Fixpoint run_sched (ar : archive) (c : cache) (hs : hstates) (sched : list (nat * cop)) : list (nat * cobs) :=
    match sched with
    | [] => []
    | (k, op) :: rest =>
        let '(c', h', o) := cstep ar c (hget hs k) op in
        (k, o) :: run_sched ar c' (hset hs k h') rest
    end.

  (* the same handle used alone, on a fresh archive handle (empty cache) *)
  Fixpoint run_alone (ar : archive) (c : cache) (h : hentry) (ops : list cop) : list cobs :=
    match ops with
    | [] => []
    | op :: rest => let '(c', h', o) := cstep ar c h op in o :: run_alone ar c' h' rest
    end.
End Clones.
