(* Model/Cp437.v — src/cp437.rs FromCp437 (ASCII fast path, else per-byte table), and the
   flag-driven decoding of names and comments (src/read.rs:693-700, 1063-1066).
   A Rust String is represented by its UTF-8 bytes. *)
From ZipV Require Import Base.Bytes Gen.Cp437Gen Spec.Utf8.
Open Scope N_scope.

Definition cp437_char (b : byte) : N := nth (N.to_nat (b2n b)) CP437_TABLE 0.

Definition from_cp437 (bs : bytes) : bytes :=
  if is_ascii bs then bs
  else flat_map (fun b => utf8_encode_cp (cp437_char b)) bs.

Definition decode_text (utf8_flag : bool) (raw : bytes) : bytes :=
  if utf8_flag then utf8_lossy raw else from_cp437 raw.

(* writer side: bit 11 is set exactly for non-ASCII names (src/write.rs:1095-1100, 1170-1175) *)
Definition name_flag (name : bytes) : bool := negb (is_ascii name).
