(* Model/Extract.v — ZipArchive::extract (src/read.rs:448-480) and ZipStreamReader::extract
   (src/read/stream.rs:60-107, with fix D6) over the file tree of Spec/Fs.v. *)
From ZipV Require Import Base.Bytes Base.Outcome Spec.PathSpec Model.Path Spec.Fs.
Open Scope N_scope.

(* what extract() needs of an entry: how opening it ends, the bytes io::copy delivered, how reading ended *)
Record xentry := { x_name : bytes; x_open : option err; x_data : bytes; x_read_err : option err; x_mode : option N }.

Inductive xres := XOk | XErr (e : err) | XFs (e : fserr).

Definition ends_with_slash (n : bytes) : bool := match rev n with b :: _ => Byte.eqb b slash | [] => false end.

(* the path string ends (after trailing separators) in a "." piece: std's create_dir_all then only
   succeeds when the directory already exists, because its final mkdir names "<dir>/." *)
Fixpoint trailing_dot_rev (rp : list bytes) : bool :=
  match rp with
  | [] => false
  | p :: r => if is_empty p then trailing_dot_rev r else is_dot p
  end.
Definition trailing_dot (pieces : list bytes) : bool := trailing_dot_rev (rev pieces).

Definition no_curdir (cs : list comp) : list comp := filter (fun c => match c with CurDir => false | _ => true end) cs.

(* one entry of ZipArchive::extract *)
Definition extract_entry (umask : N) (root : loc) (st : fs * log) (e : xentry) : (fs * log) * xres :=
  let '(t, lg) := st in
  match x_open e with
  | Some er => (st, XErr er)
  | None =>
      match enclosed_name (x_name e) with
      | None => (st, XErr (EInvalid MInvalidFilePath))
      | Some p =>
          let pieces := split_on slash p in
          let cs := components p in
          let after_body (st1 : fs * log) : (fs * log) * xres :=
            match x_mode e with
            | None => (st1, XOk)
            | Some m => match chmod (fst st1) root pieces m (snd st1) with
                        | (st2, None) => (st2, XOk)
                        | (st2, Some fe) => (st2, XFs fe)
                        end
            end in
          if ends_with_slash (x_name e) then
            if trailing_dot pieces && negb (match no_curdir cs with [] => true | _ => false end) then
              match resolve_dir t root pieces with
              | inl _ => after_body st
              | inr _ =>
                  (* create_dir_all: mkdir fails (ENOENT), the parent() -- which drops the trailing "." AND the
                     component in front of it -- is created, then mkdir is retried: it cannot create "." but
                     succeeds through is_dir() when the path now resolves (e.g. "a/b/../." after a/b was made) *)
                  match mkdir_all umask t root (removelast (no_curdir cs)) lg with
                  | (st1, Some (inr fe)) => (st1, XFs fe)
                  | (st1, _) =>
                      match resolve_dir (fst st1) root pieces with
                      | inl _ => after_body st1
                      | inr _ => (st1, XFs FsNoEnt)
                      end
                  end
              end
            else
            match mkdir_all umask t root cs lg with
            | (st1, Some (inl _)) => after_body st1
            | (st1, Some (inr fe)) => (st1, XFs fe)
            | (st1, None) => (st1, XOk)
            end
          else
            let parent := removelast (no_curdir cs) in
            match mkdir_all umask t root parent lg with
            | (st1, Some (inr fe)) => (st1, XFs fe)
            | (st1, _) =>
                match create_file umask (fst st1) root pieces (x_data e) (snd st1) with
                | (st2, Some fe) => (st2, XFs fe)
                | (st2, None) =>
                    match x_read_err e with
                    | Some er => (st2, XErr er)
                    | None => after_body st2
                    end
                end
            end
      end
  end.

Fixpoint extract (umask : N) (root : loc) (st : fs * log) (es : list xentry) : (fs * log) * xres :=
  match es with
  | [] => (st, XOk)
  | e :: r =>
      match extract_entry umask root st e with
      | (st1, XOk) => extract umask root st1 r
      | (st1, bad) => (st1, bad)
      end
  end.

(* the streaming extractor: files first (no modes), then one chmod per central record *)
Definition sextract_file (umask : N) (root : loc) (st : fs * log) (e : xentry) : (fs * log) * xres :=
  extract_entry umask root st {| x_name := x_name e; x_open := x_open e; x_data := x_data e; x_read_err := x_read_err e; x_mode := None |}.

Definition sextract_meta (root : loc) (st : fs * log) (name : bytes) (mode : option N) : (fs * log) * xres :=
  match enclosed_name name with
  | None => (st, XErr (EInvalid MInvalidFilePath))
  | Some p =>
      match mode with
      | None => (st, XOk)
      | Some m => match chmod (fst st) root (split_on slash p) m (snd st) with
                  | (st2, None) => (st2, XOk)
                  | (st2, Some fe) => (st2, XFs fe)
                  end
      end
  end.

Fixpoint sextract_files (umask : N) (root : loc) (st : fs * log) (es : list xentry) : (fs * log) * xres :=
  match es with
  | [] => (st, XOk)
  | e :: r => match sextract_file umask root st e with
              | (st1, XOk) => sextract_files umask root st1 r
              | (st1, bad) => (st1, bad)
              end
  end.
Fixpoint sextract_metas (root : loc) (st : fs * log) (ms : list (bytes * option N)) : (fs * log) * xres :=
  match ms with
  | [] => (st, XOk)
  | (n, m) :: r => match sextract_meta root st n m with
                   | (st1, XOk) => sextract_metas root st1 r
                   | (st1, bad) => (st1, bad)
                   end
  end.
