(* Model/Readers.v — the layers of the entry read stack as state machines over an arbitrary inner reader:
   std::io::Take, ZipCryptoReaderValid (src/zipcrypto.rs), AesReaderValid (src/aes.rs) with the
   little-endian CTR keystream (src/aes_ctr.rs), Crc32Reader (src/crc32.rs).
   A reader is a state [S] with [read : S -> N -> res (bytes * S)]: a read into a buffer of n bytes
   returns at most n bytes; the empty list on n > 0 means end of file. *)
From ZipV Require Import Base.Bytes Base.Outcome Gen.GenLib Gen.ZipCryptoGen.
Open Scope N_scope.

Definition reader (S : Type) := S -> N -> res (bytes * S).

(* a well-behaved inner reader returns at most the number of bytes asked for *)
Definition bounded {S} (rd : reader S) : Prop :=
  forall s n bs s', rd s n = Ok (bs, s') -> len bs <= n.

(* ---------- the underlying source: bytes served according to a plan of chunk limits / faults *)
Inductive pev := PChunk (n : N) | PFail.
Record src := { s_data : bytes; s_plan : list pev }.

Definition src_read : reader src := fun s n =>
  match s_plan s with
  | [] => Ok (take n (s_data s), {| s_data := drop n (s_data s); s_plan := [] |})
  | PFail :: p => Err (EIo KInjected IInjected)
  | PChunk c :: p =>
      let m := N.min n (N.max 1 c) in
      Ok (take m (s_data s), {| s_data := drop m (s_data s); s_plan := p |})
  end.

(* ---------- read_exact / read_to_end over any reader (std loops) *)
Section Loops.
  Context {S : Type} (rd : reader S).

  (* read_exact: loop until n bytes; a 0-byte read is UnexpectedEof ("failed to fill whole buffer") *)
  Fixpoint read_exact_fuel (fuel : nat) (s : S) (n : N) : res (bytes * S) :=
    if n =? 0 then Ok ([], s) else
    match fuel with
    | O => Panic POutOfFuel
    | Datatypes.S f =>
        let* (bs, s1) := rd s n in
        if len bs =? 0 then Err (EIo KUnexpectedEof IFillBuffer)
        else let* (rest, s2) := read_exact_fuel f s1 (n - len bs) in Ok (bs ++ rest, s2)
    end.
  Definition read_exact (s : S) (n : N) : res (bytes * S) := read_exact_fuel (Datatypes.S (N.to_nat n)) s n.

  (* the caller: a list of buffer sizes; outputs collected until the first error *)
  Fixpoint run_reads (s : S) (bufs : list N) : list (res bytes) * S :=
    match bufs with
    | [] => ([], s)
    | n :: r =>
        match rd s n with
        | Ok (bs, s') => let '(outs, sf) := run_reads s' r in (Ok bs :: outs, sf)
        | Err e => ([Err e], s)
        | Panic p => ([Panic p], s)
        end
    end.

  (* read to end with a fixed buffer size (fuel = number of calls) *)
  Fixpoint read_all_fuel (fuel : nat) (s : S) (n : N) : res (bytes * S) :=
    match fuel with
    | O => Panic POutOfFuel
    | Datatypes.S f =>
        let* (bs, s1) := rd s n in
        if len bs =? 0 then Ok ([], s1)
        else let* (rest, s2) := read_all_fuel f s1 n in Ok (bs ++ rest, s2)
    end.
End Loops.

(* ---------- std::io::Take *)
Section TakeLayer.
  Context {I : Type} (ird : reader I).
  Record take_st := { t_inner : I; t_limit : N }.
  Definition take_read : reader take_st := fun s n =>
    if t_limit s =? 0 then Ok ([], s)
    else
      let m := N.min n (t_limit s) in
      let* (bs, i') := ird (t_inner s) m in
      Ok (bs, {| t_inner := i'; t_limit := t_limit s - len bs |}).
End TakeLayer.
Arguments take_st : clear implicits.
Arguments Build_take_st {I}.
Arguments t_inner {I}.
Arguments t_limit {I}.

(* ---------- ZipCrypto *)
Definition zc_keys := ZipCryptoKeys.
Fixpoint zc_derive_from (k : zc_keys) (pw : bytes) : zc_keys :=
  match pw with [] => k | b :: r => zc_derive_from (ZipCryptoKeys_update k (b2n b)) r end.
Definition zc_derive (pw : bytes) : zc_keys := zc_derive_from ZipCryptoKeys_new pw.

Fixpoint zc_decrypt (k : zc_keys) (ct : bytes) : zc_keys * bytes :=
  match ct with
  | [] => (k, [])
  | c :: r => let '(k1, p) := ZipCryptoKeys_decrypt_byte k (b2n c) in
              let '(k2, ps) := zc_decrypt k1 r in (k2, n2b p :: ps)
  end.
Fixpoint zc_encrypt (k : zc_keys) (pt : bytes) : zc_keys * bytes :=
  match pt with
  | [] => (k, [])
  | p :: r => let '(k1, c) := ZipCryptoKeys_encrypt_byte k (b2n p) in
              let '(k2, cs) := zc_encrypt k1 r in (k2, n2b c :: cs)
  end.

Section ZipCryptoLayer.
  Context {I : Type} (ird : reader I).
  Record zc_st := { z_inner : I; z_keys : zc_keys }.
  (* after fix D5: exactly the bytes read are decrypted *)
  Definition zc_read : reader zc_st := fun s n =>
    let* (ct, i') := ird (z_inner s) n in
    let '(k', pt) := zc_decrypt (z_keys s) ct in
    Ok (pt, {| z_inner := i'; z_keys := k' |}).

  (* ZipCryptoReader::validate: 12-byte header; check byte = last header byte *)
  Definition zc_validate (i : I) (pw : bytes) (check_byte : N) : res (option zc_st) :=
    let* (hdr, i1) := read_exact ird i 12 in
    let '(k', ph) := zc_decrypt (zc_derive pw) hdr in
    if b2n (nth 11 ph x00) =? check_byte
    then Ok (Some {| z_inner := i1; z_keys := k' |}) else Ok None.
End ZipCryptoLayer.
Arguments zc_st : clear implicits.
Arguments Build_zc_st {I}.
Arguments z_inner {I}.
Arguments z_keys {I}.

(* ---------- AES-CTR keystream (little-endian counter from 1), block cipher abstract *)
Section AesLayer.
  Variable blk : bytes -> bytes -> bytes.     (* key -> 16-byte block -> 16-byte block (AES encrypt) *)
  Variable mac : bytes -> bytes -> bytes.     (* HMAC-SHA1: key -> message -> 20 bytes *)

  Record ctr_st := { c_key : bytes; c_counter : N; c_buf : bytes; c_pos : N }.
  Definition ctr_init (key : bytes) : ctr_st := {| c_key := key; c_counter := 1; c_buf := repeat x00 16; c_pos := 16 |}.

  Definition bxor (a b : byte) : byte := n2b (N.lxor (b2n a) (b2n b)).

  (* crypt_in_place, one byte at a time (the Rust loop xors min(len, 16-pos) bytes per turn; byte-wise is the same function) *)
  Fixpoint ctr_crypt (s : ctr_st) (data : bytes) : ctr_st * bytes :=
    match data with
    | [] => (s, [])
    | d :: r =>
        let s1 := if c_pos s =? 16
                  then {| c_key := c_key s; c_counter := c_counter s + 1;
                          c_buf := blk (c_key s) (le 16 (c_counter s)); c_pos := 0 |}
                  else s in
        let k := nth (N.to_nat (c_pos s1)) (c_buf s1) x00 in
        let s2 := {| c_key := c_key s1; c_counter := c_counter s1; c_buf := c_buf s1; c_pos := c_pos s1 + 1 |} in
        let '(s3, out) := ctr_crypt s2 r in (s3, bxor d k :: out)
    end.

  Context {I : Type} (ird : reader I).
  Record aes_st := { a_inner : I; a_remaining : N; a_ctr : ctr_st; a_hkey : bytes; a_seen : bytes; a_final : bool }.

  Definition aes_read : reader aes_st := fun s n =>
    if a_remaining s =? 0 then Ok ([], s)
    else
      let m := N.min (a_remaining s) n in
      let* (ct, i1) := ird (a_inner s) m in
      (* fix D16: the data ends before the declared ciphertext length *)
      if (len ct =? 0) && negb (m =? 0) then Err (EIo KUnexpectedEof IAesTruncated) else
      let remaining := a_remaining s - len ct in
      let seen := a_seen s ++ ct in
      let '(c', pt) := ctr_crypt (a_ctr s) ct in
      if remaining =? 0 then
        if a_final s then Panic PUnreachable
        else
          let* (tag, i2) := read_exact ird i1 10 in
          if bytes_eqb (firstn 10 (mac (a_hkey s) seen)) tag
          then Ok (pt, {| a_inner := i2; a_remaining := 0; a_ctr := c'; a_hkey := a_hkey s; a_seen := seen; a_final := true |})
          else Err (EIo KInvalidData IAuthCode)
      else Ok (pt, {| a_inner := i1; a_remaining := remaining; a_ctr := c'; a_hkey := a_hkey s; a_seen := seen; a_final := a_final s |}).
End AesLayer.

(* ---------- Crc32Reader *)
Section CrcLayer.
  Variable crc : bytes -> N.
  Context {I : Type} (ird : reader I).
  Record crc_st := { k_inner : I; k_seen : bytes; k_check : N; k_ae2 : bool }.
  Definition crc_read : reader crc_st := fun s n =>
    let invalid_check := negb (n =? 0) && negb (crc (k_seen s) =? k_check s) && negb (k_ae2 s) in
    let* (bs, i') := ird (k_inner s) n in
    if (len bs =? 0) && invalid_check then Err (EIo KOther IInvalidChecksum)
    else Ok (bs, {| k_inner := i'; k_seen := k_seen s ++ bs; k_check := k_check s; k_ae2 := k_ae2 s |}).
End CrcLayer.
Arguments crc_st : clear implicits.
Arguments Build_crc_st {I}.
Arguments k_inner {I}.
Arguments k_seen {I}.
Arguments k_check {I}.
Arguments k_ae2 {I}.
