(* Model/Stream.v — the streaming reader: read_zipfile_from_stream (src/read.rs:1032-1130), the drain of
   the remaining compressed bytes when an entry handle is dropped (984-1014), and ZipStreamReader::visit
   (src/read/stream.rs:43-57, after fix D6).  The stream is a forward-only position in a byte string. *)
From ZipV Require Import Base.Bytes Base.Outcome Gen.GenLib Gen.SpecGen Gen.CompressionGen Gen.TypesGen
     Model.Cp437 Model.Readers Model.Reader.
Open Scope N_scope.

(* an entry handle produced from a stream *)
Record sentry := { se_file : zfd; se_data_start : N }.

Inductive snext := SFile (e : sentry) | SEnd (pos_after_sig : N).

Definition stream_next (data : bytes) (pos : N) : res snext :=
  let* sig := u32_at data pos in
  if sig =? CENTRAL_DIRECTORY_HEADER_SIGNATURE then Ok (SEnd (pos + 4)) else
  if negb (sig =? LOCAL_FILE_HEADER_SIGNATURE) then Err (EInvalid MInvalidLocalHeader) else
  let* made := u16_at data (pos + 4) in
  let* flags := u16_at data (pos + 6) in
  let* method := u16_at data (pos + 8) in
  let* mtime := u16_at data (pos + 10) in
  let* mdate := u16_at data (pos + 12) in
  let* crc := u32_at data (pos + 14) in
  let* cs := u32_at data (pos + 18) in
  let* us := u32_at data (pos + 22) in
  let* nl := u16_at data (pos + 26) in
  let* el := u16_at data (pos + 28) in
  let* name := rd_at data (pos + 30) nl in
  let* extra := rd_at data (pos + 30 + nl) el in
  let utf8 := N.testbit flags 11 in
  let* dt := of_opt (DateTime_from_msdos mdate mtime) PArith in
  let f0 := {| f_system := System_from_u8 (cast 8 (N.shiftr made 8)); f_made_by := cast 8 made;
               f_encrypted := N.testbit flags 0; f_dd := N.testbit flags 3; f_utf8 := utf8;
               f_method := CompressionMethod_from_u16 method; f_time := dt; f_crc := crc; f_csize := cs; f_usize := us;
               f_name := decode_text utf8 name; f_name_raw := name; f_extra := extra;
               f_comment := []; f_header_start := 0; f_central_start := 0;
               f_ext_attr := 0; f_large := false; f_aes := None |} in
  let '(f1, r) := parse_extra_field f0 in
  let* _ := match r with
            | Ok _ => Ok tt
            | Err e => if is_io e then Ok tt else Err e
            | Panic p => Panic p
            end in
  if f_encrypted f1 then Err (EUnsupported MEncryptedStream) else
  if f_dd f1 then Err (EUnsupported MDataDescriptorStream) else
  if is_unsupported (f_method f1) then Err (EUnsupported MMethodNotSupported) else
  Ok (SFile {| se_file := f1; se_data_start := pos + 30 + nl + el |}).

(* position of the stream after the handle is dropped: the rest of the Take is drained, stopping at end of input *)
Definition pos_after (data : bytes) (e : sentry) : N :=
  N.min (se_data_start e + f_csize (se_file e)) (N.max (len data) (se_data_start e)).

(* the raw (compressed) bytes of the entry as the stream delivers them *)
Definition entry_payload (data : bytes) (e : sentry) : bytes :=
  take (f_csize (se_file e)) (drop (se_data_start e) data).

(* all entries front to back; [consume] is irrelevant to the positions because Drop drains the Take *)
Fixpoint stream_entries (fuel : nat) (data : bytes) (pos : N) : list sentry * res N :=
  match fuel with
  | O => ([], Panic POutOfFuel)
  | S fuel' =>
      match stream_next data pos with
      | Ok (SFile e) => let '(l, r) := stream_entries fuel' data (pos_after data e) in (e :: l, r)
      | Ok (SEnd p) => ([], Ok p)
      | Err er => ([], Err er)
      | Panic p => ([], Panic p)
      end
  end.

(* central directory records after the first signature has been consumed (parse_central without its signature) *)
Definition parse_central_inner (data : bytes) (pos : N) : res (zfd * N) :=
  (* reuse parse_central on a virtual position 4 bytes earlier: its own signature check is replaced *)
  let* made := u16_at data pos in
  let* _ := u16_at data (pos + 2) in
  let* flags := u16_at data (pos + 4) in
  let* method := u16_at data (pos + 6) in
  let* mtime := u16_at data (pos + 8) in
  let* mdate := u16_at data (pos + 10) in
  let* crc := u32_at data (pos + 12) in
  let* cs := u32_at data (pos + 16) in
  let* us := u32_at data (pos + 20) in
  let* nl := u16_at data (pos + 24) in
  let* el := u16_at data (pos + 26) in
  let* cl := u16_at data (pos + 28) in
  let* _ := u16_at data (pos + 30) in
  let* _ := u16_at data (pos + 32) in
  let* attr := u32_at data (pos + 34) in
  let* off := u32_at data (pos + 38) in
  let* name := rd_at data (pos + 42) nl in
  let* extra := rd_at data (pos + 42 + nl) el in
  let* comment := rd_at data (pos + 42 + nl + el) cl in
  let utf8 := N.testbit flags 11 in
  let* dt := of_opt (DateTime_from_msdos mdate mtime) PArith in
  let f0 := {| f_system := System_from_u8 (cast 8 (N.shiftr made 8)); f_made_by := cast 8 made;
               f_encrypted := N.testbit flags 0; f_dd := N.testbit flags 3; f_utf8 := utf8;
               f_method := CompressionMethod_from_u16 method; f_time := dt; f_crc := crc; f_csize := cs; f_usize := us;
               f_name := decode_text utf8 name; f_name_raw := name; f_extra := extra;
               f_comment := decode_text utf8 comment; f_header_start := off; f_central_start := 0;
               f_ext_attr := attr; f_large := false; f_aes := None |} in
  let '(f1, r) := parse_extra_field f0 in
  let* _ := match r with
            | Ok _ => Ok tt
            | Err e => if is_io e then Ok tt else Err e
            | Panic p => Panic p
            end in
  if CompressionMethod_eqb (f_method f1) CompressionMethod_Aes && opt_is_none (f_aes f1)
  then Err (EInvalid MAesNoExtra) else
  Ok (f1, pos + 42 + nl + el + cl).

Fixpoint visit_meta (fuel : nat) (data : bytes) (pos : N) : list zfd * res unit :=
  match fuel with
  | O => ([], Panic POutOfFuel)
  | S fuel' =>
      match u32_at data pos with
      | Ok sig =>
          if negb (sig =? CENTRAL_DIRECTORY_HEADER_SIGNATURE) then ([], Ok tt)
          else match parse_central_inner data (pos + 4) with
               | Ok (f, p') => let '(l, r) := visit_meta fuel' data p' in (f :: l, r)
               | Err e => ([], Err e)
               | Panic p => ([], Panic p)
               end
      | Err e => ([], Err e)
      | Panic p => ([], Panic p)
      end
  end.

(* visit: files in order, then one metadata callback per central record (fix D6) *)
Definition visit (data : bytes) : list sentry * list zfd * res unit :=
  let fuel := S (length data) in
  match stream_entries fuel data 0 with
  | (files, Ok p) =>
      match parse_central_inner data p with
      | Ok (f, p') => let '(l, r) := visit_meta fuel data p' in (files, f :: l, r)
      | Err e => (files, [], Err e)
      | Panic q => (files, [], Panic q)
      end
  | (files, Err e) => (files, [], Err e)
  | (files, Panic q) => (files, [], Panic q)
  end.
