(* Model/WriterCalls.v — the public writer API as one call type and one step function: what a program
   (a list of calls) does to a writer.  The extracted driver executes writer programs through [do_call],
   and the all-call-sequence theorems (Proofs/WriterInv.v) are about [run_calls]. *)
From Coq Require Import ZArith.
From ZipV Require Import Base.Bytes Base.Outcome Gen.CompressionGen Gen.TypesGen Model.Readers Model.Reader Model.Writer.
Open Scope N_scope.

Inductive wcall :=
| KStartFile (name : bytes) (o : wopts)
| KWrite (data : bytes)                                   (* Write::write_all *)
| KStartExtra (name : bytes) (o : wopts)                  (* start_file_with_extra_data *)
| KStartAligned (name : bytes) (o : wopts) (align : N)    (* start_file_aligned *)
| KEndLocal                                               (* end_local_start_central_extra_data *)
| KEndExtra                                               (* end_extra_data *)
| KAddDir (name : bytes) (o : wopts)
| KSymlink (name target : bytes) (o : wopts)
| KComment (c : bytes)                                    (* set_raw_comment *)
| KRawCopy (src : zfd) (raw : bytes) (name : bytes)       (* raw_copy_file(_rename): record and undecoded bytes of the source *)
| KFinish
| KDrop.

Inductive wresult := RUnit (r : res unit) | RNum (r : res N) | RBytes (r : res bytes).

Definition is_panic (r : wresult) : bool :=
  match r with
  | RUnit (Panic _) | RNum (Panic _) | RBytes (Panic _) => true
  | _ => false
  end.

Section Calls.
  Variable enc : CompressionMethod -> Z -> bytes -> bytes.
  Variable crc : bytes -> N.

  Definition do_call (s : wstate) (c : wcall) : wstate * wresult :=
    match c with
    | KStartFile n o => let '(s', r) := start_file enc crc s n o in (s', RUnit r)
    | KWrite d => let '(s', r) := zw_write_all s d in (s', RUnit r)
    | KStartExtra n o => let '(s', r) := start_file_with_extra_data enc crc s n o in (s', RNum r)
    | KStartAligned n o a => let '(s', r) := start_file_aligned enc crc s n o a in (s', RNum r)
    | KEndLocal => let '(s', r) := end_local_start_central enc s in (s', RNum r)
    | KEndExtra => let '(s', r) := end_extra_data enc s in (s', RNum r)
    | KAddDir n o => let '(s', r) := add_directory enc crc s n o in (s', RUnit r)
    | KSymlink n t o => let '(s', r) := add_symlink enc crc s n t o in (s', RUnit r)
    | KComment c => (set_comment s c, RUnit (Ok tt))
    | KRawCopy src raw n => let '(s', r) := raw_copy enc crc s src raw n in (s', RUnit r)
    | KFinish => let '(s', r) := finish enc crc s in (s', RBytes r)
    | KDrop => let '(s', r) := drop_writer enc crc s in (s', RUnit r)
    end.

  (* a program: the results of all calls, and the final state *)
  Fixpoint run_calls (s : wstate) (cs : list wcall) : wstate * list wresult :=
    match cs with
    | [] => (s, [])
    | c :: rest => let '(s1, r) := do_call s c in
                   let '(s2, rs) := run_calls s1 rest in (s2, r :: rs)
    end.
End Calls.
