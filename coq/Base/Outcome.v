(* Base/Outcome.v — outcomes of modelled Rust calls (DESIGN.md 4.2).
   Every place the Rust can panic is a [Panic] outcome of the model, so
   "no panic" is a statement that is proved or refuted, never assumed. *)
From ZipV Require Export Base.Bytes.

Inductive iokind :=
| KUnexpectedEof | KOther | KBrokenPipe | KInvalidData | KInvalidInput | KInjected.

(* one constructor per distinct message in the crate's source *)
Inductive msg :=
| MInvalidSignatureHeader      (* "Invalid digital signature header" *)
| MInvalidZipHeader            (* "Invalid zip header" *)
| MNoCde                       (* "Could not find central directory end" *)
| MInvalidZip64Locator         (* "Invalid zip64 locator digital signature header" *)
| MNoZip64Cde                  (* "Could not find ZIP64 central directory end" *)
| MInvalidCdSizeOrOffset       (* "Invalid central directory size or offset" *)
| MMultiDisk                   (* "Support for multi-disk files is not implemented" *)
| MNoZip64Room                 (* "File cannot contain ZIP64 central directory end" *)
| MSeekCd                      (* "Could not seek to start of central directory" *)
| MInvalidCdHeader             (* "Invalid Central Directory header" *)
| MAesNoExtra                  (* "AES encryption without AES extra data field" *)
| MHeaderTooLarge              (* "Archive header is too large" *)
| MAesExtraLen                 (* "AES extra data field has an unsupported length" *)
| MAesVendor                   (* "Invalid AES vendor" *)
| MAesVendorVersion            (* "Invalid AES vendor version" *)
| MAesStrength                 (* "Invalid AES encryption strength" *)
| MInvalidLocalHeader          (* "Invalid local file header" *)
| MMethodNotSupported          (* "Compression method not supported" *)
| MPasswordRequired            (* "Password required to decrypt file" *)
| MEncryptedStream             (* "Encrypted files are not supported" *)
| MDataDescriptorStream        (* "The file length is not available in the local header" *)
| MInvalidFilePath             (* "Invalid file path" *)
| MUnsupportedLevel            (* "Unsupported compression level" *)
| MAesWrite                    (* "AES compression is not supported for writing" *)
| MUnsupportedCompression      (* "Unsupported compression" *)
| MAesTooShort                 (* fix D4: AES entry shorter than its framing *)
| MTooLong                     (* fix D1/D11: a length does not fit its 16-bit field *)
| MOtherMsg.

(* messages carried by io::Error values the crate itself creates *)
Inductive iomsg :=
| INone
| IInvalidChecksum | INoFileStarted | IClosed | ILargeFile | INotExtra
| IExtraTooLong | IExtraIncomplete | IExtraZip64 | IExtraReserved | IExtraSize
| IAuthCode | IWriteZero | IFillBuffer | IInjected | IAesTruncated.

Inductive err :=
| EIo (k : iokind) (m : iomsg)
| EInvalid (m : msg)
| EUnsupported (m : msg)
| ENotFound.

Inductive panic_site :=
| PUnwrapPassword | PMethodNotSupported | PAesSub | PFindContentAdd | PInvalidReaderState
| PGetPlain | PUnwrapWriter | PFileEndSub | PExtraLenAdd | PCentralExtraLenAdd
| PAlignAssert | PLastUnwrap | PStreamDrain | PDatepartSub | PArith | PUnreachable | POutOfFuel.

Inductive res (A : Type) :=
| Ok (a : A)
| Err (e : err)
| Panic (p : panic_site).
Arguments Ok {A} a.
Arguments Err {A} e.
Arguments Panic {A} p.

Definition bind {A B} (r : res A) (f : A -> res B) : res B :=
  match r with Ok a => f a | Err e => Err e | Panic p => Panic p end.

Declare Scope res_scope.
Delimit Scope res_scope with res.
Notation "'let*' x ':=' r 'in' k" := (bind r (fun x => k))
  (at level 200, x pattern, r at level 100, k at level 200, right associativity).
Notation "r ';;' k" := (bind r (fun _ => k))
  (at level 100, k at level 200, right associativity, only parsing).

Definition is_panic {A} (r : res A) : bool := match r with Panic _ => true | _ => false end.
Definition no_panic {A} (r : res A) : Prop := forall p, r <> Panic p.

Lemma no_panic_ok {A} (a : A) : no_panic (Ok a).
Proof. intros p H; discriminate. Qed.
Lemma no_panic_err {A} e : no_panic (@Err A e).
Proof. intros p H; discriminate. Qed.
Lemma no_panic_bind {A B} (r : res A) (f : A -> res B) :
  no_panic r -> (forall a, r = Ok a -> no_panic (f a)) -> no_panic (bind r f).
Proof.
  intros Hr Hf. destruct r as [a|e|p]; cbn [bind].
  - now apply Hf.
  - apply no_panic_err.
  - exfalso. now apply (Hr p).
Qed.

Definition of_opt {A} (o : option A) (p : panic_site) : res A :=
  match o with Some a => Ok a | None => Panic p end.
Definition opt_err {A} (o : option A) (e : err) : res A :=
  match o with Some a => Ok a | None => Err e end.

Definition obind {A B} (o : option A) (f : A -> option B) : option B :=
  match o with Some a => f a | None => None end.
