(* Base/Bits.v — byte-level bit facts by complete finite sweeps. *)
From ZipV Require Import Base.Bytes Base.Sweep.
Open Scope N_scope.

Lemma sweep_lxor : sweep2 (fun a b => N.lxor a b <? 256) 256 256 = true.
Proof. vm_compute. reflexivity. Qed.
Lemma lxor_byte a b : a < 256 -> b < 256 -> N.lxor a b < 256.
Proof. intros Ha Hb. pose proof (sweep2_ok _ _ _ sweep_lxor a b Ha Hb) as H. cbv beta in H. now apply N.ltb_lt in H. Qed.
