(* Base/Sweep.v — finite sweeps: [forallb P (N_range n) = true] by vm_compute, lifted to
   [forall x, x < n -> P x = true].  The bound is part of every statement that uses it. *)
From ZipV Require Import Base.Bytes.
Open Scope N_scope.

Fixpoint range_from (fuel : nat) (i : N) : list N :=
  match fuel with O => [] | S f => i :: range_from f (N.succ i) end.
Definition N_range (n : N) : list N := range_from (N.to_nat n) 0.

Lemma range_from_in f i x : i <= x < i + N.of_nat f -> In x (range_from f i).
Proof.
  revert i; induction f as [|f IH]; intros i H; cbn [range_from].
  - lia.
  - destruct (N.eq_dec i x) as [->|Hne]; [now left|right]. apply IH. lia.
Qed.

Lemma N_range_in n x : x < n -> In x (N_range n).
Proof. intro H. unfold N_range. apply range_from_in. lia. Qed.

Lemma sweep (P : N -> bool) n : forallb P (N_range n) = true -> forall x, x < n -> P x = true.
Proof. intros H x Hx. rewrite forallb_forall in H. apply H. now apply N_range_in. Qed.

Definition sweep2 (P : N -> N -> bool) (n m : N) : bool :=
  forallb (fun x => forallb (P x) (N_range m)) (N_range n).
Lemma sweep2_ok P n m : sweep2 P n m = true -> forall x y, x < n -> y < m -> P x y = true.
Proof.
  unfold sweep2. intros H x y Hx Hy.
  pose proof (sweep _ _ H x Hx) as H1. cbv beta in H1. exact (sweep _ _ H1 y Hy).
Qed.

Definition sweep3 (P : N -> N -> N -> bool) (n m k : N) : bool :=
  forallb (fun x => sweep2 (P x) m k) (N_range n).
Lemma sweep3_ok P n m k : sweep3 P n m k = true ->
  forall x y z, x < n -> y < m -> z < k -> P x y z = true.
Proof.
  unfold sweep3. intros H x y z Hx Hy Hz.
  pose proof (sweep _ _ H x Hx) as H1. cbv beta in H1. exact (sweep2_ok _ _ _ H1 y z Hy Hz).
Qed.

(* first counterexample, for the search after a failed sweep *)
Definition find_cex (P : N -> bool) (n : N) : option N := find (fun x => negb (P x)) (N_range n).
