(* Base/Bytes.v — bytes, fixed-width words over N, little-endian codecs.
   Conventions (DESIGN.md 4.1): bytes are Coq.Init.Byte.byte, byte strings are
   [list byte]; integers are N with the Rust width written into every operation. *)
From Coq Require Export List NArith Bool Lia.
From Coq Require Export Strings.Byte.
From Coq Require Import ZArith ZifyBool ZifyN ZifyNat.
Export ListNotations.
Open Scope N_scope.

Arguments N.add : simpl never.
Arguments N.sub : simpl never.
Arguments N.mul : simpl never.
Arguments N.div : simpl never.
Arguments N.modulo : simpl never.
Arguments N.shiftl : simpl never.
Arguments N.shiftr : simpl never.
Arguments N.land : simpl never.
Arguments N.lor : simpl never.
Arguments N.lxor : simpl never.
Arguments N.pow : simpl never.
Arguments N.eqb : simpl never.
Arguments N.ltb : simpl never.
Arguments N.leb : simpl never.

Ltac Zify.zify_post_hook ::= Z.div_mod_to_equations.

Notation bytes := (list byte) (only parsing).

Definition b2n (b : byte) : N := Byte.to_N b.
Definition n2b (n : N) : byte :=
  match Byte.of_N (n mod 256) with Some b => b | None => x00 end.

Lemma b2n_lt b : b2n b < 256.
Proof. unfold b2n. pose proof (Byte.to_N_bounded b). lia. Qed.

Lemma n2b_b2n b : n2b (b2n b) = b.
Proof.
  unfold n2b, b2n. rewrite N.mod_small by (pose proof (Byte.to_N_bounded b); lia).
  now rewrite Byte.of_to_N.
Qed.

Lemma b2n_n2b n : b2n (n2b n) = n mod 256.
Proof.
  unfold n2b, b2n. destruct (Byte.of_N (n mod 256)) eqn:E.
  - now apply Byte.to_of_N.
  - apply Byte.of_N_None_iff in E. pose proof (N.mod_lt n 256). lia.
Qed.

Lemma b2n_inj a b : b2n a = b2n b -> a = b.
Proof. intro H. rewrite <- (n2b_b2n a), <- (n2b_b2n b). now rewrite H. Qed.

Definition len (bs : bytes) : N := N.of_nat (length bs).

(* fixed-width arithmetic *)
Definition wrap (w : N) (x : N) : N := x mod 2 ^ w.
Definition fits (w : N) (x : N) : bool := x <? 2 ^ w.
Definition add_chk (w a b : N) : option N := if fits w (a + b) then Some (a + b) else None.
Definition sub_chk (a b : N) : option N := if b <=? a then Some (a - b) else None.
Definition mul_chk (w a b : N) : option N := if fits w (a * b) then Some (a * b) else None.
Definition sat_sub (a b : N) : N := a - b.   (* N subtraction saturates at 0 *)

(* little-endian codecs *)
Fixpoint le (k : nat) (n : N) : bytes :=
  match k with
  | O => []
  | S k' => n2b n :: le k' (n / 256)
  end.
Definition le16 := le 2.
Definition le32 := le 4.
Definition le64 := le 8.

Fixpoint unle (bs : bytes) : N :=
  match bs with
  | [] => 0
  | b :: r => b2n b + 256 * unle r
  end.

Lemma le_length k n : length (le k n) = k.
Proof. revert n; induction k as [|k IH]; intro n; cbn [le length]; [reflexivity | now rewrite IH]. Qed.

Lemma unle_lt bs : unle bs < 2 ^ (8 * N.of_nat (length bs)).
Proof.
  induction bs as [|b r IH]; cbn [unle length].
  - cbv; reflexivity.
  - pose proof (b2n_lt b).
    replace (8 * N.of_nat (S (length r))) with (8 + 8 * N.of_nat (length r)) by lia.
    rewrite N.pow_add_r. change (2 ^ 8) with 256. nia.
Qed.

Lemma unle_le k n : unle (le k n) = n mod 2 ^ (8 * N.of_nat k).
Proof.
  revert n; induction k as [|k IH]; intro n; cbn [le unle].
  - change (8 * N.of_nat 0) with 0. rewrite N.pow_0_r, N.mod_1_r. reflexivity.
  - rewrite b2n_n2b, IH.
    replace (8 * N.of_nat (S k)) with (8 + 8 * N.of_nat k) by lia.
    rewrite N.pow_add_r. change (2 ^ 8) with 256.
    assert (Hp : 2 ^ (8 * N.of_nat k) <> 0) by (apply N.pow_nonzero; lia).
    rewrite (N.mod_mul_r n 256 (2 ^ (8 * N.of_nat k))) by (lia || assumption).
    reflexivity.
Qed.

Lemma le_unle bs : le (length bs) (unle bs) = bs.
Proof.
  induction bs as [|b r IH]; cbn [le unle length]; [reflexivity|].
  pose proof (b2n_lt b) as Hb.
  assert (E1 : (b2n b + 256 * unle r) mod 256 = b2n b).
  { lia. }
  assert (E2 : (b2n b + 256 * unle r) / 256 = unle r).
  { lia. }
  assert (E3 : n2b (b2n b + 256 * unle r) = b).
  { apply b2n_inj. rewrite b2n_n2b. exact E1. }
  rewrite E3, E2, IH. reflexivity.
Qed.

Lemma unle_le_small k n : n < 2 ^ (8 * N.of_nat k) -> unle (le k n) = n.
Proof. intro H. rewrite unle_le. now apply N.mod_small. Qed.

(* list helpers on N indices: structural on the list, so that executing the model never converts a
   data-dependent huge N (a 2^64 offset read from a hostile archive) to unary and costs O(min(n, length)). *)
Fixpoint take (n : N) (bs : bytes) {struct bs} : bytes :=
  match bs with
  | [] => []
  | b :: r => if n =? 0 then [] else b :: take (N.pred n) r
  end.
Fixpoint drop (n : N) (bs : bytes) {struct bs} : bytes :=
  match bs with
  | [] => []
  | b :: r => if n =? 0 then bs else drop (N.pred n) r
  end.

Lemma take_firstn n bs : take n bs = firstn (N.to_nat n) bs.
Proof.
  revert n; induction bs as [|b r IH]; intro n; cbn [take].
  - now rewrite firstn_nil.
  - destruct (n =? 0) eqn:E.
    + assert (n = 0) as -> by lia. reflexivity.
    + replace (N.to_nat n) with (S (N.to_nat (N.pred n))) by lia. cbn [firstn]. now rewrite IH.
Qed.
Lemma drop_skipn n bs : drop n bs = skipn (N.to_nat n) bs.
Proof.
  revert n; induction bs as [|b r IH]; intro n; cbn [drop].
  - now rewrite skipn_nil.
  - destruct (n =? 0) eqn:E.
    + assert (n = 0) as -> by lia. reflexivity.
    + replace (N.to_nat n) with (S (N.to_nat (N.pred n))) by lia. cbn [skipn]. now rewrite IH.
Qed.

Lemma len_app a b : len (a ++ b) = len a + len b.
Proof. unfold len. rewrite app_length. lia. Qed.

Lemma take_app_exact a b : take (len a) (a ++ b) = a.
Proof.
  rewrite take_firstn. unfold len. rewrite Nnat.Nat2N.id.
  rewrite firstn_app, Nat.sub_diag, firstn_all. cbn. now rewrite app_nil_r.
Qed.

Lemma drop_app_exact a b : drop (len a) (a ++ b) = b.
Proof.
  rewrite drop_skipn. unfold len. rewrite Nnat.Nat2N.id.
  rewrite skipn_app, Nat.sub_diag, skipn_all. reflexivity.
Qed.

Lemma len_take n bs : len (take n bs) = N.min n (len bs).
Proof. rewrite take_firstn. unfold len. rewrite firstn_length. lia. Qed.

Lemma len_drop n bs : len (drop n bs) = len bs - n.
Proof. rewrite drop_skipn. unfold len. rewrite skipn_length. lia. Qed.

Lemma take_drop n bs : take n bs ++ drop n bs = bs.
Proof. rewrite take_firstn, drop_skipn. apply firstn_skipn. Qed.

Definition byte_eqb := Byte.eqb.
Fixpoint bytes_eqb (a b : bytes) : bool :=
  match a, b with
  | [], [] => true
  | x :: a', y :: b' => Byte.eqb x y && bytes_eqb a' b'
  | _, _ => false
  end.

Lemma bytes_eqb_eq a b : bytes_eqb a b = true <-> a = b.
Proof.
  revert b; induction a as [|x a IH]; intros [|y b]; cbn [bytes_eqb]; split; intro H;
    try reflexivity; try discriminate.
  - apply andb_true_iff in H as [H1 H2]. apply Byte.byte_dec_bl in H1. apply IH in H2. now subst.
  - injection H as -> ->. apply andb_true_iff; split; [now apply Byte.byte_dec_lb | now apply IH].
Qed.

Fixpoint bytes_ltb (a b : bytes) : bool :=
  match a, b with
  | [], [] => false
  | [], _ => true
  | _, [] => false
  | x :: a', y :: b' => if b2n x <? b2n y then true else if b2n y <? b2n x then false else bytes_ltb a' b'
  end.
