(* Spec/Utf8.v — UTF-8 encoding of scalar values and String::from_utf8_lossy (core::str::lossy::
   Utf8Chunks: each maximal invalid subpart becomes one U+FFFD).  Environment (std), defined here and
   compared with std by the correspondence run on random and adversarial byte strings. *)
From ZipV Require Import Base.Bytes.
Open Scope N_scope.

Definition utf8_encode_cp (c : N) : bytes :=
  if c <? 128 then [n2b c]
  else if c <? 2048 then [n2b (192 + c / 64); n2b (128 + c mod 64)]
  else if c <? 65536 then [n2b (224 + c / 4096); n2b (128 + (c / 64) mod 64); n2b (128 + c mod 64)]
  else [n2b (240 + c / 262144); n2b (128 + (c / 4096) mod 64); n2b (128 + (c / 64) mod 64); n2b (128 + c mod 64)].

Definition utf8_encode (cps : list N) : bytes := flat_map utf8_encode_cp cps.

Definition REP : bytes := [xef; xbf; xbd].      (* U+FFFD *)

Definition is_cont (b : byte) : bool := let n := b2n b in (128 <=? n) && (n <=? 191).
Definition in_range (lo hi : N) (b : byte) : bool := let n := b2n b in (lo <=? n) && (n <=? hi).

(* second-byte ranges for 3- and 4-byte leads, as in core::str::lossy *)
Definition ok3 (b0 b1 : byte) : bool :=
  let n := b2n b0 in
  if n =? 224 then in_range 160 191 b1
  else if (225 <=? n) && (n <=? 236) then in_range 128 191 b1
  else if n =? 237 then in_range 128 159 b1
  else in_range 128 191 b1.          (* 0xEE..0xEF *)
Definition ok4 (b0 b1 : byte) : bool :=
  let n := b2n b0 in
  if n =? 240 then in_range 144 191 b1
  else if (241 <=? n) && (n <=? 243) then in_range 128 191 b1
  else in_range 128 143 b1.          (* 0xF4 *)

Definition width (b : byte) : N :=
  let n := b2n b in
  if n <? 128 then 1
  else if (194 <=? n) && (n <=? 223) then 2
  else if (224 <=? n) && (n <=? 239) then 3
  else if (240 <=? n) && (n <=? 244) then 4
  else 0.

Fixpoint utf8_lossy (bs : bytes) : bytes :=
  match bs with
  | [] => []
  | b0 :: r0 =>
      let w := width b0 in
      if w =? 1 then b0 :: utf8_lossy r0
      else if w =? 2 then
        match r0 with
        | b1 :: r1 => if is_cont b1 then b0 :: b1 :: utf8_lossy r1 else REP ++ utf8_lossy r0
        | [] => REP
        end
      else if w =? 3 then
        match r0 with
        | b1 :: r1 =>
            if ok3 b0 b1 then
              match r1 with
              | b2 :: r2 => if is_cont b2 then b0 :: b1 :: b2 :: utf8_lossy r2 else REP ++ utf8_lossy r1
              | [] => REP
              end
            else REP ++ utf8_lossy r0
        | [] => REP
        end
      else if w =? 4 then
        match r0 with
        | b1 :: r1 =>
            if ok4 b0 b1 then
              match r1 with
              | b2 :: r2 =>
                  if is_cont b2 then
                    match r2 with
                    | b3 :: r3 => if is_cont b3 then b0 :: b1 :: b2 :: b3 :: utf8_lossy r3
                                  else REP ++ utf8_lossy r2
                    | [] => REP
                    end
                  else REP ++ utf8_lossy r1
              | [] => REP
              end
            else REP ++ utf8_lossy r0
        | [] => REP
        end
      else REP ++ utf8_lossy r0
  end.

Definition is_ascii (bs : bytes) : bool := forallb (fun b => b2n b <? 128) bs.
