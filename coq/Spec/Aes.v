(* Spec/Aes.v — AES (FIPS-197) block encryption, for the executable instance of the [blk] oracle.
   Pinned by the FIPS-197 Appendix C vectors below; stands for the `aes` crate. *)
From ZipV Require Import Base.Bytes.
Open Scope N_scope.

Definition SBOX : list N :=
 [99; 124; 119; 123; 242; 107; 111; 197; 48; 1; 103; 43; 254; 215; 171; 118;
  202; 130; 201; 125; 250; 89; 71; 240; 173; 212; 162; 175; 156; 164; 114; 192;
  183; 253; 147; 38; 54; 63; 247; 204; 52; 165; 229; 241; 113; 216; 49; 21;
  4; 199; 35; 195; 24; 150; 5; 154; 7; 18; 128; 226; 235; 39; 178; 117;
  9; 131; 44; 26; 27; 110; 90; 160; 82; 59; 214; 179; 41; 227; 47; 132;
  83; 209; 0; 237; 32; 252; 177; 91; 106; 203; 190; 57; 74; 76; 88; 207;
  208; 239; 170; 251; 67; 77; 51; 133; 69; 249; 2; 127; 80; 60; 159; 168;
  81; 163; 64; 143; 146; 157; 56; 245; 188; 182; 218; 33; 16; 255; 243; 210;
  205; 12; 19; 236; 95; 151; 68; 23; 196; 167; 126; 61; 100; 93; 25; 115;
  96; 129; 79; 220; 34; 42; 144; 136; 70; 238; 184; 20; 222; 94; 11; 219;
  224; 50; 58; 10; 73; 6; 36; 92; 194; 211; 172; 98; 145; 149; 228; 121;
  231; 200; 55; 109; 141; 213; 78; 169; 108; 86; 244; 234; 101; 122; 174; 8;
  186; 120; 37; 46; 28; 166; 180; 198; 232; 221; 116; 31; 75; 189; 139; 138;
  112; 62; 181; 102; 72; 3; 246; 14; 97; 53; 87; 185; 134; 193; 29; 158;
  225; 248; 152; 17; 105; 217; 142; 148; 155; 30; 135; 233; 206; 85; 40; 223;
  140; 161; 137; 13; 191; 230; 66; 104; 65; 153; 45; 15; 176; 84; 187; 22].
Definition sub (b : N) : N := nth (N.to_nat b) SBOX 0.
Definition xtime (a : N) : N := let d := a * 2 in if 255 <? d then N.lxor (d - 256) 27 else d.

(* state and round keys: lists of 16 bytes, column-major as in FIPS-197 *)
Definition xor_list (a b : list N) : list N := map (fun p => N.lxor (fst p) (snd p)) (combine a b).
Definition shift_rows (s : list N) : list N :=
  map (fun i => nth (Nat.modulo (i + 4 * Nat.modulo i 4) 16) s 0) (seq 0 16).
Definition mix_col (c : list N) : list N :=
  match c with
  | [a0; a1; a2; a3] =>
      let x := N.lxor (N.lxor a0 a1) (N.lxor a2 a3) in
      [N.lxor (N.lxor a0 x) (xtime (N.lxor a0 a1)); N.lxor (N.lxor a1 x) (xtime (N.lxor a1 a2));
       N.lxor (N.lxor a2 x) (xtime (N.lxor a2 a3)); N.lxor (N.lxor a3 x) (xtime (N.lxor a3 a0))]
  | _ => c
  end.
Definition mix_columns (s : list N) : list N :=
  mix_col (firstn 4 s) ++ mix_col (firstn 4 (skipn 4 s)) ++ mix_col (firstn 4 (skipn 8 s)) ++ mix_col (firstn 4 (skipn 12 s)).

(* key expansion: words are 4-byte lists; [nk] = 4, 6 or 8 *)
Definition rot_word (w : list N) : list N := match w with a :: r => r ++ [a] | [] => [] end.
Fixpoint expand (fuel : nat) (nk : nat) (i : nat) (rcon : N) (ws : list (list N)) : list (list N) :=
  (* ws holds the words so far, most recent first *)
  match fuel with
  | O => rev ws
  | S f =>
      let prev := nth 0 ws [] in
      let back := nth (nk - 1) ws [] in
      let '(t, rcon') :=
        if Nat.eqb (Nat.modulo i nk) 0 then
          (match map sub (rot_word prev) with a :: r => N.lxor a rcon :: r | [] => [] end, xtime rcon)
        else if andb (Nat.ltb 6 nk) (Nat.eqb (Nat.modulo i nk) 4) then (map sub prev, rcon)
        else (prev, rcon) in
      expand f nk (S i) rcon' (xor_list back t :: ws)
  end.
Definition key_words (key : list N) : list (list N) :=
  let nk := Nat.div (length key) 4 in
  let init := (fix go (k : list N) (n : nat) := match n with O => [] | S n' => firstn 4 k :: go (skipn 4 k) n' end) key nk in
  expand (4 * (nk + 7) - nk) nk nk 1 (rev init).
Fixpoint round_keys (ws : list (list N)) (n : nat) : list (list N) :=
  match n with O => [] | S n' => concat (firstn 4 ws) :: round_keys (skipn 4 ws) n' end.

Definition aes_encrypt_n (key block : list N) : list N :=
  let nr := (Nat.div (length key) 4 + 6)%nat in
  let rks := round_keys (key_words key) (S nr) in
  let s0 := xor_list block (nth 0 rks []) in
  let mid := fold_left (fun s rk => xor_list (mix_columns (shift_rows (map sub s))) rk) (firstn (nr - 1) (skipn 1 rks)) s0 in
  xor_list (shift_rows (map sub mid)) (nth nr rks []).

Definition aes_encrypt (key block : bytes) : bytes := map n2b (aes_encrypt_n (map b2n key) (map b2n block)).

Definition hex16 : list N := [0; 17; 34; 51; 68; 85; 102; 119; 136; 153; 170; 187; 204; 221; 238; 255].
Definition seqN (n : nat) : list N := map N.of_nat (seq 0 n).
Example fips197_c1 : aes_encrypt_n (seqN 16) hex16 = [105; 196; 224; 216; 106; 123; 4; 48; 216; 205; 183; 128; 112; 180; 197; 90].
Proof. vm_compute. reflexivity. Qed.
Example fips197_c2 : aes_encrypt_n (seqN 24) hex16 = [221; 169; 124; 164; 134; 76; 223; 224; 110; 175; 112; 160; 236; 13; 113; 145].
Proof. vm_compute. reflexivity. Qed.
Example fips197_c3 : aes_encrypt_n (seqN 32) hex16 = [142; 162; 183; 202; 81; 103; 69; 191; 234; 252; 73; 144; 75; 73; 96; 137].
Proof. vm_compute. reflexivity. Qed.
