(* Spec/PathSpec.v — std::path::Path::components on Unix, and lexical resolution.
   This *defines* the environment function the crate calls; the correspondence run compares it
   with std on every string over {a . / \ NUL} up to a length bound and on random names. *)
From ZipV Require Import Base.Bytes.
Open Scope N_scope.

Inductive comp := RootDir | CurDir | ParentDir | Normal (n : bytes).

Definition slash : byte := x2f.
Definition dot : byte := x2e.
Definition backslash : byte := x5c.
Definition nul : byte := x00.

Fixpoint split_on (sep : byte) (bs : bytes) : list bytes :=
  match bs with
  | [] => [[]]
  | b :: r =>
      if Byte.eqb b sep then [] :: split_on sep r
      else match split_on sep r with
           | p :: ps => (b :: p) :: ps
           | [] => [[b]]
           end
  end.

Fixpoint join (sep : byte) (ns : list bytes) : bytes :=
  match ns with
  | [] => []
  | [n] => n
  | n :: r => n ++ sep :: join sep r
  end.

Definition is_dot (p : bytes) : bool := bytes_eqb p [dot].
Definition is_dotdot (p : bytes) : bool := bytes_eqb p [dot; dot].
Definition is_empty (p : bytes) : bool := match p with [] => true | _ => false end.

Definition piece_comp (p : bytes) : option comp :=
  if is_empty p || is_dot p then None
  else if is_dotdot p then Some ParentDir else Some (Normal p).

Fixpoint body (ps : list bytes) : list comp :=
  match ps with
  | [] => []
  | p :: r => match piece_comp p with Some c => c :: body r | None => body r end
  end.

Definition components (bs : bytes) : list comp :=
  match bs with
  | b :: _ =>
      if Byte.eqb b slash then RootDir :: body (split_on slash bs)
      else match split_on slash bs with
           | p0 :: rest => if is_dot p0 then CurDir :: body rest else body (p0 :: rest)
           | [] => []
           end
  | [] => []
  end.

(* lexical resolution below a base directory: the stack holds the names *below* the base,
   innermost first; popping an empty stack (= climbing above the base) or meeting the root fails *)
Fixpoint walk (stack : list bytes) (cs : list comp) : option (list bytes) :=
  match cs with
  | [] => Some stack
  | RootDir :: _ => None
  | CurDir :: r => walk stack r
  | ParentDir :: r => match stack with [] => None | _ :: s => walk s r end
  | Normal n :: r => walk (n :: stack) r
  end.

Fixpoint normals (cs : list comp) : list bytes :=
  match cs with
  | [] => []
  | Normal n :: r => n :: normals r
  | _ :: r => normals r
  end.

