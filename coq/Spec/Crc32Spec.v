(* Spec/Crc32Spec.v — CRC-32 (IEEE 802.3, reflected, polynomial 0xEDB88320) defined bitwise.
   Stands for the crc32fast crate; compared with Python zlib.crc32 by the correspondence runs. *)
From ZipV Require Import Base.Bytes.
Open Scope N_scope.

Definition crc_bit (c : N) : N := if N.testbit c 0 then N.lxor (N.shiftr c 1) 3988292384 else N.shiftr c 1.
Definition crc_byte_spec (c : N) : N := crc_bit (crc_bit (crc_bit (crc_bit (crc_bit (crc_bit (crc_bit (crc_bit c))))))).
Definition crc_table_spec : list N :=
  (fix go (k : nat) (i : N) := match k with O => [] | S k' => crc_byte_spec i :: go k' (i + 1) end) 256%nat 0.
Definition crc_update (c : N) (b : byte) : N :=
  N.lxor (N.shiftr c 8) (nth (N.to_nat (N.land (N.lxor c (b2n b)) 255)) crc_table_spec 0).
Definition crc32 (bs : bytes) : N := N.lxor (fold_left crc_update bs 4294967295) 4294967295.
