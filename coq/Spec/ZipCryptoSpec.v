(* Spec/ZipCryptoSpec.v — the PKWARE traditional cipher, transcribed from APPNOTE 6.3.9 section 6.1.5/6.1.6
   with the CRC defined bitwise from the polynomial (Spec/Crc32Spec.v).  Independent of the crate. *)
From ZipV Require Import Base.Bytes Spec.Crc32Spec.
Open Scope N_scope.

Definition crc32_step (old c : N) : N :=
  N.lxor (nth (N.to_nat (N.land (N.lxor old c) 255)) crc_table_spec 0) (N.shiftr old 8).

Record keys := { k0 : N; k1 : N; k2 : N }.
Definition init_keys : keys := {| k0 := 305419896; k1 := 591751049; k2 := 878082192 |}.

Definition update_keys (k : keys) (c : N) : keys :=
  let key0 := crc32_step (k0 k) c in
  let key1 := ((k1 k + N.land key0 255) * 134775813 + 1) mod 2 ^ 32 in
  let key2 := crc32_step (k2 k) (N.shiftr key1 24) in
  {| k0 := key0; k1 := key1; k2 := key2 |}.

(* decrypt_byte(): temp = Key(2) | 2 (16 bit); return (temp * (temp ^ 1)) >> 8 *)
Definition decrypt_byte_mask (k : keys) : N :=
  let temp := N.lor (k2 k mod 65536) 2 in
  (N.shiftr ((temp * N.lxor temp 1) mod 65536) 8) mod 256.
