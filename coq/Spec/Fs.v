(* Spec/Fs.v — a small POSIX-like file tree: the part of the kernel/std::fs behaviour ZipArchive::extract
   depends on (create_dir_all, File::create, io::copy, set_permissions), without symlinks and without
   permission enforcement (checks run as root).  Locations are absolute lists of names below the sandbox. *)
From ZipV Require Import Base.Bytes Base.Outcome Spec.PathSpec.
Open Scope N_scope.

Definition loc := list bytes.
Inductive node := NDir (mode : N) | NFile (content : bytes) (mode : N).
Definition fs := list (loc * node).

Fixpoint loc_eqb (a b : loc) : bool :=
  match a, b with
  | [], [] => true
  | x :: a', y :: b' => bytes_eqb x y && loc_eqb a' b'
  | _, _ => false
  end.

Fixpoint lookup (t : fs) (l : loc) : option node :=
  match t with [] => None | (k, n) :: r => if loc_eqb k l then Some n else lookup r l end.
Fixpoint update (t : fs) (l : loc) (n : node) : fs :=
  match t with
  | [] => [(l, n)]
  | (k, m) :: r => if loc_eqb k l then (k, n) :: r else (k, m) :: update r l n
  end.

Inductive fserr := FsNotDir | FsIsDir | FsNoEnt | FsExists.

Definition dir_mode (umask : N) : N := N.land 511 (N.lxor 511 (N.land umask 511)).     (* 0777 & ~umask *)
Definition file_mode (umask : N) : N := N.land 438 (N.lxor 511 (N.land umask 511)).    (* 0666 & ~umask *)

(* every location written (created or modified), in order *)
Definition log := list loc.

(* create_dir_all along a component list starting in the existing directory [cur] *)
Fixpoint mkdir_all (umask : N) (t : fs) (cur : loc) (cs : list comp) (lg : log) : (fs * log) * option (loc + fserr) :=
  match cs with
  | [] => ((t, lg), Some (inl cur))
  | RootDir :: r => mkdir_all umask t [] r lg
  | CurDir :: r => mkdir_all umask t cur r lg
  | ParentDir :: r => mkdir_all umask t (removelast cur) r lg
  | Normal n :: r =>
      let l := cur ++ [n] in
      match lookup t l with
      | Some (NDir _) => mkdir_all umask t l r lg
      | Some (NFile _ _) => ((t, lg), Some (inr FsNotDir))
      | None => mkdir_all umask (update t l (NDir (dir_mode umask))) l r (lg ++ [l])
      end
  end.

(* kernel resolution of the directory part of a path: every component must already exist as a directory *)
Fixpoint resolve_dir (t : fs) (cur : loc) (pieces : list bytes) : loc + fserr :=
  match pieces with
  | [] => inl cur
  | p :: r =>
      if is_empty p || is_dot p then resolve_dir t cur r
      else if is_dotdot p then resolve_dir t (removelast cur) r
      else match lookup t (cur ++ [p]) with
           | Some (NDir _) => resolve_dir t (cur ++ [p]) r
           | Some (NFile _ _) => inr FsNotDir
           | None => inr FsNoEnt
           end
  end.

(* File::create(path) + write: O_CREAT|O_TRUNC on the last piece *)
Definition create_file (umask : N) (t : fs) (cur : loc) (pieces : list bytes) (content : bytes) (lg : log)
  : (fs * log) * option fserr :=
  match rev pieces with
  | [] => ((t, lg), Some FsIsDir)
  | last :: rdir =>
      match resolve_dir t cur (rev rdir) with
      | inr e => ((t, lg), Some e)
      | inl d =>
          if is_empty last || is_dot last || is_dotdot last then ((t, lg), Some FsIsDir)
          else let l := d ++ [last] in
               match lookup t l with
               | Some (NDir _) => ((t, lg), Some FsIsDir)
               | Some (NFile _ m) => ((update t l (NFile content m), lg ++ [l]), None)
               | None => ((update t l (NFile content (file_mode umask)), lg ++ [l]), None)
               end
      end
  end.

(* chmod(path, mode & 07777): kernel resolution of the directory part, then the last piece *)
Definition chmod (t : fs) (cur : loc) (pieces : list bytes) (mode : N) (lg : log) : (fs * log) * option fserr :=
  match rev pieces with
  | [] => ((t, lg), Some FsNoEnt)
  | last :: rdir =>
      match resolve_dir t cur (rev rdir) with
      | inr e => ((t, lg), Some e)
      | inl d =>
          let l := if is_empty last || is_dot last then d else if is_dotdot last then removelast d else d ++ [last] in
          match lookup t l with
          | Some (NDir _) => ((update t l (NDir (N.land mode 4095)), lg ++ [l]), None)
          | Some (NFile c _) =>
              if is_empty last then ((t, lg), Some FsNotDir)        (* trailing slash on a file *)
              else ((update t l (NFile c (N.land mode 4095)), lg ++ [l]), None)
          | None => ((t, lg), Some FsNoEnt)
          end
      end
  end.

Fixpoint is_prefix (a b : loc) : bool :=
  match a, b with
  | [], _ => true
  | x :: a', y :: b' => bytes_eqb x y && is_prefix a' b'
  | _, _ => false
  end.
