(* Spec/Sha1.v — SHA-1 (FIPS 180-4), HMAC (RFC 2104) and PBKDF2 (RFC 8018) over byte lists, for the
   executable instances of the [mac]/[kdf] oracles.  Pinned by RFC 3174 / RFC 2202 / RFC 6070 vectors;
   stand for the sha1, hmac and pbkdf2 crates. *)
From ZipV Require Import Base.Bytes.
Open Scope N_scope.

Definition M32 : N := 4294967296.
Definition add32 (a b : N) : N := (a + b) mod M32.
Definition rotl (n x : N) : N := (N.lor (N.shiftl x n) (N.shiftr x (32 - n))) mod M32.
Definition not32 (x : N) : N := M32 - 1 - x.

Fixpoint be_words (bs : list N) (n : nat) : list N :=
  match n with
  | O => []
  | S n' => match bs with
            | a :: b :: c :: d :: r => (((a * 256 + b) * 256 + c) * 256 + d) :: be_words r n'
            | _ => []
            end
  end.
Definition be_bytes (k : nat) (x : N) : list N :=
  (fix go (k : nat) (x : N) (acc : list N) := match k with O => acc | S k' => go k' (x / 256) (x mod 256 :: acc) end) k x [].

(* message schedule as a sliding window: [w] holds the last 16 words, oldest first *)
Definition sha1_round (t : nat) (st : N * N * N * N * N) (wt : N) : N * N * N * N * N :=
  let '(a, b, c, d, e) := st in
  let '(f, k) :=
    if Nat.ltb t 20 then (N.lor (N.land b c) (N.land (not32 b) d), 1518500249)
    else if Nat.ltb t 40 then (N.lxor (N.lxor b c) d, 1859775393)
    else if Nat.ltb t 60 then (N.lor (N.lor (N.land b c) (N.land b d)) (N.land c d), 2400959708)
    else (N.lxor (N.lxor b c) d, 3395469782) in
  (add32 (add32 (add32 (add32 (rotl 5 a) f) e) k) wt, a, rotl 30 b, c, d).

Fixpoint sha1_rounds (n : nat) (t : nat) (w : list N) (st : N * N * N * N * N) : N * N * N * N * N :=
  match n with
  | O => st
  | S n' =>
      match w with
      | w0 :: rest =>
          let st' := sha1_round t st w0 in
          let nw := rotl 1 (N.lxor (N.lxor (nth 13 w 0) (nth 8 w 0)) (N.lxor (nth 2 w 0) w0)) in
          sha1_rounds n' (S t) (rest ++ [nw]) st'
      | [] => st
      end
  end.

Definition sha1_compress (h : N * N * N * N * N) (block : list N) : N * N * N * N * N :=
  let '(h0, h1, h2, h3, h4) := h in
  let '(a, b, c, d, e) := sha1_rounds 80 0 (be_words block 16) h in
  (add32 h0 a, add32 h1 b, add32 h2 c, add32 h3 d, add32 h4 e).

Definition sha1_init : N * N * N * N * N := (1732584193, 4023233417, 2562383102, 271733878, 3285377520).

Fixpoint sha1_blocks (fuel : nat) (h : N * N * N * N * N) (bs : list N) : N * N * N * N * N :=
  match fuel with
  | O => h
  | S f => match bs with [] => h | _ => sha1_blocks f (sha1_compress h (firstn 64 bs)) (skipn 64 bs) end
  end.

Definition sha1_pad (msg : list N) : list N :=
  let l := length msg in
  let zeros := Nat.modulo (119 - Nat.modulo l 64) 64 in
  msg ++ [128] ++ repeat 0 zeros ++ be_bytes 8 (N.of_nat l * 8).

Definition digest_bytes (h : N * N * N * N * N) : list N :=
  let '(a, b, c, d, e) := h in be_bytes 4 a ++ be_bytes 4 b ++ be_bytes 4 c ++ be_bytes 4 d ++ be_bytes 4 e.

Definition sha1_n (msg : list N) : list N :=
  let p := sha1_pad msg in digest_bytes (sha1_blocks (S (Nat.div (length p) 64)) sha1_init p).

Definition hmac_n (key msg : list N) : list N :=
  let k0 := if Nat.ltb 64 (length key) then sha1_n key else key in
  let k := k0 ++ repeat 0 (64 - length k0) in
  sha1_n (map (N.lxor 92) k ++ sha1_n (map (N.lxor 54) k ++ msg)).

Definition xorl (a b : list N) : list N := map (fun p => N.lxor (fst p) (snd p)) (combine a b).

Fixpoint pbkdf2_iter (n : nat) (pw u acc : list N) : list N :=
  match n with O => acc | S n' => let u' := hmac_n pw u in pbkdf2_iter n' pw u' (xorl acc u') end.
Definition pbkdf2_block (pw salt : list N) (c : nat) (i : N) : list N :=
  let u1 := hmac_n pw (salt ++ be_bytes 4 i) in pbkdf2_iter (c - 1) pw u1 u1.
Fixpoint pbkdf2_blocks (nb : nat) (pw salt : list N) (c : nat) (i : N) : list N :=
  match nb with O => [] | S nb' => pbkdf2_block pw salt c i ++ pbkdf2_blocks nb' pw salt c (i + 1) end.
Definition pbkdf2_n (pw salt : list N) (c : nat) (dklen : nat) : list N :=
  firstn dklen (pbkdf2_blocks (Nat.div (dklen + 19) 20) pw salt c 1).

Definition hmac_sha1 (key msg : bytes) : bytes := map n2b (hmac_n (map b2n key) (map b2n msg)).
Definition pbkdf2_sha1 (pw salt : bytes) (c : nat) (dklen : N) : bytes :=
  map n2b (pbkdf2_n (map b2n pw) (map b2n salt) c (N.to_nat dklen)).

(* RFC 3174: SHA1("abc"); RFC 2202 test case 2; RFC 6070 test vectors 1 and 2 *)
Example sha1_abc : sha1_n [97; 98; 99] =
  [169; 153; 62; 54; 71; 6; 129; 106; 186; 62; 37; 113; 120; 80; 194; 108; 156; 208; 216; 157].
Proof. vm_compute. reflexivity. Qed.
Example hmac_rfc2202_2 : hmac_n [74; 101; 102; 101] (map b2n [x77; x68; x61; x74; x20; x64; x6f; x20; x79; x61; x20; x77; x61; x6e; x74; x20; x66; x6f; x72; x20; x6e; x6f; x74; x68; x69; x6e; x67; x3f]) =
  [239; 252; 223; 106; 229; 235; 47; 162; 210; 116; 22; 213; 241; 132; 223; 156; 37; 154; 124; 121].
Proof. vm_compute. reflexivity. Qed.
Definition ascii_password : list N := [112; 97; 115; 115; 119; 111; 114; 100].
Definition ascii_salt : list N := [115; 97; 108; 116].
Example pbkdf2_rfc6070_1 : pbkdf2_n ascii_password ascii_salt 1 20 =
  [12; 96; 200; 15; 150; 31; 14; 113; 243; 169; 181; 36; 175; 96; 18; 6; 47; 224; 55; 166].
Proof. vm_compute. reflexivity. Qed.
Example pbkdf2_rfc6070_2 : pbkdf2_n ascii_password ascii_salt 2 20 =
  [234; 108; 1; 77; 199; 45; 111; 140; 205; 30; 217; 42; 206; 29; 65; 240; 216; 222; 137; 87].
Proof. vm_compute. reflexivity. Qed.
