(* Props/C17.v — property C17: aligned entries are aligned; extra data lands where requested. *)
From Coq Require Import ZArith.
From ZipV Require Import Base.Bytes Base.Outcome Model.Readers Model.Reader Model.Writer Proofs.AlignProofs Proofs.WriterMisuse.
Open Scope N_scope.

(* the padding the writer computes makes the data start a multiple of the alignment: the self-check
   (assert_eq!) of start_file_aligned cannot fire when the padding record is written at the expected place *)
Theorem C17_padding_aligns : forall align data_start, 0 < align ->
  (data_start + 4 + pad_of align data_start) mod align = 0 /\ pad_of align data_start < align.
Proof. intros a d H. split; [now apply pad_aligns|now apply pad_lt]. Qed.
Print Assumptions C17_padding_aligns.

(* extra data accepted by the validator fits the 16-bit length field together with the local ZIP64
   reservation, and starts with a complete, unreserved, non-ZIP64 record *)
Theorem C17_validation : forall f, validate_extra_data f = Ok tt ->
  len (w_extra f) + (if w_large f then 20 else 0) <= 65535 /\
  (w_extra f <> [] ->
   4 <= len (w_extra f) /\ unle (take 2 (w_extra f)) <> 1 /\ reserved_id (unle (take 2 (w_extra f))) = false /\
   unle (take 2 (drop 2 (w_extra f))) <= len (w_extra f) - 4).
Proof. intros f H. split; [now apply extra_validation_len|now apply extra_validation_first]. Qed.
Print Assumptions C17_validation.

(* ---------- as the READER sees it.
   start_file_aligned for a stored, unencrypted, non-large entry on a well-behaved sink (anything written before: b):
   the call succeeds and the sink is  b ++ local header ++ name ++ extra  where the header's length fields are the
   true ones (after the writer patched the extra length), so that the reader's find_content on a record pointing at
   this header computes the data offset |b| + 30 + |name| + |extra| -- and that offset is a multiple of the
   alignment (for alignments > 1 up to 32768; 0 and 1 request nothing).  The padding is one well-formed record of the
   writer's own padding id, accepted by its own validation. *)
From ZipV Require Import Gen.CompressionGen Proofs.Zip64Proofs Proofs.WriterIdeal Proofs.WriterEntry Proofs.EntryRead Proofs.AlignedEntry.
Theorem C17_reader_sees_aligned : forall enc crc s s1 b name o align hdr rest g,
  finish_file enc crc s = (s1, Ok tt) -> ws_inner s1 = WStorer (at_end b) -> ws_central_only s1 = false ->
  len name <= 65535 -> stored_opts o -> 1 < align -> align <= 32768 ->
  local_header_chunks (mk_wfile name (with_perm o 420 32768) None (len b)) = Ok hdr ->
  f_header_start g = len b -> len b + 30 + 65535 + 65535 < 2 ^ 64 ->
  exists s' v sink ds t,
    start_file_aligned enc crc s name o align = (s', Ok v) /\
    ws_inner s' = WStorer (at_end sink) /\
    find_content (sink ++ rest) g = Ok (ds, t) /\ ds mod align = 0 /\ ds = len sink.
Proof.
  intros enc crc s s1 b name o align hdr rest g Hff Hin Hco Hn Ho Ha1 Ha2 Hh Hhs Hfit.
  destruct (aligned_reader_view enc crc s s1 b name o align hdr Hff Hin Hco Hn Ho Ha2 Hh) as (s' & v & lh & extra & Hsa & Hins & Hok & Hel & Hal).
  exists s', v, (b ++ lh ++ name ++ extra).
  pose proof (find_content_rendered b lh name extra [] rest g Hok Hn Hel Hhs) as Hfc.
  rewrite app_nil_l in Hfc.
  replace ((b ++ lh ++ name ++ extra) ++ rest) with (b ++ lh ++ name ++ extra ++ rest) by (rewrite <- !app_assoc; reflexivity).
  eexists. eexists. split; [exact Hsa|]. split; [exact Hins|].
  split; [apply Hfc; lia|]. split; [apply Hal; exact Ha1|].
  destruct Hok as (mid & Hm & ->). rewrite !len_app, !len_le, Hm. cbn [N.of_nat Pos.of_succ_nat Pos.succ]. lia.
Qed.
Print Assumptions C17_reader_sees_aligned.

(* ---------- user extra data lands where requested, verbatim.
   start_file_with_extra_data, write_all of the extra data x, end_extra_data -- for a stored, unencrypted, non-large
   entry on a well-behaved sink (anything written before: b), and every x the validation accepts (complete records,
   no ZIP64 id, no reserved id: C17_validation; at most 65,535 bytes):
   - the three calls succeed; the first returns the offset right behind the name, the last the offset behind x;
   - the sink is  b ++ local header ++ name ++ x : the bytes of x verbatim between the name and the data, the header's
     extra-length field = |x| (so the reader's find_content puts the data right behind x);
   - the record kept for the central directory carries the same x (rendered into the central record and returned by
     the reader's extra_data(): C01_central_record_roundtrip). *)
From ZipV Require Import Proofs.ExtraVerbatim.
Theorem C17_extra_data_verbatim : forall enc crc s s1 b name o hdr x rest g,
  finish_file enc crc s = (s1, Ok tt) -> ws_inner s1 = WStorer (at_end b) -> ws_central_only s1 = false ->
  len name <= 65535 -> stored_opts o ->
  local_header_chunks (mk_wfile name (with_perm o 420 32768) None (len b)) = Ok hdr ->
  len x <= 65535 -> validate_records (S (length x)) x = Ok tt ->
  f_header_start g = len b -> len b + 30 + 65535 + 65535 < 2 ^ 64 ->
  exists sA sB sC lh f t,
    start_file_with_extra_data enc crc s name o = (sA, Ok (len b + 30 + len name)) /\
    zw_write_all sA x = (sB, Ok tt) /\
    end_extra_data enc sB = (sC, Ok (len b + 30 + len name + len x)) /\
    ws_inner sC = WStorer (at_end (b ++ lh ++ name ++ x)) /\
    find_content ((b ++ lh ++ name ++ x) ++ rest) g = Ok (len b + 30 + len name + len x, t) /\
    ws_files sC = ws_files s1 ++ [f] /\ w_extra f = x /\ w_name f = name /\ w_header_start f = len b.
Proof.
  intros enc crc s s1 b name o hdr x rest g Hff Hin Hco Hn Ho Hh Hxl Hxv Hhs Hfit.
  destruct (extra_data_verbatim enc crc s s1 b name o hdr x Hff Hin Hco Hn Ho Hh Hxl Hxv)
    as (sA & sB & sC & lh & f & HA & HB & HC & Hsink & Hok & Hfs & Hfx & Hfn & _ & Hfh & _).
  pose proof (find_content_rendered b lh name x [] rest g Hok Hn Hxl Hhs) as Hfc.
  rewrite app_nil_l in Hfc.
  exists sA, sB, sC, lh, f. eexists.
  replace ((b ++ lh ++ name ++ x) ++ rest) with (b ++ lh ++ name ++ x ++ rest) by (rewrite <- !app_assoc; reflexivity).
  split; [exact HA|]. split; [exact HB|]. split; [exact HC|]. split; [exact Hsink|].
  split; [apply Hfc; lia|]. repeat split; assumption.
Qed.
Print Assumptions C17_extra_data_verbatim.

(* non-vacuity: a record with the unreserved id 0xbeef and three data bytes passes the validation *)
Example C17_valid_extra_example :
  let x := [xef; xbe; x03; x00; x01; x02; x03] in len x <= 65535 /\ validate_records (S (length x)) x = Ok tt.
Proof. split; [vm_compute; discriminate|vm_compute; reflexivity]. Qed.
