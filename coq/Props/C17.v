(* Props/C17.v — property C17: aligned entries are aligned; extra data lands where requested. *)
From Coq Require Import ZArith.
From ZipV Require Import Base.Bytes Base.Outcome Model.Readers Model.Reader Model.Writer Proofs.AlignProofs Proofs.WriterMisuse.
Open Scope N_scope.

(* the padding the writer computes makes the data start a multiple of the alignment: the self-check
   (assert_eq!) of start_file_aligned cannot fire when the padding record is written at the expected place *)
Theorem C17_padding_aligns : forall align data_start, 0 < align ->
  (data_start + 4 + pad_of align data_start) mod align = 0 /\ pad_of align data_start < align.
Proof. intros a d H. split; [now apply pad_aligns|now apply pad_lt]. Qed.
Print Assumptions C17_padding_aligns.

(* extra data accepted by the validator fits the 16-bit length field together with the local ZIP64
   reservation, and starts with a complete, unreserved, non-ZIP64 record *)
Theorem C17_validation : forall f, validate_extra_data f = Ok tt ->
  len (w_extra f) + (if w_large f then 20 else 0) <= 65535 /\
  (w_extra f <> [] ->
   4 <= len (w_extra f) /\ unle (take 2 (w_extra f)) <> 1 /\ reserved_id (unle (take 2 (w_extra f))) = false /\
   unle (take 2 (drop 2 (w_extra f))) <= len (w_extra f) - 4).
Proof. intros f H. split; [now apply extra_validation_len|now apply extra_validation_first]. Qed.
Print Assumptions C17_validation.
