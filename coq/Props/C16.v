(* Props/C16.v — property C16: WinZip-AES entries decrypt correctly and tampering is detected.
   [blk] (AES block encryption), [mac] (HMAC-SHA1) and [kdf] (PBKDF2) are arbitrary functions in every
   theorem: nothing is assumed about them except, where stated, that the MAC is at least 10 bytes long.
   "Any change makes it fail" therefore reduces to: a completed read implies that the 80-bit MAC over the
   RECEIVED ciphertext equals the stored code (C16_sound) — HMAC-SHA1-80 unforgeability is cryptography,
   not a theorem. *)
From ZipV Require Import Base.Bytes Base.Outcome Model.Readers Model.Reader
     Proofs.StreamProofs Proofs.CrcProofs Proofs.AesProofs Proofs.ReaderTotal.
Open Scope N_scope.

(* the keystream is its own inverse and independent of how the data is chunked *)
Theorem C16_ctr : forall blk a s,
  snd (ctr_crypt blk s (snd (ctr_crypt blk s a))) = a /\
  forall b, ctr_crypt blk s (a ++ b) =
            let '(s1, oa) := ctr_crypt blk s a in let '(s2, ob) := ctr_crypt blk s1 b in (s2, oa ++ ob).
Proof. intros blk a s. split; [apply ctr_involutive|intro b; apply ctr_crypt_app]. Qed.
Print Assumptions C16_ctr.

(* the authenticating reader streams a denotation: chunk-independent, total *)
Theorem C16_reader_streams : forall blk mac (I : Type) (ird : reader I) Inv Di,
  streams ird Inv Di -> always_good Inv Di ->
  streams (aes_read blk mac ird) (aes_inv' Inv) (aes_den blk mac Di).
Proof. exact (@aes_streams). Qed.
Print Assumptions C16_reader_streams.

(* soundness: whatever bytes the archive holds, a read of a non-empty entry that completes has verified
   the authentication code over the ciphertext it received and returned exactly its CTR decryption *)
Theorem C16_sound : forall blk mac (I : Type) (ird : reader I) Inv Di,
  streams ird Inv Di -> always_good Inv Di ->
  forall bufs s outs sf k n r,
    aes_inv' Inv s -> Di (a_inner s) = Good r -> a_remaining s <> 0 ->
    run_reads (aes_read blk mac ird) s bufs = (outs, sf) ->
    nth_error bufs k = Some n -> 0 < n -> nth_error outs k = Some (Ok []) ->
    a_remaining s + 10 <= len r /\
    firstn 10 (mac (a_hkey s) (a_seen s ++ take (a_remaining s) r)) = take 10 (drop (a_remaining s) r) /\
    oks (firstn k outs) = snd (ctr_crypt blk (a_ctr s) (take (a_remaining s) r)).
Proof. exact (@aes_sound). Qed.
Print Assumptions C16_sound.

(* correctness: the container an encryptor following the WinZip specification produces
   (CTR ciphertext followed by the first 10 MAC bytes) denotes the original data *)
Theorem C16_decrypts : forall blk mac (I : Type) (Di : I -> den) (s : aes_st (I := I)) data rest,
  (forall k m, 10 <= len (mac k m)) -> data <> [] ->
  let ct := snd (ctr_crypt blk (a_ctr s) data) in
  a_remaining s = len data -> a_seen s = [] ->
  Di (a_inner s) = Good (ct ++ firstn 10 (mac (a_hkey s) ct) ++ rest) ->
  aes_den blk mac Di s = Good data.
Proof.
  intros blk mac I Di s data rest Hm Hne ct Hrem Hseen Hd.
  assert (Hlct : len ct = len data) by (unfold ct, len; now rewrite ctr_crypt_len).
  assert (Hl10 : len (firstn 10 (mac (a_hkey s) ct)) = 10).
  { unfold len. rewrite firstn_length. specialize (Hm (a_hkey s) ct). unfold len in Hm. lia. }
  unfold aes_den. rewrite Hd, Hrem, Hseen. cbn [app].
  destruct (len data =? 0) eqn:E0.
  { destruct data; [contradiction|unfold len in E0; cbn in E0; lia]. }
  rewrite !len_app, Hl10, Hlct.
  assert ((len data + (10 + len rest) <? len data + 10) = false) as -> by lia.
  rewrite <- Hlct. rewrite take_app_exact, drop_app_exact.
  assert (Ht : take 10 (firstn 10 (mac (a_hkey s) ct) ++ rest) = firstn 10 (mac (a_hkey s) ct))
    by (rewrite <- Hl10 at 1; apply take_app_exact).
  rewrite Ht.
  assert (bytes_eqb (firstn 10 (mac (a_hkey s) ct)) (firstn 10 (mac (a_hkey s) ct)) = true) as -> by (now apply bytes_eqb_eq).
  unfold ct. now rewrite ctr_involutive.
Qed.
Print Assumptions C16_decrypts.

(* CRC policy: enforced for AE-1, never consulted for AE-2 (which the MAC covers) *)
Theorem C16_crc_policy_ae1 : forall crc blk mac (f : zfd) s bufs outs sf k n,
  run_reads (stored_read blk mac crc) (make_stored f (CAes s false)) bufs = (outs, sf) ->
  nth_error bufs k = Some n -> n <> 0 -> nth_error outs k = Some (Ok []) ->
  crc (oks (firstn k outs)) = f_crc f.
Proof.
  intros crc blk mac f s bufs outs sf k n Hr Hk Hn Ho.
  destruct (crc_eof_means_match crc (crypto_read blk mac) bufs (make_stored f (CAes s false)) outs sf k n Hr Hk Hn Ho) as [H|H];
    [discriminate|exact H].
Qed.
Print Assumptions C16_crc_policy_ae1.

(* no panic on any AES entry, whatever its declared sizes (fix D4) *)
Theorem C16_no_panic : forall kdf blk mac crc (ar : archive) i pw f ds c bufs, len (ar_data ar) < 2 ^ 63 ->
  no_panic (by_index_opt kdf ar i pw) /\
  (by_index_opt kdf ar i pw = Ok (Some (f, ds, c)) ->
   Forall (fun r => no_panic r) (fst (run_reads (zipfile_read blk mac crc) (make_stored f c) bufs))).
Proof.
  intros kdf blk mac crc ar i pw f ds c bufs Hl. split.
  - exact (proj1 (by_index_opt_np kdf blk mac crc ar i pw Hl)).
  - intro Hb. apply entry_reads_np. exact (proj2 (by_index_opt_np kdf blk mac crc ar i pw Hl) f ds c Hb).
Qed.
Print Assumptions C16_no_panic.
