(* Props/C01.v — property C01: write then read returns exactly what was written.
   Theorems over Model/Writer.v + Model/Reader.v land here as they are proved (DESIGN.md 8/C01). *)
From Coq Require Import ZArith.
From ZipV Require Import Base.Bytes Base.Outcome Gen.GenLib Gen.SpecGen Gen.CompressionGen Gen.TypesGen Spec.Utf8 Model.Dos Model.Cp437
     Model.Readers Model.Reader Model.Writer Proofs.WriterProofs Proofs.Utf8Proofs Proofs.TextProofs Proofs.Zip64Proofs Proofs.WriterIdeal Proofs.CentralRoundtrip Proofs.OpenRendered.
Open Scope N_scope.

(* the ZIP64 part of a central record written by the writer is exactly what the reader's extra-field walk
   needs to recover the three 64-bit values from the (clamped) 32-bit header fields *)
Theorem C01_central_sizes_roundtrip : forall us cs hs, us < 2 ^ 64 -> cs < 2 ^ 64 -> hs < 2 ^ 64 ->
  read_back_sizes us cs hs = (us, cs, hs).
Proof. exact central_sizes_roundtrip. Qed.
Print Assumptions C01_central_sizes_roundtrip.

(* ---------- record level: every central directory record the writer can emit is read back exactly.
   For every record f the writer keeps (any system/made-by byte, any method code the writer can carry, any CRC,
   attributes, sizes and offset below 2^64 -- with or without ZIP64 block --, any name up to 65535 bytes, any user
   extra data that passed validate_extra_data), rendered by central_header_chunks between ARBITRARY surrounding bytes,
   the reader model's parse_central (fixed fields, name, extra field walk incl. the ZIP64 block and the skipping of
   the user records, AES check, offset adjustment) returns exactly [decoded f]: same system, made-by, encryption
   flag, method, CRC, 64-bit sizes, offset (+ archive offset), attributes, raw name, extra bytes; the name decoded
   by the flag the writer sets; the time as unpacked from the packed DOS words; and the position just behind the
   record, so directory walks stay in step.  (Used by C01 C02 C03 C08 C13 C14 C17.) *)
Theorem C01_central_record_roundtrip : forall f ao cs pre post, wf_central f ao -> central_header_chunks f = Ok cs ->
  exists d dt, DateTime_datepart (w_time f) = Some d /\ DateTime_from_msdos d (DateTime_timepart (w_time f)) = Some dt /\
    parse_central (pre ++ concat cs ++ post) (len pre) ao = Ok (decoded f dt ao (len pre), len pre + len (concat cs)).
Proof. exact central_roundtrip. Qed.
Print Assumptions C01_central_record_roundtrip.

(* and the name comes back as the string that was given: the writer's flag choice + the reader's decoding *)
Theorem C01_name_roundtrip : forall cps, forallb scalar cps = true ->
  let name := utf8_encode cps in decode_text (negb (is_ascii name)) name = name.
Proof. exact writer_name_roundtrip. Qed.
Print Assumptions C01_name_roundtrip.

(* non-vacuity: a record as start_file creates it satisfies the well-formedness premise and renders *)
Example C01_wf_example :
  let f := {| w_system := 3; w_made_by := 46; w_encrypted := false; w_method := CompressionMethod_Deflated; w_level := None;
              w_time := DateTime_default; w_crc := 305419896; w_csize := 4294967296; w_usize := 5000000000; w_name := [x61; x2f; x62];
              w_extra := []; w_header_start := 4294967295; w_data_start := 0; w_ext_attr := 2175008768; w_large := true |} in
  wf_central f 0 /\ exists cs, central_header_chunks f = Ok cs.
Proof.
  cbv zeta. split.
  - constructor; cbn [w_system w_made_by w_method w_time w_crc w_ext_attr w_usize w_csize w_header_start w_name w_extra];
      first [ cbn; lia
            | unfold method_ok; cbn; repeat split; try discriminate; lia
            | intros d H; vm_compute in H; injection H as <-; lia
            | exists 0%nat; reflexivity ].
  - eexists. reflexivity.
Qed.

(* ---------- directory level: finish(), then open.
   For every writer state whose last entry closes onto a well-behaved sink holding the bytes b (ANY bytes: the entries
   written so far), with records that render (wf_central) and a comment that fits: finish() returns
   b ++ directory ++ end records, and the reader model's open on exactly these bytes succeeds with archive offset 0,
   the comment, and one entry per writer record, in order, each the [decoded] image of its record (names, methods,
   CRCs, 64-bit sizes and offsets, attributes, times as packed).  Two hypotheses are the reader's own blind spots,
   spelled out: without ZIP64 records the 4 bytes 20 in front of the end record must not happen to be the locator
   signature, and the comment must not contain a later end-record signature (vacuous for an empty comment). *)
Theorem C01_finish_then_open : forall enc crc s s1 b css,
  finish_file enc crc s = (s1, Ok tt) -> ws_inner s1 = WStorer (at_end b) ->
  len (ws_comment s) <= 65535 -> ws_comment s1 = ws_comment s ->
  Forall2 rendered (ws_files s1) css ->
  let dir := concat (map (@concat byte) css) in
  let n := N.of_nat (length (ws_files s1)) in
  len b + len dir < 2 ^ 64 ->
  (needs64 n (len dir) (len b) = false -> no_locator_before (b ++ dir)) ->
  no_later_sig n (len dir) (len b) (ws_comment s) ->
  exists s2 data gs,
    finish enc crc s = (s2, Ok data) /\
    open data = Ok {| ar_data := data; ar_files := gs; ar_offset := 0; ar_comment := ws_comment s |} /\
    decoded_list (ws_files s1) css (len b) gs.
Proof. exact finish_then_open. Qed.
Print Assumptions C01_finish_then_open.

(* the reader on ANY front bytes followed by a rendered directory and end records (not only after finish) *)
Theorem C01_open_rendered : forall front files css comment gs,
  Forall2 rendered files css ->
  let dir := concat (map (@concat byte) css) in
  let n := N.of_nat (length files) in
  len front + len dir < 2 ^ 64 -> len comment <= 65535 ->
  (needs64 n (len dir) (len front) = false -> no_locator_before (front ++ dir)) ->
  no_later_sig n (len dir) (len front) comment ->
  decoded_list files css (len front) gs ->
  exists data, data = front ++ dir ++ concat (end_records n (len front) (len dir) comment) /\
    open data = Ok {| ar_data := data; ar_files := gs; ar_offset := 0; ar_comment := comment |}.
Proof. exact open_rendered. Qed.
Print Assumptions C01_open_rendered.

(* non-vacuity: a fresh writer, finished at once, yields the 22-byte empty archive, which opens *)
Example C01_empty_archive : forall enc crc,
  exists s2 data, finish enc crc (new_writer []) = (s2, Ok data) /\ open data = Ok {| ar_data := data; ar_files := []; ar_offset := 0; ar_comment := [] |}.
Proof.
  intros. destruct (finish_then_open enc crc (new_writer []) (new_writer []) [] []) as (s2 & data & gs & A & B & C);
    try reflexivity; try (cbn; lia); try constructor.
  - intros _ H. cbn in H. lia.
  - apply no_later_sig_empty.
  - inversion C; subst. eauto.
Qed.

(* ---------- end to end, for a stored entry.
   For EVERY name (up to 65535 bytes), every set of options selecting Stored without encryption / large_file (any
   permissions, any DOS-representable time), EVERY content up to 2^32-1 bytes, every compressor and every checksum
   function with 32-bit values:  the writer model's  start_file; write_all; finish  on a well-behaved sink succeed, and
   -- unless the bytes in front of a plain end record look like a ZIP64 locator (finding D22) -- the reader model's
   open on the returned bytes yields exactly one entry, offset 0, empty comment; opening it by index succeeds; the
   entry reader DENOTES the content (so by C09_complete_run every completed read, under every schedule of buffer
   sizes including zero-length reads, returns exactly the content, and chunking is irrelevant); raw name, decoded
   name, method, sizes and CRC are the written ones.
   (C01_stored_roundtrip below is the statement for any number of entries.) *)
From ZipV Require Import Proofs.StreamProofs Proofs.EntryRead Proofs.WriterEntry Proofs.StoredRoundtrip.
Theorem C01_stored_single_roundtrip : forall (kdf : bytes -> bytes -> N -> bytes) (blk mac : bytes -> bytes -> bytes) enc crc, (forall x, crc x < 2 ^ 32) ->
  forall name o content,
  len name <= 65535 -> stored_opts o -> dos_ok (o_time o) -> len content <= ZIP64_BYTES_THR ->
  exists s1 s2 s3 data b dir,
    start_file enc crc (new_writer []) name o = (s1, Ok tt) /\
    zw_write_all s1 content = (s2, Ok tt) /\
    finish enc crc s2 = (s3, Ok data) /\
    data = b ++ dir ++ concat (end_records 1 (len b) (len dir) []) /\
    ((needs64 1 (len dir) (len b) = false -> no_locator_before (b ++ dir)) ->
     exists g ds c,
       open data = Ok {| ar_data := data; ar_files := [g]; ar_offset := 0; ar_comment := [] |} /\
       by_index_opt kdf {| ar_data := data; ar_files := [g]; ar_offset := 0; ar_comment := [] |} 0 None = Ok (Some (g, ds, c)) /\
       plain_inv c /\ crc_den crc plain_den (make_stored g c) = Good content /\
       f_name_raw g = name /\ f_name g = decode_text (negb (is_ascii name)) name /\
       f_method g = CompressionMethod_Stored /\ f_usize g = len content /\ f_csize g = len content /\ f_crc g = crc content).
Proof. exact stored_single_roundtrip. Qed.
Print Assumptions C01_stored_single_roundtrip.

(* the same for ANY number of stored entries: the program  start_file n1 o1; write_all c1; ...; start_file nk ok;
   write_all ck; finish  (each start_file closes the previous entry and patches its header) returns bytes on which the
   reader lists k entries, in order, and entry i denotes c_i, with name n_i (cls pairs every record with its content) *)
Theorem C01_stored_roundtrip : forall (kdf : bytes -> bytes -> N -> bytes) (blk mac : bytes -> bytes -> bytes) enc crc,
  (forall x, crc x < 2 ^ 32) ->
  forall n1 o1 c1 rest,
  let es := (n1, o1, c1) :: rest in
  Forall entry_ok es -> layout_len es + N.of_nat (length es) * 131218 < 2 ^ 64 ->
  exists s' s3 data b dir (cls : list closed),
    write_entries enc crc (new_writer []) es = (s', Ok tt) /\
    finish enc crc s' = (s3, Ok data) /\
    data = b ++ dir ++ concat (end_records (N.of_nat (length es)) (len b) (len dir) []) /\
    map (fun cl : closed => (w_name (fst (fst cl)), snd cl)) cls = map (fun e : entry => (fst (fst e), snd e)) es /\
    ((needs64 (N.of_nat (length es)) (len dir) (len b) = false -> no_locator_before (b ++ dir)) ->
     exists gs,
       let ar := {| ar_data := data; ar_files := gs; ar_offset := 0; ar_comment := [] |} in
       open data = Ok ar /\ length gs = length es /\
       forall i f cs c, nth_error cls i = Some (f, cs, c) ->
         exists dt p ds cr,
           nth_error gs i = Some (decoded f dt 0 p) /\
           by_index_opt kdf ar (N.of_nat i) None = Ok (Some (decoded f dt 0 p, ds, cr)) /\
           plain_inv cr /\ crc_den crc plain_den (make_stored (decoded f dt 0 p) cr) = Good c).
Proof. exact stored_roundtrip. Qed.
Print Assumptions C01_stored_roundtrip.

(* what "denotes" buys: any schedule of reads that reaches a clean end of file has returned exactly the content *)
Theorem C01_denoted_is_read : forall blk mac crc (s : stored_st) content bufs outs sf k n,
  plain_inv (k_inner s) -> crc_den crc plain_den s = Good content ->
  run_reads (zipfile_read blk mac crc) s bufs = (outs, sf) ->
  nth_error bufs k = Some n -> 0 < n -> nth_error outs k = Some (Ok []) ->
  oks (firstn k outs) = content.
Proof.
  intros blk mac crc s content bufs outs sf k n Hi Hd Hr Hk Hn Ho.
  exact (proj1 (complete_run (zipfile_read blk mac crc) _ _ (zipfile_streams (fun _ _ _ => []) blk mac crc) bufs s content outs sf k n Hi Hd Hr Hk Hn Ho)).
Qed.
Print Assumptions C01_denoted_is_read.

(* ---------- the known finding D22: the hypothesis no_locator_before is not idle.
   A one-entry archive whose name ends in "PK\006\007" + 16 bytes: the writer model finishes it, the reader model
   refuses it (it takes the name's tail for a ZIP64 locator).  The same program on the crate behaves the same
   (evidence/C01.json, KNOWN-FINDING line). *)
From ZipV Require Import Spec.Crc32Spec.
Definition d22_name : bytes := [x78; x50; x4b; x06; x07; x30; x31; x32; x33; x34; x35; x36; x37; x38; x39; x61; x62; x63; x64; x65; x66].
Definition d22_opts : wopts :=
  {| o_method := CompressionMethod_Stored; o_level := None; o_time := DateTime_default; o_perm := None; o_large := false; o_encrypt := None |}.
Example C01_locator_blind_spot :
  let enc := fun (_ : CompressionMethod) (_ : Z) (x : bytes) => x in
  let '(s1, r1) := start_file enc crc32 (new_writer []) d22_name d22_opts in
  let '(s2, r2) := zw_write_all s1 [x64; x61; x74; x61] in
  let '(s3, r3) := finish enc crc32 s2 in
  r1 = Ok tt /\ r2 = Ok tt /\
  match r3 with Ok data => open data = Err (EUnsupported MMultiDisk) | _ => False end.
Proof. vm_compute. repeat split. Qed.

(* ---------- not only on a sink that takes every write whole.
   The same program over ANY sink that splits writes arbitrarily (and does not fail) succeeds as well and finish()
   returns the very same bytes: every conclusion of C01_stored_roundtrip about [data] therefore holds for such sinks
   (writer simulation, Proofs/ChunkSim.v). *)
From ZipV Require Import Proofs.ShortWrites Proofs.RoundtripChunked.
Theorem C01_roundtrip_any_chunking : forall enc crc es plan s' s3 data,
  nofail plan -> write_entries enc crc (new_writer []) es = (s', Ok tt) -> finish enc crc s' = (s3, Ok data) ->
  exists sp s3p, write_entries enc crc (new_writer plan) es = (sp, Ok tt) /\ finish enc crc sp = (s3p, Ok data).
Proof. exact roundtrip_any_chunking. Qed.
Print Assumptions C01_roundtrip_any_chunking.
