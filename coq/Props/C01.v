(* Props/C01.v — property C01: write then read returns exactly what was written.
   Theorems over Model/Writer.v + Model/Reader.v land here as they are proved (DESIGN.md 8/C01). *)
From ZipV Require Import Base.Bytes Base.Outcome Model.Readers Model.Reader Model.Writer Proofs.WriterProofs.
Open Scope N_scope.

(* the ZIP64 part of a central record written by the writer is exactly what the reader's extra-field walk
   needs to recover the three 64-bit values from the (clamped) 32-bit header fields *)
Theorem C01_central_sizes_roundtrip : forall us cs hs, us < 2 ^ 64 -> cs < 2 ^ 64 -> hs < 2 ^ 64 ->
  read_back_sizes us cs hs = (us, cs, hs).
Proof. exact central_sizes_roundtrip. Qed.
Print Assumptions C01_central_sizes_roundtrip.
