(* Props/C07.v — property C07: extract() reproduces the tree and writes nothing outside the target. *)
From ZipV Require Import Base.Bytes Base.Outcome Spec.PathSpec Model.Path Spec.Fs Model.Extract Proofs.ExtractProofs.
Open Scope N_scope.

(* an entry with an unsafe name stops the extraction with the invalid-path error before anything is written for it *)
Theorem C07_unsafe_rejected : forall umask root st e, x_open e = None -> enclosed_name (x_name e) = None ->
  extract_entry umask root st e = (st, XErr (EInvalid MInvalidFilePath)).
Proof. exact unsafe_entry_rejected. Qed.
Print Assumptions C07_unsafe_rejected.

(* confinement: every location the seekable extractor writes lies under the target directory *)
Theorem C07_confined : forall umask root es t lg t' lg' r,
  Forall (fun l => is_prefix root l = true) lg ->
  extract umask root (t, lg) es = ((t', lg'), r) -> Forall (fun l => is_prefix root l = true) lg'.
Proof. exact extract_confined. Qed.
Print Assumptions C07_confined.

(* the streaming extractor: file phase and metadata (permission) phase are both confined *)
Theorem C07_stream_confined : forall umask root es ms t lg t1 lg1 r1 t2 lg2 r2,
  Forall (fun l => is_prefix root l = true) lg ->
  sextract_files umask root (t, lg) es = ((t1, lg1), r1) ->
  sextract_metas root (t1, lg1) ms = ((t2, lg2), r2) ->
  Forall (fun l => is_prefix root l = true) lg2.
Proof.
  intros umask root es ms t lg t1 lg1 r1 t2 lg2 r2 Hl H1 H2.
  exact (sextract_metas_confined root ms t1 lg1 t2 lg2 r2 (sextract_files_confined umask root es t lg t1 lg1 r1 Hl H1) H2).
Qed.
Print Assumptions C07_stream_confined.
