(* Props/C07.v — property C07: extract() reproduces the tree and writes nothing outside the target. *)
From ZipV Require Import Base.Bytes Base.Outcome Spec.PathSpec Model.Path Spec.Fs Model.Extract Proofs.ExtractProofs.
Open Scope N_scope.

(* an entry with an unsafe name stops the extraction with the invalid-path error before anything is written for it *)
Theorem C07_unsafe_rejected : forall umask root st e, x_open e = None -> enclosed_name (x_name e) = None ->
  extract_entry umask root st e = (st, XErr (EInvalid MInvalidFilePath)).
Proof. exact unsafe_entry_rejected. Qed.
Print Assumptions C07_unsafe_rejected.

(* confinement: every location the seekable extractor writes lies under the target directory *)
Theorem C07_confined : forall umask root es t lg t' lg' r,
  Forall (fun l => is_prefix root l = true) lg ->
  extract umask root (t, lg) es = ((t', lg'), r) -> Forall (fun l => is_prefix root l = true) lg'.
Proof. exact extract_confined. Qed.
Print Assumptions C07_confined.

(* the streaming extractor: file phase and metadata (permission) phase are both confined *)
Theorem C07_stream_confined : forall umask root es ms t lg t1 lg1 r1 t2 lg2 r2,
  Forall (fun l => is_prefix root l = true) lg ->
  sextract_files umask root (t, lg) es = ((t1, lg1), r1) ->
  sextract_metas root (t1, lg1) ms = ((t2, lg2), r2) ->
  Forall (fun l => is_prefix root l = true) lg2.
Proof.
  intros umask root es ms t lg t1 lg1 r1 t2 lg2 r2 Hl H1 H2.
  exact (sextract_metas_confined root ms t1 lg1 t2 lg2 r2 (sextract_files_confined umask root es t lg t1 lg1 r1 Hl H1) H2).
Qed.
Print Assumptions C07_stream_confined.

(* ---------- the positive half: a consistent archive of plain entries is reproduced exactly.
   Items: files  n1/../nk  with content and optional Unix mode, directories  n1/../nk/ ; every component non-empty, not
   "." or "..", free of '/' and NUL (plain).  Mutually consistent (compat, for every ordered pair): a file's path is
   neither a directory of another entry nor another entry's path.  Extracting such an archive with ZipArchive::extract
   into an EMPTY target directory succeeds, and afterwards (tree_ok):
   - every file entry's path holds a regular file with exactly the entry's bytes, and mode = recorded mode & 0o7777
     when one is recorded;
   - every directory entry and every proper ancestor of every entry is a directory;
   - NOTHING ELSE exists below the target: every object there is a non-empty prefix of some entry's path.
   (What happens outside the target is C07_confined.)  Over the file tree of Spec/Fs.v; Proofs/ExtractTree.v. *)
From Coq Require Import List.
From ZipV Require Import Proofs.ExtractTree.
Import ListNotations.
Theorem C07_plain_archive_reproduced : forall umask root t0 lg0 items,
  (forall rel, rel <> [] -> lookup t0 (root ++ rel) = None) ->
  ForallOrdPairs compat items -> Forall (fun x => plain (path_of x)) items ->
  exists t' lg', extract umask root (t0, lg0) (map entry_of items) = ((t', lg'), XOk) /\
    (forall ns c mo, In (IFile ns c mo) items ->
       exists m, lookup t' (root ++ ns) = Some (NFile c m) /\ (forall md, mo = Some md -> m = N.land md 4095)) /\
    (forall i k, In i items -> (1 <= k <= length (path_of i))%nat -> (k < length (path_of i))%nat \/ ~ is_file i ->
       is_dir t' (root ++ firstn k (path_of i))) /\
    (forall rel, rel <> [] -> lookup t' (root ++ rel) <> None ->
       exists i k, In i items /\ (1 <= k <= length (path_of i))%nat /\ rel = firstn k (path_of i)).
Proof.
  intros umask root t0 lg0 items He Hp Hpl.
  destruct (extract_plain_archive umask root t0 lg0 items He Hp Hpl) as (t' & lg' & E & [H1 H2 H3]).
  exists t', lg'. auto.
Qed.
Print Assumptions C07_plain_archive_reproduced.

(* the streaming extractor's file phase builds the same tree (contents and structure; the modes follow in its
   second phase, see C07_stream_archive_reproduced) *)
Theorem C07_stream_files_reproduced : forall umask root t0 lg0 items,
  (forall rel, rel <> [] -> lookup t0 (root ++ rel) = None) ->
  ForallOrdPairs compat items -> Forall (fun x => plain (path_of x)) items ->
  exists t' lg', sextract_files umask root (t0, lg0) (map entry_of items) = ((t', lg'), XOk) /\ tree_ok root t' (map strip_mode items).
Proof. exact sextract_plain_files. Qed.
Print Assumptions C07_stream_files_reproduced.

(* both phases of the streaming extractor: files (no modes), then one chmod per central record, in the same order *)
Theorem C07_stream_archive_reproduced : forall umask root t0 lg0 items,
  (forall rel, rel <> [] -> lookup t0 (root ++ rel) = None) ->
  ForallOrdPairs compat items -> Forall (fun x => plain (path_of x)) items ->
  exists t1 lg1 t' lg',
    sextract_files umask root (t0, lg0) (map entry_of items) = ((t1, lg1), XOk) /\
    sextract_metas root (t1, lg1) (map meta_of items) = ((t', lg'), XOk) /\ tree_ok root t' items.
Proof. exact sextract_plain_archive. Qed.
Print Assumptions C07_stream_archive_reproduced.

(* the hypotheses are met: file "a/b" (mode 0o640) and directory "d/" into an empty target *)
Example C07_plain_nonvacuous :
  let items := [IFile [[Byte.x61]; [Byte.x62]] [Byte.x68; Byte.x69] (Some 416); IDir [[Byte.x64]] None] in
  ForallOrdPairs compat items /\ Forall (fun x => plain (path_of x)) items /\
  (forall rel, rel <> [] -> lookup [([[Byte.x72]], NDir 493)] ([[Byte.x72]] ++ rel) = None) /\
  exists t' lg', extract 18 [[Byte.x72]] ([([[Byte.x72]], NDir 493)], []) (map entry_of items) = ((t', lg'), XOk) /\
                 lookup t' [[Byte.x72]; [Byte.x61]; [Byte.x62]] = Some (NFile [Byte.x68; Byte.x69] 416).
Proof.
  cbv zeta. split; [|split; [|split]].
  - constructor; [|constructor; [constructor|constructor]]. constructor; [|constructor].
    split; cbn [is_file path_of]; intros _ [k H]; destruct k as [|[|k]]; cbn in H; discriminate H.
  - repeat constructor; try discriminate; reflexivity.
  - intros rel Hrel. destruct rel; [contradiction|]. reflexivity.
  - eexists. eexists. split; vm_compute; reflexivity.
Qed.
