(* Props/C08.v — property C08: archives beyond the 16/32-bit limits stay correct (ZIP64). *)
From Coq Require Import ZArith.
From ZipV Require Import Base.Bytes Base.Outcome Gen.SpecGen Gen.CompressionGen Gen.WriteGen Model.Readers Model.Reader Model.Writer
     Proofs.WriterProofs Proofs.WriterMisuse Proofs.Zip64Proofs.
Open Scope N_scope.

(* per entry: the central record's clamped 32-bit fields + the ZIP64 block the writer emits are decoded by the
   reader's extra-field logic to the exact three 64-bit values, for ALL values below 2^64 (incl. 0xFFFFFFFF +-1) *)
Theorem C08_entry_fields_roundtrip : forall us cs hs, us < 2 ^ 64 -> cs < 2 ^ 64 -> hs < 2 ^ 64 ->
  read_back_sizes us cs hs = (us, cs, hs).
Proof. exact central_sizes_roundtrip. Qed.
Print Assumptions C08_entry_fields_roundtrip.

(* per archive: behind ANY bytes [pre] (entries + directory; directory at offset cs of size sz), the end records the
   writer emits for n entries are parsed by the reader's parse_eocd / get_directory_counts to exactly (archive offset 0,
   directory offset cs, n entries), for all n, cs, sz below 2^64 and every comment that fits; ZIP64 records are used
   exactly when a value does not fit.  (The reader's well-known blind spot is a hypothesis: without ZIP64 records the
   20 bytes in front of the end record must not happen to start with the locator signature.) *)
Theorem C08_end_records_roundtrip : forall pre n cs sz comment,
  len pre = cs + sz -> n < 2 ^ 64 -> cs + sz < 2 ^ 64 -> len comment <= 65535 ->
  (needs64 n sz cs = false -> no_locator_before pre) ->
  let data := pre ++ concat (end_records n cs sz comment) in
  let pos := len pre + (if needs64 n sz cs then 76 else 0) in
  exists e, parse_eocd data pos = Ok e /\ e_comment e = comment /\ get_directory_counts data e pos = Ok (0, cs, n).
Proof. exact end_records_roundtrip. Qed.
Print Assumptions C08_end_records_roundtrip.

Theorem C08_zip64_iff_needed : forall n sz cs,
  needs64 n sz cs = true <-> (65535 < n \/ 4294967295 < sz \/ 4294967295 < cs).
Proof. exact needs64_iff. Qed.
Print Assumptions C08_zip64_iff_needed.

(* more than 4 GiB into an entry not declared large: a successful write never takes the count above 2^32-1, the write
   that would is the large-file error and closes the writer, after which finish() is an error as well; and a compressed
   size that does not fit makes closing the entry an error: no finished archive carries wrapped sizes *)
Theorem C08_write_bounded : forall s buf s' k,
  zw_write s buf = (s', Ok k) -> ws_to_extra s = false -> last_large s = false ->
  ws_written s' <= ZIP64_BYTES_THR /\ ws_written s' = ws_written s + k.
Proof. exact write_ok_bounded. Qed.
Print Assumptions C08_write_bounded.

Theorem C08_overflow_closes : forall enc crc s buf s',
  zw_write s buf = (s', Err (EIo KOther ILargeFile)) -> ws_to_extra s = false ->
  is_closed (ws_inner s') = true /\
  (ws_to_extra s' = false -> len (ws_comment s') <= 65535 -> finish enc crc s' = (s', Err closed_err)).
Proof.
  intros enc crc s buf s' H Hx. pose proof (write_overflow_closes s buf s' H Hx) as Hc.
  split; [exact Hc|]. intros Hx' Hcm. now apply closed_finish.
Qed.
Print Assumptions C08_overflow_closes.

Theorem C08_no_wrapped_csize : forall d f, w_large f = false -> ZIP64_BYTES_THR < w_csize f ->
  forall d' r, update_local d f = (d', r) -> r <> Ok tt.
Proof. exact update_local_rejects. Qed.
Print Assumptions C08_no_wrapped_csize.

(* non-vacuity: both regimes occur *)
Example C08_needs64_examples : needs64 65536 0 0 = true /\ needs64 65535 4294967295 4294967295 = false /\ needs64 1 0 4294967296 = true.
Proof. repeat split. Qed.
