(* Props/C03.v — property C03: well-formed archives from other producers are read faithfully.
   Proved so far (lookup and error behaviour); the layout theorem [open (render a) = expected a] is
   stated in DESIGN.md 8/C03 and carried by the correspondence run until its proof lands. *)
From ZipV Require Import Base.Bytes Base.Outcome Gen.GenLib Gen.CompressionGen Model.Readers Model.Reader Proofs.ReaderSpec.
Open Scope N_scope.

(* lookup by name returns the LAST entry with that (decoded) name *)
Theorem C03_by_name_last : forall ar name j, index_of_name ar name = Some j ->
  exists f, nth_error (ar_files ar) (N.to_nat j) = Some f /\ f_name f = name /\
            Forall (fun g => f_name g <> name) (skipn (S (N.to_nat j)) (ar_files ar)).
Proof. exact by_name_last. Qed.
Print Assumptions C03_by_name_last.

(* an absent name is not found; an out-of-range index is not found *)
Theorem C03_absent : forall ar name,
  index_of_name ar name = None <-> Forall (fun f => f_name f <> name) (ar_files ar).
Proof. exact by_name_absent. Qed.
Print Assumptions C03_absent.

Theorem C03_out_of_range : forall kdf ar i pw, (length (ar_files ar) <= N.to_nat i)%nat ->
  by_index_opt kdf ar i pw = Err ENotFound.
Proof. exact by_index_out_of_range. Qed.
Print Assumptions C03_out_of_range.

(* unsupported methods fail cleanly per entry, not per archive *)
Theorem C03_unsupported_per_entry : forall kdf ar i pw f ds s,
  nth_error (ar_files ar) (N.to_nat i) = Some f -> (opt_is_none pw && f_encrypted f) = false ->
  find_content (ar_data ar) f = Ok (ds, s) -> is_unsupported (f_method f) = true ->
  by_index_opt kdf ar i pw = Err (EUnsupported MMethodNotSupported).
Proof. exact unsupported_entry_error. Qed.
Print Assumptions C03_unsupported_per_entry.
