(* Props/C03.v — property C03: well-formed archives from other producers are read faithfully.
   Proved so far (lookup and error behaviour); the layout theorem [open (render a) = expected a] is
   stated in DESIGN.md 8/C03 and carried by the correspondence run until its proof lands. *)
From ZipV Require Import Base.Bytes Base.Outcome Gen.GenLib Gen.CompressionGen Model.Readers Model.Reader Proofs.ReaderSpec.
Open Scope N_scope.

(* lookup by name returns the LAST entry with that (decoded) name *)
Theorem C03_by_name_last : forall ar name j, index_of_name ar name = Some j ->
  exists f, nth_error (ar_files ar) (N.to_nat j) = Some f /\ f_name f = name /\
            Forall (fun g => f_name g <> name) (skipn (S (N.to_nat j)) (ar_files ar)).
Proof. exact by_name_last. Qed.
Print Assumptions C03_by_name_last.

(* an absent name is not found; an out-of-range index is not found *)
Theorem C03_absent : forall ar name,
  index_of_name ar name = None <-> Forall (fun f => f_name f <> name) (ar_files ar).
Proof. exact by_name_absent. Qed.
Print Assumptions C03_absent.

Theorem C03_out_of_range : forall kdf ar i pw, (length (ar_files ar) <= N.to_nat i)%nat ->
  by_index_opt kdf ar i pw = Err ENotFound.
Proof. exact by_index_out_of_range. Qed.
Print Assumptions C03_out_of_range.

(* unsupported methods fail cleanly per entry, not per archive *)
Theorem C03_unsupported_per_entry : forall kdf ar i pw f ds s,
  nth_error (ar_files ar) (N.to_nat i) = Some f -> (opt_is_none pw && f_encrypted f) = false ->
  find_content (ar_data ar) f = Ok (ds, s) -> is_unsupported (f_method f) = true ->
  by_index_opt kdf ar i pw = Err (EUnsupported MMethodNotSupported).
Proof. exact unsupported_entry_error. Qed.
Print Assumptions C03_unsupported_per_entry.

(* ---------- layouts other than the writer's own.
   (1) Data in front of the archive (self-extractor stubs, concatenated files): for ANY junk bytes, an archive
   (entries ++ directory ++ plain end record) whose recorded offsets are relative to its own start is opened with
   offset() = |junk| and every entry's header offset shifted by |junk|, provided the central records are written for
   that shift (rendered_at) -- same two blind-spot hypotheses as C01_finish_then_open. *)
From Coq Require Import ZArith.
From ZipV Require Import Gen.CompressionGen Model.Writer Proofs.StreamProofs Proofs.Zip64Proofs Proofs.CentralRoundtrip Proofs.OpenRendered Proofs.OpenPrefixed Proofs.EntryRead.
Theorem C03_prefixed_archive : forall junk front files css comment gs,
  Forall2 (rendered_at (len junk)) files css ->
  let dir := concat (map (@concat byte) css) in
  let n := N.of_nat (length files) in
  needs64 n (len dir) (len front) = false -> len comment <= 65535 ->
  no_locator_before (junk ++ front ++ dir) ->
  no_later_sig n (len dir) (len front) comment ->
  decoded_list_at (len junk) files css (len junk + len front) gs ->
  exists data, data = junk ++ front ++ dir ++ eocd_bytes n (len dir) (len front) comment /\
    open data = Ok {| ar_data := data; ar_files := gs; ar_offset := len junk; ar_comment := comment |}.
Proof. exact open_prefixed. Qed.
Print Assumptions C03_prefixed_archive.

(* (2) What the local header may say.  For a stored, unencrypted entry the reader takes NOTHING from the local header
   but its signature and the two length fields: whatever version, flags (incl. the data-descriptor bit), time, CRC and
   sizes (zeros, escapes, garbage) it carries, and whatever follows the payload (a data descriptor, a gap, the next
   entry), opening the entry by index yields a reader that denotes the payload named by the CENTRAL record's offset
   and size, checked against the central CRC.  This is how entries of streaming producers are read. *)
Theorem C03_local_fields_irrelevant : forall kdf (blk mac : bytes -> bytes -> bytes) crc ar i g front lh name extra payload rest,
  ar_data ar = front ++ lh ++ name ++ extra ++ payload ++ rest ->
  nth_error (ar_files ar) (N.to_nat i) = Some g ->
  f_encrypted g = false -> f_aes g = None -> f_method g = CompressionMethod_Stored ->
  local_fixed_ok lh (len name) (len extra) -> len name <= 65535 -> len extra <= 65535 ->
  f_header_start g = len front -> len front + 30 + len name + len extra < 2 ^ 64 ->
  f_csize g = len payload -> f_crc g = crc payload ->
  exists c, by_index_opt kdf ar i None = Ok (Some (g, len front + 30 + len name + len extra, c)) /\
            plain_inv c /\ crc_den crc plain_den (make_stored g c) = Good payload.
Proof. intros kdf blk mac. exact (stored_entry_denotes kdf blk mac). Qed.
Print Assumptions C03_local_fields_irrelevant.
