(* Props/C09.v — property C09: results do not depend on how I/O is chunked (reader side).
   [streams rd Inv D]: one-step characterisation; [complete_run] lifts it to every schedule of caller
   buffer sizes (zero-length reads included) and, through [src_streams], to every plan of short reads
   of the underlying source. *)
From ZipV Require Import Base.Bytes Base.Outcome Model.Readers Proofs.StreamProofs Proofs.AesProofs.
Open Scope N_scope.

(* the source delivers its data whatever the plan of short reads (no failing read in the plan) *)
Theorem C09_source : streams src_read (fun s => plan_ok (s_plan s)) (fun s => Good (s_data s)).
Proof. exact src_streams. Qed.
Print Assumptions C09_source.

Theorem C09_take : forall (I : Type) (ird : reader I) Inv Di,
  streams ird Inv Di -> always_good Inv Di ->
  streams (take_read ird) (fun s => Inv (t_inner s)) (take_den Di).
Proof. exact (@take_streams). Qed.
Print Assumptions C09_take.

Theorem C09_zipcrypto : forall (I : Type) (ird : reader I) Inv Di,
  streams ird Inv Di -> streams (zc_read ird) (fun s => Inv (z_inner s)) (zc_den Di).
Proof. exact (@zc_streams). Qed.
Print Assumptions C09_zipcrypto.

Theorem C09_crc : forall (crc : bytes -> N) (I : Type) (ird : reader I) Inv Di,
  streams ird Inv Di -> streams (crc_read crc ird) (fun s => Inv (k_inner s)) (crc_den crc Di).
Proof. exact crc_streams. Qed.
Print Assumptions C09_crc.

Theorem C09_aes : forall blk mac (I : Type) (ird : reader I) Inv Di,
  streams ird Inv Di -> always_good Inv Di ->
  streams (aes_read blk mac ird) (aes_inv' Inv) (aes_den blk mac Di).
Proof. exact (@aes_streams). Qed.
Print Assumptions C09_aes.

(* every schedule: a completed run returned exactly the denoted bytes, and end of file is sticky *)
Theorem C09_complete_run : forall (S : Type) (rd : reader S) Inv D, streams rd Inv D ->
  forall bufs s d outs sf k n,
    Inv s -> D s = Good d -> run_reads rd s bufs = (outs, sf) ->
    nth_error bufs k = Some n -> 0 < n -> nth_error outs k = Some (Ok []) ->
    oks (firstn k outs) = d /\ forall j r, (k <= j)%nat -> nth_error outs j = Some r -> r = Ok [].
Proof. exact (@complete_run). Qed.
Print Assumptions C09_complete_run.

Theorem C09_chunk_independent : forall (S : Type) (rd : reader S) Inv D, streams rd Inv D ->
  forall s d bufs1 bufs2 outs1 outs2 sf1 sf2 k1 k2 n1 n2,
    Inv s -> D s = Good d ->
    run_reads rd s bufs1 = (outs1, sf1) -> run_reads rd s bufs2 = (outs2, sf2) ->
    nth_error bufs1 k1 = Some n1 -> 0 < n1 -> nth_error outs1 k1 = Some (Ok []) ->
    nth_error bufs2 k2 = Some n2 -> 0 < n2 -> nth_error outs2 k2 = Some (Ok []) ->
    oks (firstn k1 outs1) = oks (firstn k2 outs2).
Proof. exact (@chunk_independent). Qed.
Print Assumptions C09_chunk_independent.

(* the composed stack of a stored ZipCrypto entry: source -> Take -> ZipCrypto -> Crc32 *)
Theorem C09_zipcrypto_stack : forall crc,
  streams (crc_read crc (zc_read (take_read src_read)))
          (fun s => plan_ok (s_plan (t_inner (z_inner (k_inner s)))))
          (crc_den crc (zc_den (take_den (fun s => Good (s_data s))))).
Proof.
  intro crc.
  pose proof (take_streams src_read (fun s => plan_ok (s_plan s)) (fun s => Good (s_data s)) src_streams
                (fun s _ => ex_intro _ (s_data s) eq_refl)) as Ht.
  pose proof (zc_streams (take_read src_read) _ _ Ht) as Hz.
  exact (crc_streams crc (zc_read (take_read src_read)) _ _ Hz).
Qed.
Print Assumptions C09_zipcrypto_stack.

(* ---------- writer side: the sink may accept any non-empty prefix of each write (short writes, never a failure).
   write_all on the sink -- the primitive every header, descriptor, directory record and compressed stream goes
   through -- leaves the bytes, the position and the result of a sink that accepts everything at once; the only
   trace of the chunking is the unconsumed rest of the plan. *)
From Coq Require Import List.
From ZipV Require Import Gen.SpecGen Gen.CompressionGen Model.Writer Model.WriterCalls Proofs.ShortWrites.
Theorem C09_sink_write_all_chunk_independent : forall d bs, nofail (d_plan d) -> d_pos d <= len (d_buf d) ->
  exists p', nofail p' /\
    dev_write_all d bs = ({| d_buf := put_at (d_buf d) (d_pos d) bs; d_pos := d_pos d + len bs; d_plan := p' |}, Ok tt).
Proof. intros d bs Hp Hpos. destruct (dev_write_all_nofail d bs Hp Hpos) as (p' & H & Hn). now exists p'. Qed.
Print Assumptions C09_sink_write_all_chunk_independent.

Theorem C09_header_fields_chunk_independent : forall d cs, nofail (d_plan d) -> d_pos d <= len (d_buf d) ->
  exists p', nofail p' /\
    dev_write_chunks d cs =
    ({| d_buf := put_at (d_buf d) (d_pos d) (concat cs); d_pos := d_pos d + len (concat cs); d_plan := p' |}, Ok tt).
Proof. intros d cs Hp Hpos. destruct (dev_write_chunks_nofail cs d Hp Hpos) as (p' & H & Hn). now exists p'. Qed.
Print Assumptions C09_header_fields_chunk_independent.

(* ZipWriter::write_all (the API call) on an open stored entry: each inner write forwards to ONE sink write, which
   may be short; the call still writes all of bs, counts len bs and hashes bs -- the closed form does not mention
   the plan.  (The guard excludes the large-file error, whose point of detection legitimately depends on how much
   each write took.) *)
Theorem C09_write_call_chunk_independent : forall enc crc s d bs,
  ws_to_file s = true -> ws_to_extra s = false -> ws_inner s = WStorer d ->
  nofail (d_plan d) -> d_pos d <= len (d_buf d) ->
  (ws_written s + len bs <= ZIP64_BYTES_THR \/ large_last s = true) ->
  exists p', nofail p' /\
    do_call enc crc s (KWrite bs) =
    (wrote s {| d_buf := put_at (d_buf d) (d_pos d) bs; d_pos := d_pos d + len bs; d_plan := p' |} bs, RUnit (Ok tt)).
Proof.
  intros enc crc s d bs Hf He Hi Hp Hpos Hlg.
  destruct (zw_write_all_nofail enc crc bs s d Hf He Hi Hp Hpos Hlg) as (p' & Hn & Hw).
  exists p'. split; [exact Hn|]. cbn [do_call]. now rewrite Hw.
Qed.
Print Assumptions C09_write_call_chunk_independent.

(* the hypotheses are met: a plan of three short writes on an open stored entry *)
Example C09_writer_nonvacuous :
  nofail [WShort 1; WShort 3; WShort 2] /\ ~ nofail [WShort 1; WFail].
Proof.
  split; [repeat constructor; discriminate|].
  intro H. inversion H as [|? ? _ H2]. inversion H2 as [|? ? H3 _]. now apply H3.
Qed.

(* ---------- writer side, whole programs.  Two runs of the SAME sequence of API calls (any calls, any arguments, legal
   or not) over sinks that split the writes differently -- both failure-free, e.g. one of them accepting everything
   at once -- return the same result for every call (including the bytes finish() hands back) and leave the same
   bytes in the sink, for every compressor and checksum, fresh and appended writers.  Excluded by hypothesis: runs in
   which a call returns the large-file error of ZipWriter::write; that error fires on the inner write that crosses
   4 GiB, so how much had reached the (then abandoned) sink does depend on the chunking.
   Proof: Proofs/ChunkSim.v, a simulation over the whole writer state machine. *)
From ZipV Require Import Model.Dos Proofs.ChunkSim.
Theorem C09_programs_chunk_independent : forall enc crc p1 p2 calls s1' results,
  nofail p1 -> nofail p2 ->
  run_calls enc crc (new_writer p1) calls = (s1', results) -> Forall call_not_large results ->
  exists s2', run_calls enc crc (new_writer p2) calls = (s2', results) /\ sink_bytes s1' = sink_bytes s2'.
Proof.
  intros enc crc p1 p2 calls s1' rs H1 H2 Hrun Hnl.
  destruct (run_calls_sim enc crc calls _ _ _ _ (R_new p1 p2 H1 H2) Hrun Hnl) as (s2' & E & HR).
  exists s2'. split; [exact E|exact (R_sink _ _ HR)].
Qed.
Print Assumptions C09_programs_chunk_independent.

Theorem C09_append_programs_chunk_independent : forall enc crc data p1 p2 s1 calls s1' results,
  nofail p1 -> nofail p2 -> new_append data p1 = Ok s1 ->
  run_calls enc crc s1 calls = (s1', results) -> Forall call_not_large results ->
  exists s2 s2', new_append data p2 = Ok s2 /\ run_calls enc crc s2 calls = (s2', results) /\ sink_bytes s1' = sink_bytes s2'.
Proof.
  intros enc crc data p1 p2 s1 calls s1' rs H1 H2 Hna Hrun Hnl.
  destruct (R_new_append data p1 p2 s1 H1 H2 Hna) as (s2 & E2 & HR0).
  destruct (run_calls_sim enc crc calls _ _ _ _ HR0 Hrun Hnl) as (s2' & E & HR).
  exists s2, s2'. split; [exact E2|]. split; [exact E|exact (R_sink _ _ HR)].
Qed.
Print Assumptions C09_append_programs_chunk_independent.

Example C09_programs_nonvacuous :
  let o := {| o_method := CompressionMethod_Deflated; o_level := None; o_time := DateTime_default; o_perm := None;
              o_large := false; o_encrypt := Some [Byte.x70] |} in
  let calls := [KStartFile [Byte.x61] o; KWrite [Byte.x41; Byte.x42; Byte.x43]; KAddDir [Byte.x64] o; KFinish] in
  let '(s1, r1) := run_calls (fun _ _ x => x) (fun _ => 7) (new_writer [WShort 1; WShort 3; WShort 1; WShort 2]) calls in
  let '(s2, r2) := run_calls (fun _ _ x => x) (fun _ => 7) (new_writer []) calls in
  forallb (fun r => match r with RUnit (Ok _) | RBytes (Ok _) => true | _ => false end) r1 = true /\ r1 = r2.
Proof. vm_compute. split; reflexivity. Qed.

(* the same, call by call, from ANY pair of writer states that agree on everything except the unconsumed plans of their
   (failure-free) sinks: relation R of Proofs/ChunkSim.v.  This is what lifts every ideal-sink theorem about a single
   call (raw copy C14, aligned entries C17, closing an encrypted entry C15, append C13) to sinks that split writes. *)
Theorem C09_call_chunk_independent : forall enc crc s1 s2 c s1' r,
  R s1 s2 -> do_call enc crc s1 c = (s1', r) -> call_not_large r ->
  exists s2', do_call enc crc s2 c = (s2', r) /\ R s1' s2' /\ sink_bytes s1' = sink_bytes s2'.
Proof.
  intros enc crc s1 s2 c s1' r HR H Hnl. destruct (do_call_sim enc crc s1 s2 c s1' r HR H Hnl) as (s2' & E & HR').
  exists s2'. split; [exact E|]. split; [exact HR'|exact (R_sink _ _ HR')].
Qed.
Print Assumptions C09_call_chunk_independent.

(* ---------- writer side, the CALLER's chunking.  Writing a ++ b to a stored entry with one write_all call or with two
   (any split point, on any failure-free short-writing sink, sizes within the entry's limit) leaves writer states that
   agree on everything except the unconsumed plan of the sink: same sink bytes, same byte count, same bytes hashed.
   Hence (by the simulation) every continuation -- more writes, further entries, finish -- returns the same results and
   leaves the same archive bytes: the archive does not depend on how the caller splits its writes. *)
From ZipV Require Import Proofs.CallerSplit.
Theorem C09_caller_split_independent : forall enc crc s d a b,
  ws_to_file s = true -> ws_to_extra s = false -> ws_inner s = WStorer d ->
  nofail (d_plan d) -> d_pos d <= len (d_buf d) ->
  (ws_written s + len (a ++ b) <= ZIP64_BYTES_THR \/ large_last s = true) ->
  exists s1 s2 s12,
    zw_write_all s (a ++ b) = (s12, Ok tt) /\
    zw_write_all s a = (s1, Ok tt) /\ zw_write_all s1 b = (s2, Ok tt) /\
    sink_bytes s12 = sink_bytes s2 /\
    forall calls s12' rs, run_calls enc crc s12 calls = (s12', rs) -> Forall call_not_large rs ->
      exists s2', run_calls enc crc s2 calls = (s2', rs) /\ sink_bytes s12' = sink_bytes s2'.
Proof.
  intros enc crc s d a b Hf He Hi Hp Hpos Hlg.
  destruct (caller_split enc crc s d a b Hf He Hi Hp Hpos Hlg) as (s1 & s2 & s12 & E12 & E1 & E2 & HR).
  exists s1, s2, s12. split; [exact E12|]. split; [exact E1|]. split; [exact E2|]. split; [exact (R_sink _ _ HR)|].
  intros calls s12' rs Hrun Hnl.
  destruct (run_calls_sim enc crc calls _ _ _ _ HR Hrun Hnl) as (s2' & E & HR').
  exists s2'. split; [exact E|exact (R_sink _ _ HR')].
Qed.
Print Assumptions C09_caller_split_independent.
