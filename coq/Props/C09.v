(* Props/C09.v — property C09: results do not depend on how I/O is chunked (reader side).
   [streams rd Inv D]: one-step characterisation; [complete_run] lifts it to every schedule of caller
   buffer sizes (zero-length reads included) and, through [src_streams], to every plan of short reads
   of the underlying source. *)
From ZipV Require Import Base.Bytes Base.Outcome Model.Readers Proofs.StreamProofs Proofs.AesProofs.
Open Scope N_scope.

(* the source delivers its data whatever the plan of short reads (no failing read in the plan) *)
Theorem C09_source : streams src_read (fun s => plan_ok (s_plan s)) (fun s => Good (s_data s)).
Proof. exact src_streams. Qed.
Print Assumptions C09_source.

Theorem C09_take : forall (I : Type) (ird : reader I) Inv Di,
  streams ird Inv Di -> always_good Inv Di ->
  streams (take_read ird) (fun s => Inv (t_inner s)) (take_den Di).
Proof. exact (@take_streams). Qed.
Print Assumptions C09_take.

Theorem C09_zipcrypto : forall (I : Type) (ird : reader I) Inv Di,
  streams ird Inv Di -> streams (zc_read ird) (fun s => Inv (z_inner s)) (zc_den Di).
Proof. exact (@zc_streams). Qed.
Print Assumptions C09_zipcrypto.

Theorem C09_crc : forall (crc : bytes -> N) (I : Type) (ird : reader I) Inv Di,
  streams ird Inv Di -> streams (crc_read crc ird) (fun s => Inv (k_inner s)) (crc_den crc Di).
Proof. exact crc_streams. Qed.
Print Assumptions C09_crc.

Theorem C09_aes : forall blk mac (I : Type) (ird : reader I) Inv Di,
  streams ird Inv Di -> always_good Inv Di ->
  streams (aes_read blk mac ird) (aes_inv' Inv) (aes_den blk mac Di).
Proof. exact (@aes_streams). Qed.
Print Assumptions C09_aes.

(* every schedule: a completed run returned exactly the denoted bytes, and end of file is sticky *)
Theorem C09_complete_run : forall (S : Type) (rd : reader S) Inv D, streams rd Inv D ->
  forall bufs s d outs sf k n,
    Inv s -> D s = Good d -> run_reads rd s bufs = (outs, sf) ->
    nth_error bufs k = Some n -> 0 < n -> nth_error outs k = Some (Ok []) ->
    oks (firstn k outs) = d /\ forall j r, (k <= j)%nat -> nth_error outs j = Some r -> r = Ok [].
Proof. exact (@complete_run). Qed.
Print Assumptions C09_complete_run.

Theorem C09_chunk_independent : forall (S : Type) (rd : reader S) Inv D, streams rd Inv D ->
  forall s d bufs1 bufs2 outs1 outs2 sf1 sf2 k1 k2 n1 n2,
    Inv s -> D s = Good d ->
    run_reads rd s bufs1 = (outs1, sf1) -> run_reads rd s bufs2 = (outs2, sf2) ->
    nth_error bufs1 k1 = Some n1 -> 0 < n1 -> nth_error outs1 k1 = Some (Ok []) ->
    nth_error bufs2 k2 = Some n2 -> 0 < n2 -> nth_error outs2 k2 = Some (Ok []) ->
    oks (firstn k1 outs1) = oks (firstn k2 outs2).
Proof. exact (@chunk_independent). Qed.
Print Assumptions C09_chunk_independent.

(* the composed stack of a stored ZipCrypto entry: source -> Take -> ZipCrypto -> Crc32 *)
Theorem C09_zipcrypto_stack : forall crc,
  streams (crc_read crc (zc_read (take_read src_read)))
          (fun s => plan_ok (s_plan (t_inner (z_inner (k_inner s)))))
          (crc_den crc (zc_den (take_den (fun s => Good (s_data s))))).
Proof.
  intro crc.
  pose proof (take_streams src_read (fun s => plan_ok (s_plan s)) (fun s => Good (s_data s)) src_streams
                (fun s _ => ex_intro _ (s_data s) eq_refl)) as Ht.
  pose proof (zc_streams (take_read src_read) _ _ Ht) as Hz.
  exact (crc_streams crc (zc_read (take_read src_read)) _ _ Hz).
Qed.
Print Assumptions C09_zipcrypto_stack.
