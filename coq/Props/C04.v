(* Props/C04.v — property C04: a read that completes successfully returned uncorrupted data.
   [crc_read] is Crc32Reader::read (src/crc32.rs:39-53); make_reader (src/read.rs:260-292) puts it
   outermost on every decoder arm, which [stored_read]/[make_stored] reproduce for the modelled arms. *)
From ZipV Require Import Base.Bytes Base.Outcome Model.Readers Model.Reader Proofs.StreamProofs Proofs.CrcProofs.
Open Scope N_scope.

(* any inner reader (decoder, decryptor — even a misbehaving one), any checksum function, any
   schedule of caller buffers including zero-length reads: an end of file observed on a non-empty
   buffer means the bytes returned so far hash to the declared checksum, unless the entry is AE-2 *)
Theorem C04_crc_reader : forall (crc : bytes -> N) (I : Type) (ird : reader I) bufs s outs sf k n,
  run_reads (crc_read crc ird) s bufs = (outs, sf) ->
  nth_error bufs k = Some n -> n <> 0 -> nth_error outs k = Some (Ok []) ->
  k_ae2 s = true \/ crc (k_seen s ++ oks (firstn k outs)) = k_check s.
Proof. exact crc_eof_means_match. Qed.
Print Assumptions C04_crc_reader.

(* the entry reader of the model: whatever bytes the archive holds and whichever crypto layer was
   selected, a completed read returned data whose CRC-32 equals the one the entry declares (AE-2 exempt) *)
Theorem C04_entry : forall crc blk mac (f : zfd) (c : crypto) bufs outs sf k n,
  run_reads (stored_read blk mac crc) (make_stored f c) bufs = (outs, sf) ->
  nth_error bufs k = Some n -> n <> 0 -> nth_error outs k = Some (Ok []) ->
  ae2_of c = true \/ crc (oks (firstn k outs)) = f_crc f.
Proof.
  intros crc blk mac f c bufs outs sf k n Hr Hk Hn Ho.
  exact (crc_eof_means_match crc (crypto_read blk mac) bufs (make_stored f c) outs sf k n Hr Hk Hn Ho).
Qed.
Print Assumptions C04_entry.

(* when the inner stream is well behaved, the outcome is moreover independent of the chunking:
   it is Good exactly when the checksum of the whole inner stream matches *)
Theorem C04_crc_streams : forall (crc : bytes -> N) (I : Type) (ird : reader I) Inv Di,
  streams ird Inv Di -> streams (crc_read crc ird) (fun s => Inv (k_inner s)) (crc_den crc Di).
Proof. exact crc_streams. Qed.
Print Assumptions C04_crc_streams.
