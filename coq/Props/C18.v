(* Props/C18.v — property C18: timestamps convert to and from DOS format without loss or panic.
   Property theorems only; each is closed by [exact <lemma>] and followed by Print Assumptions.
   The DateTime_* functions are *generated* from src/types.rs by tools/rs2v.py on every run. *)
From ZipV Require Import Base.Bytes Base.Outcome Gen.GenLib Gen.TypesGen Model.Dos Proofs.DosProofs.
Open Scope N_scope.

(* unpack . pack = id for every one of the 2^32 field values; unpacking never panics *)
Theorem C18_pack_unpack : forall d t, d < 65536 -> t < 65536 ->
  exists dt, DateTime_from_msdos d t = Some dt /\ DateTime_datepart dt = Some d /\
             DateTime_timepart dt = t /\ 1980 <= DateTime_year dt.
Proof. exact pack_unpack. Qed.
Print Assumptions C18_pack_unpack.

(* a timestamp read from any archive is re-written unchanged *)
Theorem C18_unpack_pack : forall d t dt, d < 65536 -> t < 65536 -> DateTime_from_msdos d t = Some dt ->
  exists d', DateTime_datepart dt = Some d' /\ DateTime_from_msdos d' (DateTime_timepart dt) = Some dt.
Proof. exact unpack_pack. Qed.
Print Assumptions C18_unpack_pack.

(* the checked constructor accepts exactly the documented ranges and stores its arguments *)
Theorem C18_ctor_exact : forall y mo d h mi s dt,
  DateTime_from_date_and_time y mo d h mi s = Some dt <->
  (1980 <= y <= 2107 /\ 1 <= mo <= 12 /\ 1 <= d <= 31 /\ h <= 23 /\ mi <= 59 /\ s <= 60) /\
  dt = mk y mo d h mi s.
Proof. exact ctor_exact. Qed.
Print Assumptions C18_ctor_exact.

(* accepted values survive an archive round trip up to the 2-second resolution *)
Theorem C18_ctor_roundtrip : forall y mo d h mi s dt,
  DateTime_from_date_and_time y mo d h mi s = Some dt ->
  exists w, DateTime_datepart dt = Some w /\ w < 65536 /\ DateTime_timepart dt < 65536 /\
    DateTime_from_msdos w (DateTime_timepart dt) = Some (mk y mo d h mi (2 * (s / 2))).
Proof.
  intros y mo d h mi s dt H. pose proof (accepted_fits _ _ _ _ _ _ _ H) as F.
  apply ctor_exact in H as [_ ->]. exact (repack _ F).
Qed.
Print Assumptions C18_ctor_roundtrip.

(* packing never panics on any value a constructor can produce (year >= 1980 is their invariant) *)
Theorem C18_no_panic : forall dt, 1980 <= DateTime_year dt -> DateTime_datepart dt <> None.
Proof. exact datepart_no_panic. Qed.
Print Assumptions C18_no_panic.

(* calendar conversions are mutually inverse on valid values (hand model of the `time` crate rules) *)
Theorem C18_calendar : forall dt ts, 1980 <= DateTime_year dt <= 2107 ->
  to_time dt = Some ts -> try_from_unix ts = Some dt.
Proof. exact to_time_try_from. Qed.
Print Assumptions C18_calendar.
