(* Props/C20.v — property C20: cloned archive handles are independent. *)
From Coq Require Import ZArith.
From ZipV Require Import Base.Bytes Base.Outcome Gen.GenLib Gen.CompressionGen Model.Readers Model.Reader Model.Clones
     Proofs.ClonesProofs.
Open Scope N_scope.

(* The model: all handles share the parsed metadata and ONE mutable thing, the per-entry data start kept in an
   atomic inside the shared metadata: find_content stores it on every successful local-header parse, the
   data_start() accessor loads it, nothing else reads it.  Everything else (the reader position, the open entry with
   its decryption and checksum state) belongs to a single handle.
   Theorem: for every archive, every schedule interleaving API calls (open an entry with or without password, read up
   to n bytes, close) of any number of handles in any order, every starting state of the handles and ANY content of
   the shared atomics (whatever other handles stored there so far), handle k observes exactly the sequence it observes
   when its calls run alone on a fresh handle.  Arbitrary KDF / cipher / MAC / checksum functions. *)
Theorem C20_interleaving_independent : forall kdf blk mac crc ar sched c c0 hs k,
  obs_of k (run_sched kdf blk mac crc ar c hs sched) = run_alone kdf blk mac crc ar c0 (hget hs k) (ops_of k sched).
Proof. exact interleaving_independent. Qed.
Print Assumptions C20_interleaving_independent.

(* concurrent stores are benign: every value ever stored for an entry is THE data start of that entry, so two
   handles racing on the atomic can only write the same value *)
Theorem C20_stores_agree : forall kdf blk mac crc ar,
  coherent ar [] /\ forall c h op, coherent ar c -> coherent ar (fst (fst (cstep kdf blk mac crc ar c h op))).
Proof. intros. split; [apply coherent_nil|apply cstep_coherent]. Qed.
Print Assumptions C20_stores_agree.

(* the accessor right after the store of the same call returns that call's value *)
Theorem C20_accessor_after_store : forall c i v, data_start_accessor (cache_set c i v) i = v.
Proof. exact accessor_after_store. Qed.
Print Assumptions C20_accessor_after_store.
