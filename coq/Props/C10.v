(* Props/C10.v — property C10: the streaming reader agrees with the seekable reader.
   Theorems about Model/Stream.v land here; see DESIGN.md 8/C10 for the full statement. *)
From ZipV Require Import Base.Bytes Base.Outcome Model.Readers Model.Reader Model.Stream Proofs.StreamAgree.
Open Scope N_scope.

Theorem C10_position : forall data e, se_data_start e <= len data ->
  pos_after data e = N.min (se_data_start e + f_csize (se_file e)) (len data).
Proof. exact pos_after_spec. Qed.
Print Assumptions C10_position.

Theorem C10_unsupported : forall data pos e, stream_next data pos = Ok (SFile e) ->
  f_encrypted (se_file e) = false /\ f_dd (se_file e) = false /\ is_unsupported (f_method (se_file e)) = false.
Proof. exact stream_next_supported. Qed.
Print Assumptions C10_unsupported.

(* ---------- agreement with the seekable reader on archives of stored entries written by the writer.
   For the program  (start_file n_i o_i; write_all c_i)*; finish  of C01_stored_roundtrip (any number of stored entries,
   any names / options / contents, any compressor and 32-bit checksum function), the streaming reader model walks
   the finished bytes from offset 0, produces one entry per written entry, in order, with raw name n_i, method
   Stored, CRC crc(c_i), sizes |c_i| and raw payload exactly c_i, and stops on the first central directory
   signature (where visit() picks up the metadata).  C01_stored_roundtrip states the same names and contents for the
   seekable reader on the same bytes: both readers agree, entry by entry, because both equal what was written. *)
From Coq Require Import ZArith.
From ZipV Require Import Gen.CompressionGen Gen.SpecGen Model.Writer Proofs.WriterEntry Proofs.StreamRendered Proofs.StoredRoundtrip.
Theorem C10_stream_sees_what_was_written : forall (kdf : bytes -> bytes -> N -> bytes) (blk mac : bytes -> bytes -> bytes) enc crc,
  (forall x, crc x < 2 ^ 32) ->
  forall n1 o1 c1 rest,
  let es := (n1, o1, c1) :: rest in
  Forall entry_ok es -> layout_len es + N.of_nat (length es) * 131218 < 2 ^ 64 ->
  exists s' s3 data (raws : list raw) ents p,
    write_entries enc crc (new_writer []) es = (s', Ok tt) /\
    finish enc crc s' = (s3, Ok data) /\
    stream_entries (S (length data)) data 0 = (ents, Ok p) /\
    Forall2 (raw_seen crc data) raws ents /\
    map (fun r : raw => (w_name (fst (fst r)), snd r)) raws = map (fun e : entry => (fst (fst e), snd e)) es.
Proof. exact stored_stream_roundtrip. Qed.
Print Assumptions C10_stream_sees_what_was_written.
