(* Props/C10.v — property C10: the streaming reader agrees with the seekable reader.
   Theorems about Model/Stream.v land here; see DESIGN.md 8/C10 for the full statement. *)
From ZipV Require Import Base.Bytes Base.Outcome Model.Readers Model.Reader Model.Stream Proofs.StreamAgree.
Open Scope N_scope.

Theorem C10_position : forall data e, se_data_start e <= len data ->
  pos_after data e = N.min (se_data_start e + f_csize (se_file e)) (len data).
Proof. exact pos_after_spec. Qed.
Print Assumptions C10_position.

Theorem C10_unsupported : forall data pos e, stream_next data pos = Ok (SFile e) ->
  f_encrypted (se_file e) = false /\ f_dd (se_file e) = false /\ is_unsupported (f_method (se_file e)) = false.
Proof. exact stream_next_supported. Qed.
Print Assumptions C10_unsupported.
