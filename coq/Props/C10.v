(* Props/C10.v — property C10: the streaming reader agrees with the seekable reader.
   Theorems about Model/Stream.v land here; see DESIGN.md 8/C10 for the full statement. *)
From ZipV Require Import Base.Bytes Base.Outcome Model.Readers Model.Reader Model.Stream Proofs.StreamAgree.
Open Scope N_scope.

Theorem C10_position : forall data e, se_data_start e <= len data ->
  pos_after data e = N.min (se_data_start e + f_csize (se_file e)) (len data).
Proof. exact pos_after_spec. Qed.
Print Assumptions C10_position.

Theorem C10_unsupported : forall data pos e, stream_next data pos = Ok (SFile e) ->
  f_encrypted (se_file e) = false /\ f_dd (se_file e) = false /\ is_unsupported (f_method (se_file e)) = false.
Proof. exact stream_next_supported. Qed.
Print Assumptions C10_unsupported.

(* ---------- agreement with the seekable reader on archives of stored entries written by the writer.
   For the program  (start_file n_i o_i; write_all c_i)*; finish  of C01_stored_roundtrip (any number of stored entries,
   any names / options / contents, any compressor and 32-bit checksum function), the streaming reader model walks
   the finished bytes from offset 0, produces one entry per written entry, in order, with raw name n_i, method
   Stored, CRC crc(c_i), sizes |c_i| and raw payload exactly c_i, and stops on the first central directory
   signature (where visit() picks up the metadata).  C01_stored_roundtrip states the same names and contents for the
   seekable reader on the same bytes: both readers agree, entry by entry, because both equal what was written. *)
From Coq Require Import ZArith.
From ZipV Require Import Gen.CompressionGen Gen.SpecGen Model.Writer Proofs.WriterEntry Proofs.StreamRendered Proofs.StoredRoundtrip.
Theorem C10_stream_sees_what_was_written : forall (kdf : bytes -> bytes -> N -> bytes) (blk mac : bytes -> bytes -> bytes) enc crc,
  (forall x, crc x < 2 ^ 32) ->
  forall n1 o1 c1 rest,
  let es := (n1, o1, c1) :: rest in
  Forall entry_ok es -> layout_len es + N.of_nat (length es) * 131218 < 2 ^ 64 ->
  exists s' s3 data (raws : list raw) ents p,
    write_entries enc crc (new_writer []) es = (s', Ok tt) /\
    finish enc crc s' = (s3, Ok data) /\
    stream_entries (S (length data)) data 0 = (ents, Ok p) /\
    Forall2 (raw_seen crc data) raws ents /\
    map (fun r : raw => (w_name (fst (fst r)), snd r)) raws = map (fun e : entry => (fst (fst e), snd e)) es.
Proof. exact stored_stream_roundtrip. Qed.
Print Assumptions C10_stream_sees_what_was_written.

(* ---------- the metadata phase of visit().
   Whenever the walk over the local headers stops on the central signature at the directory start ds, and the seekable
   reader parses n >= 1 central records from ds (archive offset ao) -- for ANY bytes, foreign or not --, and what
   follows the directory is not another central signature (it is the end record or a ZIP64 end record): visit()
   succeeds and its metadata pass delivers exactly the seekable reader's list, one record per entry, in order; each
   record equal to the seekable reader's in name, raw name, comment, attributes (hence Unix mode), system, method, CRC,
   sizes, time, extra data, encryption and AES information -- only the header offset is not shifted by the archive
   offset and the position of the central record is not remembered (the stream has no positions).
   [length files <= length data] bounds the walk (each central record has at least 46 bytes). *)
From ZipV Require Import Proofs.VisitMeta.
Theorem C10_visit_metadata_agrees : forall data ao n ds files sfiles,
  stream_entries (S (length data)) data 0 = (sfiles, Ok (ds + 4)) ->
  n <> 0 -> parse_cd (S (length data)) data n ds ao = Ok files ->
  forall sig, u32_at data (cd_end (S (length data)) data n ds ao) = Ok sig -> sig <> CENTRAL_DIRECTORY_HEADER_SIGNATURE ->
  (length files <= length data)%nat ->
  exists gs, visit data = (sfiles, gs, Ok tt) /\
             Forall2 (fun f g => f = seek_of g (f_central_start f) ao) files gs.
Proof. exact visit_agrees. Qed.
Print Assumptions C10_visit_metadata_agrees.

Theorem C10_seek_of_fields : forall g c ao,
  let f := seek_of g c ao in
  f_name f = f_name g /\ f_name_raw f = f_name_raw g /\ f_comment f = f_comment g /\ f_ext_attr f = f_ext_attr g /\
  f_system f = f_system g /\ f_made_by f = f_made_by g /\ f_method f = f_method g /\ f_crc f = f_crc g /\
  f_usize f = f_usize g /\ f_csize f = f_csize g /\ f_time f = f_time g /\ f_extra f = f_extra g /\
  f_encrypted f = f_encrypted g /\ f_aes f = f_aes g /\ f_large f = f_large g /\
  f_header_start f = f_header_start g + ao /\ f_central_start f = c.
Proof. exact seek_of_fields. Qed.
Print Assumptions C10_seek_of_fields.

(* non-vacuity: a 109-byte archive with one stored entry "o1" (directory at 39, end record at 87) meets the hypotheses *)
From Coq Require Import List.
Import ListNotations.
Definition c10_small : bytes :=
    [x50; x4b; x03; x04; x14; x00; x00; x00; x00; x00; xcf; x54; x71; x4d; x03; x0d; x09; xd6; x07; x00; x00; x00;
    x07; x00; x00; x00; x02; x00; x00; x00; x6f; x31; x6f; x6c; x64; x20; x6f; x6e; x65; x50; x4b; x01; x02; x14;
    x03; x14; x00; x00; x00; x00; x00; xcf; x54; x71; x4d; x03; x0d; x09; xd6; x07; x00; x00; x00; x07; x00; x00;
    x00; x02; x00; x00; x00; x00; x00; x00; x00; x00; x00; x00; x00; xa4; x81; x00; x00; x00; x00; x6f; x31; x50;
    x4b; x05; x06; x00; x00; x00; x00; x01; x00; x01; x00; x30; x00; x00; x00; x27; x00; x00; x00; x00; x00].
Example C10_visit_metadata_nonvacuous :
  exists sfiles files,
    stream_entries (S (length c10_small)) c10_small 0 = (sfiles, Ok (39 + 4)) /\
    parse_cd (S (length c10_small)) c10_small 1 39 0 = Ok files /\ length files = 1%nat /\
    cd_end (S (length c10_small)) c10_small 1 39 0 = 87 /\
    u32_at c10_small 87 = Ok 101010256 /\ 101010256 <> CENTRAL_DIRECTORY_HEADER_SIGNATURE.
Proof.
  eexists. eexists. split; [vm_compute; reflexivity|]. split; [vm_compute; reflexivity|]. split; [reflexivity|].
  split; [vm_compute; reflexivity|]. split; [vm_compute; reflexivity|]. vm_compute. discriminate.
Qed.
