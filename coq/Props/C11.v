(* Props/C11.v — property C11: I/O failures surface as errors, never as panics or wrong results. *)
From Coq Require Import ZArith.
From ZipV Require Import Base.Bytes Base.Outcome Gen.CompressionGen Gen.WriteGen Model.Readers Model.Reader Model.Writer
     Model.WriterCalls Proofs.FaultProofs Proofs.WriterInv.
Open Scope N_scope.

(* the sink primitives: a failing call is an error of the primitive, never a panic, and leaves the bytes alone *)
Theorem C11_dev_write_all_fail : forall d bs pl, bs <> [] -> d_plan d = WFail :: pl ->
  dev_write_all d bs = ({| d_buf := d_buf d; d_pos := d_pos d; d_plan := pl |}, io_fail).
Proof. exact dev_write_all_fail. Qed.
Print Assumptions C11_dev_write_all_fail.

Theorem C11_dev_never_panics : forall d bs, 
  (forall d' p, dev_write_all d bs <> (d', Panic p)) /\ (forall d' p, dev_pos d <> (d', Panic p)) /\
  (forall d' p q, dev_seek d q <> (d', Panic p)) /\ (forall d' p, dev_flush d <> (d', Panic p)).
Proof. exact dev_never_panics. Qed.
Print Assumptions C11_dev_never_panics.

(* errors of the sink are propagated by the header writers and by a content write: never swallowed *)
Theorem C11_chunks_propagate : forall cs d d' r, dev_write_chunks d cs = (d', r) ->
  match r with Panic _ => False | _ => True end.
Proof. exact dev_write_chunks_no_panic. Qed.
Print Assumptions C11_chunks_propagate.

(* under ANY failure plan of the sink (hard errors and short writes at arbitrary calls, any number of them), no
   writer call of any program panics -- neither the call in which a failure strikes, nor any later call, nor finish,
   nor the final drop *)
Theorem C11_no_panic_under_faults : forall enc crc plan calls s' results,
  Forall valid_call calls -> run_calls enc crc (new_writer plan) (calls ++ [KDrop]) = (s', results) ->
  Forall (fun r => is_panic r = false) results.
Proof.
  intros enc crc plan calls s' results Hv H.
  refine (proj1 (run_calls_no_panic enc crc (calls ++ [KDrop]) _ _ _ (inv_new plan) _ H)).
  apply Forall_app. split; [exact Hv|]. constructor; [exact I|constructor].
Qed.
Print Assumptions C11_no_panic_under_faults.

(* ---------- reader side: a source that may fail at ANY call.
   The entry reader stack of a stored entry (plain: source -> Take -> Crc32Reader; ZipCrypto: with the decrypting layer
   in between) over a source with an arbitrary plan of short reads AND failures: for every schedule of caller buffer
   sizes, the bytes delivered before the first error are a prefix of the true (denoted) content -- never other bytes
   -- and a read that reaches a clean end of file delivered exactly the true content; a corrupted entry never reaches
   a clean end of file, failures or not.  An I/O failure thus surfaces as an error or as the failure-free result. *)
From ZipV Require Import Proofs.StreamProofs Proofs.FaultStreams.
Theorem C11_reader_stack_under_faults : forall crc,
  fstreams (crc_read crc (take_read src_read)) (fun _ => True) (crc_den crc (take_den (fun s : src => Good (s_data s)))) /\
  fstreams (crc_read crc (zc_read (take_read src_read))) (fun _ => True)
           (crc_den crc (zc_den (take_den (fun s : src => Good (s_data s))))).
Proof. intro crc. split; [apply stored_stack_fstreams|apply zipcrypto_stack_fstreams]. Qed.
Print Assumptions C11_reader_stack_under_faults.

Theorem C11_delivered_is_prefix : forall (S : Type) (rd : reader S) Inv D, fstreams rd Inv D ->
  forall bufs s d outs sf, Inv s -> D s = Good d -> run_reads rd s bufs = (outs, sf) -> exists rest, d = oks outs ++ rest.
Proof. exact (@fault_prefix). Qed.
Print Assumptions C11_delivered_is_prefix.

Theorem C11_completed_is_exact : forall (S : Type) (rd : reader S) Inv D, fstreams rd Inv D ->
  forall bufs s d outs sf k n, Inv s -> D s = Good d -> run_reads rd s bufs = (outs, sf) ->
  nth_error bufs k = Some n -> 0 < n -> nth_error outs k = Some (Ok []) -> oks (firstn k outs) = d.
Proof. exact (@fault_complete). Qed.
Print Assumptions C11_completed_is_exact.

Theorem C11_corrupt_never_completes : forall (S : Type) (rd : reader S) Inv D, fstreams rd Inv D ->
  forall bufs s outs sf k n, Inv s -> D s = Bad -> run_reads rd s bufs = (outs, sf) ->
  nth_error bufs k = Some n -> 0 < n -> nth_error outs k <> Some (Ok []).
Proof. exact (@fault_bad). Qed.
Print Assumptions C11_corrupt_never_completes.

(* ---------- writer side: a failure is never swallowed.
   The sink's plan is consumed front to back.  If a Result-returning call (every call but Drop, which ignores errors
   by design) returns Ok, the part of the plan it consumed contains no failure: an injected failure makes the very
   call during which it happens return an error, whatever the state, the arguments, the compressor and the checksum.
   Hence a program in which no call reports an error saw only short writes -- for which C09's writer-side theorems
   and C13_old_bytes_preserved apply. *)
From Coq Require Import List.
From ZipV Require Import Model.Dos Model.WriterCalls Proofs.ShortWrites Proofs.FaultSurface.
Import ListNotations.
Theorem C11_failure_surfaces_in_its_call : forall enc crc s c s' r,
  c <> KDrop -> do_call enc crc s c = (s', r) -> is_ok r = true ->
  exists used, pl s = used ++ pl s' /\ nofail used.
Proof. intros enc crc s c s' r Hc H Hok. exact (do_call_clean enc crc s c s' r Hc H Hok). Qed.
Print Assumptions C11_failure_surfaces_in_its_call.

Theorem C11_silent_program_saw_no_failure : forall enc crc calls s s' results,
  Forall (fun c => c <> KDrop) calls -> run_calls enc crc s calls = (s', results) ->
  forall used, pl s = used ++ pl s' -> In WFail used -> forallb is_ok results = false.
Proof.
  intros enc crc calls s s' results Hnd Hrun used Hsplit Hin.
  destruct (forallb is_ok results) eqn:E; [|reflexivity]. exfalso.
  destruct (run_calls_clean enc crc calls s s' results Hnd Hrun E) as (used' & Hs' & Hnf).
  rewrite Hs' in Hsplit. apply app_inv_tail in Hsplit. subst used'.
  unfold nofail in Hnf. rewrite Forall_forall in Hnf. exact (Hnf _ Hin eq_refl).
Qed.
Print Assumptions C11_silent_program_saw_no_failure.

(* the statement is not vacuous: the second sink operation of this program fails and start_file reports it *)
Example C11_failure_surfaces_example :
  let o := {| o_method := CompressionMethod_Stored; o_level := None; o_time := DateTime_default; o_perm := None;
              o_large := false; o_encrypt := None |} in
  let '(s', rs) := run_calls (fun _ _ x => x) (fun _ => 0) (new_writer [WShort 1; WFail; WShort 2]) [KStartFile [Byte.x61] o; KFinish] in
  map is_ok rs = [false; true] /\ pl s' = [].
Proof. vm_compute. split; reflexivity. Qed.

(* ---------- error or identical result, for every plan of the sink (short writes and failures anywhere, any number).
   Run any program of Result-returning calls over such a sink.  Either some call reports an error, or every call
   returned exactly what it returns over a sink that never fails and never splits a write -- including the archive
   bytes handed back by finish() -- and the sink holds the same bytes.  (No call panics either: C11_no_panic_under_faults.)
   Proof: Proofs/OkSim.v, a one-sided simulation along the all-Ok paths of the whole writer state machine: an Ok
   result means every sink operation on the way returned Ok, and a sink operation that returned Ok did what the
   ideal sink does. *)
From ZipV Require Import Proofs.OkSim.
Theorem C11_error_or_identical : forall enc crc plan calls s1' results,
  Forall (fun c => c <> KDrop) calls -> run_calls enc crc (new_writer plan) calls = (s1', results) ->
  (exists r, In r results /\ is_ok r = false) \/
  (exists s2', run_calls enc crc (new_writer []) calls = (s2', results) /\ sink_bytes s1' = sink_bytes s2').
Proof.
  intros enc crc plan calls s1' rs Hnd Hrun.
  destruct (forallb is_ok rs) eqn:E.
  - right. destruct (run_calls_ok enc crc calls _ _ _ _ (S_new plan [] (Forall_nil _)) Hnd Hrun E) as (s2' & E2 & HS).
    exists s2'. split; [exact E2|exact (S_sink enc crc _ _ HS)].
  - left. assert (X : existsb (fun r => negb (is_ok r)) rs = true).
    { clear -E. induction rs as [|r rs IH]; [discriminate|]. cbn [forallb existsb] in *.
      destruct (is_ok r); cbn [negb andb orb] in *; [now apply IH|reflexivity]. }
    apply existsb_exists in X as (r & Hin & Hr). exists r. split; [exact Hin|]. now destruct (is_ok r).
Qed.
Print Assumptions C11_error_or_identical.

Theorem C11_error_or_identical_append : forall enc crc data plan s1 calls s1' results,
  new_append data plan = Ok s1 -> Forall (fun c => c <> KDrop) calls -> run_calls enc crc s1 calls = (s1', results) ->
  (exists r, In r results /\ is_ok r = false) \/
  (exists s2 s2', new_append data [] = Ok s2 /\ run_calls enc crc s2 calls = (s2', results) /\ sink_bytes s1' = sink_bytes s2').
Proof.
  intros enc crc data plan s1 calls s1' rs Hna Hnd Hrun.
  destruct (forallb is_ok rs) eqn:E.
  - right. destruct (S_new_append data plan [] s1 (Forall_nil _) Hna) as (s2 & E0 & HS0).
    destruct (run_calls_ok enc crc calls _ _ _ _ HS0 Hnd Hrun E) as (s2' & E2 & HS).
    exists s2, s2'. split; [exact E0|]. split; [exact E2|exact (S_sink enc crc _ _ HS)].
  - left. assert (X : existsb (fun r => negb (is_ok r)) rs = true).
    { clear -E. induction rs as [|r rs IH]; [discriminate|]. cbn [forallb existsb] in *.
      destruct (is_ok r); cbn [negb andb orb] in *; [now apply IH|reflexivity]. }
    apply existsb_exists in X as (r & Hin & Hr). exists r. split; [exact Hin|]. now destruct (is_ok r).
Qed.
Print Assumptions C11_error_or_identical_append.
