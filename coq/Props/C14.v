(* Props/C14.v — property C14: raw copy transfers an entry bit-exactly without recompression. *)
From Coq Require Import ZArith.
From ZipV Require Import Base.Bytes Base.Outcome Gen.CompressionGen Gen.WriteGen Model.Readers Model.Reader Model.Writer
     Proofs.WriterIdeal.
Open Scope N_scope.

(* For every writer state whose previous entry closes successfully onto a well-behaved sink holding [b] (whatever was
   written before: ordinary entries of any method, directories, other raw copies, an appended archive), every source
   record [src] (any method code incl. ones the crate cannot decode, any sizes incl. ZIP64-sized) with its undecoded bytes
   [raw], and every admissible name:
   - the call succeeds; the sink is b ++ local header ++ raw: everything before is untouched, the bytes are verbatim
     (the compressor oracle [enc] and the checksum [crc] are never consulted: no recompression);
   - the record kept for the central directory carries the source's method, CRC-32, sizes, timestamp and Unix mode (fix D18);
   - closing the entry (next start_*, finish or drop) rewrites nothing and recomputes nothing. *)
Theorem C14_raw_copy_exact : forall enc crc s s1 b src raw name hdr,
  finish_file enc crc s = (s1, Ok tt) -> ws_inner s1 = WStorer (at_end b) -> ws_to_extra s1 = false ->
  len name <= 65535 -> len raw = f_csize src ->
  local_header_chunks (raw_file src name (len b) 0) = Ok hdr ->
  let f := raw_file src name (len b) (len b + len (concat hdr)) in
  exists s2,
    raw_copy enc crc s src raw name = (s2, Ok tt) /\
    ws_inner s2 = WStorer (at_end (b ++ concat hdr ++ raw)) /\
    ws_files s2 = ws_files s1 ++ [f] /\
    ws_raw s2 = true /\
    exists s3, finish_file enc crc s2 = (s3, Ok tt) /\
      ws_inner s3 = ws_inner s2 /\ ws_files s3 = ws_files s2 /\ ws_to_file s3 = false /\ ws_raw s3 = false.
Proof. exact raw_copy_exact. Qed.
Print Assumptions C14_raw_copy_exact.

(* the record is the source's: method, CRC, sizes, time (by definition of raw_file, stated for the reader of this file) *)
Theorem C14_record_fields : forall src name hs ds,
  let f := raw_file src name hs ds in
  w_method f = f_method src /\ w_crc f = f_crc src /\ w_csize f = f_csize src /\ w_usize f = f_usize src /\
  w_time f = f_time src /\ w_name f = name /\ w_encrypted f = false /\
  (forall m, unix_mode src = Some m -> w_ext_attr f = (m * 65536) mod 2 ^ 32).
Proof. intros src name hs ds. cbn. repeat split. intros m ->. reflexivity. Qed.
Print Assumptions C14_record_fields.

(* non-vacuity: a fresh writer satisfies the hypotheses with b = [] *)
Example C14_fresh_writer : forall enc crc,
  finish_file enc crc (new_writer []) = (new_writer [], Ok tt) /\ ws_inner (new_writer []) = WStorer (at_end []).
Proof. intros. split; reflexivity. Qed.

(* ---------- and the reader finds exactly the copied bytes.
   The sink after the copy is  b ++ local header ++ raw  (C14_raw_copy_exact); whatever is written behind it later,
   the reader's find_content on a record with that header offset and compressed size (the central record the writer
   emits: C01_central_record_roundtrip) returns the position right behind the header, and the raw reader it sets up
   (Take over the source from there, limit = compressed size) yields exactly the source bytes: by_index_raw of the
   destination equals by_index_raw of the source, for every method code and every size. *)
From ZipV Require Import Proofs.RawCopyRead.
Theorem C14_copied_bytes_found : forall b hdr raw rest src name g,
  local_header_chunks (raw_file src name (len b) 0) = Ok hdr -> len name <= 65535 ->
  f_header_start g = len b -> f_csize g = len raw -> len b + len (concat hdr) < 2 ^ 64 ->
  exists ds t, find_content (b ++ concat hdr ++ raw ++ rest) g = Ok (ds, t) /\ ds = len b + len (concat hdr) /\
               take (f_csize g) (s_data (t_inner t)) = raw /\ t_limit t = len raw.
Proof. exact raw_copy_found. Qed.
Print Assumptions C14_copied_bytes_found.

(* ---------- on sinks that accept short writes.
   [R s t] (Proofs/ChunkSim.v): t is s over a sink that holds the same bytes at the same position but splits every
   write in its own arbitrary, failure-free way.  Whatever the exact theorem says about the well-behaved sink then holds
   for t: the copy succeeds, the sink holds b ++ local header ++ raw verbatim, the same record is kept. *)
From ZipV Require Import Model.WriterCalls Proofs.ChunkSim Proofs.RawCopyChunk.
Theorem C14_raw_copy_any_chunking : forall enc crc s t s1 b src raw name hdr,
  R s t ->
  finish_file enc crc s = (s1, Ok tt) -> ws_inner s1 = WStorer (at_end b) -> ws_to_extra s1 = false ->
  len name <= 65535 -> len raw = f_csize src ->
  local_header_chunks (raw_file src name (len b) 0) = Ok hdr ->
  exists t2,
    raw_copy enc crc t src raw name = (t2, Ok tt) /\
    sink_bytes t2 = Some (b ++ concat hdr ++ raw) /\
    ws_files t2 = ws_files s1 ++ [raw_file src name (len b) (len b + len (concat hdr))] /\
    ws_raw t2 = true.
Proof. exact raw_copy_any_chunking. Qed.
Print Assumptions C14_raw_copy_any_chunking.
