(* Props/C06.v — property C06: sanitised entry paths can never escape the extraction root.
   [components] is Unix std::path::Path::components as defined in Spec/PathSpec.v (compared with
   std on every string over {a . / \ NUL} up to a length bound by the correspondence run). *)
From ZipV Require Import Base.Bytes Spec.PathSpec Model.Path Proofs.PathProofs.
Open Scope N_scope.

(* enclosed_name returns the path exactly when it is NUL-free, relative and never climbs above
   its starting directory at any point of the walk; otherwise nothing *)
Theorem C06_enclosed_iff : forall n p, enclosed_name n = Some p <->
  (p = n /\ ~ In nul n /\ ~ In RootDir (components n) /\
   forall k, cnt_p (firstn k (components n)) <= 0 + cnt_n (firstn k (components n))).
Proof. exact enclosed_iff. Qed.
Print Assumptions C06_enclosed_iff.

Theorem C06_enclosed_none : forall n, enclosed_name n = None <-> ~ safe n.
Proof. exact enclosed_none_iff. Qed.
Print Assumptions C06_enclosed_none.

(* joining the result onto any base stays lexically inside it, at every step of the walk *)
Theorem C06_enclosed_confined : forall n p, enclosed_name n = Some p ->
  forall k, exists rel, walk [] (firstn k (components p)) = Some rel.
Proof. exact enclosed_confined. Qed.
Print Assumptions C06_enclosed_confined.

(* mangled_name: only ordinary components, in order, from the part before the first NUL *)
Theorem C06_mangled_shape : forall n,
  components (mangled_name n) = map Normal (normals (components (slashify (until_nul n)))).
Proof. exact mangled_shape. Qed.
Print Assumptions C06_mangled_shape.

Theorem C06_mangled_confined : forall n stack k,
  exists rel, walk stack (firstn k (components (mangled_name n))) = Some (rel ++ stack).
Proof. exact mangled_confined. Qed.
Print Assumptions C06_mangled_confined.
