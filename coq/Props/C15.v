(* Props/C15.v — property C15: ZipCrypto entries: right password decrypts, none/wrong is refused.
   ZipCryptoKeys_* and CRCTABLE are regenerated from src/zipcrypto.rs on every run. *)
From ZipV Require Import Base.Bytes Base.Outcome Gen.GenLib Gen.ZipCryptoGen Gen.CompressionGen
     Spec.Crc32Spec Spec.ZipCryptoSpec Model.Readers Model.Reader Proofs.StreamProofs Proofs.CrcProofs Proofs.ZipCryptoProofs.
Open Scope N_scope.

(* the cipher is the standard PKWARE stream cipher: table, initial keys, key update and stream byte *)
Theorem C15_cipher_is_pkware :
  CRCTABLE = crc_table_spec /\ keys_of ZipCryptoKeys_new = init_keys /\
  (forall k c, c < 256 -> keys_of (ZipCryptoKeys_update k c) = update_keys (keys_of k) c) /\
  (forall k, ZipCryptoKeys_stream_byte k = decrypt_byte_mask (keys_of k)).
Proof. exact (conj table_is_crc32 (conj init_is_pkware (conj update_is_pkware stream_is_pkware))). Qed.
Print Assumptions C15_cipher_is_pkware.

(* decrypting what was encrypted under the same key state returns the plaintext and the same final
   key state, for every password (key state), every content *)
Theorem C15_roundtrip : forall pt k, zc_decrypt k (snd (zc_encrypt k pt)) = (fst (zc_encrypt k pt), pt).
Proof. exact decrypt_encrypt. Qed.
Print Assumptions C15_roundtrip.

(* the decrypting reader streams the decryption of its input whatever the chunking *)
Theorem C15_reader_streams : forall (I : Type) (ird : reader I) Inv Di,
  streams ird Inv Di -> streams (zc_read ird) (fun s => Inv (z_inner s)) (zc_den Di).
Proof. exact (@zc_streams). Qed.
Print Assumptions C15_reader_streams.

(* opening an encrypted entry without a password is the password-required error *)
Theorem C15_no_password : forall kdf ar i f,
  nth_error (ar_files ar) (N.to_nat i) = Some f -> f_encrypted f = true ->
  by_index_opt kdf ar i None = Err (EUnsupported MPasswordRequired).
Proof. intros kdf ar i f Hn He. unfold by_index_opt. rewrite Hn, He. reflexivity. Qed.
Print Assumptions C15_no_password.

(* a wrong password that slips through the one-byte check can only complete a read whose bytes hash to
   the declared CRC-32 (C04): "other bytes with the same CRC-32" is the format's own limit *)
Theorem C15_wrong_password_partial : forall crc blk mac (f : zfd) (z : zc_st (take_st src)) bufs outs sf k n,
  run_reads (stored_read blk mac crc) (make_stored f (CZip z)) bufs = (outs, sf) ->
  nth_error bufs k = Some n -> n <> 0 -> nth_error outs k = Some (Ok []) ->
  crc (oks (firstn k outs)) = f_crc f.
Proof.
  intros crc blk mac f z bufs outs sf k n Hr Hk Hn Ho.
  destruct (crc_eof_means_match crc (crypto_read blk mac) bufs (make_stored f (CZip z)) outs sf k n Hr Hk Hn Ho) as [H|H];
    [discriminate|exact H].
Qed.
Print Assumptions C15_wrong_password_partial.
