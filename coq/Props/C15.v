(* Props/C15.v — property C15: ZipCrypto entries: right password decrypts, none/wrong is refused.
   ZipCryptoKeys_* and CRCTABLE are regenerated from src/zipcrypto.rs on every run. *)
From ZipV Require Import Base.Bytes Base.Outcome Gen.GenLib Gen.ZipCryptoGen Gen.CompressionGen
     Spec.Crc32Spec Spec.ZipCryptoSpec Model.Readers Model.Reader Proofs.StreamProofs Proofs.CrcProofs Proofs.ZipCryptoProofs.
Open Scope N_scope.

(* the cipher is the standard PKWARE stream cipher: table, initial keys, key update and stream byte *)
Theorem C15_cipher_is_pkware :
  CRCTABLE = crc_table_spec /\ keys_of ZipCryptoKeys_new = init_keys /\
  (forall k c, c < 256 -> keys_of (ZipCryptoKeys_update k c) = update_keys (keys_of k) c) /\
  (forall k, ZipCryptoKeys_stream_byte k = decrypt_byte_mask (keys_of k)).
Proof. exact (conj table_is_crc32 (conj init_is_pkware (conj update_is_pkware stream_is_pkware))). Qed.
Print Assumptions C15_cipher_is_pkware.

(* decrypting what was encrypted under the same key state returns the plaintext and the same final
   key state, for every password (key state), every content *)
Theorem C15_roundtrip : forall pt k, zc_decrypt k (snd (zc_encrypt k pt)) = (fst (zc_encrypt k pt), pt).
Proof. exact decrypt_encrypt. Qed.
Print Assumptions C15_roundtrip.

(* the decrypting reader streams the decryption of its input whatever the chunking *)
Theorem C15_reader_streams : forall (I : Type) (ird : reader I) Inv Di,
  streams ird Inv Di -> streams (zc_read ird) (fun s => Inv (z_inner s)) (zc_den Di).
Proof. exact (@zc_streams). Qed.
Print Assumptions C15_reader_streams.

(* opening an encrypted entry without a password is the password-required error *)
Theorem C15_no_password : forall kdf ar i f,
  nth_error (ar_files ar) (N.to_nat i) = Some f -> f_encrypted f = true ->
  by_index_opt kdf ar i None = Err (EUnsupported MPasswordRequired).
Proof. intros kdf ar i f Hn He. unfold by_index_opt. rewrite Hn, He. reflexivity. Qed.
Print Assumptions C15_no_password.

(* a wrong password that slips through the one-byte check can only complete a read whose bytes hash to
   the declared CRC-32 (C04): "other bytes with the same CRC-32" is the format's own limit *)
Theorem C15_wrong_password_partial : forall crc blk mac (f : zfd) (z : zc_st (take_st src)) bufs outs sf k n,
  run_reads (stored_read blk mac crc) (make_stored f (CZip z)) bufs = (outs, sf) ->
  nth_error bufs k = Some n -> n <> 0 -> nth_error outs k = Some (Ok []) ->
  crc (oks (firstn k outs)) = f_crc f.
Proof.
  intros crc blk mac f z bufs outs sf k n Hr Hk Hn Ho.
  destruct (crc_eof_means_match crc (crypto_read blk mac) bufs (make_stored f (CZip z)) outs sf k n Hr Hk Hn Ho) as [H|H];
    [discriminate|exact H].
Qed.
Print Assumptions C15_wrong_password_partial.

(* ---------- writer side: what an encrypted entry puts into the archive.
   Closing a ZipCrypto-encrypted stored entry on a well-behaved sink (keys k = derived from the password when the
   entry was started, the 12-byte header placeholder and the content buffered): the payload in the archive is EXACTLY
   the PKWARE encryption under k of  11 header bytes ++ [high byte of CRC-32(content)] ++ content; the local header is
   patched to CRC, 12 + |content|, |content|; the record kept for the directory carries the same values; and
   decrypting the payload with the same keys returns the check byte the reader tests and the content. *)
From ZipV Require Import Gen.CompressionGen Model.Writer Proofs.WriterIdeal Proofs.WriterEntry Proofs.EncryptedEntry.
Theorem C15_written_ciphertext : forall enc crc s front f d content prev k,
  enc_open s front f d content prev k -> 12 + len content <= Gen.SpecGen.ZIP64_BYTES_THR ->
  exists s',
    finish_file enc crc s = (s', Ok tt) /\
    ws_inner s' = WStorer (at_end (front ++ lh_bytes f d (crc content) (12 + len content) (len content) ++ zc_payload crc k content)) /\
    ws_files s' = prev ++ [wf_set_sizes f (crc content) (len content) (12 + len content)] /\
    ws_to_extra s' = false /\ ws_raw s' = false /\ ws_to_file s' = false.
Proof. exact finish_file_encrypted. Qed.
Print Assumptions C15_written_ciphertext.

Theorem C15_written_decrypts : forall crc k content,
  exists k', zc_decrypt k (zc_payload crc k content) = (k', zc_plain crc content) /\
             b2n (nth 11 (zc_plain crc content) x00) = N.shiftr (crc content) 24 mod 256 /\
             skipn 12 (zc_plain crc content) = content.
Proof. exact zc_payload_decrypts. Qed.
Print Assumptions C15_written_decrypts.
