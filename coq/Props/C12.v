(* Props/C12.v — property C12: any order of writer calls is safe; misuse is reported, not absorbed.
   Misuse theorems over Model/Writer.v.  The no-panic theorem over all call sequences is stated in
   DESIGN.md 8/C12 and is carried by the exhaustive-depth correspondence until its proof lands. *)
From Coq Require Import ZArith.
From ZipV Require Import Base.Bytes Base.Outcome Gen.CompressionGen Model.Readers Model.Reader Model.Writer Proofs.WriterMisuse.
Open Scope N_scope.

(* writing data before any file is started, or after a directory or symlink (both clear the flag) *)
Theorem C12_write_needs_file : forall s buf, ws_to_file s = false ->
  zw_write s buf = (s, Err (EIo KOther INoFileStarted)).
Proof. exact write_needs_file. Qed.
Print Assumptions C12_write_needs_file.

(* ending extra data that was never begun *)
Theorem C12_end_extra_needs_begin : forall enc s, ws_to_extra s = false ->
  end_extra_data enc s = (s, Err (EIo KOther INotExtra)).
Proof. exact end_extra_needs_begin. Qed.
Print Assumptions C12_end_extra_needs_begin.

(* after finish (or after a failed switch closed the writer): every call reports the closed error, state unchanged *)
Theorem C12_after_close : forall enc crc s, is_closed (ws_inner s) = true ->
  (forall buf, ws_to_file s = true -> zw_write s buf = (s, Err closed_err)) /\
  (ws_to_extra s = true -> end_extra_data enc s = (s, Err closed_err)) /\
  (ws_to_extra s = false ->
     (forall name o raw, len name <= 65535 -> start_entry enc crc s name o raw = (s, Err closed_err)) /\
     (len (ws_comment s) <= 65535 -> finish enc crc s = (s, Err closed_err))).
Proof.
  intros enc crc s H. split; [intros buf Hf; now apply closed_write|]. split; [intro He; now apply closed_end_extra|].
  intro He. split; [intros name o raw Hn; now apply closed_start_entry|intro Hc; now apply closed_finish].
Qed.
Print Assumptions C12_after_close.

(* an unsupported method, or a level outside the range of a compressing method *)
Theorem C12_bad_method_or_level : forall enc s d m lvl, ws_inner s = WStorer d ->
  match m with
  | CompressionMethod_Stored => True
  | CompressionMethod_Aes => switch_to enc s m lvl = (set_inner s (WClosed (Some d)), Err (EUnsupported MAesWrite))
  | CompressionMethod_Unsupported _ => switch_to enc s m lvl = (set_inner s (WClosed (Some d)), Err (EUnsupported MUnsupportedCompression))
  | _ => level_ok m lvl = None -> switch_to enc s m lvl = (set_inner s (WClosed (Some d)), Err (EUnsupported MUnsupportedLevel))
  end.
Proof. exact switch_bad. Qed.
Print Assumptions C12_bad_method_or_level.

(* reserved or malformed extra data *)
Theorem C12_extra_validation : forall f, validate_extra_data f = Ok tt ->
  len (w_extra f) + (if w_large f then 20 else 0) <= 65535 /\
  (w_extra f <> [] ->
   4 <= len (w_extra f) /\ unle (take 2 (w_extra f)) <> 1 /\ reserved_id (unle (take 2 (w_extra f))) = false /\
   unle (take 2 (drop 2 (w_extra f))) <= len (w_extra f) - 4).
Proof. intros f H. split; [now apply extra_validation_len|now apply extra_validation_first]. Qed.
Print Assumptions C12_extra_validation.
