(* Props/C12.v — property C12: any order of writer calls is safe; misuse is reported, not absorbed.
   The no-panic theorem over ALL call sequences and ALL sink behaviours (C12_no_panic, at the end), and the
   misuse theorems over Model/Writer.v. *)
From Coq Require Import ZArith.
From ZipV Require Import Base.Bytes Base.Outcome Gen.CompressionGen Gen.TypesGen Model.Readers Model.Reader Model.Writer Model.WriterCalls
     Proofs.WriterMisuse Proofs.WriterInv.
Open Scope N_scope.

(* writing data before any file is started, or after a directory or symlink (both clear the flag) *)
Theorem C12_write_needs_file : forall s buf, ws_to_file s = false ->
  zw_write s buf = (s, Err (EIo KOther INoFileStarted)).
Proof. exact write_needs_file. Qed.
Print Assumptions C12_write_needs_file.

(* ending extra data that was never begun *)
Theorem C12_end_extra_needs_begin : forall enc s, ws_to_extra s = false ->
  end_extra_data enc s = (s, Err (EIo KOther INotExtra)).
Proof. exact end_extra_needs_begin. Qed.
Print Assumptions C12_end_extra_needs_begin.

(* after finish (or after a failed switch closed the writer): every call reports the closed error, state unchanged *)
Theorem C12_after_close : forall enc crc s, is_closed (ws_inner s) = true ->
  (forall buf, ws_to_file s = true -> zw_write s buf = (s, Err closed_err)) /\
  (ws_to_extra s = true -> end_extra_data enc s = (s, Err closed_err)) /\
  (ws_to_extra s = false ->
     (forall name o raw, len name <= 65535 -> start_entry enc crc s name o raw = (s, Err closed_err)) /\
     (len (ws_comment s) <= 65535 -> finish enc crc s = (s, Err closed_err))).
Proof.
  intros enc crc s H. split; [intros buf Hf; now apply closed_write|]. split; [intro He; now apply closed_end_extra|].
  intro He. split; [intros name o raw Hn; now apply closed_start_entry|intro Hc; now apply closed_finish].
Qed.
Print Assumptions C12_after_close.

(* an unsupported method, or a level outside the range of a compressing method *)
Theorem C12_bad_method_or_level : forall enc s d m lvl, ws_inner s = WStorer d ->
  match m with
  | CompressionMethod_Stored => True
  | CompressionMethod_Aes => switch_to enc s m lvl = (set_inner s (WClosed (Some d)), Err (EUnsupported MAesWrite))
  | CompressionMethod_Unsupported _ => switch_to enc s m lvl = (set_inner s (WClosed (Some d)), Err (EUnsupported MUnsupportedCompression))
  | _ => level_ok m lvl = None -> switch_to enc s m lvl = (set_inner s (WClosed (Some d)), Err (EUnsupported MUnsupportedLevel))
  end.
Proof. exact switch_bad. Qed.
Print Assumptions C12_bad_method_or_level.

(* reserved or malformed extra data *)
Theorem C12_extra_validation : forall f, validate_extra_data f = Ok tt ->
  len (w_extra f) + (if w_large f then 20 else 0) <= 65535 /\
  (w_extra f <> [] ->
   4 <= len (w_extra f) /\ unle (take 2 (w_extra f)) <> 1 /\ reserved_id (unle (take 2 (w_extra f))) = false /\
   unle (take 2 (drop 2 (w_extra f))) <= len (w_extra f) - 4).
Proof. intros f H. split; [now apply extra_validation_len|now apply extra_validation_first]. Qed.
Print Assumptions C12_extra_validation.

(* ---------- every order of calls is safe.
   For every compressor and checksum function, every plan of the sink (arbitrary short writes and failures at
   arbitrary I/O calls), every list of API calls with arbitrary arguments -- names, contents, methods, levels,
   permissions, alignment, extra data, ZipCrypto option, raw copies of arbitrary source records, comments, calls after
   finish, a final drop -- on a fresh writer or on any archive opened for append: NO call ends in a panic, i.e. in any
   of the model's panic sites (get_plain on a wrapped writer, unwrap of the last file, 16-bit extra length addition,
   the alignment assertion, unwrap of the closed writer, the unreachable arms, position arithmetic, fuel, the
   year-1980 subtraction).  The only requirement on the arguments is the type invariant of zip::DateTime
   (year >= 1980, which its constructors enforce): [valid_call].
   The proof is an invariant of the seven state components (Proofs/WriterInv.v, [Inv]) preserved by every call
   whatever its result, by induction over the call list.  Planning this proof exposed defect D21. *)
Theorem C12_no_panic : forall enc crc plan calls s' results,
  Forall valid_call calls -> run_calls enc crc (new_writer plan) calls = (s', results) ->
  Forall (fun r => is_panic r = false) results.
Proof. intros enc crc plan calls s' results Hv H. exact (proj1 (run_calls_no_panic enc crc calls _ _ _ (inv_new plan) Hv H)). Qed.
Print Assumptions C12_no_panic.

Theorem C12_no_panic_append : forall enc crc data plan s0 calls s' results,
  new_append data plan = Ok s0 -> Forall valid_call calls -> run_calls enc crc s0 calls = (s', results) ->
  Forall (fun r => is_panic r = false) results.
Proof. intros enc crc data plan s0 calls s' results Ha Hv H. exact (proj1 (run_calls_no_panic enc crc calls _ _ _ (inv_new_append _ _ _ Ha) Hv H)). Qed.
Print Assumptions C12_no_panic_append.

(* non-vacuity: the options the harness builds satisfy valid_call (DOS times decode to years >= 1980) *)
Example C12_valid_example : forall d t dt, DateTime_from_msdos d t = Some dt -> time_ok dt.
Proof. exact from_msdos_time_ok. Qed.

(* ---------- which entries a program leaves in the writer's list (the list finish() renders: C01_finish_then_open).
   For every program, every sink plan, every compressor/checksum: the names of the records after the program are the
   names before, followed -- in call order -- by the name of every creating call (start_file, start_file_with_extra_data,
   start_file_aligned, add_directory with its '/', add_symlink, raw copy) that returned Ok, possibly by the name of a
   creating call that failed after its header was written, and by nothing else: no call removes, reorders or renames
   an entry, and a successful creation is never lost.  (That a failed creation leaves the writer closed or
   unfinishable is observed by the correspondence, not proved.) *)
From Coq Require Import List.
From ZipV Require Import Proofs.FaultSurface Proofs.CreatedNames.
Theorem C12_created_names_partial : forall enc crc calls s s' results,
  run_calls enc crc s calls = (s', results) ->
  exists added, selected calls results added /\ names s' = names s ++ added.
Proof. exact run_calls_names. Qed.
Print Assumptions C12_created_names_partial.
