(* Props/C05.v — property C05: untrusted bytes never crash or hang the (seekable) reader model.
   Every panic site of the Rust (unwrap, panic!, unchecked arithmetic in debug builds, exhausted fuel of a
   bounded loop) is a [Panic] outcome of Model/Reader.v; the theorems say none is reachable. *)
From ZipV Require Import Base.Bytes Base.Outcome Model.Readers Model.Reader Proofs.ReaderTotal.
Open Scope N_scope.

(* opening any byte string returns a value or an error: no panic, and no loop outlives its bound
   (the end-record scans are structural over the input, the directory loop is fuelled by the input length) *)
Theorem C05_open_total : forall data, no_panic (open data).
Proof. exact open_np. Qed.
Print Assumptions C05_open_total.

(* opening any entry by index, with or without a password: no panic (the unchecked offset sum of
   find_content cannot overflow for inputs shorter than 2^63 bytes, i.e. for every Vec, file or device) *)
Theorem C05_entry_total : forall kdf (ar : archive) i pw, len (ar_data ar) < 2 ^ 63 ->
  no_panic (by_index_opt kdf ar i pw).
Proof. intros kdf ar i pw H. exact (proj1 (by_index_opt_np kdf (fun _ b => b) (fun _ b => b) (fun _ => 0) ar i pw H)). Qed.
Print Assumptions C05_entry_total.

(* and then reading it under any schedule of caller buffer sizes: no call panics *)
Theorem C05_read_total : forall kdf blk mac crc (ar : archive) i pw f ds c bufs, len (ar_data ar) < 2 ^ 63 ->
  by_index_opt kdf ar i pw = Ok (Some (f, ds, c)) ->
  Forall (fun r => no_panic r) (fst (run_reads (zipfile_read blk mac crc) (make_stored f c) bufs)).
Proof.
  intros kdf blk mac crc ar i pw f ds c bufs Hl Hb.
  apply entry_reads_np. exact (proj2 (by_index_opt_np kdf blk mac crc ar i pw Hl) f ds c Hb).
Qed.
Print Assumptions C05_read_total.

(* memory requested up front while opening is bounded by the input length whatever the entry count claims *)
Theorem C05_prealloc : forall n cde_pos data, cde_pos <= len data -> prealloc_entries n cde_pos <= len data.
Proof. exact prealloc_bound. Qed.
Print Assumptions C05_prealloc.

(* ---------- the other reader entry points: streaming reader, visitor, open-for-append.
   For EVERY byte string: walking it with read_zipfile_from_stream until the central directory (each handle dropped,
   whatever was consumed), the visitor's metadata phase, and ZipWriter::new_append never panic and never run out of
   fuel (each step advances by at least 30 / 46 bytes inside the input, so the input length bounds the loops). *)
From ZipV Require Import Model.Stream Model.Writer Proofs.StreamTotal.
Theorem C05_stream_total : forall data, no_panic (snd (stream_entries (S (length data)) data 0)).
Proof. intro data. apply stream_entries_np. unfold len. lia. Qed.
Print Assumptions C05_stream_total.

Theorem C05_visit_total : forall data, no_panic (snd (visit data)).
Proof. exact visit_np. Qed.
Print Assumptions C05_visit_total.

Theorem C05_append_open_total : forall data plan, no_panic (new_append data plan).
Proof. exact new_append_np. Qed.
Print Assumptions C05_append_open_total.
