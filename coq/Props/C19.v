(* Props/C19.v — property C19: names and comments decode by the flagged encoding; raw bytes are kept.
   CP437_TABLE is regenerated from src/cp437.rs and CP437_REF from CPython's cp437 codec on every run.
   A Rust String is represented by its UTF-8 bytes; utf8_lossy is String::from_utf8_lossy as defined
   in Spec/Utf8.v (compared with std by the correspondence run). *)
From ZipV Require Import Base.Bytes Gen.Cp437Gen Gen.Cp437Ref Spec.Utf8 Model.Cp437 Proofs.Utf8Proofs Proofs.TextProofs.
Open Scope N_scope.

(* for every byte value the crate's table is the Unicode consortium CP437 mapping *)
Theorem C19_table : CP437_TABLE = CP437_REF /\ length CP437_TABLE = 256%nat.
Proof. exact (conj table_eq table_len). Qed.
Print Assumptions C19_table.

(* flag clear: every byte is decoded through the table (the ASCII fast path agrees with it) *)
Theorem C19_cp437 : forall raw,
  decode_text false raw = flat_map (fun b => utf8_encode_cp (nth (N.to_nat (b2n b)) CP437_REF 0)) raw.
Proof.
  intro raw. unfold decode_text. rewrite from_cp437_map. unfold cp437_char. now rewrite table_eq.
Qed.
Print Assumptions C19_cp437.

(* flag set: UTF-8, lossy (total by construction: never an error), identity on valid encodings *)
Theorem C19_utf8 : forall raw, decode_text true raw = utf8_lossy raw.
Proof. reflexivity. Qed.
Print Assumptions C19_utf8.

Theorem C19_utf8_valid : forall cps, forallb scalar cps = true ->
  utf8_lossy (utf8_encode cps) = utf8_encode cps.
Proof. exact lossy_encode. Qed.
Print Assumptions C19_utf8_valid.

(* names given to the writer (any Rust string = any list of scalar values) are flagged and read back unchanged *)
Theorem C19_writer_names : forall cps, forallb scalar cps = true ->
  let name := utf8_encode cps in decode_text (name_flag name) name = name.
Proof. exact writer_name_roundtrip. Qed.
Print Assumptions C19_writer_names.

(* ---------- as the READER decodes a central record (any bytes, any producer): the raw-name accessor returns the bytes
   stored in the record, the name is their decoding by the record's language-encoding flag (bit 11 of its own flags
   word) and so is the entry comment -- whatever the extra field holds (ZIP64, AES records: they never touch the text
   fields), whatever the name looks like, whatever the other flag bits are. *)
From ZipV Require Import Base.Outcome Model.Reader Proofs.RawName.
Theorem C19_reader_decodes_by_flag : forall data pos ao f p',
  parse_central data pos ao = Ok (f, p') ->
  exists flags nl el cl rawc,
    u16_at data (pos + 8) = Ok flags /\ u16_at data (pos + 28) = Ok nl /\ u16_at data (pos + 30) = Ok el /\
    u16_at data (pos + 32) = Ok cl /\
    rd_at data (pos + 46) nl = Ok (f_name_raw f) /\ rd_at data (pos + 46 + nl + el) cl = Ok rawc /\
    f_name f = decode_text (N.testbit flags 11) (f_name_raw f) /\
    f_comment f = decode_text (N.testbit flags 11) rawc.
Proof. exact reader_text. Qed.
Print Assumptions C19_reader_decodes_by_flag.

(* the streaming reader: the name of a streamed entry is the decoding of the LOCAL header's name bytes by the local
   header's own flag bit; the raw name is those bytes *)
From ZipV Require Import Model.Stream.
Theorem C19_stream_decodes_by_flag : forall data pos e,
  stream_next data pos = Ok (SFile e) ->
  exists flags nl,
    u16_at data (pos + 6) = Ok flags /\ u16_at data (pos + 26) = Ok nl /\
    rd_at data (pos + 30) nl = Ok (f_name_raw (se_file e)) /\
    f_name (se_file e) = decode_text (N.testbit flags 11) (f_name_raw (se_file e)).
Proof. exact stream_text. Qed.
Print Assumptions C19_stream_decodes_by_flag.
