(* Props/C13.v — property C13: appending keeps every existing entry and adds the new ones. *)
From Coq Require Import ZArith.
From ZipV Require Import Base.Bytes Base.Outcome Gen.CompressionGen Gen.TypesGen Gen.WriteGen Model.Readers Model.Reader Model.Writer
     Proofs.AppendProofs Proofs.CentralRoundtrip.
Open Scope N_scope.

(* opening for append re-hydrates exactly the directory the reader sees, keeps the bytes, positions the sink on
   the old directory, keeps the comment and protects the last old entry (raw flag) *)
Theorem C13_new_append_state : forall data plan s,
  new_append data plan = Ok s ->
  exists e cde ao ds n files,
    find_eocd data = Ok (e, cde) /\ get_directory_counts data e cde = Ok (ao, ds, n) /\
    parse_cd (S (length data)) data n ds ao = Ok files /\ ds <= cde /\
    ws_inner s = WStorer {| d_buf := data; d_pos := ds; d_plan := plan |} /\
    ws_files s = map wfile_of_zfd files /\ ws_comment s = e_comment e /\ ws_raw s = true /\
    ws_to_file s = false /\ ws_to_extra s = false.
Proof. exact new_append_state. Qed.
Print Assumptions C13_new_append_state.

(* the record re-emitted for an old entry carries the old name, method, CRC, sizes, time, attributes, offset *)
Theorem C13_old_record : forall f,
  let w := wfile_of_zfd f in
  w_name w = f_name f /\ w_method w = f_method f /\ w_crc w = f_crc f /\ w_csize w = f_csize f /\ w_usize w = f_usize f /\
  w_time w = f_time f /\ w_ext_attr w = f_ext_attr f /\ w_header_start w = f_header_start f /\ w_extra w = f_extra f /\
  w_made_by w = f_made_by f.
Proof. intro f. cbn. repeat split. Qed.
Print Assumptions C13_old_record.


(* the record re-emitted for an old entry is read back with the old values: instance of the central-record round trip
   (C01_central_record_roundtrip) for the record new_append re-hydrated.  Name: the decoded old name, re-encoded as
   UTF-8 and flagged as such when it is not ASCII; comment: dropped (see DESIGN.md 13.3). *)
Theorem C13_reemitted_record_roundtrip : forall g ao cs pre post,
  wf_central (wfile_of_zfd g) ao -> central_header_chunks (wfile_of_zfd g) = Ok cs ->
  exists d dt, parse_central (pre ++ concat cs ++ post) (len pre) ao = Ok (decoded (wfile_of_zfd g) dt ao (len pre), len pre + len (concat cs)) /\
               DateTime_from_msdos d (DateTime_timepart (f_time g)) = Some dt /\
               f_method (decoded (wfile_of_zfd g) dt ao (len pre)) = f_method g /\ f_crc (decoded (wfile_of_zfd g) dt ao (len pre)) = f_crc g /\
               f_usize (decoded (wfile_of_zfd g) dt ao (len pre)) = f_usize g /\ f_csize (decoded (wfile_of_zfd g) dt ao (len pre)) = f_csize g /\
               f_header_start (decoded (wfile_of_zfd g) dt ao (len pre)) = f_header_start g + ao /\
               f_ext_attr (decoded (wfile_of_zfd g) dt ao (len pre)) = f_ext_attr g /\ f_name_raw (decoded (wfile_of_zfd g) dt ao (len pre)) = f_name g.
Proof.
  intros g ao cs pre post W H. destruct (central_roundtrip _ _ _ pre post W H) as (d & dt & _ & Hdt & Hp).
  exists d, dt. split; [exact Hp|]. split; [exact Hdt|]. cbn. repeat split.
Qed.
Print Assumptions C13_reemitted_record_roundtrip.
