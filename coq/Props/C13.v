(* Props/C13.v — property C13: appending keeps every existing entry and adds the new ones. *)
From Coq Require Import ZArith.
From ZipV Require Import Base.Bytes Base.Outcome Gen.CompressionGen Gen.TypesGen Gen.WriteGen Model.Readers Model.Reader Model.Writer
     Proofs.AppendProofs Proofs.CentralRoundtrip.
Open Scope N_scope.

(* opening for append re-hydrates exactly the directory the reader sees, keeps the bytes, positions the sink on
   the old directory, keeps the comment and protects the last old entry (raw flag) *)
Theorem C13_new_append_state : forall data plan s,
  new_append data plan = Ok s ->
  exists e cde ao ds n files,
    find_eocd data = Ok (e, cde) /\ get_directory_counts data e cde = Ok (ao, ds, n) /\
    parse_cd (S (length data)) data n ds ao = Ok files /\ ds <= cde /\
    ws_inner s = WStorer {| d_buf := data; d_pos := ds; d_plan := plan |} /\
    ws_files s = map wfile_of_zfd files /\ ws_comment s = e_comment e /\ ws_raw s = true /\
    ws_to_file s = false /\ ws_to_extra s = false.
Proof. exact new_append_state. Qed.
Print Assumptions C13_new_append_state.

(* the record re-emitted for an old entry carries the old name, method, CRC, sizes, time, attributes, offset *)
Theorem C13_old_record : forall f,
  let w := wfile_of_zfd f in
  w_name w = f_name f /\ w_method w = f_method f /\ w_crc w = f_crc f /\ w_csize w = f_csize f /\ w_usize w = f_usize f /\
  w_time w = f_time f /\ w_ext_attr w = f_ext_attr f /\ w_header_start w = f_header_start f /\ w_extra w = f_extra f /\
  w_made_by w = f_made_by f.
Proof. intro f. cbn. repeat split. Qed.
Print Assumptions C13_old_record.


(* the record re-emitted for an old entry is read back with the old values: instance of the central-record round trip
   (C01_central_record_roundtrip) for the record new_append re-hydrated.  Name: the decoded old name, re-encoded as
   UTF-8 and flagged as such when it is not ASCII; comment: dropped (see DESIGN.md 13.3). *)
Theorem C13_reemitted_record_roundtrip : forall g ao cs pre post,
  wf_central (wfile_of_zfd g) ao -> central_header_chunks (wfile_of_zfd g) = Ok cs ->
  exists d dt, parse_central (pre ++ concat cs ++ post) (len pre) ao = Ok (decoded (wfile_of_zfd g) dt ao (len pre), len pre + len (concat cs)) /\
               DateTime_from_msdos d (DateTime_timepart (f_time g)) = Some dt /\
               f_method (decoded (wfile_of_zfd g) dt ao (len pre)) = f_method g /\ f_crc (decoded (wfile_of_zfd g) dt ao (len pre)) = f_crc g /\
               f_usize (decoded (wfile_of_zfd g) dt ao (len pre)) = f_usize g /\ f_csize (decoded (wfile_of_zfd g) dt ao (len pre)) = f_csize g /\
               f_header_start (decoded (wfile_of_zfd g) dt ao (len pre)) = f_header_start g + ao /\
               f_ext_attr (decoded (wfile_of_zfd g) dt ao (len pre)) = f_ext_attr g /\ f_name_raw (decoded (wfile_of_zfd g) dt ao (len pre)) = f_name g.
Proof.
  intros g ao cs pre post W H. destruct (central_roundtrip _ _ _ pre post W H) as (d & dt & _ & Hdt & Hp).
  exists d, dt. split; [exact Hp|]. split; [exact Hdt|]. cbn. repeat split.
Qed.
Print Assumptions C13_reemitted_record_roundtrip.

(* ---------- the bytes in front of the old directory are never touched.
   For EVERY sequence of writer calls after new_append (any arguments, any results, legal or not), on every sink that
   may split each write arbitrarily but does not fail, and every compressor and checksum: whatever is in the sink at
   the end -- finished, dropped, closed after an error, or still open -- its first [directory start] bytes are the
   old archive's.  Hypothesis [renders]: every old record can be re-emitted (its re-encoded name and extra field
   still fit their 16-bit length fields); decidable, and met by the example below.
   Proof: Proofs/FloorInv.v -- an invariant over the whole writer state machine: the cursor never goes below the
   floor, and the header patching of finish_file / end_extra_data only ever addresses records started behind it
   (the raw flag protects the re-hydrated records until the first new record is pushed; on a failure-free sink
   start_entry always gets that far). *)
From Coq Require Import List.
From ZipV Require Import Model.Dos Model.WriterCalls Proofs.WriterInv Proofs.ShortWrites Proofs.FloorInv.
Import ListNotations.
Theorem C13_old_bytes_preserved : forall enc crc data plan s calls s' rs,
  new_append data plan = Ok s -> nofail plan -> Forall renders (ws_files s) -> Forall valid_call calls ->
  run_calls enc crc s calls = (s', rs) ->
  forall d, ws_inner s = WStorer d ->
  match sink_bytes s' with Some b => take (d_pos d) b = take (d_pos d) data | None => True end.
Proof. exact old_bytes_preserved. Qed.
Print Assumptions C13_old_bytes_preserved.

(* the hypotheses are met by a concrete archive (one stored entry "o1", 109 bytes, directory at 39), a plan of short
   writes and a program that adds an entry and finishes; and the failure-free hypothesis cannot be dropped: when the
   single stream_position call inside start_file fails, start_file reports the error, but the raw flag is already
   cleared, and the following finish() patches the OLD entry's header (DESIGN.md 13.3, observations). *)
Definition c13_base : bytes :=
    [x50; x4b; x03; x04; x14; x00; x00; x00; x00; x00; xcf; x54; x71; x4d; x03; x0d; x09; xd6; x07; x00; x00; x00;
    x07; x00; x00; x00; x02; x00; x00; x00; x6f; x31; x6f; x6c; x64; x20; x6f; x6e; x65; x50; x4b; x01; x02; x14;
    x03; x14; x00; x00; x00; x00; x00; xcf; x54; x71; x4d; x03; x0d; x09; xd6; x07; x00; x00; x00; x07; x00; x00;
    x00; x02; x00; x00; x00; x00; x00; x00; x00; x00; x00; x00; x00; xa4; x81; x00; x00; x00; x00; x6f; x31; x50;
    x4b; x05; x06; x00; x00; x00; x00; x01; x00; x01; x00; x30; x00; x00; x00; x27; x00; x00; x00; x00; x00].
Definition c13_opts : wopts := {| o_method := CompressionMethod_Stored; o_level := None; o_time := DateTime_default;
                                  o_perm := None; o_large := false; o_encrypt := None |}.
Definition c13_prog : list wcall := [KStartFile [x6e] c13_opts; KWrite [x41; x42]; KFinish].

Example C13_old_bytes_nonvacuous :
  exists s d, new_append c13_base [WShort 1; WShort 2] = Ok s /\ nofail [WShort 1; WShort 2] /\ Forall renders (ws_files s) /\
              ws_files s <> [] /\ Forall valid_call c13_prog /\ ws_inner s = WStorer d /\ d_pos d = 39 /\
              exists b, sink_bytes (fst (run_calls (fun _ _ x => x) (fun _ => 0) s c13_prog)) = Some b /\ len b = 189.
Proof.
  eexists. eexists. split; [vm_compute; reflexivity|]. split; [repeat constructor; discriminate|].
  split; [repeat constructor; eexists; vm_compute; reflexivity|]. split; [discriminate|].
  split; [repeat constructor; vm_compute; discriminate|]. split; [reflexivity|]. split; [reflexivity|].
  eexists. split; vm_compute; reflexivity.
Qed.

Theorem C13_failing_sink_refuted :
  exists plan s b, new_append c13_base plan = Ok s /\ Forall renders (ws_files s) /\ Forall valid_call c13_prog /\
    sink_bytes (fst (run_calls (fun _ _ x => x) (fun _ => 0) s c13_prog)) = Some b /\ take 39 b <> take 39 c13_base.
Proof.
  exists [WFail]. eexists. eexists. split; [vm_compute; reflexivity|].
  split; [repeat constructor; eexists; vm_compute; reflexivity|]. split; [repeat constructor; vm_compute; discriminate|].
  split; [vm_compute; reflexivity|]. vm_compute. discriminate.
Qed.
Print Assumptions C13_failing_sink_refuted.

(* ---------- the listing after an append round: the old entries, then the new ones.
   For every archive new_append accepts and every sequence of calls after it (any arguments, any sink behaviour, any
   results): the names of the records the writer holds -- the list finish() renders as the new directory
   (C01_finish_then_open) -- are the names of the directory the READER parses from the old archive, in that order,
   followed in call order by the names of the creating calls that succeeded (possibly by that of a creating call that
   failed after its header was written: [selected]), and nothing else: no old entry is dropped, renamed or reordered,
   whatever happens afterwards. *)
From ZipV Require Import Proofs.FaultSurface Proofs.CreatedNames.
Theorem C13_listing_old_then_new : forall enc crc data plan s calls s' rs,
  new_append data plan = Ok s -> run_calls enc crc s calls = (s', rs) ->
  exists e cde ao ds n files added,
    find_eocd data = Ok (e, cde) /\ get_directory_counts data e cde = Ok (ao, ds, n) /\
    parse_cd (S (length data)) data n ds ao = Ok files /\
    selected calls rs added /\ names s' = map f_name files ++ added.
Proof.
  intros enc crc data plan s calls s' rs Ha Hr.
  destruct (new_append_state _ _ _ Ha) as (e & cde & ao & ds & n & files & He & Hc & Hp & _ & _ & Hf & _).
  destruct (run_calls_names enc crc calls _ _ _ Hr) as (added & Hs & Hn).
  exists e, cde, ao, ds, n, files, added. repeat split; try assumption.
  rewrite Hn. f_equal. unfold names. rewrite Hf, map_map. apply map_ext. intro f. reflexivity.
Qed.
Print Assumptions C13_listing_old_then_new.
