(* Props/C02.v — property C02: every archive the writer emits is a valid, self-consistent ZIP file.
   The part that is a theorem today: inputs the format cannot represent are rejected (fix D1/D11), and the
   16-bit length fields the header writers emit hold the true lengths (no silent truncation is possible once
   the guards hold).  Structural validity of whole archives is judged per case by independent parsers. *)
From Coq Require Import ZArith.
From ZipV Require Import Base.Bytes Base.Outcome Model.Readers Model.Reader Model.Writer Proofs.WriterMisuse Proofs.WriterLengths.
Open Scope N_scope.

Theorem C02_rejects_long_name : forall enc crc s name o raw, 65535 < len name ->
  start_entry enc crc s name o raw = (s, Err (EInvalid MTooLong)).
Proof. exact long_name_rejected. Qed.
Print Assumptions C02_rejects_long_name.

Theorem C02_rejects_long_comment : forall enc crc s, 65535 < len (ws_comment s) ->
  finalize enc crc s = (s, Err (EInvalid MTooLong)).
Proof. exact long_comment_rejected. Qed.
Print Assumptions C02_rejects_long_comment.

Theorem C02_rejects_long_extra : forall f, 65535 < len (w_extra f) + (if w_large f then 20 else 0) ->
  validate_extra_data f = Err (EIo KInvalidData IExtraTooLong).
Proof. exact long_extra_rejected. Qed.
Print Assumptions C02_rejects_long_extra.

Theorem C02_rejects_long_central_extra : forall f, 65535 < len (central_z64 f) + len (w_extra f) ->
  central_header_chunks f = Err (EInvalid MTooLong).
Proof. exact long_central_extra_rejected. Qed.
Print Assumptions C02_rejects_long_central_extra.

(* when the guards hold, the length fields written are the true lengths *)
Theorem C02_length_fields_exact : forall f cs, len (w_name f) <= 65535 -> central_header_chunks f = Ok cs ->
  nth_error cs 10 = Some (le16 (len (w_name f))) /\
  nth_error cs 11 = Some (le16 (len (central_z64 f) + len (w_extra f))) /\
  len (central_z64 f) + len (w_extra f) <= 65535.
Proof. exact central_length_fields. Qed.
Print Assumptions C02_length_fields_exact.
