(* Props/C02.v — property C02: every archive the writer emits is a valid, self-consistent ZIP file.
   The part that is a theorem today: inputs the format cannot represent are rejected (fix D1/D11), and the
   16-bit length fields the header writers emit hold the true lengths (no silent truncation is possible once
   the guards hold).  Structural validity of whole archives is judged per case by independent parsers. *)
From Coq Require Import ZArith.
From ZipV Require Import Base.Bytes Base.Outcome Model.Readers Model.Reader Model.Writer Proofs.WriterMisuse Proofs.WriterLengths.
Open Scope N_scope.

Theorem C02_rejects_long_name : forall enc crc s name o raw, 65535 < len name ->
  start_entry enc crc s name o raw = (s, Err (EInvalid MTooLong)).
Proof. exact long_name_rejected. Qed.
Print Assumptions C02_rejects_long_name.

Theorem C02_rejects_long_comment : forall enc crc s, 65535 < len (ws_comment s) ->
  finalize enc crc s = (s, Err (EInvalid MTooLong)).
Proof. exact long_comment_rejected. Qed.
Print Assumptions C02_rejects_long_comment.

Theorem C02_rejects_long_extra : forall f, 65535 < len (w_extra f) + (if w_large f then 20 else 0) ->
  validate_extra_data f = Err (EIo KInvalidData IExtraTooLong).
Proof. exact long_extra_rejected. Qed.
Print Assumptions C02_rejects_long_extra.

Theorem C02_rejects_long_central_extra : forall f, 65535 < len (central_z64 f) + len (w_extra f) ->
  central_header_chunks f = Err (EInvalid MTooLong).
Proof. exact long_central_extra_rejected. Qed.
Print Assumptions C02_rejects_long_central_extra.

(* when the guards hold, the length fields written are the true lengths *)
Theorem C02_length_fields_exact : forall f cs, len (w_name f) <= 65535 -> central_header_chunks f = Ok cs ->
  nth_error cs 10 = Some (le16 (len (w_name f))) /\
  nth_error cs 11 = Some (le16 (len (central_z64 f) + len (w_extra f))) /\
  len (central_z64 f) + len (w_extra f) <= 65535.
Proof. exact central_length_fields. Qed.
Print Assumptions C02_length_fields_exact.

(* ---------- the local header agrees with the central record.
   Two different decoders of the reader model -- the streaming reader's local-header parser and the directory parser --
   applied to the local header the writer leaves behind (after patching CRC and sizes) and to the central record it
   emits for the same stored entry return the same raw name, decoded name, UTF-8 flag, encryption flag, method,
   timestamp, CRC-32, compressed and uncompressed size; and the UTF-8 flag is set exactly for non-ASCII names. *)
From ZipV Require Import Gen.GenLib Gen.SpecGen Gen.TypesGen Spec.Utf8 Model.Stream Proofs.Zip64Proofs Proofs.CentralRoundtrip Proofs.WriterEntry Proofs.StreamRendered.
Theorem C02_local_central_agree : forall f d c n front content rest ao cs pre post,
  stored_rec f d -> c < 2 ^ 32 -> n <= ZIP64_BYTES_THR -> DateTime_datepart (w_time f) = Some d ->
  let f' := wf_set_sizes f c n n in
  wf_central f' ao -> central_header_chunks f' = Ok cs ->
  exists gl p1 gc p2,
    stream_next (front ++ lh_bytes f d c n n ++ content ++ rest) (len front) = Ok (SFile {| se_file := gl; se_data_start := p1 |}) /\
    parse_central (pre ++ concat cs ++ post) (len pre) ao = Ok (gc, p2) /\
    f_name_raw gl = f_name_raw gc /\ f_name gl = f_name gc /\ f_utf8 gl = f_utf8 gc /\ f_utf8 gc = negb (is_ascii (w_name f)) /\
    f_encrypted gl = f_encrypted gc /\ f_method gl = f_method gc /\ f_time gl = f_time gc /\
    f_crc gl = f_crc gc /\ f_csize gl = f_csize gc /\ f_usize gl = f_usize gc.
Proof.
  intros f d c n front content rest ao cs pre post R Hc Hn Hd f' W Hcs.
  destruct (stream_next_rendered f d c n front content rest R Hc Hn) as (dt & Hdt & Hsn).
  destruct (central_roundtrip f' ao cs pre post W Hcs) as (d' & dt' & Hd' & Hdt' & Hp).
  assert (d' = d) by (subst f'; cbn [wf_set_sizes w_time] in Hd'; rewrite Hd in Hd'; now injection Hd'). subst d'.
  assert (dt' = dt) by (subst f'; cbn [wf_set_sizes w_time] in Hdt'; rewrite Hdt in Hdt'; now injection Hdt'). subst dt'.
  do 4 eexists. split; [exact Hsn|]. split; [exact Hp|].
  subst f'. cbn [stream_file decoded wf_set_sizes f_name_raw f_name f_utf8 f_encrypted f_method f_time f_crc f_csize f_usize
               w_name w_method w_encrypted w_crc w_csize w_usize].
  rewrite (sr_method _ _ R), (sr_enc _ _ R). repeat split.
Qed.
Print Assumptions C02_local_central_agree.
