(* Proofs/StreamAgree.v — C10: facts about the streaming reader model. *)
From ZipV Require Import Base.Bytes Base.Outcome Gen.GenLib Gen.CompressionGen Model.Readers Model.Reader Model.Stream.
Open Scope N_scope.

Lemma pos_after_spec data e : se_data_start e <= len data ->
  pos_after data e = N.min (se_data_start e + f_csize (se_file e)) (len data).
Proof. intro H. unfold pos_after. lia. Qed.

(* an entry handle is only ever produced for an unencrypted, sized, decodable entry *)
Lemma stream_next_supported data pos e : stream_next data pos = Ok (SFile e) ->
  f_encrypted (se_file e) = false /\ f_dd (se_file e) = false /\ is_unsupported (f_method (se_file e)) = false.
Proof.
  unfold stream_next. intro H.
  repeat match type of H with
         | bind ?r _ = Ok _ => destruct r as [?| |]; cbn [bind] in H; try discriminate
         | (let '(_, _) := ?x in _) = Ok _ => destruct x
         | (if ?c then _ else _) = Ok _ => destruct c eqn:?; try discriminate
         end.
  injection H as <-. cbn [se_file]. auto.
Qed.
