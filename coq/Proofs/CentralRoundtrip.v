(* Proofs/CentralRoundtrip.v — every central directory record the writer can emit is decoded by the reader
   model (parse_central, incl. parse_extra_field over the ZIP64 block and validated user extra data) to exactly
   the values it was written from.  Record-level codec round trip used by C01 C02 C03 C08 C13 C14 C17. *)
From Coq Require Import ZArith.
From ZipV Require Import Base.Bytes Base.Outcome Base.Sweep Gen.GenLib Gen.SpecGen Gen.CompressionGen Gen.TypesGen Gen.WriteGen
     Spec.Utf8 Model.Cp437 Model.Readers Model.Reader Model.Writer Proofs.Zip64Proofs Proofs.WriterMisuse.
Open Scope N_scope.

(* the 46 fixed bytes of a central record *)
Definition central_fixed (f : wfile) (d : N) : bytes :=
  le 4 CENTRAL_DIRECTORY_HEADER_SIGNATURE ++ le 2 (N.lor (N.shiftl (w_system f) 8) (w_made_by f)) ++ le 2 (version_needed f) ++
  le 2 (flag_of f) ++ le 2 (CompressionMethod_to_u16 (w_method f)) ++ le 2 (DateTime_timepart (w_time f)) ++ le 2 d ++
  le 4 (w_crc f) ++ le 4 (N.min (w_csize f) ZIP64_BYTES_THR) ++ le 4 (N.min (w_usize f) ZIP64_BYTES_THR) ++
  le 2 (len (w_name f) mod 65536) ++ le 2 (len (central_z64 f) + len (w_extra f)) ++ le 2 0 ++ le 2 0 ++ le 2 0 ++
  le 4 (w_ext_attr f) ++ le 4 (N.min (w_header_start f) ZIP64_BYTES_THR).

Lemma len_central_fixed f d : len (central_fixed f d) = 46.
Proof. unfold central_fixed. rewrite !len_app, !len_le. reflexivity. Qed.

Lemma central_chunks_flat f cs : central_header_chunks f = Ok cs ->
  exists d, DateTime_datepart (w_time f) = Some d /\ len (central_z64 f) + len (w_extra f) <= 65535 /\
            concat cs = central_fixed f d ++ w_name f ++ central_z64 f ++ w_extra f.
Proof.
  unfold central_header_chunks. destruct (65535 <? _) eqn:E; [discriminate|].
  destruct (DateTime_datepart (w_time f)) as [d|]; cbn [of_opt bind]; [|discriminate].
  intros [= <-]. exists d. split; [reflexivity|]. split; [apply N.ltb_ge in E; exact E|].
  unfold central_fixed, le16, le32. cbn [concat]. rewrite app_nil_r, <- !app_assoc. reflexivity.
Qed.

(* reading inside / behind the fixed part *)
Lemma rd_fixed pre fx rest p m : p + m <= len fx -> rd_at (pre ++ fx ++ rest) (len pre + p) m = rd_at fx p m.
Proof. intro H. rewrite rd_skip. apply rd_in_prefix. exact H. Qed.

Lemma rd_after pre fx x rest : rd_at (pre ++ fx ++ x ++ rest) (len pre + len fx) (len x) = Ok x.
Proof. rewrite rd_skip. rewrite <- (N.add_0_r (len fx)). rewrite rd_skip. apply rd_head. Qed.

Lemma rd_after2 pre fx x y rest : rd_at (pre ++ fx ++ x ++ y ++ rest) (len pre + len fx + len x) (len y) = Ok y.
Proof.
  rewrite <- N.add_assoc, rd_skip, rd_skip. rewrite <- (N.add_0_r (len x)). rewrite rd_skip. apply rd_head.
Qed.

Lemma rd_empty data p : p <= len data -> rd_at data p 0 = Ok [].
Proof.
  intro H. unfold rd_at. assert ((p + 0 <=? len data) = true) as -> by (apply N.leb_le; lia).
  destruct (drop p data); reflexivity.
Qed.

(* ---------- parse_extra over validated user records: a no-op *)
Lemma reserved_aes : reserved_id 39169 = true.
Proof. reflexivity. Qed.

Lemma ex_u_at_tail pre tail k : k <= len tail -> ex_u (pre ++ tail) (len pre) k = Ok (unle (take k tail)).
Proof.
  intro H. unfold ex_u. rewrite <- (N.add_0_r (len pre)), rd_skip.
  unfold rd_at. assert ((0 + k <=? len tail) = true) as -> by (apply N.leb_le; lia).
  cbn [bind]. rewrite drop_skipn. reflexivity.
Qed.

Lemma ex_u_at_tail2 pre tail : 4 <= len tail -> ex_u (pre ++ tail) (len pre + 2) 2 = Ok (unle (take 2 (drop 2 tail))).
Proof.
  intro H. unfold ex_u. rewrite rd_skip.
  unfold rd_at. assert ((2 + 2 <=? len tail) = true) as -> by (apply N.leb_le; lia). reflexivity.
Qed.

Lemma parse_extra_skip_valid fv : forall fuel f pre tail,
  f_extra f = pre ++ tail -> validate_records fv tail = Ok tt -> (length tail <= fuel)%nat ->
  parse_extra fuel f (len pre) = (f, Ok tt).
Proof.
  induction fv as [|fv IH]; intros fuel f pre tail Hex Hv Hf.
  - destruct tail; [|discriminate]. rewrite app_nil_r in Hex.
    destruct fuel; cbn [parse_extra]; rewrite Hex; assert ((len pre <=? len pre) = true) as -> by (apply N.leb_le; lia); reflexivity.
  - destruct tail as [|b r].
    { rewrite app_nil_r in Hex.
      destruct fuel; cbn [parse_extra]; rewrite Hex; assert ((len pre <=? len pre) = true) as -> by (apply N.leb_le; lia); reflexivity. }
    cbn [validate_records] in Hv.
    assert (Hlen : (0 < length (b :: r))%nat) by (cbn [length]; lia).
    set (tail := b :: r) in *.
    destruct (len tail <? 4) eqn:E4; [discriminate|]. apply N.ltb_ge in E4.
    destruct (unle (take 2 tail) =? 1) eqn:E1; [discriminate|].
    destruct (reserved_id (unle (take 2 tail))) eqn:Er; [discriminate|].
    destruct (len tail - 4 <? unle (take 2 (drop 2 tail))) eqn:Es; [discriminate|]. apply N.ltb_ge in Es.
    destruct fuel as [|fu]; [lia|].
    cbn [parse_extra]. rewrite Hex at 1. rewrite len_app.
    assert ((len pre + len tail <=? len pre) = false) as -> by (apply N.leb_gt; lia).
    rewrite Hex. rewrite ex_u_at_tail by lia. rewrite ex_u_at_tail2 by lia.
    rewrite E1.
    assert ((unle (take 2 tail) =? 39169) = false) as ->.
    { apply N.eqb_neq. intro X. rewrite X, reserved_aes in Er. discriminate. }
    set (flen := unle (take 2 (drop 2 tail))) in *.
    replace (len pre + 4 + flen) with (len (pre ++ take (4 + flen) tail))
      by (rewrite len_app, len_take; lia).
    apply IH with (tail := drop (4 + flen) tail).
    + rewrite Hex, <- app_assoc, take_drop. reflexivity.
    + exact Hv.
    + rewrite drop_skipn, skipn_length. lia.
Qed.

(* ---------- the ZIP64 block, in front of arbitrary further extra data *)
Definition THR := ZIP64_BYTES_THR.

Lemma z64_step_keep ex g p w :
  ((if w =? 0 then f_usize g else if w =? 1 then f_csize g else f_header_start g) =? ZIP64_BYTES_THR) = false ->
  z64_step ex (g, p, None) w = (g, p, None).
Proof. intro H. unfold z64_step. now rewrite H. Qed.

Lemma z64_step_take0 ex g p v : (f_usize g =? ZIP64_BYTES_THR) = true -> ex_u ex p 8 = Ok v ->
  z64_step ex (g, p, None) 0 = (set_sizes g v (f_csize g) (f_header_start g) true, p + 8, None).
Proof. intros H E. unfold z64_step. change (0 =? 0) with true. cbv iota. rewrite H, E. reflexivity. Qed.
Lemma z64_step_take1 ex g p v : (f_csize g =? ZIP64_BYTES_THR) = true -> ex_u ex p 8 = Ok v ->
  z64_step ex (g, p, None) 1 = (set_sizes g (f_usize g) v (f_header_start g) true, p + 8, None).
Proof. intros H E. unfold z64_step. change (1 =? 0) with false. change (1 =? 1) with true. cbv iota. rewrite H, E. reflexivity. Qed.
Lemma z64_step_take2 ex g p v : (f_header_start g =? ZIP64_BYTES_THR) = true -> ex_u ex p 8 = Ok v ->
  z64_step ex (g, p, None) 2 = (set_sizes g (f_usize g) (f_csize g) v (f_large g), p + 8, None).
Proof.
  intros H E. unfold z64_step. change (2 =? 0) with false. change (2 =? 1) with false. change (2 =? 2) with true.
  cbv iota. rewrite H, E. reflexivity.
Qed.

Lemma min_thr_true v : (ZIP64_BYTES_THR <=? v) = true -> (N.min v ZIP64_BYTES_THR =? ZIP64_BYTES_THR) = true.
Proof. intro H. apply N.leb_le in H. apply N.eqb_eq. lia. Qed.
Lemma min_thr_false v : (ZIP64_BYTES_THR <=? v) = false -> (N.min v ZIP64_BYTES_THR =? ZIP64_BYTES_THR) = false /\ N.min v ZIP64_BYTES_THR = v.
Proof. intro H. apply N.leb_gt in H. split; [apply N.eqb_neq|]; lia. Qed.

Definition z64_body (us cs hs : N) : bytes :=
  (if ZIP64_BYTES_THR <=? us then le 8 us else []) ++ (if ZIP64_BYTES_THR <=? cs then le 8 cs else []) ++
  (if ZIP64_BYTES_THR <=? hs then le 8 hs else []).

Lemma ex_u8_here pre v rest : v < 2 ^ 64 -> ex_u (pre ++ le 8 v ++ rest) (len pre) 8 = Ok v.
Proof.
  intro H. unfold ex_u. rewrite <- (N.add_0_r (len pre)), rd_skip. rewrite rd_head_le. cbn [bind].
  now rewrite unle_le8.
Qed.

Lemma ex_u8_mid hd A v B : len hd = 4 -> v < 2 ^ 64 -> ex_u (hd ++ A ++ le 8 v ++ B) (4 + len A) 8 = Ok v.
Proof.
  intros Hhd Hv. rewrite app_assoc. replace (4 + len A) with (len (hd ++ A)) by (rewrite len_app, Hhd; reflexivity).
  apply ex_u8_here. exact Hv.
Qed.

Lemma set_sizes_id g : set_sizes g (f_usize g) (f_csize g) (f_header_start g) (f_large g) = g.
Proof. destruct g; reflexivity. Qed.

Lemma z64_fields_block hd tail g us cs hs : len hd = 4 ->
  f_usize g = N.min us ZIP64_BYTES_THR -> f_csize g = N.min cs ZIP64_BYTES_THR -> f_header_start g = N.min hs ZIP64_BYTES_THR ->
  us < 2 ^ 64 -> cs < 2 ^ 64 -> hs < 2 ^ 64 ->
  z64_fields (hd ++ z64_body us cs hs ++ tail) g 4 =
    (set_sizes g us cs hs (f_large g || (ZIP64_BYTES_THR <=? us) || (ZIP64_BYTES_THR <=? cs)), 4 + len (z64_body us cs hs), None).
Proof.
  intros Hhd Hu Hc Hh Bu Bc Bh. unfold z64_fields, z64_body.
  set (bu := ZIP64_BYTES_THR <=? us). set (bc := ZIP64_BYTES_THR <=? cs). set (bh := ZIP64_BYTES_THR <=? hs).
  set (U := if bu then le 8 us else []). set (C := if bc then le 8 cs else []). set (H := if bh then le 8 hs else []).
  set (ex := hd ++ (U ++ C ++ H) ++ tail).
  (* step 0 *)
  set (g1 := if bu then set_sizes g us (f_csize g) (f_header_start g) true else g).
  assert (S0 : z64_step ex (g, 4, None) 0 = (g1, 4 + len U, None)).
  { subst g1 U. destruct bu eqn:Eu; subst bu.
    - rewrite (z64_step_take0 ex g 4 us).
      + rewrite len_le. reflexivity.
      + rewrite Hu. now apply min_thr_true.
      + subst ex. rewrite <- !app_assoc. rewrite <- (N.add_0_r 4). apply (ex_u8_mid hd [] us). exact Hhd. exact Bu.
    - rewrite z64_step_keep; [rewrite N.add_0_r; reflexivity|]. change (0 =? 0) with true. cbv iota. rewrite Hu. apply min_thr_false; exact Eu. }
  rewrite S0.
  assert (Hc1 : f_csize g1 = N.min cs ZIP64_BYTES_THR) by (subst g1; destruct bu; exact Hc).
  assert (Hh1 : f_header_start g1 = N.min hs ZIP64_BYTES_THR) by (subst g1; destruct bu; exact Hh).
  (* step 1 *)
  set (g2 := if bc then set_sizes g1 (f_usize g1) cs (f_header_start g1) true else g1).
  assert (S1 : z64_step ex (g1, 4 + len U, None) 1 = (g2, 4 + len U + len C, None)).
  { subst g2 C. destruct bc eqn:Ec; subst bc.
    - rewrite (z64_step_take1 ex g1 (4 + len U) cs).
      + rewrite len_le. reflexivity.
      + rewrite Hc1. now apply min_thr_true.
      + subst ex. rewrite <- !app_assoc. apply (ex_u8_mid hd U cs). exact Hhd. exact Bc.
    - rewrite z64_step_keep; [rewrite N.add_0_r; reflexivity|]. change (1 =? 0) with false. change (1 =? 1) with true. cbv iota.
      rewrite Hc1. apply min_thr_false; exact Ec. }
  rewrite S1.
  assert (Hh2 : f_header_start g2 = N.min hs ZIP64_BYTES_THR) by (subst g2; destruct bc; exact Hh1).
  (* step 2 *)
  set (g3 := if bh then set_sizes g2 (f_usize g2) (f_csize g2) hs (f_large g2) else g2).
  assert (S2 : z64_step ex (g2, 4 + len U + len C, None) 2 = (g3, 4 + len U + len C + len H, None)).
  { subst g3 H. destruct bh eqn:Eh; subst bh.
    - rewrite (z64_step_take2 ex g2 (4 + len U + len C) hs).
      + rewrite len_le. reflexivity.
      + rewrite Hh2. now apply min_thr_true.
      + subst ex. rewrite <- N.add_assoc, <- len_app.
        replace (hd ++ (U ++ C ++ le 8 hs) ++ tail) with (hd ++ (U ++ C) ++ le 8 hs ++ tail) by (rewrite <- !app_assoc; reflexivity).
        apply (ex_u8_mid hd (U ++ C) hs). exact Hhd. exact Bh.
    - rewrite z64_step_keep; [rewrite N.add_0_r; reflexivity|]. change (2 =? 0) with false. change (2 =? 1) with false. cbv iota.
      rewrite Hh2. apply min_thr_false; exact Eh. }
  rewrite S2.
  assert (Eg : g3 = set_sizes g us cs hs (f_large g || bu || bc)).
  { subst g3 g2 g1. clear S0 S1 S2 Hc1 Hh1 Hh2. subst ex U C H.
    destruct g as [sys mb encd dd u8 m t crc0 cs0 us0 nm nmr exx cm hs0 cst ea lg aes].
    cbn [f_usize f_csize f_header_start] in Hu, Hc, Hh. subst us0 cs0 hs0.
    destruct bu eqn:Eu, bc eqn:Ec, bh eqn:Eh; subst bu bc bh;
      try (apply min_thr_false in Eu as [_ Eu]); try (apply min_thr_false in Ec as [_ Ec]); try (apply min_thr_false in Eh as [_ Eh]);
      cbn [set_sizes f_system f_made_by f_encrypted f_dd f_utf8 f_method f_time f_crc f_usize f_csize f_name f_name_raw f_extra f_comment
               f_header_start f_central_start f_ext_attr f_large f_aes];
      rewrite ?Eu, ?Ec, ?Eh, ?Bool.orb_true_r, ?Bool.orb_false_r; reflexivity. }
  assert (Ep : 4 + len U + len C + len H = 4 + len (U ++ C ++ H)) by (rewrite !len_app; lia).
  rewrite Eg, Ep. reflexivity.
Qed.

(* ---------- the record *)
Lemma made_by_sweep : sweep2 (fun s m => (cast 8 (N.shiftr (N.lor (N.shiftl s 8) m) 8) =? s) && (cast 8 (N.lor (N.shiftl s 8) m) =? m)
                                          && (N.lor (N.shiftl s 8) m <? 65536)) 256 256 = true.
Proof. vm_compute. reflexivity. Qed.

Lemma made_by_fields s m : s < 256 -> m < 256 ->
  cast 8 (N.shiftr (N.lor (N.shiftl s 8) m) 8) = s /\ cast 8 (N.lor (N.shiftl s 8) m) = m /\ N.lor (N.shiftl s 8) m < 65536.
Proof.
  intros Hs Hm. pose proof (sweep2_ok _ _ _ made_by_sweep s m Hs Hm) as H. cbv beta in H.
  apply Bool.andb_true_iff in H. destruct H as [H H3]. apply Bool.andb_true_iff in H. destruct H as [H1 H2].
  apply N.eqb_eq in H1. apply N.eqb_eq in H2. apply N.ltb_lt in H3. auto.
Qed.

Definition method_ok (m : CompressionMethod) : Prop :=
  CompressionMethod_from_u16 (CompressionMethod_to_u16 m) = m /\ CompressionMethod_to_u16 m < 65536 /\ m <> CompressionMethod_Aes.

Lemma version_needed_small f : version_needed f < 65536.
Proof.
  unfold version_needed, ZipFileData_version_needed. cbv zeta.
  destruct (true && CompressionMethod_eqb _ CompressionMethod_Bzip2); [lia|]. destruct (_ && true); lia.
Qed.

Lemma flag_bits f : flag_of f < 65536 /\ N.testbit (flag_of f) 0 = w_encrypted f /\ N.testbit (flag_of f) 3 = false /\
  N.testbit (flag_of f) 11 = negb (is_ascii (w_name f)).
Proof. unfold flag_of. destruct (is_ascii (w_name f)), (w_encrypted f); cbn; repeat split; lia. Qed.

(* what the reader must come back with *)
Definition decoded (f : wfile) (dt : DateTime) (ao pos : N) : zfd :=
  let u8 := negb (is_ascii (w_name f)) in
  {| f_system := System_from_u8 (w_system f); f_made_by := w_made_by f; f_encrypted := w_encrypted f; f_dd := false; f_utf8 := u8;
     f_method := w_method f; f_time := dt; f_crc := w_crc f; f_csize := w_csize f; f_usize := w_usize f;
     f_name := decode_text u8 (w_name f); f_name_raw := w_name f; f_extra := central_z64 f ++ w_extra f;
     f_comment := decode_text u8 []; f_header_start := w_header_start f + ao; f_central_start := pos;
     f_ext_attr := w_ext_attr f;
     f_large := (ZIP64_BYTES_THR <=? w_usize f) || (ZIP64_BYTES_THR <=? w_csize f); f_aes := None |}.

Record wf_central (f : wfile) (ao : N) : Prop := {
  wc_sys : w_system f < 256; wc_mb : w_made_by f < 256; wc_method : method_ok (w_method f);
  wc_tp : DateTime_timepart (w_time f) < 65536;
  wc_dp : forall d, DateTime_datepart (w_time f) = Some d -> d < 65536;
  wc_crc : w_crc f < 2 ^ 32; wc_attr : w_ext_attr f < 2 ^ 32;
  wc_us : w_usize f < 2 ^ 64; wc_cs : w_csize f < 2 ^ 64; wc_hs : w_header_start f + ao < 2 ^ 64;
  wc_name : len (w_name f) <= 65535;
  wc_extra : exists fv, validate_records fv (w_extra f) = Ok tt }.

Lemma from_msdos_sweep : forallb (fun d => fits 16 (N.shiftr (N.land d 65024) 9 + 1980)) (N_range 65536) = true.
Proof. vm_compute. reflexivity. Qed.

Lemma from_msdos_total d t : d < 65536 -> exists dt, DateTime_from_msdos d t = Some dt.
Proof.
  intro Hd. unfold DateTime_from_msdos. cbv zeta. unfold obind, add_chk.
  rewrite (sweep _ _ from_msdos_sweep d Hd). eexists; reflexivity.
Qed.

Ltac head ::= first [rewrite rd_head_le | rewrite rd_head | rewrite rd_head_only].

Section Central.
  Variables (f : wfile) (ao : N) (pre post : bytes) (d : N).
  Hypothesis W : wf_central f ao.
  Hypothesis Hd : DateTime_datepart (w_time f) = Some d.
  Hypothesis Hel : len (central_z64 f) + len (w_extra f) <= 65535.

  Let data := pre ++ central_fixed f d ++ w_name f ++ (central_z64 f ++ w_extra f) ++ post.

  Ltac fx := unfold data, central_fixed, u16_at, u32_at; rewrite <- ?app_assoc; rd_step.

  Lemma R_sig : u32_at data (len pre) = Ok CENTRAL_DIRECTORY_HEADER_SIGNATURE.
  Proof.
    unfold data, central_fixed, u32_at. rewrite <- ?app_assoc. rewrite <- (N.add_0_r (len pre)). rd_step.
    rewrite unle_le4 by (unfold CENTRAL_DIRECTORY_HEADER_SIGNATURE; lia). reflexivity.
  Qed.
  Lemma R_made : u16_at data (len pre + 4) = Ok (N.lor (N.shiftl (w_system f) 8) (w_made_by f)).
  Proof. fx. rewrite unle_le2; [reflexivity|]. apply made_by_fields; apply W. Qed.
  Lemma R_need : u16_at data (len pre + 6) = Ok (version_needed f).
  Proof. fx. rewrite unle_le2; [reflexivity|apply version_needed_small]. Qed.
  Lemma R_flags : u16_at data (len pre + 8) = Ok (flag_of f).
  Proof. fx. rewrite unle_le2; [reflexivity|apply flag_bits]. Qed.
  Lemma R_method : u16_at data (len pre + 10) = Ok (CompressionMethod_to_u16 (w_method f)).
  Proof. fx. rewrite unle_le2; [reflexivity|apply (wc_method _ _ W)]. Qed.
  Lemma R_time : u16_at data (len pre + 12) = Ok (DateTime_timepart (w_time f)).
  Proof. fx. rewrite unle_le2; [reflexivity|apply W]. Qed.
  Lemma R_date : u16_at data (len pre + 14) = Ok d.
  Proof. fx. rewrite unle_le2; [reflexivity|apply (wc_dp _ _ W); exact Hd]. Qed.
  Lemma R_crc : u32_at data (len pre + 16) = Ok (w_crc f).
  Proof. fx. rewrite unle_le4; [reflexivity|apply W]. Qed.
  Lemma R_cs : u32_at data (len pre + 20) = Ok (N.min (w_csize f) ZIP64_BYTES_THR).
  Proof. fx. rewrite unle_le4; [reflexivity|unfold ZIP64_BYTES_THR; lia]. Qed.
  Lemma R_us : u32_at data (len pre + 24) = Ok (N.min (w_usize f) ZIP64_BYTES_THR).
  Proof. fx. rewrite unle_le4; [reflexivity|unfold ZIP64_BYTES_THR; lia]. Qed.
  Lemma R_nl : u16_at data (len pre + 28) = Ok (len (w_name f)).
  Proof. fx. pose proof (wc_name _ _ W). rewrite N.mod_small by lia. rewrite unle_le2; [reflexivity|lia]. Qed.
  Lemma R_el : u16_at data (len pre + 30) = Ok (len (central_z64 f) + len (w_extra f)).
  Proof. fx. rewrite unle_le2; [reflexivity|lia]. Qed.
  Lemma R_cl : u16_at data (len pre + 32) = Ok 0.
  Proof. fx. reflexivity. Qed.
  Lemma R_34 : u16_at data (len pre + 34) = Ok 0.
  Proof. fx. reflexivity. Qed.
  Lemma R_36 : u16_at data (len pre + 36) = Ok 0.
  Proof. fx. reflexivity. Qed.
  Lemma R_attr : u32_at data (len pre + 38) = Ok (w_ext_attr f).
  Proof. fx. rewrite unle_le4; [reflexivity|apply W]. Qed.
  Lemma R_off : u32_at data (len pre + 42) = Ok (N.min (w_header_start f) ZIP64_BYTES_THR).
  Proof. fx. rewrite unle_le4; [reflexivity|unfold ZIP64_BYTES_THR; lia]. Qed.
  Lemma R_name : rd_at data (len pre + 46) (len (w_name f)) = Ok (w_name f).
  Proof. unfold data. rewrite <- (len_central_fixed f d). apply rd_after. Qed.
  Lemma R_extra : rd_at data (len pre + 46 + len (w_name f)) (len (central_z64 f) + len (w_extra f)) = Ok (central_z64 f ++ w_extra f).
  Proof.
    unfold data. rewrite <- (len_central_fixed f d).
    replace (len (central_z64 f) + len (w_extra f)) with (len (central_z64 f ++ w_extra f)) by apply len_app.
    apply rd_after2.
  Qed.
  Lemma R_comment : rd_at data (len pre + 46 + len (w_name f) + (len (central_z64 f) + len (w_extra f))) 0 = Ok [].
  Proof. apply rd_empty. unfold data. rewrite !len_app, len_central_fixed. lia. Qed.
End Central.

Lemma central_z64_shape f :
  central_z64 f = match z64_body (w_usize f) (w_csize f) (w_header_start f) with
                  | [] => []
                  | b => le 2 1 ++ le 2 (len b) ++ b
                  end.
Proof.
  unfold central_z64, z64_body, le16, le64. cbv zeta.
  match goal with |- match ?b with _ => _ end = _ => destruct b; reflexivity end.
Qed.

Lemma len_z64_body us cs hs : len (z64_body us cs hs) <= 24.
Proof.
  unfold z64_body. rewrite !len_app.
  destruct (ZIP64_BYTES_THR <=? us), (ZIP64_BYTES_THR <=? cs), (ZIP64_BYTES_THR <=? hs); rewrite ?len_le; cbn; lia.
Qed.

Lemma z64_body_nil us cs hs : z64_body us cs hs = [] ->
  (ZIP64_BYTES_THR <=? us) = false /\ (ZIP64_BYTES_THR <=? cs) = false /\ (ZIP64_BYTES_THR <=? hs) = false.
Proof.
  unfold z64_body. destruct (ZIP64_BYTES_THR <=? us), (ZIP64_BYTES_THR <=? cs), (ZIP64_BYTES_THR <=? hs); cbn; intro H; try discriminate; auto.
Qed.

(* parse_extra_field on the record as the reader first builds it *)
Lemma parse_extra_rendered g (f : wfile) fv :
  f_extra g = central_z64 f ++ w_extra f ->
  f_usize g = N.min (w_usize f) ZIP64_BYTES_THR -> f_csize g = N.min (w_csize f) ZIP64_BYTES_THR ->
  f_header_start g = N.min (w_header_start f) ZIP64_BYTES_THR -> f_large g = false ->
  w_usize f < 2 ^ 64 -> w_csize f < 2 ^ 64 -> w_header_start f < 2 ^ 64 ->
  validate_records fv (w_extra f) = Ok tt ->
  parse_extra_field g =
    (set_sizes g (w_usize f) (w_csize f) (w_header_start f) ((ZIP64_BYTES_THR <=? w_usize f) || (ZIP64_BYTES_THR <=? w_csize f)), Ok tt).
Proof.
  intros Hex Hu Hc Hh Hl Bu Bc Bh Hv. unfold parse_extra_field.
  rewrite central_z64_shape in Hex.
  destruct (z64_body (w_usize f) (w_csize f) (w_header_start f)) as [|b0 br] eqn:Eb.
  - (* no ZIP64 block *)
    destruct (z64_body_nil _ _ _ Eb) as (Eu & Ec & Eh).
    cbn [app] in Hex.
    rewrite (parse_extra_skip_valid fv _ g [] (w_extra f)); [|exact Hex|exact Hv|rewrite Hex; unfold len; lia].
    f_equal. rewrite Eu, Ec. cbn [orb]. rewrite <- Hl.
    apply min_thr_false in Eu as [_ Eu]. apply min_thr_false in Ec as [_ Ec]. apply min_thr_false in Eh as [_ Eh].
    rewrite <- Eu, <- Ec, <- Eh, <- Hu, <- Hc, <- Hh. symmetry. apply set_sizes_id.
  - (* the block first *)
    rewrite <- Eb in *. set (body := z64_body (w_usize f) (w_csize f) (w_header_start f)) in *. cbv zeta in Hex.
    assert (Hbl : len body <= 24) by apply len_z64_body.
    assert (Hbn : 0 < len body) by (subst body; rewrite Eb; unfold len; cbn [length]; lia).
    set (fuel := N.to_nat (len (f_extra g))).
    cbn [parse_extra]. rewrite Hex at 1.
    assert ((len ((le 2 1 ++ le 2 (len body) ++ body) ++ w_extra f) <=? 0) = false) as ->
      by (apply N.leb_gt; rewrite !len_app, !len_le; cbn; lia).
    rewrite Hex.
    assert (E1 : ex_u ((le 2 1 ++ le 2 (len body) ++ body) ++ w_extra f) 0 2 = Ok 1).
    { unfold ex_u. rewrite <- !app_assoc. rewrite rd_head_le. cbn [bind]. rewrite unle_le2 by lia. reflexivity. }
    assert (E2 : ex_u ((le 2 1 ++ le 2 (len body) ++ body) ++ w_extra f) (0 + 2) 2 = Ok (len body)).
    { unfold ex_u. rewrite <- !app_assoc. change (0 + 2) with (N.of_nat 2 + 0). rewrite rd_skip_le. rewrite rd_head_le. cbn [bind].
      rewrite unle_le2 by lia. reflexivity. }
    rewrite E1, E2. change (1 =? 1) with true. cbv iota.
    change (0 + 4) with 4.
    replace ((le 2 1 ++ le 2 (len body) ++ body) ++ w_extra f) with ((le 2 1 ++ le 2 (len body)) ++ body ++ w_extra f)
      by (rewrite <- !app_assoc; reflexivity).
    subst body. rewrite (z64_fields_block (le 2 1 ++ le 2 (len (z64_body (w_usize f) (w_csize f) (w_header_start f)))) (w_extra f) g
                          (w_usize f) (w_csize f) (w_header_start f)); auto; try (rewrite len_app, !len_le; reflexivity).
    set (body := z64_body (w_usize f) (w_csize f) (w_header_start f)) in *.
    replace (4 + len body - 4) with (len body) by lia.
    rewrite N.ltb_irrefl.
    set (g' := set_sizes g (w_usize f) (w_csize f) (w_header_start f) (f_large g || (ZIP64_BYTES_THR <=? w_usize f) || (ZIP64_BYTES_THR <=? w_csize f))).
    replace (4 + len body) with (len ((le 2 1 ++ le 2 (len body)) ++ body)) by (rewrite !len_app, !len_le; cbn; lia).
    rewrite (parse_extra_skip_valid fv _ g' ((le 2 1 ++ le 2 (len body)) ++ body) (w_extra f)).
    + subst g'. rewrite Hl. reflexivity.
    + subst g'. cbn [set_sizes f_extra]. rewrite Hex. rewrite <- !app_assoc. reflexivity.
    + exact Hv.
    + subst fuel. rewrite Hex. unfold len. rewrite Nat2N.id, !app_length. lia.
Qed.

Theorem central_roundtrip f ao cs pre post : wf_central f ao -> central_header_chunks f = Ok cs ->
  exists d dt, DateTime_datepart (w_time f) = Some d /\ DateTime_from_msdos d (DateTime_timepart (w_time f)) = Some dt /\
    parse_central (pre ++ concat cs ++ post) (len pre) ao = Ok (decoded f dt ao (len pre), len pre + len (concat cs)).
Proof.
  intros W Hcs. destruct (central_chunks_flat f cs Hcs) as (d & Hd & Hel & Hflat).
  destruct (from_msdos_total d (DateTime_timepart (w_time f)) (wc_dp _ _ W d Hd)) as [dt Hdt].
  exists d, dt. split; [exact Hd|]. split; [exact Hdt|].
  rewrite Hflat.
  replace (pre ++ (central_fixed f d ++ w_name f ++ central_z64 f ++ w_extra f) ++ post)
    with (pre ++ central_fixed f d ++ w_name f ++ (central_z64 f ++ w_extra f) ++ post) by (rewrite <- !app_assoc; reflexivity).
  unfold parse_central.
  erewrite R_sig by eassumption. cbn [bind]. rewrite N.eqb_refl. cbn [negb].
  erewrite R_made by eassumption. cbn [bind].
  erewrite R_need. cbn [bind].
  erewrite R_flags. cbn [bind].
  erewrite R_method by eassumption. cbn [bind].
  erewrite R_time by eassumption. cbn [bind].
  erewrite R_date by eassumption. cbn [bind].
  erewrite R_crc by eassumption. cbn [bind].
  erewrite R_cs by eassumption. cbn [bind].
  erewrite R_us by eassumption. cbn [bind].
  erewrite R_nl by eassumption. cbn [bind].
  erewrite R_el by eassumption. cbn [bind].
  erewrite R_cl. cbn [bind].
  erewrite R_34. cbn [bind].
  erewrite R_36. cbn [bind].
  erewrite R_attr by eassumption. cbn [bind].
  erewrite R_off by eassumption. cbn [bind].
  erewrite R_name. cbn [bind].
  erewrite R_extra. cbn [bind].
  erewrite R_comment by eassumption. cbn [bind].
  rewrite Hdt. cbn [of_opt bind].
  destruct (flag_bits f) as (_ & Fb0 & Fb3 & Fb11). rewrite Fb0, Fb3, Fb11.
  destruct (made_by_fields _ _ (wc_sys _ _ W) (wc_mb _ _ W)) as (M1 & M2 & _). rewrite M1, M2.
  destruct (wc_method _ _ W) as (Wm1 & Wm2 & Wm3). rewrite Wm1.
  destruct (wc_extra _ _ W) as [fv Wv].
  pose proof (wc_hs _ _ W) as Whs.
  match goal with |- context [parse_extra_field ?g0] =>
    rewrite (parse_extra_rendered g0 f fv) by (cbn [f_extra f_usize f_csize f_header_start f_large]; auto; try apply W; lia) end.
  cbn [bind set_sizes f_method f_aes f_header_start f_usize f_csize f_large].
  assert ((CompressionMethod_eqb (w_method f) CompressionMethod_Aes && opt_is_none (@None (AesMode * N))) = false) as ->.
  { destruct (w_method f); try reflexivity. congruence. }
  unfold fits. assert ((w_header_start f + ao <? 2 ^ 64) = true) as -> by (apply N.ltb_lt; exact Whs).
  unfold decoded. cbn [set_sizes f_system f_made_by f_encrypted f_dd f_utf8 f_method f_time f_crc f_usize f_csize f_name f_name_raw f_extra f_comment
                          f_header_start f_central_start f_ext_attr f_large f_aes].
  do 2 f_equal. rewrite !len_app, len_central_fixed. lia.
Qed.
