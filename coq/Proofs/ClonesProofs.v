(* Proofs/ClonesProofs.v — C20: handles do not interfere. *)
From Coq Require Import ZArith.
From ZipV Require Import Base.Bytes Base.Outcome Gen.GenLib Gen.CompressionGen Model.Readers Model.Reader Model.Clones.
Open Scope N_scope.

Section P.
  Variable kdf : bytes -> bytes -> N -> bytes.
  Variable blk : bytes -> bytes -> bytes.
  Variable mac : bytes -> bytes -> bytes.
  Variable crc : bytes -> N.
  Variable ar : archive.

  Lemma cache_get_nil i : cache_get [] i = None.
  Proof. destruct i; reflexivity. Qed.

  Lemma cache_get_set c : forall i j v, cache_get (cache_set c i v) j = if Nat.eqb i j then Some v else cache_get c j.
  Proof.
    induction c as [|x r IH]; intros i j v.
    - revert j. induction i as [|i IHi]; intro j; destruct j; cbn [cache_set cache_get Nat.eqb]; try reflexivity.
      + rewrite IHi. destruct (Nat.eqb i j); [reflexivity|]. now rewrite cache_get_nil.
    - destruct i, j; cbn [cache_set cache_get Nat.eqb]; try reflexivity. apply IH.
  Qed.

  (* the accessor right after a store returns the stored value, whatever the cache held *)
  Lemma accessor_after_store c i v : data_start_accessor (cache_set c i v) i = v.
  Proof. unfold data_start_accessor. now rewrite cache_get_set, Nat.eqb_refl. Qed.

  (* every value in the cache is the data start of its entry: concurrent stores can only write the same value *)
  Definition coherent (c : cache) : Prop :=
    forall i v f, cache_get c i = Some v -> nth_error (ar_files ar) i = Some f ->
      exists s, find_content (ar_data ar) f = Ok (v, s).

  Lemma coherent_nil : coherent [].
  Proof. intros i v f H. rewrite cache_get_nil in H. discriminate. Qed.

  Lemma cstep_coherent c h op : coherent c -> coherent (fst (fst (cstep kdf blk mac crc ar c h op))).
  Proof.
    intro Hc. destruct op as [i pw|n|]; cbn [cstep].
    - destruct (nth_error (ar_files ar) (N.to_nat i)) as [f|] eqn:Ef; [|exact Hc].
      destruct (opt_is_none pw && f_encrypted f); [exact Hc|].
      destruct (find_content (ar_data ar) f) as [[ds s]| |] eqn:Efc; try exact Hc.
      assert (Hc' : coherent (cache_set c (N.to_nat i) ds)).
      { intros j v g Hg Hn. rewrite cache_get_set in Hg. destruct (Nat.eqb (N.to_nat i) j) eqn:Ej.
        - apply Nat.eqb_eq in Ej. subst j. injection Hg as <-. rewrite Ef in Hn. injection Hn as <-.
          exists s. exact Efc.
        - exact (Hc j v g Hg Hn). }
      destruct (make_crypto_reader kdf f s (if f_encrypted f then pw else None)) as [[cr|]| |]; try exact Hc'.
      destruct (CompressionMethod_eqb (f_method f) CompressionMethod_Stored); exact Hc'.
    - destruct h as [|st|]; try exact Hc. destruct (zipfile_read blk mac crc st n) as [[b st']| |]; exact Hc.
    - exact Hc.
  Qed.

  (* the effect of a call on its handle and its observation do not depend on what the cache holds *)
  Lemma cstep_cache_independent c1 c2 h op :
    snd (fst (cstep kdf blk mac crc ar c1 h op)) = snd (fst (cstep kdf blk mac crc ar c2 h op)) /\
    snd (cstep kdf blk mac crc ar c1 h op) = snd (cstep kdf blk mac crc ar c2 h op).
  Proof.
    destruct op as [i pw|n|]; cbn [cstep].
    - destruct (nth_error (ar_files ar) (N.to_nat i)) as [f|] eqn:Ef; [|split; reflexivity].
      destruct (opt_is_none pw && f_encrypted f); [split; reflexivity|].
      destruct (find_content (ar_data ar) f) as [[ds s]| |]; try (split; reflexivity).
      destruct (make_crypto_reader kdf f s (if f_encrypted f then pw else None)) as [[cr|]| |]; try (split; reflexivity).
      destruct (CompressionMethod_eqb (f_method f) CompressionMethod_Stored); cbn [fst snd]; rewrite !accessor_after_store; split; reflexivity.
    - destruct h as [|st|]; try (split; reflexivity). destruct (zipfile_read blk mac crc st n) as [[b st']| |]; split; reflexivity.
    - split; reflexivity.
  Qed.

  Lemma hget_hset hs : forall k j v, hget (hset hs k v) j = if Nat.eqb k j then v else hget hs j.
  Proof.
    induction hs as [|x r IH]; intros k j v.
    - revert j. induction k as [|k IHk]; intro j; destruct j; cbn [hset hget Nat.eqb]; try reflexivity.
      rewrite IHk. destruct (Nat.eqb k j); [reflexivity|]. destruct j; reflexivity.
    - destruct k, j; cbn [hset hget Nat.eqb]; try reflexivity. apply IH.
  Qed.

  (* the calls of handle k, in order *)
  Definition ops_of (k : nat) (sched : list (nat * cop)) : list cop :=
    map snd (filter (fun x => Nat.eqb (fst x) k) sched).
  Definition obs_of (k : nat) (tr : list (nat * cobs)) : list cobs :=
    map snd (filter (fun x => Nat.eqb (fst x) k) tr).

  (* MAIN: in any interleaving, handle k observes exactly what it observes when used alone *)
  Theorem interleaving_independent : forall sched c c0 hs k,
    obs_of k (run_sched kdf blk mac crc ar c hs sched) = run_alone kdf blk mac crc ar c0 (hget hs k) (ops_of k sched).
  Proof.
    induction sched as [|[j op] rest IH]; intros c c0 hs k; [reflexivity|].
    cbn [run_sched]. destruct (cstep kdf blk mac crc ar c (hget hs j) op) as [[c' h'] o] eqn:Es.
    unfold obs_of, ops_of. cbn [filter fst]. destruct (Nat.eqb j k) eqn:Ejk.
    - apply Nat.eqb_eq in Ejk. subst j. cbn [map snd run_alone].
      destruct (cstep kdf blk mac crc ar c0 (hget hs k) op) as [[c0' h0'] o0] eqn:Es0.
      destruct (cstep_cache_independent c c0 (hget hs k) op) as [Hh Ho]. rewrite Es, Es0 in Hh, Ho. cbn in Hh, Ho. subst h0' o0.
      f_equal. fold (obs_of k (run_sched kdf blk mac crc ar c' (hset hs k h') rest)). fold (ops_of k rest).
      rewrite (IH c' c0' (hset hs k h') k). rewrite hget_hset, Nat.eqb_refl. reflexivity.
    - fold (obs_of k (run_sched kdf blk mac crc ar c' (hset hs j h') rest)). fold (ops_of k rest).
      rewrite (IH c' c0 (hset hs j h') k). rewrite hget_hset, Ejk. reflexivity.
  Qed.
End P.
