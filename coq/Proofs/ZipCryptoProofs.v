(* Proofs/ZipCryptoProofs.v — C15: the generated cipher (Gen/ZipCryptoGen.v, from src/zipcrypto.rs)
   round-trips for any key schedule, and is the PKWARE cipher of Spec/ZipCryptoSpec.v. *)
From ZipV Require Import Base.Bytes Base.Outcome Base.Sweep Base.Bits Gen.GenLib Gen.ZipCryptoGen
     Spec.Crc32Spec Spec.ZipCryptoSpec Model.Readers.
Open Scope N_scope.

Lemma stream_byte_lt k : ZipCryptoKeys_stream_byte k < 256.
Proof. unfold ZipCryptoKeys_stream_byte, cast. cbv zeta. apply N.mod_lt. discriminate. Qed.

(* decrypt_byte inverts encrypt_byte and both advance the keys identically — whatever
   [update] and [stream_byte] compute, so this survives any rewrite of the key schedule *)
Lemma decrypt_encrypt_byte k p :
  ZipCryptoKeys_decrypt_byte k (snd (ZipCryptoKeys_encrypt_byte k p)) = (fst (ZipCryptoKeys_encrypt_byte k p), p).
Proof.
  unfold ZipCryptoKeys_encrypt_byte, ZipCryptoKeys_decrypt_byte. cbv zeta. cbn [fst snd].
  rewrite <- N.lxor_assoc, N.lxor_nilpotent, N.lxor_0_l. reflexivity.
Qed.

Lemma encrypt_byte_lt k p : p < 256 -> snd (ZipCryptoKeys_encrypt_byte k p) < 256.
Proof.
  intro H. unfold ZipCryptoKeys_encrypt_byte. cbv zeta. cbn [snd].
  apply lxor_byte; [apply stream_byte_lt|assumption].
Qed.

Theorem decrypt_encrypt : forall pt k,
  zc_decrypt k (snd (zc_encrypt k pt)) = (fst (zc_encrypt k pt), pt).
Proof.
  induction pt as [|p pt IH]; intro k; cbn [zc_encrypt]; [reflexivity|].
  pose proof (decrypt_encrypt_byte k (b2n p)) as Hb.
  pose proof (encrypt_byte_lt k (b2n p) (b2n_lt p)) as Hl.
  destruct (ZipCryptoKeys_encrypt_byte k (b2n p)) as [k1 c] eqn:Ee. cbn [fst snd] in Hb, Hl.
  specialize (IH k1). destruct (zc_encrypt k1 pt) as [k2 cs] eqn:Es. cbn [fst snd] in IH |- *.
  cbn [zc_decrypt]. rewrite b2n_n2b, N.mod_small by assumption. rewrite Hb, IH.
  now rewrite n2b_b2n.
Qed.

Lemma zc_encrypt_len : forall pt k, length (snd (zc_encrypt k pt)) = length pt.
Proof.
  induction pt as [|p pt IH]; intro k; cbn [zc_encrypt]; [reflexivity|].
  destruct (ZipCryptoKeys_encrypt_byte k (b2n p)) as [k1 c]. specialize (IH k1).
  destruct (zc_encrypt k1 pt) as [k2 cs]. cbn [snd length] in *. now rewrite IH.
Qed.

(* ---- the generated table and functions are the PKWARE ones *)
Lemma table_is_crc32 : CRCTABLE = crc_table_spec.
Proof. vm_compute. reflexivity. Qed.

Definition keys_of (k : ZipCryptoKeys) : keys :=
  {| k0 := ZipCryptoKeys_key_0 k; k1 := ZipCryptoKeys_key_1 k; k2 := ZipCryptoKeys_key_2 k |}.

Lemma init_is_pkware : keys_of ZipCryptoKeys_new = init_keys.
Proof. reflexivity. Qed.

(* stream byte: both sides depend on key2 only through its low 16 bits; complete 2^16 sweep *)
Definition mk2 (x : N) : ZipCryptoKeys := {| ZipCryptoKeys_key_0 := 0; ZipCryptoKeys_key_1 := 0; ZipCryptoKeys_key_2 := x |}.
Lemma sweep_stream : forallb (fun x => ZipCryptoKeys_stream_byte (mk2 x) =? decrypt_byte_mask (keys_of (mk2 x))) (N_range 65536) = true.
Proof. vm_compute. reflexivity. Qed.

Lemma stream_low k : ZipCryptoKeys_stream_byte k = ZipCryptoKeys_stream_byte (mk2 (ZipCryptoKeys_key_2 k mod 65536)).
Proof.
  unfold ZipCryptoKeys_stream_byte, cast, mk2. cbn [ZipCryptoKeys_key_2]. cbv zeta.
  change (2 ^ 16) with 65536. now rewrite N.mod_mod by discriminate.
Qed.
Lemma mask_low k : decrypt_byte_mask k = decrypt_byte_mask {| k0 := 0; k1 := 0; k2 := k2 k mod 65536 |}.
Proof. unfold decrypt_byte_mask. cbn [k2]. now rewrite N.mod_mod by discriminate. Qed.

Theorem stream_is_pkware k : ZipCryptoKeys_stream_byte k = decrypt_byte_mask (keys_of k).
Proof.
  rewrite stream_low, mask_low. cbn [keys_of k2].
  pose proof (sweep _ _ sweep_stream (ZipCryptoKeys_key_2 k mod 65536) ltac:(apply N.mod_lt; discriminate)) as H.
  apply N.eqb_eq in H. exact H.
Qed.

(* one CRC step of the key schedule: table lookup form = APPNOTE form, for byte inputs *)
Lemma land_255_byte c : c < 256 -> N.land c 255 = c.
Proof. intro H. change 255 with (N.ones 8). rewrite N.land_ones. now apply N.mod_small. Qed.

Lemma land_lxor_distr a b c : N.land (N.lxor a b) c = N.lxor (N.land a c) (N.land b c).
Proof.
  apply N.bits_inj. intro n. rewrite N.land_spec, !N.lxor_spec, !N.land_spec.
  destruct (N.testbit a n), (N.testbit b n), (N.testbit c n); reflexivity.
Qed.

Lemma crc32_is_pkware crc c : c < 256 -> ZipCryptoKeys_crc32 crc c = crc32_step crc c.
Proof.
  intro H. unfold ZipCryptoKeys_crc32, crc32_step, cast. rewrite table_is_crc32.
  rewrite N.lxor_comm. f_equal. f_equal. f_equal.
  change (2 ^ 8) with 256.
  rewrite land_lxor_distr, (land_255_byte c H).
  rewrite N.mod_small; [reflexivity|].
  change 255 with (N.ones 8). rewrite N.land_ones. apply N.mod_lt. discriminate.
Qed.

From Coq Require Import ZArith Lia ZifyN.
Section UpdateArith.
Ltac Zify.zify_post_hook ::= Z.div_mod_to_equations.
Theorem update_is_pkware k c : c < 256 ->
  keys_of (ZipCryptoKeys_update k c) = update_keys (keys_of k) c.
Proof.
  intro H. unfold ZipCryptoKeys_update, update_keys. cbv zeta.
  unfold set_ZipCryptoKeys_key_0, set_ZipCryptoKeys_key_1, set_ZipCryptoKeys_key_2, keys_of.
  cbn [ZipCryptoKeys_key_0 ZipCryptoKeys_key_1 ZipCryptoKeys_key_2 k0 k1 k2].
  rewrite crc32_is_pkware by assumption.
  set (key0 := crc32_step (ZipCryptoKeys_key_0 k) c).
  (* whatever order and nesting of wrapping operations the source spells the key_1 update in: it is this value
     (linear arithmetic modulo 2^32, decided by lia) *)
  match goal with |- {| k0 := _; k1 := ?T; k2 := _ |} = _ =>
    assert (E1 : T = ((ZipCryptoKeys_key_1 k + N.land key0 255) * 134775813 + 1) mod 2 ^ 32)
      by (unfold wrap; change (2 ^ 32) with 4294967296; generalize (N.land key0 255); intro lo; lia)
  end.
  rewrite E1. set (key1 := ((ZipCryptoKeys_key_1 k + N.land key0 255) * 134775813 + 1) mod 2 ^ 32).
  assert (Hk1 : N.shiftr key1 24 < 256).
  { rewrite N.shiftr_div_pow2. subst key1. apply N.div_lt_upper_bound; [discriminate|].
    change (2 ^ 24 * 256) with (2 ^ 32). apply N.mod_lt. discriminate. }
  unfold cast. change (2 ^ 8) with 256. rewrite (N.mod_small _ _ Hk1).
  rewrite crc32_is_pkware by assumption. reflexivity.
Qed.
End UpdateArith.

Example ex_roundtrip : snd (zc_decrypt (zc_derive [x70; x77]) (snd (zc_encrypt (zc_derive [x70; x77]) [x68; x69]))) = [x68; x69].
Proof. vm_compute. reflexivity. Qed.
