(* Proofs/FloorInv.v — C13: after new_append, no sequence of writer calls ever touches a byte in front of the old
   central directory, on every sink that may split writes arbitrarily but does not fail.
   The invariant has two parts: the device part (cursor at or behind the floor, bytes below the floor as they were,
   plan failure-free) and the guard that keeps the header patching of finish_file / end_extra_data away from old
   entries: either the last record is an entry started behind the floor, or the writer is closed, or the state is
   still "pristine" (raw flag set, records exactly the re-hydrated ones).  Under a failure-free plan every sink
   operation succeeds, which is what carries the pristine state through start_entry and finalize. *)
From Coq Require Import ZArith Lia List.
From ZipV Require Import Base.Bytes Base.Outcome Gen.GenLib Gen.SpecGen Gen.CompressionGen Gen.TypesGen Gen.WriteGen
     Model.Readers Model.Reader Model.Writer Model.WriterCalls Proofs.FaultProofs Proofs.WriterIdeal Proofs.WriterInv
     Proofs.ShortWrites Proofs.AppendProofs.
Import ListNotations.
Open Scope N_scope.

Section Floor.
  Variable ds : N.            (* the floor: where the old central directory starts *)
  Variable old : bytes.       (* the bytes below it *)
  Hypothesis Hold : len old = ds.

  Record dfloor (d : dev) : Prop := { df_pos : ds <= d_pos d; df_old : take ds (d_buf d) = old; df_nf : nofail (d_plan d) }.

  Lemma dfloor_len d : dfloor d -> ds <= len (d_buf d).
  Proof. intros [_ Ho _]. pose proof (len_take ds (d_buf d)) as L. rewrite Ho, Hold in L. lia. Qed.

  Lemma take_take n m (l : bytes) : n <= m -> take n (take m l) = take n l.
  Proof. intro H. rewrite !take_firstn, firstn_firstn. f_equal. lia. Qed.
  Lemma take_app_le n (a b : bytes) : n <= len a -> take n (a ++ b) = take n a.
  Proof.
    intro H. rewrite !take_firstn, firstn_app. unfold len in H.
    replace (N.to_nat n - length a)%nat with 0%nat by lia. cbn [firstn]. apply app_nil_r.
  Qed.

  Lemma take_put_at buf pos bs : ds <= pos -> take ds buf = old -> take ds (put_at buf pos bs) = old.
  Proof.
    intros Hp Ho. assert (Hl : ds <= len buf) by (pose proof (len_take ds buf) as L; rewrite Ho, Hold in L; lia).
    unfold put_at. rewrite take_app_le by (rewrite len_take; lia). rewrite take_take by exact Hp. exact Ho.
  Qed.

  (* ---------- every sink operation succeeds and keeps the floor *)
  Lemma dev_write_fl d bs : dfloor d -> exists d' k, dev_write d bs = (d', Ok k) /\ dfloor d' /\ k <= len bs.
  Proof.
    intros [Hp Ho Hn]. unfold dev_write. destruct (d_plan d) as [|[n|] p] eqn:E.
    - eexists. eexists. split; [reflexivity|]. split; [|lia]. constructor; cbn [d_pos d_buf d_plan]; [lia|now apply take_put_at|constructor].
    - eexists. eexists. split; [reflexivity|]. split; [|lia].
      constructor; cbn [d_pos d_buf d_plan]; [lia|now apply take_put_at|now apply nofail_tail in Hn].
    - exfalso. inversion Hn as [|? ? H1 _]. now apply H1.
  Qed.

  Lemma dev_write_all_fuel_fl : forall fuel bs d, dfloor d -> (length bs < fuel)%nat ->
    exists d', dev_write_all_fuel fuel d bs = (d', Ok tt) /\ dfloor d' /\ d_pos d <= d_pos d'.
  Proof.
    induction fuel as [|f IH]; intros bs d Hd Hf; [lia|].
    destruct bs as [|x bs'] eqn:Eb.
    - exists d. cbn [dev_write_all_fuel]. split; [reflexivity|]. split; [exact Hd|lia].
    - rewrite <- Eb in *. assert (Hne : bs <> []) by (rewrite Eb; discriminate).
      destruct (dev_write_nofail d bs (df_nf d Hd) Hne) as (k & p1 & Hw & Hk & Hp1).
      destruct (dev_write_fl d bs Hd) as (d1 & k' & Hw' & Hd1 & _). rewrite Hw in Hw'. injection Hw' as Hd1e <-.
      replace (dev_write_all_fuel (S f) d bs) with
        (match dev_write d bs with
         | (d1, Ok k) => if k =? 0 then (d1, Err (EIo KOther IWriteZero)) else dev_write_all_fuel f d1 (drop k bs)
         | (d1, Err e) => (d1, Err e) | (d1, Panic p) => (d1, Panic p) end) by (rewrite Eb; reflexivity).
      rewrite Hw. destruct (k =? 0) eqn:Ek; [apply N.eqb_eq in Ek; lia|]. rewrite Hd1e.
      destruct (IH (drop k bs) d1 Hd1) as (d' & Hr & Hd' & Hpos).
      + pose proof (len_drop k bs) as L. unfold len in *. lia.
      + exists d'. split; [exact Hr|]. split; [exact Hd'|]. rewrite <- Hd1e in Hpos. cbn [d_pos] in Hpos. lia.
  Qed.

  Lemma dev_write_all_fl d bs : dfloor d -> exists d', dev_write_all d bs = (d', Ok tt) /\ dfloor d' /\ d_pos d <= d_pos d'.
  Proof. intro H. apply dev_write_all_fuel_fl; [exact H|lia]. Qed.

  Lemma dev_write_chunks_fl : forall cs d, dfloor d -> exists d', dev_write_chunks d cs = (d', Ok tt) /\ dfloor d' /\ d_pos d <= d_pos d'.
  Proof.
    induction cs as [|c cs IH]; intros d Hd; cbn [dev_write_chunks].
    - exists d. split; [reflexivity|]. split; [exact Hd|lia].
    - destruct (dev_write_all_fl d c Hd) as (d1 & -> & Hd1 & Hp1). destruct (IH d1 Hd1) as (d' & Hr & Hd' & Hp').
      exists d'. split; [exact Hr|]. split; [exact Hd'|lia].
  Qed.

  Lemma dev_event_fl d : dfloor d -> exists d', dev_event d = (d', Ok tt) /\ dfloor d' /\ d_pos d' = d_pos d /\ d_buf d' = d_buf d.
  Proof.
    intros [Hp Ho Hn]. unfold dev_event. destruct (d_plan d) as [|[n|] p] eqn:E.
    - exists d. split; [reflexivity|]. split; [constructor; auto; rewrite E; constructor|split; reflexivity].
    - eexists. split; [reflexivity|]. split; [constructor; cbn; auto; now apply nofail_tail in Hn|split; reflexivity].
    - exfalso. inversion Hn as [|? ? H1 _]. now apply H1.
  Qed.

  Lemma dev_pos_fl d : dfloor d -> exists d', dev_pos d = (d', Ok (d_pos d)) /\ dfloor d' /\ d_pos d' = d_pos d /\ d_buf d' = d_buf d.
  Proof. intro H. unfold dev_pos. destruct (dev_event_fl d H) as (d' & -> & Hd' & Hp & Hb). exists d'. rewrite Hp. auto. Qed.

  Lemma dev_flush_fl d : dfloor d -> exists d', dev_flush d = (d', Ok tt) /\ dfloor d'.
  Proof. intro H. unfold dev_flush. destruct (dev_event_fl d H) as (d' & -> & Hd' & _). exists d'. auto. Qed.

  Lemma dev_seek_fl d q : dfloor d -> ds <= q -> exists d', dev_seek d q = (d', Ok tt) /\ dfloor d' /\ d_pos d' = q.
  Proof.
    intros H Hq. unfold dev_seek. destruct (dev_event_fl d H) as (d' & -> & [Hp Ho Hn] & _ & _).
    eexists. split; [reflexivity|]. split; [constructor; cbn; auto|reflexivity].
  Qed.

  Lemma dev_seek_end_fl d : dfloor d ->
    exists d', dev_seek_end d = (d', Ok (len (d_buf d))) /\ dfloor d' /\ d_pos d' = len (d_buf d).
  Proof.
    intros H. unfold dev_seek_end. destruct (dev_event_fl d H) as (d' & -> & Hd' & _ & Hb).
    pose proof (dfloor_len d' Hd') as Hl. destruct Hd' as [Hp Ho Hn]. rewrite Hb in *.
    eexists. split; [reflexivity|]. split; [constructor; cbn; auto; now rewrite <- Hb|reflexivity].
  Qed.

  (* ---------- the writer state *)
  Variable F0 : list wfile.   (* the records re-hydrated by new_append *)
  Definition renders (f : wfile) : Prop := exists cs, central_header_chunks f = Ok cs.
  Hypothesis HF0 : Forall renders F0.

  Definition ifloor (i : winner) : Prop := match dev_of i with Some d => dfloor d | None => True end.
  Definition fnew (f : wfile) : Prop := ds <= w_header_start f /\ ds <= w_data_start f.
  Definition newlast (fs : list wfile) : Prop := forall f, last_file fs = Some f -> fnew f.
  Definition pristine (s : wstate) : Prop :=
    ws_raw s = true /\ ws_to_extra s = false /\ ws_files s = F0 /\ exists d, ws_inner s = WStorer d.
  Definition guard (s : wstate) : Prop := newlast (ws_files s) \/ is_closed (ws_inner s) = true \/ pristine s.
  Record Floor0 (s : wstate) : Prop := {
    fl_dev : ifloor (ws_inner s);
    fl_extra : ws_to_extra s = true -> newlast (ws_files s) }.

  Lemma ifloor_close i : ifloor i -> ifloor (close_of i).
  Proof. unfold ifloor, close_of. cbn [dev_of]. auto. Qed.

  Lemma newlast_upd fs g : newlast fs -> (forall f, fnew f -> fnew (g f)) -> newlast (upd_last fs g).
  Proof.
    intros H Hg f Hl. destruct (last_file fs) as [f0|] eqn:E.
    - rewrite (last_file_upd fs g f0 E) in Hl. injection Hl as <-. apply Hg. now apply H.
    - apply last_file_none in E. subst fs. discriminate Hl.
  Qed.
  Lemma newlast_app fs f : fnew f -> newlast (fs ++ [f]).
  Proof. intros H g Hl. rewrite last_file_app in Hl. now injection Hl as <-. Qed.

  Lemma set_inner_id s : set_inner s (ws_inner s) = s.
  Proof. now destruct s. Qed.

  Lemma floor0_set_inner s i : Floor0 s -> ifloor i -> Floor0 (set_inner s i).
  Proof. intros [H1 H2] Hi. constructor; cbn; auto. Qed.
  Lemma guard_newlast s : newlast (ws_files s) -> guard s.
  Proof. now left. Qed.
  Lemma guard_closed s : is_closed (ws_inner s) = true -> guard s.
  Proof. right. now left. Qed.

  Section W.
  Variable enc : CompressionMethod -> Z -> bytes -> bytes.
  Variable crc : bytes -> N.

  Lemma finish_comp_fl i : ifloor i -> exists i', finish_comp enc i = (i', Ok tt) /\ ifloor i' /\ is_closed i' = is_closed i.
  Proof.
    intro H. destruct i as [l|d|d b k|m lvl d [[b k]|] pending]; cbn [finish_comp]; try (eexists; split; [reflexivity|]; split; [exact H|reflexivity]).
    unfold ifloor in H. cbn [dev_of] in H. destruct (dev_write_all_fl d (enc m lvl pending) H) as (d' & -> & Hd' & _).
    eexists. split; [reflexivity|]. split; [exact Hd'|reflexivity].
  Qed.

  Lemma switch_to_fl s m lvl s' r : ifloor (ws_inner s) -> switch_to enc s m lvl = (s', r) ->
    exists i', s' = set_inner s i' /\ ifloor i' /\ (is_closed (ws_inner s) = true -> is_closed i' = true).
  Proof.
    intros Hi H. unfold switch_to in H.
    destruct (cur_method (ws_inner s)) as [cm|] eqn:Ec.
    2:{ injection H as <- _. exists (ws_inner s). rewrite set_inner_id. auto. }
    assert (Hnc : is_closed (ws_inner s) = true -> False) by (destruct (ws_inner s); cbn in *; congruence).
    destruct (CompressionMethod_eqb cm m).
    { injection H as <- _. exists (ws_inner s). rewrite set_inner_id. auto. }
    destruct (finish_comp_fl (ws_inner s) Hi) as (i1 & E1 & Hi1 & Hc1). rewrite E1 in H.
    assert (Hcl : ifloor (close_of i1)) by now apply ifloor_close.
    destruct m; try (injection H as <- _; eexists; split; [reflexivity|]; split; [exact Hcl|tauto]).
    - destruct lvl; injection H as <- _; eexists; (split; [reflexivity|]); (split; [assumption|tauto]).
    - destruct (level_ok _ lvl); [|injection H as <- _; eexists; split; [reflexivity|]; split; [exact Hcl|tauto]].
      destruct i1; injection H as <- _; eexists; (split; [reflexivity|]); (split; [assumption|tauto]).
    - destruct (level_ok _ lvl); [|injection H as <- _; eexists; split; [reflexivity|]; split; [exact Hcl|tauto]].
      destruct i1; injection H as <- _; eexists; (split; [reflexivity|]); (split; [assumption|tauto]).
    - destruct (level_ok _ lvl); [|injection H as <- _; eexists; split; [reflexivity|]; split; [exact Hcl|tauto]].
      destruct i1; injection H as <- _; eexists; (split; [reflexivity|]); (split; [assumption|tauto]).
  Qed.

  Lemma switch_to_storer s d : ws_inner s = WStorer d -> switch_to enc s CompressionMethod_Stored None = (s, Ok tt).
  Proof. intro H. unfold switch_to. rewrite H. reflexivity. Qed.

  (* with a plain sink: the device is exposed, the result put back *)
  Lemma with_plain_fl {A} s (k : dev -> dev * res A) : open_plain (ws_inner s) = true -> ifloor (ws_inner s) ->
    exists d, dfloor d /\ dev_of (ws_inner s) = Some d /\
      forall d' r, k d = (d', r) ->
        exists i', with_plain s k = (set_inner s i', r) /\ dev_of i' = Some d' /\ open_plain i' = true /\
                   (forall x, ws_inner s = WStorer x -> i' = WStorer d').
  Proof.
    intros Ho Hi. unfold with_plain. destruct (ws_inner s) as [l|d|d b kk|? ? ? ? ?]; try discriminate Ho.
    - exists d. split; [exact Hi|]. split; [reflexivity|]. intros d' r ->. eexists. split; [reflexivity|]. auto.
    - exists d. split; [exact Hi|]. split; [reflexivity|]. intros d' r ->. eexists. split; [reflexivity|].
      split; [reflexivity|]. split; [reflexivity|]. discriminate.
  Qed.

  Lemma update_local_fl d f d' r : dfloor d -> ds <= w_header_start f -> update_local d f = (d', r) -> dfloor d'.
  Proof.
    intros Hd Hf H. unfold update_local in H.
    destruct (dev_seek_fl d (w_header_start f + 14) Hd) as (d1 & E1 & Hd1 & _); [lia|]. rewrite E1 in H.
    destruct (dev_write_all_fl d1 (le32 (w_crc f)) Hd1) as (d2 & E2 & Hd2 & _). rewrite E2 in H.
    destruct (w_large f).
    - destruct (dev_seek_fl d2 (w_header_start f + 30 + len (w_name f) + 4) Hd2) as (d3 & E3 & Hd3 & _); [lia|]. rewrite E3 in H.
      destruct (dev_write_chunks_fl [le64 (w_usize f); le64 (w_csize f)] d3 Hd3) as (d4 & E4 & Hd4 & _). rewrite E4 in H.
      now injection H as <- _.
    - destruct (ZIP64_BYTES_THR <? w_csize f); [now injection H as <- _|].
      destruct (dev_write_chunks_fl [le32 (w_csize f mod 2 ^ 32); le32 (w_usize f mod 2 ^ 32)] d2 Hd2) as (d4 & E4 & Hd4 & _).
      rewrite E4 in H. now injection H as <- _.
  Qed.

  Lemma ifloor_of i d : dev_of i = Some d -> dfloor d -> ifloor i.
  Proof. unfold ifloor. now intros ->. Qed.

  Lemma with_plain_closed {A} s (k : dev -> dev * res A) : open_plain (ws_inner s) = false -> with_plain s k = (s, Panic PGetPlain).
  Proof. unfold with_plain. destruct (ws_inner s); try discriminate; reflexivity. Qed.

  (* end_extra_data *)
  Lemma end_extra_data_fl s s' r : Floor0 s -> end_extra_data enc s = (s', r) ->
    Floor0 s' /\ (newlast (ws_files s) -> newlast (ws_files s')) /\ ws_raw s' = ws_raw s /\
    (is_closed (ws_inner s) = true -> is_closed (ws_inner s') = true) /\
    (ws_to_extra s = false -> s' = s) /\
    match r with Ok _ => ws_to_extra s = true /\ ws_to_extra s' = false | _ => True end.
  Proof.
    intros HF H. unfold end_extra_data in H.
    destruct (ws_to_extra s) eqn:Ex; cbn [negb] in H; [|injection H as <- <-; rsplit; auto].
    pose proof (fl_extra s HF Ex) as Hnl.
    destruct (is_closed (ws_inner s)) eqn:Ecl.
    { assert (H' : (s, @Err N closed_err) = (s', r)) by (destruct (ws_inner s); try discriminate Ecl; exact H).
      injection H' as <- <-. rsplit; auto; discriminate. }
    assert (H' : match last_file (ws_files s) with
      | None => (s, Panic PLastUnwrap)
      | Some f =>
        match validate_extra_data f with
        | Err e => (s, Err e)
        | Panic p => (s, Panic p)
        | Ok _ =>
            if ws_central_only s then
              (set_flags s (ws_to_file s) false false (ws_raw s), Ok (w_data_start f))
            else
              match with_plain s (fun d => dev_write_all d (w_extra f)) with
              | (s1, Ok _) =>
                  let header_end := w_data_start f + len (w_extra f) in
                  let s2 := set_files (set_stats s1 header_end (ws_written s1) (ws_hashed s1))
                                      (upd_last (ws_files s1) (fun g => wf_set_data_start g header_end)) in
                  match add_chk 16 (if w_large f then 20 else 0) (len (w_extra f) mod 65536) with
                  | None => (s2, Panic PExtraLenAdd)
                  | Some xl =>
                      match with_plain s2 (fun d =>
                              match dev_seek d (w_header_start f + 28) with
                              | (d1, Ok _) => match dev_write_all d1 (le16 xl) with
                                              | (d2, Ok _) => dev_seek d2 header_end
                                              | bad => bad end
                              | bad => bad end) with
                      | (s3, Ok _) =>
                          match switch_to enc s3 (w_method f) (w_level f) with
                          | (s4, Ok _) => (set_flags s4 (ws_to_file s4) false false (ws_raw s4), Ok header_end)
                          | (s4, Err e) => (s4, Err e)
                          | (s4, Panic p) => (s4, Panic p)
                          end
                      | (s3, Err e) => (s3, Err e)
                      | (s3, Panic p) => (s3, Panic p)
                      end
                  end
              | (s1, Err e) => (s1, Err e)
              | (s1, Panic p) => (s1, Panic p)
              end
        end end = (s', r)) by (destruct (ws_inner s); try discriminate Ecl; exact H).
    clear H. rename H' into H.
    destruct (last_file (ws_files s)) as [f|] eqn:El; [|injection H as <- <-; rsplit; auto; discriminate].
    destruct (Hnl f El) as [Hhs Hdst].
    destruct (validate_extra_data f) as [u|e|p]; [|injection H as <- <-; rsplit; auto; discriminate..].
    destruct (ws_central_only s).
    { injection H as <- <-. rsplit; auto; try discriminate; try (destruct HF as [H1 H2]; constructor; cbn; auto; discriminate). }
    destruct (open_plain (ws_inner s)) eqn:Eop.
    2:{ rewrite with_plain_closed in H by exact Eop. injection H as <- <-. rsplit; auto; discriminate. }
    (* write the extra data *)
    destruct (with_plain_fl s (fun d => dev_write_all d (w_extra f)) Eop (fl_dev s HF)) as (d & Hd & _ & Hk).
    destruct (dev_write_all_fl d (w_extra f) Hd) as (d1 & Ew & Hd1 & _).
    destruct (Hk d1 (Ok tt) Ew) as (i1 & E1 & Hdev1 & Hop1 & _). rewrite E1 in H. clear Hk E1.
    cbv zeta in H.
    set (he := w_data_start f + len (w_extra f)) in *.
    set (s2 := set_files (set_stats (set_inner s i1) he (ws_written (set_inner s i1)) (ws_hashed (set_inner s i1)))
                         (upd_last (ws_files (set_inner s i1)) (fun g => wf_set_data_start g he))) in *.
    assert (Hnl2 : newlast (ws_files s2)).
    { unfold s2. cbn [ws_files set_files set_inner]. apply newlast_upd; [exact Hnl|]. intros g [G1 G2]. split; cbn; [exact G1|unfold he; lia]. }
    assert (HF2 : Floor0 s2).
    { constructor; [exact (ifloor_of i1 d1 Hdev1 Hd1)|]. intros _. exact Hnl2. }
    assert (Hraw2 : ws_raw s2 = ws_raw s) by reflexivity.
    assert (Hcl2 : is_closed (ws_inner s2) = false) by (unfold s2; cbn; destruct i1; try discriminate Hop1; reflexivity).
    destruct (add_chk 16 _ _) as [xl|]; [|injection H as <- <-; rsplit; auto; discriminate].
    (* patch the extra length, come back *)
    match type of H with (match with_plain s2 ?k with _ => _ end) = _ => set (kk := k) in * end.
    destruct (with_plain_fl s2 kk Hop1 (fl_dev s2 HF2)) as (d2 & Hd2 & _ & Hk).
    assert (Ek : exists d5, kk d2 = (d5, Ok tt) /\ dfloor d5).
    { unfold kk. destruct (dev_seek_fl d2 (w_header_start f + 28) Hd2) as (d3 & -> & Hd3 & _); [lia|].
      destruct (dev_write_all_fl d3 (le16 xl) Hd3) as (d4 & -> & Hd4 & _).
      destruct (dev_seek_fl d4 he Hd4) as (d5 & -> & Hd5 & _); [unfold he; lia|]. exists d5. auto. }
    destruct Ek as (d5 & Ek & Hd5). destruct (Hk d5 (Ok tt) Ek) as (i3 & E3 & Hdev3 & Hop3 & _). rewrite E3 in H. clear Hk E3.
    assert (HF3 : Floor0 (set_inner s2 i3)) by (apply floor0_set_inner; [exact HF2|exact (ifloor_of i3 d5 Hdev3 Hd5)]).
    destruct (switch_to enc (set_inner s2 i3) (w_method f) (w_level f)) as [s4 r4] eqn:E4.
    destruct (switch_to_fl _ _ _ _ _ (fl_dev _ HF3) E4) as (i4 & -> & Hi4 & _).
    assert (HF4 : Floor0 (set_inner (set_inner s2 i3) i4)) by (apply floor0_set_inner; assumption).
    destruct r4 as [u4|e4|p4]; injection H as <- <-; rsplit; auto; try discriminate.
    constructor; cbn; [exact Hi4|discriminate].
  Qed.

  Lemma guard_of_end s s' : guard s -> (newlast (ws_files s) -> newlast (ws_files s')) ->
    (is_closed (ws_inner s) = true -> is_closed (ws_inner s') = true) -> (ws_to_extra s = false -> s' = s) -> guard s'.
  Proof.
    intros [G|[G|G]] H1 H2 H3; [left; auto|right; left; auto|].
    destruct G as (Gr & Gx & Gf & Gd). rewrite (H3 Gx). right. right. repeat split; auto.
  Qed.

  (* finish_file *)
  Lemma finish_file_fl s s' r : Floor0 s -> guard s -> finish_file enc crc s = (s', r) ->
    Floor0 s' /\
    match r with
    | Ok _ => (exists d, ws_inner s' = WStorer d) /\ ws_to_extra s' = false /\ ws_raw s' = false /\
              (newlast (ws_files s') \/ ws_files s' = F0)
    | _ => guard s'
    end.
  Proof.
    intros HF HG H. unfold finish_file in H.
    (* phase 0: pending extra data *)
    assert (P0 : exists s0 r0, (if ws_to_extra s
                 then (let '(s', r) := end_extra_data enc s in (s', match r with Ok _ => Ok tt | Err e => Err e | Panic p => Panic p end))
                 else (s, Ok tt)) = (s0, r0) /\ Floor0 s0 /\ guard s0 /\
                 match r0 with Ok _ => ws_to_extra s0 = false | _ => True end).
    { destruct (ws_to_extra s) eqn:Ex.
      - destruct (end_extra_data enc s) as [sa ra] eqn:Ee.
        destruct (end_extra_data_fl s sa ra HF Ee) as (HFa & Hn & Hr & Hc & Hs & Hp).
        eexists. eexists. split; [reflexivity|]. split; [exact HFa|]. split; [exact (guard_of_end s sa HG Hn Hc Hs)|].
        destruct ra; auto. tauto.
      - exists s, (Ok tt). auto. }
    destruct P0 as (s0 & r0 & E0 & HF0' & HG0 & Hp0). rewrite E0 in H. clear E0.
    destruct r0 as [u0|e0|p0]; [|injection H as <- <-; auto..].
    (* pristine: nothing to close, the raw flag is cleared *)
    destruct HG0 as [Hnl|[Hcl|Hpr]].
    3:{ destruct Hpr as (Gr & Gx & Gf & d & Gd). rewrite (switch_to_storer s0 d Gd) in H. rewrite Gd in H.
        cbv zeta in H. rewrite Gd, Gr in H. injection H as <- <-. split.
        - destruct HF0' as [A B]. constructor; cbn; auto.
        - cbn. rsplit; eauto. }
    2:{ assert (Es : switch_to enc s0 CompressionMethod_Stored None = (s0, Err closed_err)).
        { unfold switch_to. destruct (ws_inner s0); try discriminate Hcl. reflexivity. }
        rewrite Es in H. injection H as <- <-. split; [exact HF0'|]. now apply guard_closed. }
    (* the last record is a new one *)
    destruct (switch_to enc s0 CompressionMethod_Stored None) as [s1 r1] eqn:E1.
    destruct (switch_to_fl _ _ _ _ _ (fl_dev _ HF0') E1) as (i1 & -> & Hi1 & _).
    assert (HF1 : Floor0 (set_inner s0 i1)) by (apply floor0_set_inner; assumption).
    destruct r1 as [u1|e1|p1]; [|injection H as <- <-; split; [exact HF1|now apply guard_newlast]..].
    match type of H with (let (_, _) := ?X in _) = _ => destruct X as [s2 r2] eqn:E2 end.
    assert (P2 : Floor0 s2 /\ ws_to_extra s2 = false /\ ws_files s2 = ws_files s0 /\ ws_raw s2 = ws_raw s0).
    { cbn [set_inner ws_inner] in E2. destruct i1 as [l|d|d b k|? ? ? ? ?]; try (injection E2 as <- _; auto).
      cbv zeta in E2. destruct (zc_encrypt k _) as [k' ct]. unfold ifloor in Hi1. cbn [dev_of] in Hi1.
      destruct (dev_write_all_fl d ct Hi1) as (d1 & Ew & Hd1 & _). rewrite Ew in E2.
      destruct (dev_flush_fl d1 Hd1) as (d2 & Ef & Hd2). rewrite Ef in E2. injection E2 as <- _.
      rsplit; auto. apply floor0_set_inner; auto. }
    destruct P2 as (HF2 & Hx2 & Hf2 & Hraw2). clear E2.
    assert (Hnl2 : newlast (ws_files s2)) by (rewrite Hf2; exact Hnl).
    destruct r2 as [u2|e2|p2]; [|injection H as <- <-; split; [exact HF2|now apply guard_newlast]..].
    destruct (ws_inner s2) as [l|d2|? ? ?|? ? ? ? ?] eqn:Ein2; try (injection H as <- <-; split; [exact HF2|now apply guard_newlast]).
    destruct (ws_raw s2) eqn:Er2.
    { injection H as <- <-. split.
      - destruct HF2 as [A B]. constructor; cbn; auto; try (now rewrite Ein2 in A |- *).
      - cbn. rsplit; eauto. }
    destruct (last_file (ws_files s2)) as [f|] eqn:El.
    2:{ injection H as <- <-. split; [exact HF2|]. rsplit; eauto. }
    destruct (Hnl2 f El) as [Hhs Hdst].
    assert (Hop2 : open_plain (ws_inner s2) = true) by (rewrite Ein2; reflexivity).
    destruct (with_plain_fl s2 dev_pos Hop2 (fl_dev s2 HF2)) as (d & Hd & Hdv & Hk).
    rewrite Ein2 in Hdv. injection Hdv as <-.
    destruct (dev_pos_fl d2 Hd) as (d3 & Ep & Hd3 & Hp3 & _).
    destruct (Hk d3 _ Ep) as (i3 & E3 & Hdev3 & Hop3 & Hst3). rewrite E3 in H. clear Hk E3.
    specialize (Hst3 d2 Ein2). subst i3.
    assert (HF3 : Floor0 (set_inner s2 (WStorer d3))) by (apply floor0_set_inner; auto).
    destruct (d_pos d2 <? ws_start (set_inner s2 (WStorer d3))); [injection H as <- <-; split; [exact HF3|now apply guard_newlast]|].
    set (f' := wf_set_sizes f (crc (ws_hashed (set_inner s2 (WStorer d3)))) (ws_written (set_inner s2 (WStorer d3)))
                            (d_pos d2 - ws_start (set_inner s2 (WStorer d3)))) in *.
    set (s4 := set_files (set_inner s2 (WStorer d3)) (upd_last (ws_files (set_inner s2 (WStorer d3))) (fun _ => f'))) in *.
    assert (Hnl4 : newlast (ws_files s4)).
    { unfold s4. cbn [ws_files set_files set_inner]. apply newlast_upd; [exact Hnl2|]. intros g _. unfold f'. split; cbn; assumption. }
    assert (HF4 : Floor0 s4) by (constructor; [exact Hd3|intros _; exact Hnl4]).
    match type of H with (match with_plain s4 ?k with _ => _ end) = _ => set (kk := k) in * end.
    destruct (with_plain_fl s4 kk eq_refl (fl_dev s4 HF4)) as (d4 & Hd4 & Hdv4 & Hk).
    destruct (kk d4) as [d5 r5] eqn:Ek.
    assert (Hd5 : dfloor d5).
    { unfold kk in Ek. destruct (update_local d4 f') as [d6 r6] eqn:Eu.
      pose proof (update_local_fl d4 f' d6 r6 Hd4 Hhs Eu) as Hd6.
      destruct r6 as [u6|e6|p6]; [|now injection Ek as <- _..].
      destruct (dev_seek_fl d6 (d_pos d2) Hd6) as (d7 & E7 & Hd7 & _); [exact (df_pos d2 Hd)|]. rewrite E7 in Ek. now injection Ek as <- _. }
    destruct (Hk d5 r5 eq_refl) as (i5 & E5 & Hdev5 & Hop5 & Hst5). rewrite E5 in H. clear Hk E5.
    specialize (Hst5 d3 eq_refl). subst i5.
    assert (HF5 : Floor0 (set_inner s4 (WStorer d5))) by (apply floor0_set_inner; auto).
    destruct r5 as [u5|e5|p5]; [|injection H as <- <-; split; [exact HF5|now apply guard_newlast]..].
    injection H as <- <-. split.
    - constructor; cbn; [exact Hd5|]. unfold s4. cbn. rewrite Hx2. discriminate.
    - cbn. rsplit; eauto; try (unfold s4; cbn; exact Hx2).
  Qed.

  (* start_entry: from a pristine state it always gets as far as pushing the new record *)
  Lemma start_entry_fl s name o raw s' r : Floor0 s -> guard s -> start_entry enc crc s name o raw = (s', r) -> time_ok (o_time o) ->
    Floor0 s' /\
    match r with
    | Ok _ => newlast (ws_files s') /\ ws_to_extra s' = false /\ open_plain (ws_inner s') = true
    | _ => guard s'
    end.
  Proof.
    intros HF HG H Ht. unfold start_entry in H.
    destruct (65535 <? len name); [injection H as <- <-; auto|].
    destruct (finish_file enc crc s) as [s1 r1] eqn:E1.
    destruct (finish_file_fl s s1 r1 HF HG E1) as (HF1 & Hp1).
    destruct r1 as [u1|e1|p1]; [|injection H as <- <-; auto..].
    destruct Hp1 as ([d1 Hin1] & Hx1 & Hraw1 & _).
    assert (Hop1 : open_plain (ws_inner s1) = true) by (rewrite Hin1; reflexivity).
    destruct (with_plain_fl s1 dev_pos Hop1 (fl_dev s1 HF1)) as (d & Hd & Hdv & Hk).
    rewrite Hin1 in Hdv. injection Hdv as <-.
    destruct (dev_pos_fl d1 Hd) as (d2 & Ep & Hd2 & Hp2 & _).
    destruct (Hk d2 _ Ep) as (i2 & E2 & _ & _ & Hst2). rewrite E2 in H. clear Hk E2.
    specialize (Hst2 d1 Hin1). subst i2.
    cbv zeta in H.
    destruct (local_header_np (mk_wfile name o raw (d_pos d1))) as [cs Hcs]; [rewrite mk_wfile_time; exact Ht|apply mk_wfile_extra|].
    rewrite Hcs in H.
    assert (HF2 : Floor0 (set_inner s1 (WStorer d2))) by (apply floor0_set_inner; auto).
    destruct (with_plain_fl (set_inner s1 (WStorer d2)) (fun d => dev_write_chunks d cs) eq_refl (fl_dev _ HF2)) as (d2' & _ & Hdv & Hk).
    injection Hdv as <-.
    destruct (dev_write_chunks_fl cs d2 Hd2) as (d3 & Ew & Hd3 & Hp3).
    destruct (Hk d3 _ Ew) as (i3 & E3 & _ & _ & Hst3). rewrite E3 in H. clear Hk E3.
    specialize (Hst3 d2 eq_refl). subst i3.
    assert (HF3 : Floor0 (set_inner (set_inner s1 (WStorer d2)) (WStorer d3))) by (apply floor0_set_inner; auto).
    destruct (with_plain_fl (set_inner (set_inner s1 (WStorer d2)) (WStorer d3)) dev_pos eq_refl (fl_dev _ HF3)) as (d3' & _ & Hdv & Hk).
    injection Hdv as <-.
    destruct (dev_pos_fl d3 Hd3) as (d4 & Ep4 & Hd4 & Hp4 & _).
    destruct (Hk d4 _ Ep4) as (i4 & E4 & _ & _ & Hst4). rewrite E4 in H. clear Hk E4.
    specialize (Hst4 d3 eq_refl). subst i4.
    set (s4 := set_inner (set_inner (set_inner s1 (WStorer d2)) (WStorer d3)) (WStorer d4)) in *.
    set (f := wf_set_data_start (mk_wfile name o raw (d_pos d1)) (d_pos d3)) in *.
    assert (Hf : fnew f).
    { unfold f, fnew. cbn [w_header_start w_data_start wf_set_data_start]. split.
      - unfold mk_wfile. destruct raw as [[[a b] c]|]; cbn; exact (df_pos d1 Hd).
      - exact (df_pos d3 Hd3). }
    assert (Hnl5 : newlast (ws_files s4 ++ [f])) by (apply newlast_app; exact Hf).
    destruct (o_encrypt o) as [pw|].
    - cbn [ws_inner set_files set_stats] in H. unfold s4 in H. cbn [ws_inner set_inner] in H.
      injection H as <- <-. split; [constructor; cbn; [exact Hd4|intros _; exact Hnl5]|]. cbn. rsplit; auto.
    - injection H as <- <-. split; [constructor; cbn; [exact Hd4|intros _; exact Hnl5]|]. cbn. rsplit; auto.
  Qed.

  (* ---------- write *)
  Lemma zw_write_fl s buf s' r : Floor0 s -> guard s -> zw_write s buf = (s', r) ->
    Floor0 s' /\ guard s' /\ (newlast (ws_files s) -> newlast (ws_files s')).
  Proof.
    intros HF HG H. unfold zw_write in H.
    destruct (ws_to_file s); cbn [negb] in H; [|injection H as <- <-; auto].
    destruct (ws_inner s) as [l|d|d b k|m lvl d e pending] eqn:Ein; [injection H as <- <-; auto|..].
    - (* plain storer *)
      destruct (ws_to_extra s) eqn:Ex.
      { pose proof (fl_extra s HF Ex) as Hnl. injection H as <- <-.
        assert (Hn' : newlast (upd_last (ws_files s) (fun g => wf_set_extra g (w_extra g ++ buf)))) by (apply newlast_upd; auto).
        rsplit; auto; [|now left]. destruct HF as [A B]. constructor; cbn; auto. }
      assert (Hd : dfloor d) by (pose proof (fl_dev s HF) as A; now rewrite Ein in A).
      destruct (dev_write_fl d buf Hd) as (d' & k & Ew & Hd' & _). rewrite Ew in H.
      match type of H with (if ?c then _ else _) = _ => destruct c end; injection H as <- <-.
      + rsplit; auto; [|right; left; reflexivity]. constructor; cbn; [exact Hd'|rewrite Ex; discriminate].
      + rsplit; auto.
        * constructor; cbn; [exact Hd'|rewrite Ex; discriminate].
        * destruct HG as [G|[G|G]]; [now left|rewrite Ein in G; discriminate|].
          right. right. destruct G as (Gr & Gx & Gf & _). repeat split; cbn; eauto.
    - (* encrypting storer: buffered *)
      destruct (ws_to_extra s) eqn:Ex.
      { pose proof (fl_extra s HF Ex) as Hnl. injection H as <- <-.
        assert (Hn' : newlast (upd_last (ws_files s) (fun g => wf_set_extra g (w_extra g ++ buf)))) by (apply newlast_upd; auto).
        rsplit; auto; [|now left]. destruct HF as [A B]. constructor; cbn; auto. }
      assert (Hd : dfloor d) by (pose proof (fl_dev s HF) as A; now rewrite Ein in A).
      assert (Hnp : ~ pristine s) by (intros (_ & _ & _ & x & Hx); congruence).
      match type of H with (if ?c then _ else _) = _ => destruct c end; injection H as <- <-.
      + rsplit; auto; [|right; left; reflexivity]. constructor; cbn; [exact Hd|rewrite Ex; discriminate].
      + rsplit; auto.
        * constructor; cbn; [exact Hd|rewrite Ex; discriminate].
        * destruct HG as [G|[G|G]]; [now left|rewrite Ein in G; discriminate|tauto].
    - (* compressor: buffered *)
      destruct (ws_to_extra s) eqn:Ex.
      { pose proof (fl_extra s HF Ex) as Hnl. injection H as <- <-.
        assert (Hn' : newlast (upd_last (ws_files s) (fun g => wf_set_extra g (w_extra g ++ buf)))) by (apply newlast_upd; auto).
        rsplit; auto; [|now left]. destruct HF as [A B]. constructor; cbn; auto. }
      assert (Hd : dfloor d) by (pose proof (fl_dev s HF) as A; now rewrite Ein in A).
      assert (Hnp : ~ pristine s) by (intros (_ & _ & _ & x & Hx); congruence).
      match type of H with (if ?c then _ else _) = _ => destruct c end; injection H as <- <-.
      + rsplit; auto; [|right; left; reflexivity]. constructor; cbn; [exact Hd|rewrite Ex; discriminate].
      + rsplit; auto.
        * constructor; cbn; [exact Hd|rewrite Ex; discriminate].
        * destruct HG as [G|[G|G]]; [now left|rewrite Ein in G; discriminate|tauto].
  Qed.

  Lemma zw_write_all_fuel_fl : forall fuel s buf s' r, Floor0 s -> guard s -> zw_write_all_fuel fuel s buf = (s', r) ->
    Floor0 s' /\ guard s' /\ (newlast (ws_files s) -> newlast (ws_files s')).
  Proof.
    induction fuel as [|f IH]; intros s buf s' r HF HG H; destruct buf as [|b rest]; cbn [zw_write_all_fuel] in H;
      try (injection H as <- <-; auto).
    destruct (zw_write s (b :: rest)) as [s1 [k|e|p]] eqn:E; destruct (zw_write_fl _ _ _ _ HF HG E) as (HF1 & HG1 & Hn1);
      try (injection H as <- <-; auto).
    destruct (k =? 0); [injection H as <- <-; auto|].
    destruct (IH _ _ _ _ HF1 HG1 H) as (A & B & C). auto.
  Qed.

  Lemma zw_write_all_fl s buf s' r : Floor0 s -> guard s -> zw_write_all s buf = (s', r) ->
    Floor0 s' /\ guard s' /\ (newlast (ws_files s) -> newlast (ws_files s')).
  Proof. apply zw_write_all_fuel_fl. Qed.

  Lemma floor0_set_flags s tf te co raw : Floor0 s -> (te = true -> newlast (ws_files s)) -> Floor0 (set_flags s tf te co raw).
  Proof. intros [A B] H. constructor; cbn; auto. Qed.
  Lemma guard_set_flags s tf te co raw : newlast (ws_files s) -> guard (set_flags s tf te co raw).
  Proof. intro H. left. exact H. Qed.

  Definition FG (s : wstate) : Prop := Floor0 s /\ guard s.

  Lemma start_file_fl s name o s' r : FG s -> time_ok (o_time o) -> start_file enc crc s name o = (s', r) -> FG s'.
  Proof.
    intros [HF HG] Ht H. unfold start_file in H.
    destruct (start_entry enc crc s name (with_perm o 420 32768) None) as [s1 r1] eqn:E1.
    destruct (start_entry_fl _ _ _ _ _ _ HF HG E1 Ht) as (HF1 & Hp1).
    destruct r1 as [u1|e1|p1]; [|injection H as <- <-; split; auto..].
    destruct Hp1 as (Hnl1 & Hx1 & Hop1).
    destruct (switch_to enc s1 _ _) as [s2 r2] eqn:E2.
    destruct (switch_to_fl _ _ _ _ _ (fl_dev _ HF1) E2) as (i2 & -> & Hi2 & _).
    assert (HF2 : Floor0 (set_inner s1 i2)) by (apply floor0_set_inner; auto).
    destruct r2 as [u2|e2|p2]; injection H as <- <-; split; auto; try (now left);
      try (apply floor0_set_flags; auto; cbn; rewrite Hx1; discriminate).
  Qed.

  Lemma start_extra_fl s name o s' r : FG s -> time_ok (o_time o) -> start_file_with_extra_data enc crc s name o = (s', r) ->
    FG s' /\ match r with Ok _ => ws_to_extra s' = true | _ => True end.
  Proof.
    intros [HF HG] Ht H. unfold start_file_with_extra_data in H.
    destruct (start_entry enc crc s name (with_perm o 420 32768) None) as [s1 r1] eqn:E1.
    destruct (start_entry_fl _ _ _ _ _ _ HF HG E1 Ht) as (HF1 & Hp1).
    destruct r1 as [u1|e1|p1]; [|injection H as <- <-; split; auto; split; auto..].
    destruct Hp1 as (Hnl1 & Hx1 & Hop1). cbv zeta in H.
    assert (FG (set_flags s1 true true (ws_central_only s1) (ws_raw s1))).
    { split; [apply floor0_set_flags; auto|now left]. }
    destruct (last_file (ws_files (set_flags s1 true true (ws_central_only s1) (ws_raw s1)))); injection H as <- <-; auto.
  Qed.

  Lemma end_extra_FG s s' r : FG s -> end_extra_data enc s = (s', r) -> FG s'.
  Proof.
    intros [HF HG] H. destruct (end_extra_data_fl s s' r HF H) as (HF' & Hn & _ & Hc & Hs & _).
    split; [exact HF'|exact (guard_of_end s s' HG Hn Hc Hs)].
  Qed.

  Lemma end_local_fl s s' r : FG s -> end_local_start_central enc s = (s', r) -> FG s'.
  Proof.
    intros [HF HG] H. unfold end_local_start_central in H.
    destruct (end_extra_data enc s) as [s1 r1] eqn:E1.
    pose proof (end_extra_FG s s1 r1 (conj HF HG) E1) as [HF1 HG1].
    destruct (end_extra_data_fl s s1 r1 HF E1) as (_ & Hn & _ & _ & _ & Hp).
    destruct r1 as [v|e|p]; [|injection H as <- <-; split; auto..].
    destruct Hp as [Hx _]. pose proof (Hn (fl_extra s HF Hx)) as Hnl1.
    injection H as <- <-.
    assert (Hn' : newlast (upd_last (ws_files s1) (fun g => wf_set_extra g []))) by (apply newlast_upd; auto).
    split; [|left; exact Hn']. destruct HF1 as [A B]. constructor; cbn; auto.
  Qed.

  Lemma start_aligned_fl s name o align s' r : FG s -> time_ok (o_time o) -> start_file_aligned enc crc s name o align = (s', r) -> FG s'.
  Proof.
    intros HFG Ht H. unfold start_file_aligned in H.
    destruct (start_file_with_extra_data enc crc s name o) as [s1 r1] eqn:E1.
    destruct (start_extra_fl _ _ _ _ _ HFG Ht E1) as (HFG1 & _).
    destruct r1 as [dst|e1|p1]; [|injection H as <- <-; auto..].
    match type of H with (let (_, _) := ?X in _) = _ => destruct X as [s2 r2] eqn:E2 end.
    assert (HFG2 : FG s2).
    { destruct ((1 <? align) && negb (dst mod align =? 0)); [|injection E2 as <- _; exact HFG1].
      cbv zeta in E2.
      destruct (zw_write_all s1 [x7a; x61]) as [sa ra] eqn:Ea.
      destruct HFG1 as [A B]. destruct (zw_write_all_fl _ _ _ _ A B Ea) as (A1 & B1 & _).
      destruct ra as [ua|ea|pa]; [|injection E2 as <- _; split; auto..].
      destruct (zw_write_all sa _) as [sb rb] eqn:Eb. destruct (zw_write_all_fl _ _ _ _ A1 B1 Eb) as (A2 & B2 & _).
      destruct rb as [ub|eb|pb]; [|injection E2 as <- _; split; auto..].
      destruct (zw_write_all sb _) as [sc rc] eqn:Ec. destruct (zw_write_all_fl _ _ _ _ A2 B2 Ec) as (A3 & B3 & _).
      destruct rc as [uc|ec|pc]; [|injection E2 as <- _; split; auto..].
      destruct (end_local_start_central enc sc) as [sd rd] eqn:Ed. pose proof (end_local_fl _ _ _ (conj A3 B3) Ed) as HFGd.
      destruct rd as [dd|ed|pd]; [|injection E2 as <- _; auto..].
      destruct (dd mod align =? 0); injection E2 as <- _; auto. }
    clear E2. destruct r2 as [u2|e2|p2]; [|injection H as <- <-; auto..].
    destruct (end_extra_data enc s2) as [s3 r3] eqn:E3. pose proof (end_extra_FG _ _ _ HFG2 E3) as HFG3.
    destruct r3; injection H as <- <-; auto.
  Qed.

  Lemma add_directory_fl s name o s' r : FG s -> time_ok (o_time o) -> add_directory enc crc s name o = (s', r) -> FG s'.
  Proof.
    intros [HF HG] Ht H. unfold add_directory in H.
    match type of H with (match start_entry enc crc s ?n ?o' None with _ => _ end) = _ =>
      destruct (start_entry enc crc s n o' None) as [s1 r1] eqn:E1; destruct (start_entry_fl _ _ _ _ _ _ HF HG E1 Ht) as (HF1 & Hp1) end.
    destruct r1 as [u1|e1|p1]; [|injection H as <- <-; split; auto..].
    destruct Hp1 as (Hnl1 & Hx1 & Hop1). injection H as <- <-. split; [|now left].
    apply floor0_set_flags; auto; rewrite Hx1; discriminate.
  Qed.

  Lemma add_symlink_fl s name target o s' r : FG s -> time_ok (o_time o) -> add_symlink enc crc s name target o = (s', r) -> FG s'.
  Proof.
    intros [HF HG] Ht H. unfold add_symlink in H.
    match type of H with (match start_entry enc crc s ?n ?o' None with _ => _ end) = _ =>
      destruct (start_entry enc crc s n o' None) as [s1 r1] eqn:E1; destruct (start_entry_fl _ _ _ _ _ _ HF HG E1 Ht) as (HF1 & Hp1) end.
    destruct r1 as [u1|e1|p1]; [|injection H as <- <-; split; auto..].
    destruct Hp1 as (Hnl1 & Hx1 & Hop1).
    set (sf := set_flags s1 true (ws_to_extra s1) (ws_central_only s1) (ws_raw s1)) in *.
    assert (HFf : Floor0 sf) by (apply floor0_set_flags; auto; rewrite Hx1; discriminate).
    assert (HGf : guard sf) by now left.
    destruct (zw_write_all sf target) as [s2 r2] eqn:E2. destruct (zw_write_all_fl _ _ _ _ HFf HGf E2) as (HF2 & HG2 & Hn2).
    destruct r2 as [u2|e2|p2]; injection H as <- <-; split; auto;
      try (apply floor0_set_flags; auto; intros X; exact (fl_extra _ HF2 X)); try (left; cbn; apply Hn2; exact Hnl1).
  Qed.

  Lemma raw_copy_fl s src raw name s' r : FG s -> time_ok (f_time src) -> raw_copy enc crc s src raw name = (s', r) -> FG s'.
  Proof.
    intros [HF HG] Ht H. unfold raw_copy in H.
    match type of H with (match start_entry enc crc s name ?o' ?rv with _ => _ end) = _ =>
      destruct (start_entry enc crc s name o' rv) as [s1 r1] eqn:E1; destruct (start_entry_fl _ _ _ _ _ _ HF HG E1 Ht) as (HF1 & Hp1) end.
    destruct r1 as [u1|e1|p1]; [|injection H as <- <-; split; auto..].
    destruct Hp1 as (Hnl1 & Hx1 & Hop1).
    set (sf := set_flags s1 true (ws_to_extra s1) (ws_central_only s1) true) in *.
    assert (HFf : Floor0 sf) by (apply floor0_set_flags; auto; rewrite Hx1; discriminate).
    assert (HGf : guard sf) by now left.
    destruct (zw_write_all_fl _ _ _ _ HFf HGf H) as (HF2 & HG2 & _). split; auto.
  Qed.

  (* ---------- finalize *)
  Lemma write_central_all_fl : forall fs d d' r, dfloor d -> write_central_all d fs = (d', r) ->
    dfloor d' /\ d_pos d <= d_pos d' /\ (Forall renders fs -> r = Ok tt).
  Proof.
    induction fs as [|f fs IH]; intros d d' r Hd H; cbn [write_central_all] in H.
    - injection H as <- <-. rsplit; auto. lia.
    - destruct (central_header_chunks f) as [cs|e|p] eqn:Ec.
      + destruct (dev_write_chunks_fl cs d Hd) as (d1 & Ew & Hd1 & Hp1). rewrite Ew in H.
        destruct (IH _ _ _ Hd1 H) as (A & B & C). rsplit; auto; [lia|]. intro HR. apply C. now inversion HR.
      + injection H as <- <-. rsplit; auto; [lia|]. intro HR. inversion HR as [|? ? [cs X] _]. congruence.
      + injection H as <- <-. rsplit; auto; [lia|]. intro HR. inversion HR as [|? ? [cs X] _]. congruence.
  Qed.

  Lemma write_cd_footer_fl fs c d d' r : dfloor d -> write_cd_footer fs c d = (d', r) ->
    dfloor d' /\ (forall cs, r = Ok cs -> cs = d_pos d /\ d_pos d <= d_pos d') /\ (Forall renders fs -> exists cs, r = Ok cs).
  Proof.
    intros Hd H. unfold write_cd_footer in H.
    destruct (dev_pos_fl d Hd) as (d1 & E1 & Hd1 & Hp1 & _). rewrite E1 in H.
    destruct (write_central_all d1 fs) as [d2 r2] eqn:E2. destruct (write_central_all_fl _ _ _ _ Hd1 E2) as (Hd2 & Hp2 & Hr2).
    destruct r2 as [u2|e2|p2].
    2,3: injection H as <- <-; rsplit; auto; [discriminate|intro HR; specialize (Hr2 HR); discriminate].
    destruct (dev_pos_fl d2 Hd2) as (d3 & E3 & Hd3 & Hp3 & _). rewrite E3 in H.
    replace (d_pos d2 <? d_pos d) with false in H by (symmetry; apply N.ltb_ge; lia).
    match type of H with (match dev_write_chunks d3 ?cs with _ => _ end) = _ =>
      destruct (dev_write_chunks_fl cs d3 Hd3) as (d4 & E4 & Hd4 & Hp4) end.
    rewrite E4 in H. injection H as <- <-. rsplit; auto.
    - intros cs X. injection X as <-. split; [reflexivity|lia].
    - intros _. eexists; reflexivity.
  Qed.

  Lemma finalize_fl s s' r : FG s -> finalize enc crc s = (s', r) ->
    Floor0 s' /\ match r with Ok _ => True | _ => guard s' end.
  Proof.
    intros [HF HG] H. unfold finalize in H.
    destruct (65535 <? len (ws_comment s)); [injection H as <- <-; auto|].
    destruct (finish_file enc crc s) as [s1 r1] eqn:E1.
    destruct (finish_file_fl s s1 r1 HF HG E1) as (HF1 & Hp1).
    destruct r1 as [u1|e1|p1]; [|injection H as <- <-; auto..].
    destruct Hp1 as ([d1 Hin1] & Hx1 & Hraw1 & Hfiles).
    assert (Hop1 : open_plain (ws_inner s1) = true) by (rewrite Hin1; reflexivity).
    match type of H with with_plain s1 ?k = _ => set (K := k) in * end.
    destruct (with_plain_fl s1 K Hop1 (fl_dev s1 HF1)) as (d & Hd & Hdv & Hk).
    rewrite Hin1 in Hdv. injection Hdv as <-.
    destruct (K d1) as [d' rk] eqn:EK.
    assert (PK : dfloor d' /\ (Forall renders (ws_files s1) -> rk = Ok tt)).
    { unfold K in EK.
      destruct (write_cd_footer (ws_files s1) (ws_comment s1) d1) as [da ra] eqn:Ea.
      destruct (write_cd_footer_fl _ _ _ _ _ Hd Ea) as (Hda & Hca & Hra).
      destruct ra as [cstart|ea|pa].
      2,3: injection EK as <- <-; split; auto; intro HR; destruct (Hra HR); discriminate.
      destruct (Hca cstart eq_refl) as [-> Hpa].
      destruct (dev_pos_fl da Hda) as (db & Eb & Hdb & Hpb & Hbb). rewrite Eb in EK.
      destruct (dev_seek_end_fl db Hdb) as (dc & Ec & Hdc & Hpc). rewrite Ec in EK.
      pose proof (df_pos d1 Hd) as Hfloor.
      destruct (d_pos da <? len (d_buf db)) eqn:Elt; [|injection EK as <- <-; auto].
      apply N.ltb_lt in Elt.
      replace (d_pos da <? d_pos d1) with false in EK by (symmetry; apply N.ltb_ge; lia).
      destruct (dev_seek_fl dc (len (d_buf db) - (d_pos da - d_pos d1)) Hdc) as (dd & Ed & Hdd & _); [lia|]. rewrite Ed in EK.
      destruct (write_cd_footer (ws_files s1) (ws_comment s1) dd) as [de re] eqn:Ee.
      destruct (write_cd_footer_fl _ _ _ _ _ Hdd Ee) as (Hde & _ & Hre).
      destruct re as [ce|ee|pe]; injection EK as <- <-; split; auto; intro HR; destruct (Hre HR); discriminate. }
    destruct PK as [Hd' Hrk].
    destruct (Hk d' rk eq_refl) as (i' & E' & Hdev' & _ & _). rewrite E' in H. injection H as <- <-.
    split; [apply floor0_set_inner; [exact HF1|exact (ifloor_of _ _ Hdev' Hd')]|].
    destruct rk as [u|e|p]; [exact I|..].
    - destruct Hfiles as [Hn|Hf0]; [left; exact Hn|]. rewrite Hf0 in Hrk. specialize (Hrk HF0). discriminate.
    - destruct Hfiles as [Hn|Hf0]; [left; exact Hn|]. rewrite Hf0 in Hrk. specialize (Hrk HF0). discriminate.
  Qed.

  Lemma ifloor_drop i : ifloor i -> ifloor (drop_inner enc i).
  Proof.
    intro H. destruct i as [l|d|d b k|m lvl d [e|] pending]; cbn [drop_inner]; try exact H.
    destruct m; try exact H; unfold ifloor in *; cbn [dev_of] in *;
      match goal with |- context [dev_write_all d ?x] => destruct (dev_write_all_fl d x H) as (d' & -> & Hd' & _) end; exact Hd'.
  Qed.
  Lemma drop_inner_closed i : is_closed (drop_inner enc i) = true.
  Proof. destruct i as [l|d|d b k|m lvl d [e|] pending]; try reflexivity. destruct m; reflexivity. Qed.

  Lemma finish_fl s s' r : FG s -> finish enc crc s = (s', r) -> FG s'.
  Proof.
    intros HFG H. unfold finish in H. destruct (finalize enc crc s) as [s1 r1] eqn:E1.
    destruct (finalize_fl _ _ _ HFG E1) as (HF1 & Hp1).
    destruct r1 as [u|e|p]; [|injection H as <- <-; split; auto..].
    destruct (ws_inner s1) as [l|d|? ? ?|? ? ? ? ?] eqn:Ein; injection H as <- <-; try (split; [exact HF1|right; left; now rewrite Ein]).
    - split; [|right; left; reflexivity]. apply floor0_set_inner; auto. pose proof (fl_dev _ HF1) as A. now rewrite Ein in A.
    - split; [exact HF1|]. (* an open non-storer after a successful finalize: cannot happen, but the guard is not needed to be exact *)
      destruct (finalize_fl _ _ _ HFG E1) as (_ & _). right. left.
      (* finalize returned Ok: finish_file returned Ok, so the writer is a storer *)
      exfalso. unfold finalize in E1. destruct (65535 <? len (ws_comment s)); [discriminate|].
      destruct (finish_file enc crc s) as [sa ra] eqn:Ea. destruct HFG as [A B].
      destruct (finish_file_fl _ _ _ A B Ea) as (HFa & Hpa). destruct ra; try (injection E1 as <- X; discriminate).
      destruct Hpa as ([da Hda] & _). unfold with_plain in E1. rewrite Hda in E1.
      match type of E1 with (let (_, _) := ?X in _) = _ => destruct X end. injection E1 as <- _. cbn in Ein. discriminate.
    - split; [exact HF1|]. exfalso. unfold finalize in E1. destruct (65535 <? len (ws_comment s)); [discriminate|].
      destruct (finish_file enc crc s) as [sa ra] eqn:Ea. destruct HFG as [A B].
      destruct (finish_file_fl _ _ _ A B Ea) as (HFa & Hpa). destruct ra; try (injection E1 as <- X; discriminate).
      destruct Hpa as ([da Hda] & _). unfold with_plain in E1. rewrite Hda in E1.
      match type of E1 with (let (_, _) := ?X in _) = _ => destruct X end. injection E1 as <- _. cbn in Ein. discriminate.
  Qed.

  Lemma drop_fl s s' r : FG s -> drop_writer enc crc s = (s', r) -> FG s'.
  Proof.
    intros HFG H. unfold drop_writer in H.
    destruct (is_closed (ws_inner s)) eqn:Ecl.
    { destruct (ws_inner s); try discriminate Ecl. injection H as <- _. exact HFG. }
    assert (H' : match finalize enc crc s with
           | (s1, Panic p) => (s1, Panic p)
           | (s1, _) => (set_inner s1 (drop_inner enc (ws_inner s1)), Ok tt)
           end = (s', r)) by (destruct (ws_inner s); try discriminate Ecl; exact H).
    clear H. destruct (finalize enc crc s) as [s1 r1] eqn:E1. destruct (finalize_fl _ _ _ HFG E1) as (HF1 & Hp1).
    assert (FGd : FG (set_inner s1 (drop_inner enc (ws_inner s1)))).
    { split; [apply floor0_set_inner; [exact HF1|apply ifloor_drop; exact (fl_dev _ HF1)]|]. right. left. apply drop_inner_closed. }
    destruct r1 as [u|e|p]; injection H' as <- _; auto. split; auto.
  Qed.

  (* ---------- every call, every program *)
  Lemma do_call_fl s c s' r : FG s -> valid_call c -> do_call enc crc s c = (s', r) -> FG s'.
  Proof.
    intros HFG Hv H. destruct c; cbn [do_call valid_call] in *.
    - destruct (start_file enc crc s name o) as [s1 r1] eqn:E. injection H as <- _. exact (start_file_fl _ _ _ _ _ HFG Hv E).
    - destruct (zw_write_all s data) as [s1 r1] eqn:E. injection H as <- _. destruct HFG as [A B].
      destruct (zw_write_all_fl _ _ _ _ A B E) as (A1 & B1 & _). split; auto.
    - destruct (start_file_with_extra_data enc crc s name o) as [s1 r1] eqn:E. injection H as <- _.
      exact (proj1 (start_extra_fl _ _ _ _ _ HFG Hv E)).
    - destruct (start_file_aligned enc crc s name o align) as [s1 r1] eqn:E. injection H as <- _.
      exact (start_aligned_fl _ _ _ _ _ _ HFG Hv E).
    - destruct (end_local_start_central enc s) as [s1 r1] eqn:E. injection H as <- _. exact (end_local_fl _ _ _ HFG E).
    - destruct (end_extra_data enc s) as [s1 r1] eqn:E. injection H as <- _. exact (end_extra_FG _ _ _ HFG E).
    - destruct (add_directory enc crc s name o) as [s1 r1] eqn:E. injection H as <- _. exact (add_directory_fl _ _ _ _ _ HFG Hv E).
    - destruct (add_symlink enc crc s name target o) as [s1 r1] eqn:E. injection H as <- _. exact (add_symlink_fl _ _ _ _ _ _ HFG Hv E).
    - injection H as <- _. destruct HFG as [[A B] G]. split; [constructor; cbn; auto|].
      destruct G as [G|[G|G]]; [left; exact G|right; left; exact G|right; right; exact G].
    - destruct (raw_copy enc crc s src raw name) as [s1 r1] eqn:E. injection H as <- _. exact (raw_copy_fl _ _ _ _ _ _ HFG Hv E).
    - destruct (finish enc crc s) as [s1 r1] eqn:E. injection H as <- _. exact (finish_fl _ _ _ HFG E).
    - destruct (drop_writer enc crc s) as [s1 r1] eqn:E. injection H as <- _. exact (drop_fl _ _ _ HFG E).
  Qed.

  Lemma run_calls_fl : forall cs s s' rs, FG s -> Forall valid_call cs -> run_calls enc crc s cs = (s', rs) -> FG s'.
  Proof.
    induction cs as [|c cs IH]; intros s s' rs HFG Hv H; cbn [run_calls] in H.
    - now injection H as <- _.
    - destruct (do_call enc crc s c) as [s1 r1] eqn:E1. destruct (run_calls enc crc s1 cs) as [s2 rs2] eqn:E2.
      injection H as <- _. inversion Hv as [|? ? Hc Hcs]. subst. eapply IH; [|exact Hcs|exact E2]. exact (do_call_fl _ _ _ _ HFG Hc E1).
  Qed.

  Lemma FG_sink s : FG s -> match sink_bytes s with Some b => take ds b = old | None => True end.
  Proof.
    intros [[A _] _]. unfold sink_bytes, ifloor in *. destruct (dev_of (ws_inner s)) as [d|]; [exact (df_old d A)|exact I].
  Qed.
  End W.
End Floor.

(* ---------- the state new_append establishes satisfies the invariant *)
Lemma last_sig_le tl : forall off limit sig best p, last_sig tl off limit sig best = Some p -> best = Some p \/ p <= limit.
Proof.
  induction tl as [|b r IH]; intros off limit sig best p H; cbn [last_sig] in H; [now left|].
  apply IH in H. destruct H as [H|H]; [|now right].
  destruct ((off <=? limit) && starts_with_sig (b :: r) sig) eqn:E; [|now left].
  injection H as <-. right. apply Bool.andb_true_iff in E. destruct E as [E _]. now apply N.leb_le in E.
Qed.

Lemma find_eocd_pos data e cde : find_eocd data = Ok (e, cde) -> cde <= len data.
Proof.
  unfold find_eocd. destruct (len data <? 22); [discriminate|].
  destruct (last_sig _ _ _ _ _) as [pos|] eqn:E; [|discriminate].
  apply last_sig_le in E. destruct E as [E|E]; [discriminate|].
  destruct (parse_eocd data pos) as [e'| |]; cbn [bind]; try discriminate. intro H. injection H as _ <-. lia.
Qed.

Theorem old_bytes_preserved enc crc data plan s calls s' rs :
  new_append data plan = Ok s -> nofail plan -> Forall renders (ws_files s) -> Forall valid_call calls ->
  run_calls enc crc s calls = (s', rs) ->
  forall d, ws_inner s = WStorer d ->
  match sink_bytes s' with Some b => take (d_pos d) b = take (d_pos d) data | None => True end.
Proof.
  intros Hna Hnf Hren Hv Hrun d Hin.
  destruct (new_append_state data plan s Hna) as (e & cde & ao & dstart & n & files & Hfe & _ & _ & Hle & Hin' & Hfs & _ & Hraw & _ & Hx).
  rewrite Hin' in Hin. injection Hin as <-. cbn [d_pos].
  pose proof (find_eocd_pos _ _ _ Hfe) as Hcde.
  assert (Hold : len (take dstart data) = dstart) by (rewrite len_take; lia).
  assert (HFG : FG dstart (take dstart data) (ws_files s) s).
  { split.
    - constructor; [|rewrite Hx; discriminate]. unfold ifloor. rewrite Hin'. cbn [dev_of].
      constructor; cbn [d_pos d_buf d_plan]; [lia|reflexivity|exact Hnf].
    - right. right. unfold pristine. rewrite Hin'. repeat split; eauto. }
  pose proof (run_calls_fl dstart (take dstart data) Hold (ws_files s) Hren enc crc calls s s' rs HFG Hv Hrun) as HFG'.
  exact (FG_sink dstart (take dstart data) (ws_files s) s' HFG').
Qed.
