(* Proofs/EntryRead.v — the reader model on one stored, unencrypted entry laid out as the writer lays it out:
   find_content locates the data behind the local header, and the entry reader (Take + Crc32Reader behind
   ZipFile::read) denotes exactly the payload when the recorded CRC matches.  With complete_run (C09) this is:
   every completed read, under every schedule of buffer sizes, returns the payload. *)
From Coq Require Import ZArith.
From ZipV Require Import Base.Bytes Base.Outcome Gen.GenLib Gen.SpecGen Gen.CompressionGen Gen.TypesGen
     Model.Readers Model.Reader Proofs.StreamProofs Proofs.Zip64Proofs Proofs.CentralRoundtrip.
Open Scope N_scope.

(* the 30 fixed bytes of a local header, as far as the reader looks at them: signature, 22 bytes it skips, the two lengths *)
Definition local_fixed_ok (lh : bytes) (nl el : N) : Prop :=
  exists mid, len mid = 22 /\ lh = le 4 LOCAL_FILE_HEADER_SIGNATURE ++ mid ++ le 2 nl ++ le 2 el.

Lemma find_content_rendered front lh name extra payload rest g :
  local_fixed_ok lh (len name) (len extra) -> len name <= 65535 -> len extra <= 65535 ->
  f_header_start g = len front -> len front + 30 + len name + len extra < 2 ^ 64 ->
  find_content (front ++ lh ++ name ++ extra ++ payload ++ rest) g =
    Ok (len front + 30 + len name + len extra,
        {| t_inner := {| s_data := payload ++ rest; s_plan := [] |}; t_limit := f_csize g |}).
Proof.
  intros (mid & Hm & ->) Hn He Hhs Hfit. unfold find_content. rewrite Hhs.
  set (data := front ++ (le 4 LOCAL_FILE_HEADER_SIGNATURE ++ mid ++ le 2 (len name) ++ le 2 (len extra)) ++ name ++ extra ++ payload ++ rest).
  assert (R1 : u32_at data (len front) = Ok LOCAL_FILE_HEADER_SIGNATURE).
  { unfold u32_at, data. rewrite <- !app_assoc. rewrite <- (N.add_0_r (len front)), rd_skip. rewrite rd_head_le. cbn [bind].
    rewrite unle_le4 by (unfold LOCAL_FILE_HEADER_SIGNATURE; lia). reflexivity. }
  assert (R2 : u16_at data (len front + 26) = Ok (len name)).
  { unfold u16_at, data. rewrite <- !app_assoc. rewrite rd_skip.
    change 26 with (N.of_nat 4 + 22). rewrite rd_skip_le. rewrite <- Hm at 1. rewrite <- (N.add_0_r (len mid)), rd_skip.
    rewrite rd_head_le. cbn [bind]. rewrite unle_le2 by lia. reflexivity. }
  assert (R3 : u16_at data (len front + 28) = Ok (len extra)).
  { unfold u16_at, data. rewrite <- !app_assoc. rewrite rd_skip.
    change 28 with (N.of_nat 4 + 24). rewrite rd_skip_le. replace 24 with (len mid + 2) by lia. rewrite rd_skip.
    change 2 with (N.of_nat 2 + 0) at 1. rewrite rd_skip_le. rewrite rd_head_le. cbn [bind]. rewrite unle_le2 by lia. reflexivity. }
  rewrite R1. cbn [bind]. rewrite N.eqb_refl. cbn [negb]. rewrite R2, R3. cbn [bind].
  unfold add_chk, fits. assert ((len front + 30 + len name + len extra <? 2 ^ 64) = true) as -> by (apply N.ltb_lt; exact Hfit).
  cbn [of_opt bind]. do 4 f_equal.
  subst data.
  replace (front ++ (le 4 LOCAL_FILE_HEADER_SIGNATURE ++ mid ++ le 2 (len name) ++ le 2 (len extra)) ++ name ++ extra ++ payload ++ rest)
    with ((front ++ (le 4 LOCAL_FILE_HEADER_SIGNATURE ++ mid ++ le 2 (len name) ++ le 2 (len extra)) ++ name ++ extra) ++ payload ++ rest)
    by (rewrite <- !app_assoc; reflexivity).
  replace (len front + 30 + len name + len extra)
    with (len (front ++ (le 4 LOCAL_FILE_HEADER_SIGNATURE ++ mid ++ le 2 (len name) ++ le 2 (len extra)) ++ name ++ extra))
    by (rewrite !len_app, !len_le, Hm; cbn [N.of_nat Pos.of_succ_nat Pos.succ]; lia).
  apply drop_app_exact.
Qed.

Section Entry.
  Variable kdf : bytes -> bytes -> N -> bytes.
  Variable blk : bytes -> bytes -> bytes.
  Variable mac : bytes -> bytes -> bytes.
  Variable crc : bytes -> N.

  (* the plain arm of the crypto layer is Take over the source *)
  Definition plain_inv (c : crypto) : Prop := exists s, c = CPlain s /\ plan_ok (s_plan (t_inner s)).
  Definition plain_den (c : crypto) : den :=
    match c with CPlain s => take_den (fun x : src => Good (s_data x)) s | _ => Bad end.

  Lemma plain_streams : streams (crypto_read blk mac) plain_inv plain_den.
  Proof.
    intros c n (s & -> & Hp). cbn [crypto_read plain_den].
    pose proof (take_streams src_read (fun s => plan_ok (s_plan s)) (fun s => Good (s_data s)) src_streams
                  (fun s _ => ex_intro _ (s_data s) eq_refl) s n Hp) as H.
    unfold step_ok in *. unfold tsrc_read. destruct (take_read src_read s n) as [[bs s']|e|p]; cbn [bind].
    - destruct H as (Hi & Hl & Hd). split; [exists s'; auto|]. split; [exact Hl|]. exact Hd.
    - exact H.
    - exact H.
  Qed.

  Lemma stored_streams : streams (stored_read blk mac crc) (fun s => plain_inv (k_inner s)) (crc_den crc plain_den).
  Proof. exact (crc_streams crc (crypto_read blk mac) plain_inv plain_den plain_streams). Qed.

  Lemma zipfile_streams : streams (zipfile_read blk mac crc) (fun s => plain_inv (k_inner s)) (crc_den crc plain_den).
  Proof.
    intros s n Hi. unfold zipfile_read. destruct (n =? 0) eqn:En; [|exact (stored_streams s n Hi)].
    apply N.eqb_eq in En. subst n. unfold step_ok. split; [exact Hi|]. split; [unfold len; cbn; lia|].
    destruct (crc_den crc plain_den s) as [d|]; [exists d; repeat split; auto; lia|split; [reflexivity|lia]].
  Qed.

  (* a stored, unencrypted entry whose record points at its local header: opening it by index yields a reader that
     denotes the payload, provided the recorded CRC is the payload's *)
  Theorem stored_entry_denotes ar i g front lh name extra payload rest :
    ar_data ar = front ++ lh ++ name ++ extra ++ payload ++ rest ->
    nth_error (ar_files ar) (N.to_nat i) = Some g ->
    f_encrypted g = false -> f_aes g = None -> f_method g = CompressionMethod_Stored ->
    local_fixed_ok lh (len name) (len extra) -> len name <= 65535 -> len extra <= 65535 ->
    f_header_start g = len front -> len front + 30 + len name + len extra < 2 ^ 64 ->
    f_csize g = len payload -> f_crc g = crc payload ->
    exists c, by_index_opt kdf ar i None = Ok (Some (g, len front + 30 + len name + len extra, c)) /\
              plain_inv c /\ crc_den crc plain_den (make_stored g c) = Good payload.
  Proof.
    intros Hdata Hnth Henc Haes Hm Hlh Hn He Hhs Hfit Hcs Hcrc.
    unfold by_index_opt. rewrite Hnth, Henc. cbn [opt_is_none andb].
    rewrite Hdata, (find_content_rendered front lh name extra payload rest g Hlh Hn He Hhs Hfit). cbn [bind].
    unfold make_crypto_reader. rewrite Hm. cbn [is_unsupported]. rewrite Haes. cbn [bind].
    eexists. split; [reflexivity|]. split.
    - eexists. split; [reflexivity|]. constructor.
    - unfold crc_den, make_stored. cbn [k_inner k_seen k_check k_ae2 plain_den ae2_of].
      unfold take_den. cbn [t_limit t_inner s_data]. rewrite Hcs.
      destruct (len payload =? 0) eqn:E0.
      + apply N.eqb_eq in E0. assert (payload = []) as -> by (destruct payload; [reflexivity|unfold len in E0; cbn [length] in E0; lia]).
        cbn [app orb]. rewrite Hcrc, N.eqb_refl. reflexivity.
      + rewrite take_app_exact. cbn [app orb]. rewrite Hcrc, N.eqb_refl. reflexivity.
  Qed.
End Entry.
