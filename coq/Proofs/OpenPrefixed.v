(* Proofs/OpenPrefixed.v — C03 / C13: data prepended to an archive (self-extractor stubs, concatenation): the reader
   measures the shift from where it found the end record and applies it to every recorded offset. *)
From Coq Require Import ZArith.
From ZipV Require Import Base.Bytes Base.Outcome Gen.GenLib Gen.SpecGen Gen.CompressionGen Gen.TypesGen Gen.WriteGen
     Spec.Utf8 Model.Cp437 Model.Readers Model.Reader Model.Writer Proofs.Zip64Proofs Proofs.CentralRoundtrip Proofs.OpenRendered.
Open Scope N_scope.

Definition rendered_at (ao : N) (f : wfile) (cs : list bytes) : Prop := wf_central f ao /\ central_header_chunks f = Ok cs.

Inductive decoded_list_at (ao : N) : list wfile -> list (list bytes) -> N -> list zfd -> Prop :=
| DLAnil pos : decoded_list_at ao [] [] pos []
| DLAcons f cs fs css pos dt gs :
    (exists d, DateTime_datepart (w_time f) = Some d /\ DateTime_from_msdos d (DateTime_timepart (w_time f)) = Some dt) ->
    decoded_list_at ao fs css (pos + len (concat cs)) gs ->
    decoded_list_at ao (f :: fs) (cs :: css) pos (decoded f dt ao pos :: gs).

Lemma parse_cd_rendered_at ao : forall files css, Forall2 (rendered_at ao) files css ->
  forall pre post fuel, (length files <= fuel)%nat ->
  exists gs, parse_cd fuel (pre ++ concat (map (@concat byte) css) ++ post) (N.of_nat (length files)) (len pre) ao = Ok gs /\
             decoded_list_at ao files css (len pre) gs.
Proof.
  induction 1 as [|f cs fs css [W Hcs] HF IH]; intros pre post fuel Hf.
  - exists []. split; [|constructor]. destruct fuel; reflexivity.
  - destruct fuel as [|fu]; [cbn [length] in Hf; lia|].
    cbn [length map concat]. cbn [parse_cd].
    assert ((N.of_nat (S (length fs)) =? 0) = false) as -> by (apply N.eqb_neq; lia).
    rewrite <- app_assoc.
    destruct (central_roundtrip f ao cs pre (concat (map (@concat byte) css) ++ post) W Hcs) as (d & dt & Hd & Hdt & Hp).
    rewrite Hp. cbn [bind].
    replace (N.of_nat (S (length fs)) - 1) with (N.of_nat (length fs)) by lia.
    destruct (IH (pre ++ concat cs) post fu) as (gs & Hgs & Hdl); [cbn [length] in Hf; lia|].
    rewrite <- app_assoc in Hgs. rewrite len_app in Hgs, Hdl. rewrite Hgs. cbn [bind].
    eexists. split; [reflexivity|]. econstructor; [exists d; auto|exact Hdl].
Qed.

(* without ZIP64 records the shift is  end-record position - directory size - recorded directory offset *)
Lemma counts_small_prefix pre n sz cs comment ao :
  len pre = ao + cs + sz -> needs64 n sz cs = false -> len comment <= 65535 -> no_locator_before pre ->
  forall e, parse_eocd (pre ++ eocd_bytes n sz cs comment) (len pre) = Ok e ->
  get_directory_counts (pre ++ eocd_bytes n sz cs comment) e (len pre) = Ok (ao, cs + ao, n).
Proof.
  intros Hlen Hn Hc Hloc e He. rewrite parse_eocd_rendered in He by exact Hc. injection He as <-.
  unfold needs64 in Hn. apply Bool.orb_false_iff in Hn. destruct Hn as [Hn1 Hn2].
  apply N.ltb_ge in Hn1. apply N.ltb_ge in Hn2. unfold ZIP64_ENTRY_THR, ZIP64_BYTES_THR in *.
  unfold get_directory_counts. cbn [e_comment e_cd_size e_cd_off e_n_disk e_disk].
  assert (Hl : len (pre ++ eocd_bytes n sz cs comment) = len pre + 22 + len comment).
  { unfold eocd_bytes. rewrite !len_app, !len_le. cbn [N.of_nat Pos.of_succ_nat Pos.succ]. lia. }
  rewrite Hl.
  replace (20 + 22 + len comment <=? len pre + 22 + len comment) with (20 <=? len pre)
    by (destruct (20 <=? len pre) eqn:E; symmetry; [apply N.leb_le in E; apply N.leb_le|apply N.leb_gt in E; apply N.leb_gt]; lia).
  assert (HX : (if 20 <=? len pre
                then match u32_at (pre ++ eocd_bytes n sz cs comment) (len pre + 22 + len comment - (20 + 22 + len comment)) with
                     | Ok magic => if negb (magic =? ZIP64_CENTRAL_DIRECTORY_END_LOCATOR_SIGNATURE) then Ok None
                                   else let* dc := u32_at (pre ++ eocd_bytes n sz cs comment) (len pre + 22 + len comment - (20 + 22 + len comment) + 4) in
                                        let* off := u64_at (pre ++ eocd_bytes n sz cs comment) (len pre + 22 + len comment - (20 + 22 + len comment) + 8) in
                                        let* nd := u32_at (pre ++ eocd_bytes n sz cs comment) (len pre + 22 + len comment - (20 + 22 + len comment) + 16) in
                                        Ok (Some {| l_disk_cd := dc; l_off := off; l_disks := nd |})
                     | Err e0 => Err e0 | Panic p => Panic p end
                else Ok None) = Ok (@None z64loc)).
  { destruct (20 <=? len pre) eqn:E; [|reflexivity].
    apply N.leb_le in E.
    replace (len pre + 22 + len comment - (20 + 22 + len comment)) with (len pre - 20) by lia.
    unfold u32_at at 1. rewrite rd_in_prefix by lia.
    specialize (Hloc E). unfold u32_at in Hloc.
    destruct (rd_at pre (len pre - 20) 4) as [b| |] eqn:Er.
    - cbn [bind] in *. destruct (unle b =? ZIP64_CENTRAL_DIRECTORY_END_LOCATOR_SIGNATURE) eqn:Em; [|reflexivity].
      apply N.eqb_eq in Em. rewrite Em in Hloc. congruence.
    - unfold rd_at in Er. assert ((len pre - 20 + 4 <=? len pre) = true) as Hb by (apply N.leb_le; lia). rewrite Hb in Er. discriminate.
    - unfold rd_at in Er. destruct (len pre - 20 + 4 <=? len pre); discriminate. }
  rewrite HX. cbn [bind].
  rewrite !N.min_l by lia.
  assert ((sz + cs <=? len pre) = true) as -> by (apply N.leb_le; lia).
  do 2 f_equal. f_equal; lia.
Qed.

(* an archive (front ++ directory ++ plain end record) behind [junk] bytes: open reports the shift and shifted offsets *)
Theorem open_prefixed junk front files css comment gs :
  Forall2 (rendered_at (len junk)) files css ->
  let dir := concat (map (@concat byte) css) in
  let n := N.of_nat (length files) in
  needs64 n (len dir) (len front) = false -> len comment <= 65535 ->
  no_locator_before (junk ++ front ++ dir) ->
  no_later_sig n (len dir) (len front) comment ->
  decoded_list_at (len junk) files css (len junk + len front) gs ->
  exists data, data = junk ++ front ++ dir ++ eocd_bytes n (len dir) (len front) comment /\
    open data = Ok {| ar_data := data; ar_files := gs; ar_offset := len junk; ar_comment := comment |}.
Proof.
  intros HF dir n Hn64 Hc Hloc Hlater Hdl.
  eexists. split; [reflexivity|].
  unfold open.
  replace (junk ++ front ++ dir ++ eocd_bytes n (len dir) (len front) comment)
    with ((junk ++ front ++ dir) ++ eocd_bytes n (len dir) (len front) comment) by (rewrite <- !app_assoc; reflexivity).
  rewrite find_eocd_rendered by assumption. cbn [bind e_disk e_disk_cd].
  rewrite N.eqb_refl. cbn [negb]. rewrite Bool.andb_false_r.
  rewrite (counts_small_prefix (junk ++ front ++ dir) n (len dir) (len front) comment (len junk)); try assumption.
  2:{ rewrite !len_app. lia. }
  2:{ apply parse_eocd_rendered. exact Hc. }
  cbn [bind].
  replace ((junk ++ front ++ dir) ++ eocd_bytes n (len dir) (len front) comment)
    with ((junk ++ front) ++ dir ++ eocd_bytes n (len dir) (len front) comment) by (rewrite <- !app_assoc; reflexivity).
  destruct (parse_cd_rendered_at (len junk) files css HF (junk ++ front) (eocd_bytes n (len dir) (len front) comment)
              (S (length ((junk ++ front) ++ dir ++ eocd_bytes n (len dir) (len front) comment)))) as (gs' & Hgs & Hdl').
  { assert (X : N.of_nat (length files) <= len dir).
    { clear - HF. subst dir. induction HF as [|f cs fs css [W Hch] HF IH]; cbn [length map concat]; [unfold len; cbn; lia|].
      rewrite len_app. destruct (central_chunks_flat f cs Hch) as (d & _ & _ & E). rewrite E, len_app, len_central_fixed. lia. }
    rewrite !app_length. unfold len in X. lia. }
  fold dir in Hgs. fold n in Hgs. rewrite len_app in Hgs, Hdl'.
  replace (len front + len junk) with (len junk + len front) by lia. rewrite Hgs. cbn [bind].
  assert (gs' = gs).
  { clear - Hdl Hdl'. revert gs' Hdl'. induction Hdl; intros gs' H'; inversion H'; subst; [reflexivity|].
    f_equal.
    - match goal with H1 : exists d, _ /\ DateTime_from_msdos d _ = Some dt, H2 : exists d, _ /\ DateTime_from_msdos d _ = Some ?dt' |- _ =>
        destruct H1 as (d1 & A1 & B1); destruct H2 as (d2 & A2 & B2); rewrite A1 in A2; injection A2 as <-; rewrite B1 in B2; injection B2 as <- end.
      reflexivity.
    - apply IHHdl. assumption. }
  subst gs'. reflexivity.
Qed.
