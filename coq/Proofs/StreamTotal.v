(* Proofs/StreamTotal.v — C05 for the remaining reader entry points: the streaming reader
   (read_zipfile_from_stream in a loop), the visitor (files, then directory metadata) and open-for-append never
   panic and never run out of fuel, for every byte string. *)
From Coq Require Import ZArith.
From ZipV Require Import Base.Bytes Base.Outcome Gen.GenLib Gen.SpecGen Gen.CompressionGen Gen.TypesGen
     Model.Cp437 Model.Readers Model.Reader Model.Stream Model.Writer Proofs.DosProofs Proofs.ReaderTotal.
Open Scope N_scope.

Lemma stream_next_np data pos : no_panic (stream_next data pos).
Proof.
  unfold stream_next.
  apply no_panic_bind; [auto with np|intros sig Hs].
  destruct (sig =? CENTRAL_DIRECTORY_HEADER_SIGNATURE); [apply no_panic_ok|].
  destruct (negb (sig =? LOCAL_FILE_HEADER_SIGNATURE)); [apply no_panic_err|].
  repeat (apply no_panic_bind; [auto with np|intros ? ?]).
  - match goal with
    | Ht : u16_at data (pos + 10) = Ok ?t, Hd : u16_at data (pos + 12) = Ok ?d |- _ =>
        apply u16_at_ok in Ht as [_ Ht]; apply u16_at_ok in Hd as [_ Hd];
        destruct (from_msdos_some d t Hd Ht) as [dt Edt]; rewrite Edt
    end.
    apply no_panic_ok.
  - match goal with |- context [parse_extra_field ?f0] =>
      pose proof (parse_extra_field_np f0) as Hx; destruct (parse_extra_field f0) as [f1 r] end.
    cbn [snd] in Hx.
    apply no_panic_bind.
    + destruct r as [u|e|p]; [apply no_panic_ok|destruct (is_io e); [apply no_panic_ok|apply no_panic_err]|exfalso; now apply (Hx p)].
    + intros ? _. np.
Qed.

(* a produced handle lies inside the input and behind its header *)
Lemma stream_next_adv data pos e : stream_next data pos = Ok (SFile e) ->
  pos + 30 <= se_data_start e /\ se_data_start e <= len data.
Proof.
  unfold stream_next. intro H.
  destruct (u32_at data pos) as [sig| |]; cbn [bind] in H; try discriminate.
  destruct (sig =? CENTRAL_DIRECTORY_HEADER_SIGNATURE); [discriminate|].
  destruct (negb (sig =? LOCAL_FILE_HEADER_SIGNATURE)); [discriminate|].
  repeat match type of H with
         | bind (rd_at data ?p ?k) _ = Ok _ => let E := fresh "Er" in destruct (rd_at data p k) as [?| |] eqn:E; cbn [bind] in H; try discriminate
         | bind ?r _ = Ok _ => destruct r as [?| |]; cbn [bind] in H; try discriminate
         | (let '(_, _) := ?x in _) = Ok _ => destruct x
         | (if ?c then _ else _) = Ok _ => destruct c; try discriminate
         end.
  injection H as <-. cbn [se_data_start].
  match goal with E : rd_at data (pos + 30 + ?nl) ?el = Ok _ |- _ => apply rd_at_ok in E as [E _] end.
  lia.
Qed.

Lemma pos_after_bounds data e : se_data_start e <= len data ->
  se_data_start e <= pos_after data e /\ pos_after data e <= len data.
Proof. intro H. unfold pos_after. lia. Qed.

Theorem stream_entries_np data : forall fuel pos,
  (N.to_nat (len data - pos) < fuel)%nat -> no_panic (snd (stream_entries fuel data pos)).
Proof.
  induction fuel as [|fuel IH]; intros pos Hf; [lia|].
  cbn [stream_entries]. pose proof (stream_next_np data pos) as Hn.
  destruct (stream_next data pos) as [[e|p]|er|p] eqn:E; cbn [snd].
  - apply stream_next_adv in E as [H1 H2]. destruct (pos_after_bounds data e H2) as [H3 H4].
    specialize (IH (pos_after data e)). destruct (stream_entries fuel data (pos_after data e)) as [l r]. cbn [snd] in *.
    apply IH. lia.
  - apply no_panic_ok.
  - apply no_panic_err.
  - exfalso. exact (Hn p eq_refl).
Qed.

(* the metadata phase *)
Lemma parse_central_inner_np data pos : no_panic (parse_central_inner data pos).
Proof.
  unfold parse_central_inner.
  repeat (apply no_panic_bind; [auto with np|intros ? ?]).
  - match goal with
    | Ht : u16_at data (pos + 8) = Ok ?t, Hd : u16_at data (pos + 10) = Ok ?d |- _ =>
        apply u16_at_ok in Ht as [_ Ht]; apply u16_at_ok in Hd as [_ Hd];
        destruct (from_msdos_some d t Hd Ht) as [dt Edt]; rewrite Edt
    end.
    apply no_panic_ok.
  - match goal with |- context [parse_extra_field ?f0] =>
      pose proof (parse_extra_field_np f0) as Hx; destruct (parse_extra_field f0) as [f1 r] end.
    cbn [snd] in Hx.
    apply no_panic_bind.
    + destruct r as [u|e|p]; [apply no_panic_ok|destruct (is_io e); [apply no_panic_ok|apply no_panic_err]|exfalso; now apply (Hx p)].
    + intros ? _. np.
Qed.

Lemma parse_central_inner_adv data pos f pos' : parse_central_inner data pos = Ok (f, pos') -> pos + 42 <= pos' /\ pos' <= len data.
Proof.
  unfold parse_central_inner. intro H.
  repeat match type of H with
         | bind (rd_at data ?p ?k) _ = Ok _ => let E := fresh "Er" in destruct (rd_at data p k) as [?| |] eqn:E; cbn [bind] in H; try discriminate
         | bind ?r _ = Ok _ => destruct r as [?| |]; cbn [bind] in H; try discriminate
         | (let '(_, _) := ?x in _) = Ok _ => destruct x
         | (if ?c then _ else _) = Ok _ => destruct c; try discriminate
         end.
  injection H as _ <-.
  match goal with E : rd_at data (pos + 42 + ?nl + ?el) ?cl = Ok _ |- _ => apply rd_at_ok in E as [E _] end.
  lia.
Qed.

Theorem visit_meta_np data : forall fuel pos,
  (N.to_nat (len data - pos) < fuel)%nat -> no_panic (snd (visit_meta fuel data pos)).
Proof.
  induction fuel as [|fuel IH]; intros pos Hf; [lia|].
  cbn [visit_meta]. pose proof (u32_at_np data pos) as Hu.
  destruct (u32_at data pos) as [sig|e|p] eqn:Es; cbn [snd]; [|apply no_panic_err|exfalso; exact (Hu p eq_refl)].
  destruct (negb (sig =? CENTRAL_DIRECTORY_HEADER_SIGNATURE)); [apply no_panic_ok|].
  pose proof (parse_central_inner_np data (pos + 4)) as Hp.
  destruct (parse_central_inner data (pos + 4)) as [[f p']|e|p] eqn:Ep; cbn [snd]; [|apply no_panic_err|exfalso; exact (Hp p eq_refl)].
  apply parse_central_inner_adv in Ep as [H1 H2].
  specialize (IH p'). destruct (visit_meta fuel data p') as [l r]. cbn [snd] in *. apply IH. lia.
Qed.

Theorem visit_np data : no_panic (snd (visit data)).
Proof.
  unfold visit.
  pose proof (stream_entries_np data (S (length data)) 0) as Hs.
  destruct (stream_entries (S (length data)) data 0) as [files [p|e|q]]; cbn [snd] in *.
  - pose proof (parse_central_inner_np data p) as Hp.
    destruct (parse_central_inner data p) as [[f p']|e|q] eqn:Ep; cbn [snd]; [|apply no_panic_err|exfalso; exact (Hp q eq_refl)].
    apply parse_central_inner_adv in Ep as [H1 H2].
    pose proof (visit_meta_np data (S (length data)) p') as Hm.
    destruct (visit_meta (S (length data)) data p') as [l r]. cbn [snd] in *. apply Hm. unfold len. lia.
  - apply no_panic_err.
  - exfalso. assert (Hlt : (N.to_nat (len data - 0) < S (length data))%nat) by (unfold len; lia). exact (Hs Hlt q eq_refl).
Qed.

(* open-for-append: the same end-record search and directory walk as open *)
Theorem new_append_np data plan : no_panic (new_append data plan).
Proof.
  unfold new_append.
  apply no_panic_bind; [apply find_eocd_np|]. intros [e cde] _.
  destruct (negb (e_disk e =? e_disk_cd e)); [apply no_panic_err|].
  apply no_panic_bind; [apply get_directory_counts_np|]. intros [[ao ds] n] Hc.
  destruct (cde <? ds) eqn:E; [apply no_panic_err|].
  apply no_panic_bind; [|intros; apply no_panic_ok].
  apply parse_cd_np. unfold len. lia.
Qed.
