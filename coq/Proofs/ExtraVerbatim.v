(* Proofs/ExtraVerbatim.v — C17, user extra data: start_file_with_extra_data, write the extra data, end_extra_data on a
   well-behaved sink: the sink holds header ++ name ++ the extra data verbatim, the header's length field counts it,
   and the record kept for the central directory carries the same bytes. *)
From Coq Require Import ZArith.
From ZipV Require Import Base.Bytes Base.Outcome Gen.GenLib Gen.SpecGen Gen.CompressionGen Gen.TypesGen Gen.WriteGen
     Model.Readers Model.Reader Model.Writer Proofs.Zip64Proofs Proofs.WriterIdeal Proofs.WriterEntry Proofs.EntryRead
     Proofs.AlignProofs Proofs.WriterMisuse Proofs.RawCopyRead Proofs.WriterInv Proofs.StoredRoundtrip Proofs.AlignedEntry.
Open Scope N_scope.

Section ExtraVerbatim.
  Variable enc : CompressionMethod -> Z -> bytes -> bytes.
  Variable crc : bytes -> N.

  Theorem extra_data_verbatim s s1 b name o hdr x :
    finish_file enc crc s = (s1, Ok tt) -> ws_inner s1 = WStorer (at_end b) -> ws_central_only s1 = false ->
    len name <= 65535 -> stored_opts o ->
    local_header_chunks (mk_wfile name (with_perm o 420 32768) None (len b)) = Ok hdr ->
    len x <= 65535 -> validate_records (S (length x)) x = Ok tt ->
    exists sA sB sC lh f,
      start_file_with_extra_data enc crc s name o = (sA, Ok (len b + 30 + len name)) /\
      zw_write_all sA x = (sB, Ok tt) /\
      end_extra_data enc sB = (sC, Ok (len b + 30 + len name + len x)) /\
      ws_inner sC = WStorer (at_end (b ++ lh ++ name ++ x)) /\
      local_fixed_ok lh (len name) (len x) /\
      ws_files sC = ws_files s1 ++ [f] /\ w_extra f = x /\ w_name f = name /\
      w_data_start f = len b + 30 + len name + len x /\ w_header_start f = len b /\
      ws_to_extra sC = false.
  Proof.
    intros Hff Hin Hco Hn (Hm & Hlv & He & Hlg) Hh Hxl Hxv.
    set (o' := with_perm o 420 32768) in *. set (f0 := mk_wfile name o' None (len b)) in *.
    destruct (local_chunks_flat f0 hdr) as (d & Hd & Hflat); [exact Hlg|reflexivity|exact Hh|].
    change (lh_head f0 d ++ le 4 (w_crc f0) ++ le 4 (w_csize f0 mod 2 ^ 32) ++ le 4 (w_usize f0 mod 2 ^ 32) ++ lh_tail f0)
      with (lh_bytes f0 d 0 0 0) in Hflat.
    destruct (lh_bytes_shape f0 d 0 0 0) as (lh0 & Hsh & Hok0); [exact Hn|].
    assert (Hnm0 : w_name f0 = name) by reflexivity. rewrite Hnm0 in Hsh, Hok0.
    assert (Hhl : len (concat hdr) = 30 + len name) by (rewrite Hflat, len_lh_bytes; reflexivity).
    set (he := len b + len (concat hdr)).
    set (f := wf_set_data_start f0 he).
    unfold start_file_with_extra_data. fold o'.
    rewrite (start_entry_ideal enc crc s s1 b name o' None hdr Hff Hin Hn He Hh). fold f0. fold he. fold f.
    set (sA := after_header s1 b hdr f0).
    assert (HfA : ws_files sA = ws_files s1 ++ [f]) by reflexivity.
    cbn [set_flags ws_files]. rewrite HfA, last_file_snoc. cbn [w_data_start f wf_set_data_start].
    set (s2 := set_flags sA true true (ws_central_only sA) (ws_raw sA)).
    assert (Hin2 : ws_inner s2 = WStorer (at_end (b ++ lh0 ++ name ++ []))) by (cbn; rewrite Hflat, Hsh; reflexivity).
    assert (Hfm : w_method f = CompressionMethod_Stored) by exact Hm.
    assert (Hfl : w_large f = false) by exact Hlg.
    assert (Hcl2 : is_closed (ws_inner s2) = false) by (rewrite Hin2; reflexivity).
    set (fE := wf_set_extra f x).
    assert (HsB : exists sB, zw_write_all s2 x = (sB, Ok tt) /\ ws_inner sB = ws_inner s2 /\ ws_files sB = ws_files s1 ++ [fE] /\
                             ws_to_extra sB = true /\ ws_central_only sB = false).
    { rewrite (zw_write_all_extra enc crc s2 x eq_refl eq_refl Hcl2). destruct x as [|x0 xs].
      - exists s2. repeat split; auto.
      - eexists. split; [reflexivity|]. cbn [ws_inner ws_files ws_to_extra ws_central_only set_files s2 set_flags].
        rewrite HfA, upd_last_snoc. repeat split; auto. }
    destruct HsB as (sB & HwB & HinB & HfB & HxB & HcoB).
    destruct (end_extra_ideal enc crc sB b lh0 name [] fE HxB HcoB) as (sC & lh1 & Hee & HinC & Hok1 & HfC & _ & HxC & _);
      [rewrite HinB; exact Hin2|exact Hok0|exact Hn|rewrite HfB; apply last_file_snoc|reflexivity
      |cbn; subst he; rewrite Hhl; change (len []) with 0; lia|change (w_large fE) with (w_large f); rewrite Hfl; reflexivity
      | |exact Hfm|exact Hlv|].
    { unfold validate_extra_data. change (w_extra fE) with x. change (w_large fE) with (w_large f). rewrite Hfl.
      assert ((65535 <? len x + 0) = false) as -> by lia. exact Hxv. }
    assert (Hds : w_data_start fE + len (w_extra fE) = len b + 30 + len name + len x).
    { change (w_extra fE) with x. cbn [fE wf_set_extra w_data_start f wf_set_data_start]. subst he. rewrite Hhl. lia. }
    exists s2, sB, sC, lh1, (wf_set_data_start fE (w_data_start fE + len (w_extra fE))).
    split; [f_equal; f_equal; subst he; rewrite Hhl; lia|].
    split; [exact HwB|]. split; [rewrite Hee, Hds; reflexivity|].
    split; [rewrite HinC; reflexivity|]. split; [exact Hok1|].
    split; [rewrite HfC, HfB, upd_last_snoc; reflexivity|].
    split; [reflexivity|]. split; [reflexivity|]. split; [exact Hds|]. split; [reflexivity|exact HxC].
  Qed.
End ExtraVerbatim.
