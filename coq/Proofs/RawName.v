(* Proofs/RawName.v — C19, reader side: the name and the comment of a central record are decoded by the record's own
   language-encoding flag (bit 11), whatever else the record holds, and the raw-name accessor returns the stored bytes. *)
From Coq Require Import ZArith Lia List.
From ZipV Require Import Base.Bytes Base.Outcome Gen.GenLib Gen.SpecGen Gen.CompressionGen Gen.TypesGen
     Model.Cp437 Model.Readers Model.Reader.
Import ListNotations.
Open Scope N_scope.

(* the three text fields of a record *)
Definition texts (f : zfd) : bytes * bytes * bytes := (f_name f, f_name_raw f, f_comment f).

Lemma z64_step_texts ex g p e w : texts (fst (fst (z64_step ex (g, p, e) w))) = texts g.
Proof.
  unfold z64_step. destruct e as [er|]; [reflexivity|].
  destruct ((if w =? 0 then f_usize g else if w =? 1 then f_csize g else f_header_start g) =? ZIP64_BYTES_THR); [|reflexivity].
  destruct (w =? 2), (w =? 0), (w =? 1); destruct (ex_u ex p 8); reflexivity.
Qed.

Lemma z64_fields_texts ex g p : texts (fst (fst (z64_fields ex g p))) = texts g.
Proof.
  unfold z64_fields.
  destruct (z64_step ex (g, p, None) 0) as [[g1 p1] e1] eqn:E1.
  destruct (z64_step ex (g1, p1, e1) 1) as [[g2 p2] e2] eqn:E2.
  rewrite z64_step_texts. change g2 with (fst (fst (g2, p2, e2))). rewrite <- E2, z64_step_texts.
  change g1 with (fst (fst (g1, p1, e1))). rewrite <- E1. apply z64_step_texts.
Qed.

Lemma parse_extra_texts : forall fuel f pos, texts (fst (parse_extra fuel f pos)) = texts f.
Proof.
  induction fuel as [|fu IH]; intros f pos; cbn [parse_extra].
  - destruct (len (f_extra f) <=? pos); reflexivity.
  - destruct (len (f_extra f) <=? pos); [reflexivity|].
    destruct (ex_u (f_extra f) pos 2) as [kind|er|pp]; [|reflexivity|reflexivity].
    destruct (ex_u (f_extra f) (pos + 2) 2) as [flen|er|pp]; [|reflexivity|reflexivity].
    destruct (kind =? 1).
    + pose proof (z64_fields_texts (f_extra f) f (pos + 4)) as Hz.
      destruct (z64_fields (f_extra f) f (pos + 4)) as [[g p] e]. cbn [fst] in Hz.
      destruct e as [er|]; [exact Hz|]. rewrite IH. exact Hz.
    + destruct (kind =? 39169); [|apply IH].
      destruct (negb (flen =? 7)); [reflexivity|].
      destruct (aes_field (f_extra f) (pos + 4)) as [a m|er]; [|reflexivity].
      rewrite IH. reflexivity.
Qed.

Theorem reader_text data pos ao f p' :
  parse_central data pos ao = Ok (f, p') ->
  exists flags nl el cl rawc,
    u16_at data (pos + 8) = Ok flags /\ u16_at data (pos + 28) = Ok nl /\ u16_at data (pos + 30) = Ok el /\
    u16_at data (pos + 32) = Ok cl /\
    rd_at data (pos + 46) nl = Ok (f_name_raw f) /\ rd_at data (pos + 46 + nl + el) cl = Ok rawc /\
    f_name f = decode_text (N.testbit flags 11) (f_name_raw f) /\
    f_comment f = decode_text (N.testbit flags 11) rawc.
Proof.
  unfold parse_central. intro H.
  repeat match type of H with
  | bind ?X _ = Ok _ => let v := fresh "v" in let E := fresh "E" in destruct X as [v| |] eqn:E; cbn [bind] in H; [|discriminate|discriminate]
  | (if ?c then Err _ else _) = Ok _ => destruct c; [discriminate|]
  end.
  match type of H with context [parse_extra_field ?F0] =>
    pose proof (parse_extra_texts (S (N.to_nat (len (f_extra F0)))) F0 0) as Ht;
    fold (parse_extra_field F0) in Ht; destruct (parse_extra_field F0) as [f1 r] eqn:Ep end.
  cbn [fst] in Ht.
  repeat match type of H with
  | bind ?X _ = Ok _ => let v := fresh "v" in destruct X as [v| |]; cbn [bind] in H; [|discriminate|discriminate]
  | (if ?c then Err _ else _) = Ok _ => destruct c; [discriminate|]
  | (if ?c then Ok _ else Err _) = Ok _ => destruct c; [|discriminate]
  end.
  injection H as <- <-.
  unfold texts in Ht. cbn [set_sizes f_name f_name_raw f_comment] in *.
  injection Ht as Hn Hr Hc.
  eexists _, _, _, _, _. repeat split; try eassumption; congruence.
Qed.

(* the same for the streaming reader: the name of a streamed entry is decoded from the LOCAL header's name bytes by the
   local header's own flag bit *)
From ZipV Require Import Model.Stream.
Theorem stream_text data pos e :
  stream_next data pos = Ok (SFile e) ->
  exists flags nl,
    u16_at data (pos + 6) = Ok flags /\ u16_at data (pos + 26) = Ok nl /\
    rd_at data (pos + 30) nl = Ok (f_name_raw (se_file e)) /\
    f_name (se_file e) = decode_text (N.testbit flags 11) (f_name_raw (se_file e)).
Proof.
  unfold stream_next. intro H.
  destruct (u32_at data pos) as [sig| |]; cbn [bind] in H; try discriminate.
  destruct (sig =? CENTRAL_DIRECTORY_HEADER_SIGNATURE); [discriminate|].
  destruct (negb (sig =? LOCAL_FILE_HEADER_SIGNATURE)); [discriminate|].
  repeat match type of H with
  | bind ?X _ = Ok _ => let v := fresh "v" in let E := fresh "E" in destruct X as [v| |] eqn:E; cbn [bind] in H; [|discriminate|discriminate]
  end.
  match type of H with context [parse_extra_field ?F0] =>
    pose proof (parse_extra_texts (S (N.to_nat (len (f_extra F0)))) F0 0) as Ht;
    fold (parse_extra_field F0) in Ht; destruct (parse_extra_field F0) as [f1 r] eqn:Ep end.
  cbn [fst] in Ht.
  repeat match type of H with
  | bind ?X _ = Ok _ => let v := fresh "v" in destruct X as [v| |]; cbn [bind] in H; [|discriminate|discriminate]
  | (if ?c then Err _ else _) = Ok _ => destruct c; [discriminate|]
  end.
  injection H as <-. cbn [se_file].
  unfold texts in Ht. cbn [f_name f_name_raw f_comment] in Ht. injection Ht as Hn Hr Hc.
  eexists _, _. repeat split; try eassumption; congruence.
Qed.
