(* Proofs/VisitMeta.v — C10, the metadata phase of ZipStreamReader::visit: the record the stream reader decodes from a
   central header (central_header_to_zip_file_inner behind an already consumed signature, archive offset 0) is the
   record the seekable reader decodes from the same bytes, up to the two fields that depend on where the archive
   starts (header offset shifted by the archive offset, position of the central record).  Hence the walk over the
   central directory delivers the seekable reader's list, in order, one record per entry. *)
From Coq Require Import ZArith Lia List.
From ZipV Require Import Base.Bytes Base.Outcome Gen.GenLib Gen.SpecGen Gen.CompressionGen Gen.TypesGen
     Model.Readers Model.Reader Model.Stream.
Import ListNotations.
Open Scope N_scope.

(* the same record with another central-record position *)
Definition sc (f : zfd) (c : N) : zfd :=
  {| f_system := f_system f; f_made_by := f_made_by f; f_encrypted := f_encrypted f; f_dd := f_dd f; f_utf8 := f_utf8 f;
     f_method := f_method f; f_time := f_time f; f_crc := f_crc f; f_csize := f_csize f; f_usize := f_usize f;
     f_name := f_name f; f_name_raw := f_name_raw f; f_extra := f_extra f; f_comment := f_comment f;
     f_header_start := f_header_start f; f_central_start := c; f_ext_attr := f_ext_attr f; f_large := f_large f;
     f_aes := f_aes f |}.

Lemma sc_set_sizes g c a b h l : sc (set_sizes g a b h l) c = set_sizes (sc g c) a b h l.  Proof. reflexivity. Qed.
Lemma sc_set_aes g c a m : sc (set_aes g a m) c = set_aes (sc g c) a m.  Proof. reflexivity. Qed.

Lemma z64_step_sc ex g p e w c :
  z64_step ex (sc g c, p, e) w = let '(g', p', e') := z64_step ex (g, p, e) w in (sc g' c, p', e').
Proof.
  unfold z64_step. destruct e as [er|]; [reflexivity|].
  change (f_usize (sc g c)) with (f_usize g). change (f_csize (sc g c)) with (f_csize g).
  change (f_header_start (sc g c)) with (f_header_start g).
  destruct ((if w =? 0 then f_usize g else if w =? 1 then f_csize g else f_header_start g) =? ZIP64_BYTES_THR); [|reflexivity].
  destruct (w =? 2), (w =? 0), (w =? 1); destruct (ex_u ex p 8); reflexivity.
Qed.

Lemma z64_fields_sc ex g p c :
  z64_fields ex (sc g c) p = let '(g', p', e') := z64_fields ex g p in (sc g' c, p', e').
Proof.
  unfold z64_fields. rewrite z64_step_sc.
  destruct (z64_step ex (g, p, None) 0) as [[g1 p1] e1]. rewrite z64_step_sc.
  destruct (z64_step ex (g1, p1, e1) 1) as [[g2 p2] e2]. rewrite z64_step_sc.
  destruct (z64_step ex (g2, p2, e2) 2) as [[g3 p3] e3]. reflexivity.
Qed.

Lemma parse_extra_sc : forall fuel f pos c,
  parse_extra fuel (sc f c) pos = (sc (fst (parse_extra fuel f pos)) c, snd (parse_extra fuel f pos)).
Proof.
  induction fuel as [|fu IH]; intros f pos c.
  - cbn [parse_extra]. change (f_extra (sc f c)) with (f_extra f). destruct (len (f_extra f) <=? pos); reflexivity.
  - cbn [parse_extra]. change (f_extra (sc f c)) with (f_extra f).
    destruct (len (f_extra f) <=? pos); [reflexivity|].
    destruct (ex_u (f_extra f) pos 2) as [kind|er|pp]; [|reflexivity|reflexivity].
    destruct (ex_u (f_extra f) (pos + 2) 2) as [flen|er|pp]; [|reflexivity|reflexivity].
    destruct (kind =? 1).
    + rewrite z64_fields_sc. destruct (z64_fields (f_extra f) f (pos + 4)) as [[g p] e].
      destruct e as [er|]; [reflexivity|]. apply IH.
    + destruct (kind =? 39169); [|apply IH].
      destruct (negb (flen =? 7)); [reflexivity|].
      destruct (aes_field (f_extra f) (pos + 4)) as [a m|er]; [|reflexivity].
      rewrite <- sc_set_aes. apply IH.
Qed.

Lemma parse_extra_field_sc f c :
  parse_extra_field (sc f c) = (sc (fst (parse_extra_field f)) c, snd (parse_extra_field f)).
Proof. unfold parse_extra_field. change (f_extra (sc f c)) with (f_extra f). apply parse_extra_sc. Qed.

Ltac step_read :=
  match goal with
  | |- bind ?X _ = match bind ?X _ with Ok _ => _ | Err _ => _ | Panic _ => _ end =>
      destruct X; cbn [bind]; [|reflexivity|reflexivity]
  end.

(* the seekable reader's record, computed from the stream reader's *)
Lemma parse_central_via_inner data pos ao :
  u32_at data pos = Ok CENTRAL_DIRECTORY_HEADER_SIGNATURE ->
  parse_central data pos ao =
    match parse_central_inner data (pos + 4) with
    | Ok (g, p') =>
        if fits 64 (f_header_start g + ao)
        then Ok (set_sizes (sc g pos) (f_usize g) (f_csize g) (f_header_start g + ao) (f_large g), p')
        else Err (EInvalid MHeaderTooLarge)
    | Err e => Err e
    | Panic p => Panic p
    end.
Proof.
  intro Hs. unfold parse_central, parse_central_inner. rewrite Hs. cbn [bind]. rewrite N.eqb_refl. cbn [negb].
  replace (pos + 4 + 2) with (pos + 6) by lia. replace (pos + 4 + 4) with (pos + 8) by lia.
  replace (pos + 4 + 6) with (pos + 10) by lia. replace (pos + 4 + 8) with (pos + 12) by lia.
  replace (pos + 4 + 10) with (pos + 14) by lia. replace (pos + 4 + 12) with (pos + 16) by lia.
  replace (pos + 4 + 16) with (pos + 20) by lia. replace (pos + 4 + 20) with (pos + 24) by lia.
  replace (pos + 4 + 24) with (pos + 28) by lia. replace (pos + 4 + 26) with (pos + 30) by lia.
  replace (pos + 4 + 28) with (pos + 32) by lia. replace (pos + 4 + 30) with (pos + 34) by lia.
  replace (pos + 4 + 32) with (pos + 36) by lia. replace (pos + 4 + 34) with (pos + 38) by lia.
  replace (pos + 4 + 38) with (pos + 42) by lia. replace (pos + 4 + 42) with (pos + 46) by lia.
  do 20 step_read.
  lazymatch goal with
  | |- context [parse_extra_field (Build_zfd ?a1 ?a2 ?a3 ?a4 ?a5 ?a6 ?a7 ?a8 ?a9 ?a10 ?a11 ?a12 ?a13 ?a14 ?a15 pos ?a17 ?a18 ?a19)] =>
      change (Build_zfd a1 a2 a3 a4 a5 a6 a7 a8 a9 a10 a11 a12 a13 a14 a15 pos a17 a18 a19)
        with (sc (Build_zfd a1 a2 a3 a4 a5 a6 a7 a8 a9 a10 a11 a12 a13 a14 a15 0 a17 a18 a19) pos)
  end.
  rewrite parse_extra_field_sc.
  match goal with |- context [parse_extra_field ?F] => destruct (parse_extra_field F) as [f1 r] end.
  cbn [fst snd].
  destruct r as [u|e|pp]; cbn [bind]; [|destruct (is_io e); cbn [bind]|]; try reflexivity;
    (cbn [sc f_method f_aes f_header_start f_usize f_csize f_large];
     destruct (CompressionMethod_eqb (f_method f1) CompressionMethod_Aes && opt_is_none (f_aes f1)); reflexivity).
Qed.

(* where the seekable reader's walk over n central records ends *)
Fixpoint cd_end (fuel : nat) (data : bytes) (n pos ao : N) : N :=
  if n =? 0 then pos else
  match fuel with
  | O => pos
  | S fuel' => match parse_central data pos ao with Ok (_, p') => cd_end fuel' data (n - 1) p' ao | _ => pos end
  end.

(* the seekable reader's record in terms of the stream reader's: the header offset is shifted by the archive offset
   and the position of the central record is remembered; everything else -- names, comment, sizes, CRC, method, time,
   attributes, system, extra data, ZIP64 and AES information -- is the same *)
Definition seek_of (g : zfd) (cpos ao : N) : zfd :=
  set_sizes (sc g cpos) (f_usize g) (f_csize g) (f_header_start g + ao) (f_large g).

Lemma parse_central_sig data pos ao f p' : parse_central data pos ao = Ok (f, p') ->
  u32_at data pos = Ok CENTRAL_DIRECTORY_HEADER_SIGNATURE.
Proof.
  unfold parse_central. destruct (u32_at data pos) as [sig|e|p]; cbn [bind]; try discriminate.
  destruct (sig =? CENTRAL_DIRECTORY_HEADER_SIGNATURE) eqn:E; cbn [negb]; [|discriminate].
  intros _. apply N.eqb_eq in E. now subst.
Qed.

Theorem visit_meta_agrees data ao : forall fuel n pos files,
  parse_cd fuel data n pos ao = Ok files ->
  forall sig, u32_at data (cd_end fuel data n pos ao) = Ok sig -> sig <> CENTRAL_DIRECTORY_HEADER_SIGNATURE ->
  forall fuel2, (length files < fuel2)%nat ->
  exists gs, visit_meta fuel2 data pos = (gs, Ok tt) /\
             Forall2 (fun f g => f = seek_of g (f_central_start f) ao) files gs.
Proof.
  induction fuel as [|fu IH]; intros n pos files Hp sig He Hne fuel2 Hf2.
  - cbn [parse_cd cd_end] in *. destruct (n =? 0); [|discriminate]. injection Hp as <-.
    destruct fuel2 as [|f2]; [cbn in Hf2; lia|]. cbn [visit_meta]. rewrite He.
    assert ((sig =? CENTRAL_DIRECTORY_HEADER_SIGNATURE) = false) as -> by (apply N.eqb_neq; exact Hne).
    cbn [negb]. exists []. split; [reflexivity|constructor].
  - cbn [parse_cd cd_end] in *. destruct (n =? 0).
    + injection Hp as <-. destruct fuel2 as [|f2]; [cbn in Hf2; lia|]. cbn [visit_meta]. rewrite He.
      assert ((sig =? CENTRAL_DIRECTORY_HEADER_SIGNATURE) = false) as -> by (apply N.eqb_neq; exact Hne).
      cbn [negb]. exists []. split; [reflexivity|constructor].
    + destruct (parse_central data pos ao) as [[f p']|e|p] eqn:Epc; cbn [bind] in Hp; try discriminate.
      destruct (parse_cd fu data (n - 1) p' ao) as [rest|e|p] eqn:Er; cbn [bind] in Hp; try discriminate.
      injection Hp as <-.
      pose proof (parse_central_sig _ _ _ _ _ Epc) as Hsig.
      rewrite (parse_central_via_inner data pos ao Hsig) in Epc.
      destruct (parse_central_inner data (pos + 4)) as [[g q]|e|p] eqn:Ei; try discriminate.
      destruct (fits 64 (f_header_start g + ao)); [|discriminate]. injection Epc as <- <-.
      destruct fuel2 as [|f2]; [cbn in Hf2; lia|]. cbn [length] in Hf2.
      destruct (IH (n - 1) q rest Er sig He Hne f2 ltac:(lia)) as (gs & Hv & Hall).
      exists (g :: gs). split.
      * cbn [visit_meta]. rewrite Hsig, N.eqb_refl. cbn [negb]. rewrite Ei, Hv. reflexivity.
      * constructor; [reflexivity|exact Hall].
Qed.

(* the whole of visit(): when the walk over the local headers stops on the central signature at the directory start,
   the metadata pass delivers the seekable reader's records, one per entry, in order *)
Theorem visit_agrees data ao n ds files sfiles :
  stream_entries (S (length data)) data 0 = (sfiles, Ok (ds + 4)) ->
  n <> 0 -> parse_cd (S (length data)) data n ds ao = Ok files ->
  forall sig, u32_at data (cd_end (S (length data)) data n ds ao) = Ok sig -> sig <> CENTRAL_DIRECTORY_HEADER_SIGNATURE ->
  (length files <= length data)%nat ->
  exists gs, visit data = (sfiles, gs, Ok tt) /\
             Forall2 (fun f g => f = seek_of g (f_central_start f) ao) files gs.
Proof.
  intros Hs Hn Hp sig He Hne Hlen.
  cbn [parse_cd cd_end] in Hp, He. apply N.eqb_neq in Hn. rewrite Hn in Hp, He.
  destruct (parse_central data ds ao) as [[f p']|e|p] eqn:Epc; cbn [bind] in Hp; try discriminate.
  destruct (parse_cd (length data) data (n - 1) p' ao) as [rest|e|p] eqn:Er; cbn [bind] in Hp; try discriminate.
  injection Hp as <-. cbn [length] in Hlen.
  pose proof (parse_central_sig _ _ _ _ _ Epc) as Hsig.
  rewrite (parse_central_via_inner data ds ao Hsig) in Epc.
  destruct (parse_central_inner data (ds + 4)) as [[g q]|e|p] eqn:Ei; try discriminate.
  destruct (fits 64 (f_header_start g + ao)); [|discriminate]. injection Epc as <- <-.
  destruct (visit_meta_agrees data ao (length data) (n - 1) q rest Er sig He Hne (S (length data)) ltac:(lia)) as (gs & Hv & Hall).
  exists (g :: gs). split.
  - unfold visit. rewrite Hs, Ei, Hv. reflexivity.
  - constructor; [reflexivity|exact Hall].
Qed.

Lemma seek_of_fields g c ao :
  let f := seek_of g c ao in
  f_name f = f_name g /\ f_name_raw f = f_name_raw g /\ f_comment f = f_comment g /\ f_ext_attr f = f_ext_attr g /\
  f_system f = f_system g /\ f_made_by f = f_made_by g /\ f_method f = f_method g /\ f_crc f = f_crc g /\
  f_usize f = f_usize g /\ f_csize f = f_csize g /\ f_time f = f_time g /\ f_extra f = f_extra g /\
  f_encrypted f = f_encrypted g /\ f_aes f = f_aes g /\ f_large f = f_large g /\
  f_header_start f = f_header_start g + ao /\ f_central_start f = c.
Proof. cbn. repeat split. Qed.
