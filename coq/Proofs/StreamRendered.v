(* Proofs/StreamRendered.v — the streaming reader on the writer's layout of stored entries: stream_next decodes a
   local header written (and patched) by the writer, the drop of the handle positions the stream on the next
   header, and the walk over a sequence of such entries ends at the central directory. (C10) *)
From Coq Require Import ZArith.
From ZipV Require Import Base.Bytes Base.Outcome Gen.GenLib Gen.SpecGen Gen.CompressionGen Gen.TypesGen Gen.WriteGen
     Spec.Utf8 Model.Cp437 Model.Readers Model.Reader Model.Stream Model.Writer
     Proofs.Zip64Proofs Proofs.CentralRoundtrip Proofs.WriterEntry.
Open Scope N_scope.

(* a record as start_file creates it for a stored, unencrypted entry, with its packed date *)
Record stored_rec (f : wfile) (d : N) : Prop := {
  sr_method : w_method f = CompressionMethod_Stored; sr_enc : w_encrypted f = false;
  sr_name : len (w_name f) <= 65535; sr_d : d < 65536; sr_tp : DateTime_timepart (w_time f) < 65536 }.

Section SN.
  Variables (f : wfile) (d c n : N) (front content rest : bytes).
  Hypothesis R : stored_rec f d.
  Hypothesis Hc : c < 2 ^ 32.
  Hypothesis Hn : n <= ZIP64_BYTES_THR.

  Let data := front ++ lh_bytes f d c n n ++ content ++ rest.

  Ltac lx := unfold data, lh_bytes, lh_head, lh_tail, u16_at, u32_at; rewrite <- ?app_assoc; rd_step.

  Lemma L_sig : u32_at data (len front) = Ok LOCAL_FILE_HEADER_SIGNATURE.
  Proof.
    unfold data, lh_bytes, lh_head, u32_at. rewrite <- ?app_assoc. rewrite <- (N.add_0_r (len front)). rd_step.
    rewrite unle_le4 by (unfold LOCAL_FILE_HEADER_SIGNATURE; lia). reflexivity.
  Qed.
  Lemma L_made : u16_at data (len front + 4) = Ok (version_needed f).
  Proof. lx. rewrite unle_le2; [reflexivity|apply version_needed_small]. Qed.
  Lemma L_flags : u16_at data (len front + 6) = Ok (flag_of f).
  Proof. lx. rewrite unle_le2; [reflexivity|apply flag_bits]. Qed.
  Lemma L_method : u16_at data (len front + 8) = Ok 0.
  Proof. lx. rewrite (sr_method _ _ R). reflexivity. Qed.
  Lemma L_time : u16_at data (len front + 10) = Ok (DateTime_timepart (w_time f)).
  Proof. lx. rewrite unle_le2; [reflexivity|apply R]. Qed.
  Lemma L_date : u16_at data (len front + 12) = Ok d.
  Proof. lx. rewrite unle_le2; [reflexivity|apply R]. Qed.
  Lemma L_crc : u32_at data (len front + 14) = Ok c.
  Proof. lx. rewrite unle_le4; [reflexivity|exact Hc]. Qed.
  Lemma L_cs : u32_at data (len front + 18) = Ok n.
  Proof. lx. unfold ZIP64_BYTES_THR in Hn. rewrite N.mod_small by lia. rewrite unle_le4; [reflexivity|lia]. Qed.
  Lemma L_us : u32_at data (len front + 22) = Ok n.
  Proof. lx. unfold ZIP64_BYTES_THR in Hn. rewrite N.mod_small by lia. rewrite unle_le4; [reflexivity|lia]. Qed.
  Lemma L_nl : u16_at data (len front + 26) = Ok (len (w_name f)).
  Proof. lx. pose proof (sr_name _ _ R). rewrite N.mod_small by lia. rewrite unle_le2; [reflexivity|lia]. Qed.
  Lemma L_el : u16_at data (len front + 28) = Ok 0.
  Proof. lx. reflexivity. Qed.
End SN.

Lemma lh_split f d c n : exists fx, len fx = 30 /\ lh_bytes f d c n n = fx ++ w_name f.
Proof.
  unfold lh_bytes, lh_head, lh_tail.
  eexists (le 4 LOCAL_FILE_HEADER_SIGNATURE ++ le 2 (version_needed f) ++ le 2 (flag_of f) ++ le 2 (CompressionMethod_to_u16 (w_method f)) ++
           le 2 (DateTime_timepart (w_time f)) ++ le 2 d ++ le 4 c ++ le 4 (n mod 2 ^ 32) ++ le 4 (n mod 2 ^ 32) ++
           le 2 (len (w_name f) mod 65536) ++ le 2 0).
  split; [rewrite !len_app, !len_le; reflexivity|rewrite <- !app_assoc; reflexivity].
Qed.

(* the entry the stream reader produces for a stored record *)
Definition stream_file (f : wfile) (dt : DateTime) (c n : N) : zfd :=
  let u8 := negb (is_ascii (w_name f)) in
  {| f_system := System_from_u8 (cast 8 (N.shiftr (version_needed f) 8)); f_made_by := cast 8 (version_needed f);
     f_encrypted := false; f_dd := false; f_utf8 := u8; f_method := CompressionMethod_Stored; f_time := dt;
     f_crc := c; f_csize := n; f_usize := n; f_name := decode_text u8 (w_name f); f_name_raw := w_name f;
     f_extra := []; f_comment := []; f_header_start := 0; f_central_start := 0; f_ext_attr := 0; f_large := false; f_aes := None |}.

Theorem stream_next_rendered f d c n front content rest :
  stored_rec f d -> c < 2 ^ 32 -> n <= ZIP64_BYTES_THR ->
  exists dt, DateTime_from_msdos d (DateTime_timepart (w_time f)) = Some dt /\
    stream_next (front ++ lh_bytes f d c n n ++ content ++ rest) (len front) =
      Ok (SFile {| se_file := stream_file f dt c n; se_data_start := len front + 30 + len (w_name f) |}).
Proof.
  intros R Hc Hn.
  destruct (from_msdos_total d (DateTime_timepart (w_time f)) (sr_d _ _ R)) as [dt Hdt]. exists dt. split; [exact Hdt|].
  unfold stream_next.
  erewrite L_sig by eassumption.
  change (LOCAL_FILE_HEADER_SIGNATURE =? CENTRAL_DIRECTORY_HEADER_SIGNATURE) with false. cbv iota. cbn [bind].
  rewrite N.eqb_refl. cbn [negb].
  erewrite L_made by eassumption. cbn [bind].
  erewrite L_flags by eassumption. cbn [bind].
  erewrite L_method by eassumption. cbn [bind].
  erewrite L_time by eassumption. cbn [bind].
  erewrite L_date by eassumption. cbn [bind].
  erewrite L_crc by eassumption. cbn [bind].
  erewrite L_cs by eassumption. cbn [bind].
  erewrite L_us by eassumption. cbn [bind].
  erewrite L_nl by eassumption. cbn [bind].
  erewrite L_el by eassumption. cbn [bind].
  destruct (lh_split f d c n) as (fx & Hfx & Hsplit). rewrite Hsplit, <- !app_assoc.
  rewrite <- Hfx at 1. rewrite rd_after. cbn [bind].
  assert (Hex : rd_at (front ++ fx ++ w_name f ++ content ++ rest) (len front + len fx + len (w_name f)) 0 = Ok []).
  { apply rd_empty. rewrite !len_app. lia. }
  rewrite Hfx in Hex. rewrite Hex. cbn [bind].
  rewrite Hdt. cbn [of_opt bind].
  destruct (flag_bits f) as (_ & Fb0 & Fb3 & Fb11). rewrite Fb0, Fb3, Fb11. rewrite (sr_enc _ _ R).
  change (CompressionMethod_from_u16 0) with CompressionMethod_Stored.
  unfold parse_extra_field. cbn [f_extra]. change (len (@nil byte)) with 0. cbn [N.to_nat parse_extra f_extra].
  change (len (@nil byte) <=? 0) with true. cbv iota.
  cbn [bind f_encrypted f_dd f_method is_unsupported]. rewrite N.add_0_r. reflexivity.
Qed.
