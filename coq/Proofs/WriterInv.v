(* Proofs/WriterInv.v — an invariant of the writer state machine that holds after EVERY sequence of API
   calls, whatever their arguments and results and whatever the sink does (short writes, failures at any
   point), and that excludes every panic site of the model.  (C12, C11) *)
From Coq Require Import ZArith.
From ZipV Require Import Base.Bytes Base.Outcome Gen.GenLib Gen.SpecGen Gen.CompressionGen Gen.TypesGen Gen.WriteGen
     Model.Readers Model.Reader Model.Writer Model.WriterCalls Proofs.FaultProofs Proofs.AlignProofs Proofs.WriterMisuse Proofs.WriterIdeal.
Open Scope N_scope.

(* ---------- the sink: positions never move backwards while writing; no panics *)
Lemma dev_write_pos d bs d' r : dev_write d bs = (d', r) -> d_pos d <= d_pos d'.
Proof.
  unfold dev_write. destruct (d_plan d) as [|[n|] pl]; intro H; injection H as <- _; cbn [d_pos]; lia.
Qed.

Lemma dev_write_all_fuel_pos fuel : forall d bs d' r, dev_write_all_fuel fuel d bs = (d', r) -> d_pos d <= d_pos d'.
Proof.
  induction fuel as [|f IH]; intros d bs d' r H; destruct bs as [|b rest]; cbn [dev_write_all_fuel] in H;
    try (injection H as <- _; lia).
  destruct (dev_write d (b :: rest)) as [d1 [k|e|q]] eqn:E; pose proof (dev_write_pos _ _ _ _ E) as Hp.
  - destruct (k =? 0); [injection H as <- _; exact Hp|]. apply IH in H. lia.
  - injection H as <- _. exact Hp.
  - injection H as <- _. exact Hp.
Qed.

Lemma dev_write_all_pos d bs d' r : dev_write_all d bs = (d', r) -> d_pos d <= d_pos d'.
Proof. apply dev_write_all_fuel_pos. Qed.

Lemma dev_write_chunks_pos cs : forall d d' r, dev_write_chunks d cs = (d', r) -> d_pos d <= d_pos d'.
Proof.
  induction cs as [|c rest IH]; intros d d' r H; cbn [dev_write_chunks] in H; [injection H as <- _; lia|].
  destruct (dev_write_all d c) as [d1 [u|e|q]] eqn:E; pose proof (dev_write_all_pos _ _ _ _ E) as Hp.
  - apply IH in H. lia.
  - injection H as <- _. exact Hp.
  - injection H as <- _. exact Hp.
Qed.

Lemma dev_event_pos d d' r : dev_event d = (d', r) -> d_pos d' = d_pos d.
Proof. unfold dev_event. destruct (d_plan d) as [|[n|] pl]; intro H; injection H as <- _; reflexivity. Qed.

Lemma dev_pos_spec d d' r : dev_pos d = (d', r) ->
  d_pos d' = d_pos d /\ match r with Ok p => p = d_pos d | Err _ => True | Panic _ => False end.
Proof.
  unfold dev_pos. destruct (dev_event d) as [d1 [u|e|q]] eqn:E; intro H; injection H as <- <-;
    pose proof (dev_event_pos _ _ _ E) as Hp; split; try exact Hp; try exact I; try (symmetry; exact Hp).
  exact (dev_event_no_panic _ _ _ E).
Qed.

Lemma dev_seek_end_no_panic d d' p : dev_seek_end d <> (d', Panic p).
Proof.
  unfold dev_seek_end. destruct (dev_event d) as [d1 [u|e|q]] eqn:E; try (intro H; discriminate).
  exfalso. exact (dev_event_no_panic _ _ _ E).
Qed.

Definition not_panic {A} (r : res A) : Prop := match r with Panic _ => False | _ => True end.
#[export] Hint Extern 1 (not_panic _) => exact I : core.

Lemma dev_write_all_np d bs : not_panic (snd (dev_write_all d bs)).
Proof. destruct (dev_write_all d bs) as [d' [u|e|p]] eqn:E; cbn; try exact I. exact (dev_write_all_no_panic _ _ _ _ E). Qed.
Lemma dev_seek_np d q : not_panic (snd (dev_seek d q)).
Proof. destruct (dev_seek d q) as [d' [u|e|p]] eqn:E; cbn; try exact I. exact (dev_seek_no_panic _ _ _ _ E). Qed.
Lemma dev_pos_np d : not_panic (snd (dev_pos d)).
Proof. destruct (dev_pos d) as [d' [u|e|p]] eqn:E; cbn; try exact I. exact (dev_pos_no_panic _ _ _ E). Qed.
Lemma dev_flush_np d : not_panic (snd (dev_flush d)).
Proof. destruct (dev_flush d) as [d' [u|e|p]] eqn:E; cbn; try exact I. exact (dev_event_no_panic _ _ _ E). Qed.
Lemma dev_write_chunks_np d cs : not_panic (snd (dev_write_chunks d cs)).
Proof. destruct (dev_write_chunks d cs) as [d' r] eqn:E. cbn. apply (dev_write_chunks_no_panic _ _ _ _ E). Qed.

(* ---------- times *)
Definition time_ok (t : DateTime) : Prop := DateTime_datepart t <> None.
Definition times_ok (fs : list wfile) : Prop := Forall (fun f => time_ok (w_time f)) fs.

Lemma local_header_np f : time_ok (w_time f) -> w_extra f = [] -> exists cs, local_header_chunks f = Ok cs.
Proof.
  intros Ht Hx. unfold local_header_chunks. unfold time_ok in Ht.
  destruct (DateTime_datepart (w_time f)) as [d|]; [|congruence]. cbn [of_opt bind].
  rewrite Hx. change (len []) with 0. rewrite N.mod_0_l by lia.
  unfold add_chk, fits. destruct (w_large f); cbn; eexists; reflexivity.
Qed.

Lemma central_header_np f : time_ok (w_time f) -> not_panic (central_header_chunks f).
Proof.
  intro Ht. unfold central_header_chunks. destruct (65535 <? len (central_z64 f) + len (w_extra f)); [exact I|].
  unfold time_ok in Ht. destruct (DateTime_datepart (w_time f)); [exact I|congruence].
Qed.

Lemma write_central_all_spec fs : times_ok fs -> forall d d' r, write_central_all d fs = (d', r) ->
  d_pos d <= d_pos d' /\ not_panic r.
Proof.
  induction fs as [|f rest IH]; intros Ht d d' r H; cbn [write_central_all] in H.
  - injection H as <- <-. split; [lia|exact I].
  - inversion Ht as [|? ? Hf Hr]; subst.
    pose proof (central_header_np f Hf) as Hc. destruct (central_header_chunks f) as [cs|e|p]; [| |destruct Hc].
    + destruct (dev_write_chunks d cs) as [d1 [u|e|q]] eqn:E; pose proof (dev_write_chunks_pos _ _ _ _ E) as Hp.
      * destruct (IH Hr _ _ _ H) as [Hp' Hn]. split; [lia|exact Hn].
      * injection H as <- <-. split; [exact Hp|exact I].
      * pose proof (dev_write_chunks_np d cs) as X. rewrite E in X. destruct X.
    + injection H as <- <-. split; [lia|exact I].
Qed.

Lemma write_cd_footer_spec fs comment d d' r : times_ok fs -> write_cd_footer fs comment d = (d', r) ->
  not_panic r /\ match r with Ok cs => cs <= d_pos d' | _ => True end.
Proof.
  intros Ht H. unfold write_cd_footer in H.
  destruct (dev_pos d) as [d1 r1] eqn:E1. destruct (dev_pos_spec _ _ _ E1) as [Hp1 Hr1].
  destruct r1 as [cs|e|p]; [|injection H as _ <-; split; exact I|destruct Hr1]. subst cs.
  destruct (write_central_all d1 fs) as [d2 r2] eqn:E2. destruct (write_central_all_spec fs Ht _ _ _ E2) as [Hp2 Hn2].
  destruct r2 as [u|e|p]; [|injection H as _ <-; split; exact I|destruct Hn2].
  destruct (dev_pos d2) as [d3 r3] eqn:E3. destruct (dev_pos_spec _ _ _ E3) as [Hp3 Hr3].
  destruct r3 as [cend|e|p]; [|injection H as _ <-; split; exact I|destruct Hr3]. subst cend.
  assert ((d_pos d2 <? d_pos d) = false) as Hlt by (apply N.ltb_ge; lia). rewrite Hlt in H.
  destruct (dev_write_chunks d3 _) as [d4 r4] eqn:E4. pose proof (dev_write_chunks_pos _ _ _ _ E4) as Hp4.
  pose proof (dev_write_chunks_np d3 (end_records (N.of_nat (length fs)) (d_pos d) (d_pos d2 - d_pos d) comment)) as Hn4. rewrite E4 in Hn4. cbn in Hn4.
  destruct r4 as [u4|e4|p4]; [|injection H as _ <-; split; exact I|destruct Hn4].
  injection H as <- <-. split; [exact I|lia].
Qed.

(* ---------- the invariant *)
Definition plainish (i : winner) : bool := match i with WComp _ _ _ _ _ => false | _ => true end.
Definition open_plain (i : winner) : bool := match i with WStorer _ | WEnc _ _ _ => true | _ => false end.

(* a compressor is only ever installed for a compressing method *)
Definition comp_ok (i : winner) : Prop :=
  match i with WComp m _ _ _ _ => m <> CompressionMethod_Stored | _ => True end.

Record Inv (s : wstate) : Prop := {
  inv_comp : comp_ok (ws_inner s);
  inv_co : ws_central_only s = true -> ws_to_extra s = true;
  inv_files : ws_to_extra s = true -> ws_files s <> [];
  inv_plain : ws_to_extra s = true -> ws_central_only s = false -> plainish (ws_inner s) = true;
  inv_times : times_ok (ws_files s) }.

Lemma inv_new plan : Inv (new_writer plan).
Proof. constructor; cbn; try discriminate; try exact I. constructor. Qed.

(* changing only the sink / compressor *)
Lemma inv_set_inner s i : Inv s -> comp_ok i -> (ws_to_extra s = true -> ws_central_only s = false -> plainish i = true) -> Inv (set_inner s i).
Proof. intros [H0 H1 H2 H3 H4] Hc Hi. constructor; cbn; auto. Qed.

Lemma inv_set_stats s a b c : Inv s -> Inv (set_stats s a b c).
Proof. intros [H0 H1 H2 H3 H4]. constructor; cbn; auto. Qed.

Lemma inv_set_comment s c : Inv s -> Inv (set_comment s c).
Proof. intros [H0 H1 H2 H3 H4]. constructor; cbn; auto. Qed.

(* last_file / upd_last *)
Lemma last_file_app fs f : last_file (fs ++ [f]) = Some f.
Proof. unfold last_file. now rewrite rev_unit. Qed.

Lemma last_file_none fs : last_file fs = None -> fs = [].
Proof.
  unfold last_file. destruct (rev fs) eqn:E; [|discriminate]. intros _.
  apply (f_equal (@rev wfile)) in E. now rewrite rev_involutive in E.
Qed.

Lemma last_file_some fs f : last_file fs = Some f -> exists pre, fs = pre ++ [f].
Proof.
  unfold last_file. destruct (rev fs) as [|l r] eqn:E; [discriminate|]. intros [= <-].
  exists (rev r). apply (f_equal (@rev wfile)) in E. rewrite rev_involutive in E. exact E.
Qed.

Lemma upd_last_app fs f g : upd_last (fs ++ [f]) g = fs ++ [g f].
Proof. unfold upd_last. rewrite rev_unit. now rewrite rev_involutive. Qed.

Lemma upd_last_nonempty fs g : fs <> [] -> upd_last fs g <> [].
Proof.
  intro H. destruct (last_file fs) as [f|] eqn:E.
  - destruct (last_file_some _ _ E) as [pre ->]. rewrite upd_last_app. destruct pre; discriminate.
  - apply last_file_none in E. contradiction.
Qed.

Lemma upd_last_times fs g : times_ok fs -> (forall f, time_ok (w_time f) -> time_ok (w_time (g f))) -> times_ok (upd_last fs g).
Proof.
  intros Ht Hg. destruct (last_file fs) as [f|] eqn:E.
  - destruct (last_file_some _ _ E) as [pre ->]. rewrite upd_last_app.
    unfold times_ok in *. apply Forall_app in Ht. destruct Ht as [Hp Hf]. apply Forall_app. split; [exact Hp|].
    inversion Hf; subst. constructor; [now apply Hg|constructor].
  - apply last_file_none in E. subst. constructor.
Qed.

Lemma last_file_time fs f : times_ok fs -> last_file fs = Some f -> time_ok (w_time f).
Proof.
  intros Ht E. destruct (last_file_some _ _ E) as [pre ->]. apply Forall_app in Ht. destruct Ht as [_ Hf]. now inversion Hf.
Qed.

Lemma inv_upd_last s g : Inv s -> (forall f, time_ok (w_time f) -> time_ok (w_time (g f))) -> Inv (set_files s (upd_last (ws_files s) g)).
Proof.
  intros [H0 H1 H2 H3 H4] Hg. constructor; cbn; auto.
  - intro Hx. apply upd_last_nonempty. auto.
  - now apply upd_last_times.
Qed.

(* ---------- finish_comp / switch_to *)
Section W.
  Variable enc : CompressionMethod -> Z -> bytes -> bytes.
  Variable crc : bytes -> N.

  Lemma finish_comp_spec i i' r : finish_comp enc i = (i', r) ->
    not_panic r /\
    match r with
    | Ok _ => (open_plain i = true \/ (exists m l d e p, i = WComp m l d e p)) -> open_plain i' = true
    | _ => plainish i' = true
    end /\ (is_closed i = true -> i' = i /\ r = Ok tt).
  Proof.
    unfold finish_comp. destruct i as [l|d|d b k|m lv d [[b k]|] pend]; intro H.
    - injection H as <- <-. repeat split; try exact I. intros [X|(m & l0 & d & e & p & X)]; discriminate.
    - injection H as <- <-. repeat split; try exact I; discriminate.
    - injection H as <- <-. repeat split; try exact I; discriminate.
    - injection H as <- <-. repeat split; try exact I; discriminate.
    - pose proof (dev_write_all_np d (enc m lv pend)) as Hn.
      destruct (dev_write_all d (enc m lv pend)) as [d' [u|e|p]]; cbn in Hn; [| |destruct Hn]; injection H as <- <-;
        repeat split; try exact I; try reflexivity; discriminate.
  Qed.

  (* switch_to changes only the inner writer *)
  Lemma switch_to_frame s m lvl s' r : switch_to enc s m lvl = (s', r) -> exists i', s' = set_inner s i'.
  Proof.
    unfold switch_to. intro H. destruct (cur_method (ws_inner s)); [|injection H as <- _; exists (ws_inner s); now destruct s].
    destruct (CompressionMethod_eqb c m); [injection H as <- _; exists (ws_inner s); now destruct s|].
    destruct (finish_comp enc (ws_inner s)) as [i1 [u|e|p]].
    - destruct m; try (destruct lvl); try (destruct (level_ok _ _)); try (destruct i1);
        injection H as <- _; eexists; reflexivity.
    - injection H as <- _. eexists; reflexivity.
    - injection H as <- _. eexists; reflexivity.
  Qed.

  Lemma comp_ok_open i : open_plain i = true -> comp_ok i.
  Proof. destruct i; try discriminate; intros _; exact I. Qed.
  Lemma comp_ok_closed l : comp_ok (WClosed l).
  Proof. exact I. Qed.

  Lemma switch_to_spec s m lvl s' r : comp_ok (ws_inner s) -> switch_to enc s m lvl = (s', r) ->
    not_panic r /\ comp_ok (ws_inner s') /\
    match r with
    | Ok _ => is_closed (ws_inner s') = false /\ (m = CompressionMethod_Stored -> open_plain (ws_inner s') = true)
    | _ => plainish (ws_inner s') = true
    end.
  Proof.
    unfold switch_to. intros Hc H.
    destruct (ws_inner s) as [l|d|d b k|cm lv d e pend] eqn:Ei; cbn [cur_method] in H.
    - injection H as <- <-. rewrite Ei. repeat split.
    - destruct (CompressionMethod_eqb CompressionMethod_Stored m) eqn:Em.
      + injection H as <- <-. rewrite Ei. repeat split.
      + cbn [finish_comp] in H.
        destruct m; cbn in Em; try discriminate Em; try (destruct (level_ok _ lvl));
          injection H as <- <-; cbn [set_inner ws_inner close_of dev_of comp_ok]; repeat split; try discriminate.
    - destruct (CompressionMethod_eqb CompressionMethod_Stored m) eqn:Em.
      + injection H as <- <-. rewrite Ei. repeat split.
      + cbn [finish_comp] in H.
        destruct m; cbn in Em; try discriminate Em; try (destruct (level_ok _ lvl));
          injection H as <- <-; cbn [set_inner ws_inner close_of dev_of comp_ok]; repeat split; try discriminate.
    - destruct (CompressionMethod_eqb cm m) eqn:Em.
      + injection H as <- <-. rewrite Ei. split; [exact I|]. split; [exact Hc|]. split; [reflexivity|].
        intros ->. cbn [comp_ok] in Hc. destruct cm; try discriminate Em. congruence.
      + destruct (finish_comp enc (WComp cm lv d e pend)) as [i1 r1] eqn:Ef.
        destruct (finish_comp_spec _ _ _ Ef) as (Hn & Hs & _).
        destruct r1 as [u|er|p]; [| |destruct Hn].
        * assert (Ho : open_plain i1 = true) by (apply Hs; right; repeat eexists).
          destruct i1 as [l1|d1|d1 b1 k1|? ? ? ? ?]; try discriminate Ho;
          destruct m; try (destruct lvl as [lv'|]); try (destruct (level_ok _ _));
            injection H as <- <-; cbn [set_inner ws_inner close_of dev_of comp_ok]; repeat split; try discriminate; try reflexivity.
        * injection H as <- <-. cbn [set_inner ws_inner]. split; [exact I|]. split; [|exact Hs].
          destruct i1; try exact I. discriminate Hs.
  Qed.
End W.

(* ---------- extra-data validation never panics *)
Lemma validate_records_np fuel : forall data, (length data < fuel)%nat -> not_panic (validate_records fuel data).
Proof.
  induction fuel as [|f IH]; intros data Hf; [lia|].
  destruct data as [|b r]; cbn [validate_records]; [exact I|].
  destruct (len (b :: r) <? 4) eqn:E1; [exact I|].
  destruct (unle (take 2 (b :: r)) =? 1); [exact I|].
  destruct (reserved_id _); [exact I|].
  destruct (len (b :: r) - 4 <? _); [exact I|].
  apply IH. rewrite drop_skipn, skipn_length. apply N.ltb_ge in E1. unfold len in E1. cbn [length] in *. lia.
Qed.

Lemma validate_extra_np f : not_panic (validate_extra_data f).
Proof.
  unfold validate_extra_data. destruct (65535 <? _); [exact I|]. apply validate_records_np. lia.
Qed.

Lemma inv_set_flags s tf te co raw : Inv s -> (co = true -> te = true) -> (te = true -> ws_files s <> []) ->
  (te = true -> co = false -> plainish (ws_inner s) = true) -> Inv (set_flags s tf te co raw).
Proof. intros [H0 H1 H2 H3 H4] A B C. constructor; cbn; auto. Qed.

Lemma inv_clear_extra s i tf raw : Inv s -> comp_ok i -> Inv (set_flags (set_inner s i) tf false false raw).
Proof. intros [H0 H1 H2 H3 H4] Hc. constructor; cbn; auto; discriminate. Qed.

Lemma inv_set_files_app s f : Inv s -> time_ok (w_time f) -> Inv (set_files s (ws_files s ++ [f])).
Proof.
  intros [H0 H1 H2 H3 H4] Ht. constructor; cbn; auto.
  - intros _. destruct (ws_files s); discriminate.
  - apply Forall_app. split; [exact H4|]. constructor; [exact Ht|constructor].
Qed.

Ltac rsplit := repeat match goal with |- _ /\ _ => split end.

Section W2.
  Variable enc : CompressionMethod -> Z -> bytes -> bytes.
  Variable crc : bytes -> N.

  Lemma with_plain_spec {A} s (k : dev -> dev * res A) s' r :
    open_plain (ws_inner s) = true -> (forall d, not_panic (snd (k d))) -> with_plain s k = (s', r) ->
    exists i', s' = set_inner s i' /\ open_plain i' = true /\ not_panic r /\
               (forall d, ws_inner s = WStorer d -> exists d', i' = WStorer d').
  Proof.
    unfold with_plain. intros Ho Hk H. destruct (ws_inner s) as [l|d|d b kk|? ? ? ? ?]; try discriminate Ho.
    - specialize (Hk d). destruct (k d) as [d' r']. injection H as <- <-. exists (WStorer d'). repeat split; auto.
      intros d0 _. eexists; reflexivity.
    - specialize (Hk d). destruct (k d) as [d' r']. injection H as <- <-. exists (WEnc d' b kk). repeat split; auto.
      intros d0 X. discriminate.
  Qed.

  Lemma open_plainish i : open_plain i = true -> plainish i = true.
  Proof. destruct i; try discriminate; reflexivity. Qed.
  Lemma open_not_closed i : open_plain i = true -> is_closed i = false.
  Proof. destruct i; try discriminate; reflexivity. Qed.

  (* end_extra_data *)
  Lemma end_extra_data_spec s s' r : Inv s -> end_extra_data enc s = (s', r) ->
    not_panic r /\ Inv s' /\
    match r with
    | Ok v => ws_to_extra s = true /\ ws_to_extra s' = false /\ ws_central_only s' = false /\ ws_files s' <> [] /\
              exists f, last_file (ws_files s) = Some f /\
                        v = (if ws_central_only s then w_data_start f else w_data_start f + len (w_extra f))
    | _ => True
    end.
  Proof.
    intros HI H. unfold end_extra_data in H.
    destruct (ws_to_extra s) eqn:Ex; cbn [negb] in H; [|injection H as <- <-; split; [exact I|]; split; [exact HI|exact I]].
    pose proof (inv_files s HI Ex) as Hne.
    destruct (is_closed (ws_inner s)) eqn:Ecl.
    { destruct (ws_inner s); try discriminate Ecl. injection H as <- <-. split; [exact I|]. split; [exact HI|exact I]. }
    assert (H' : match last_file (ws_files s) with
                 | None => (s, Panic PLastUnwrap)
                 | Some f =>
                     match validate_extra_data f with
                     | Err e => (s, Err e)
                     | Panic p => (s, Panic p)
                     | Ok _ =>
                         if ws_central_only s then (set_flags s (ws_to_file s) false false (ws_raw s), Ok (w_data_start f))
                         else
                           match with_plain s (fun d => dev_write_all d (w_extra f)) with
                           | (s1, Ok _) =>
                               let header_end := w_data_start f + len (w_extra f) in
                               let s2 := set_files (set_stats s1 header_end (ws_written s1) (ws_hashed s1))
                                                   (upd_last (ws_files s1) (fun g => wf_set_data_start g header_end)) in
                               match add_chk 16 (if w_large f then 20 else 0) (len (w_extra f) mod 65536) with
                               | None => (s2, Panic PExtraLenAdd)
                               | Some xl =>
                                   match with_plain s2 (fun d =>
                                           match dev_seek d (w_header_start f + 28) with
                                           | (d1, Ok _) => match dev_write_all d1 (le16 xl) with
                                                           | (d2, Ok _) => dev_seek d2 header_end
                                                           | bad => bad end
                                           | bad => bad end) with
                                   | (s3, Ok _) =>
                                       match switch_to enc s3 (w_method f) (w_level f) with
                                       | (s4, Ok _) => (set_flags s4 (ws_to_file s4) false false (ws_raw s4), Ok header_end)
                                       | (s4, Err e) => (s4, Err e)
                                       | (s4, Panic p) => (s4, Panic p)
                                       end
                                   | (s3, Err e) => (s3, Err e)
                                   | (s3, Panic p) => (s3, Panic p)
                                   end
                               end
                           | (s1, Err e) => (s1, Err e)
                           | (s1, Panic p) => (s1, Panic p)
                           end
                     end
                 end = (s', r)) by (destruct (ws_inner s); try discriminate Ecl; exact H).
    clear H. rename H' into H.
    destruct (last_file (ws_files s)) as [f|] eqn:El; [|apply last_file_none in El; contradiction].
    pose proof (validate_extra_np f) as Hvn.
    destruct (validate_extra_data f) as [u|e|p] eqn:Ev; [| injection H as <- <-; split; [exact I|]; split; [exact HI|exact I] | destruct Hvn].
    destruct (ws_central_only s) eqn:Eco.
    - injection H as <- <-. split; [exact I|]. split.
      + apply inv_set_flags; auto; discriminate.
      + repeat split; auto. exists f. split; reflexivity.
    - pose proof (inv_plain s HI Ex Eco) as Hpl.
      assert (Hop : open_plain (ws_inner s) = true) by (destruct (ws_inner s); try discriminate; reflexivity).
      destruct (with_plain s (fun d => dev_write_all d (w_extra f))) as [s1 r1] eqn:E1.
      destruct (with_plain_spec s _ s1 r1 Hop (fun d => dev_write_all_np d (w_extra f)) E1) as (i1 & -> & Ho1 & Hn1 & _).
      assert (HI1 : Inv (set_inner s i1)) by (apply inv_set_inner; auto using comp_ok_open, open_plainish).
      destruct r1 as [u1|e1|p1]; [| injection H as <- <-; split; [exact I|]; split; [exact HI1|exact I] | destruct Hn1].
      cbv zeta in H.
      destruct u. pose proof (extra_validation_len f Ev) as Hlen.
      assert (Hadd : exists xl, add_chk 16 (if w_large f then 20 else 0) (len (w_extra f) mod 65536) = Some xl).
      { unfold add_chk, fits. rewrite N.mod_small by (destruct (w_large f); lia).
        destruct ((if w_large f then 20 else 0) + len (w_extra f) <? 2 ^ 16) eqn:E; [eexists; reflexivity|].
        apply N.ltb_ge in E. change (2 ^ 16) with 65536 in E. destruct (w_large f); lia. }
      destruct Hadd as [xl Hxl]. rewrite Hxl in H.
      set (he := w_data_start f + len (w_extra f)) in *.
      set (s2 := set_files (set_stats (set_inner s i1) he (ws_written (set_inner s i1)) (ws_hashed (set_inner s i1)))
                           (upd_last (ws_files (set_inner s i1)) (fun g => wf_set_data_start g he))) in *.
      assert (HI2 : Inv s2).
      { subst s2. apply (inv_upd_last (set_stats (set_inner s i1) he _ _)); [apply inv_set_stats; exact HI1|]. intros g Hg. exact Hg. }
      assert (Hop2 : open_plain (ws_inner s2) = true) by exact Ho1.
      match type of H with (match with_plain s2 ?k with _ => _ end) = _ => destruct (with_plain s2 k) as [s3 r3] eqn:E3 end.
      match type of E3 with with_plain s2 ?k = _ =>
        assert (Hk : forall d, not_panic (snd (k d))) end.
      { intro d. destruct (dev_seek d (w_header_start f + 28)) as [d1 [u|e|p]] eqn:Es1; cbn [snd].
        - destruct (dev_write_all d1 (le16 xl)) as [d2 [u2|e2|p2]] eqn:Ew; cbn [snd].
          + apply dev_seek_np.
          + exact I.
          + exact (dev_write_all_no_panic _ _ _ _ Ew).
        - exact I.
        - exact (dev_seek_no_panic _ _ _ _ Es1). }
      destruct (with_plain_spec s2 _ s3 r3 Hop2 Hk E3) as (i3 & -> & Ho3 & Hn3 & _).
      assert (HI3 : Inv (set_inner s2 i3)) by (apply inv_set_inner; auto using comp_ok_open, open_plainish).
      destruct r3 as [u3|e3|p3]; [| injection H as <- <-; split; [exact I|]; split; [exact HI3|exact I] | destruct Hn3].
      destruct (switch_to enc (set_inner s2 i3) (w_method f) (w_level f)) as [s4 r4] eqn:E4.
      destruct (switch_to_frame enc _ _ _ _ _ E4) as [i4 ->].
      destruct (switch_to_spec enc (set_inner s2 i3) _ _ _ _ (comp_ok_open i3 Ho3) E4) as (Hn4 & Hc4 & Hs4).
      cbn [set_inner ws_inner] in Hc4, Hs4.
      assert (Hfiles : ws_files (set_inner (set_inner s2 i3) i4) <> []).
      { cbn. subst s2. cbn. apply upd_last_nonempty. exact Hne. }
      destruct r4 as [u4|e4|p4]; [| |destruct Hn4].
      + injection H as <- <-. split; [exact I|]. split.
        * apply inv_clear_extra; auto.
        * repeat split; auto. exists f. split; reflexivity.
      + injection H as <- <-. split; [exact I|]. split; [|exact I].
        apply inv_set_inner; auto.
  Qed.

  Lemma update_local_np d f : not_panic (snd (update_local d f)).
  Proof.
    unfold update_local.
    destruct (dev_seek d (w_header_start f + 14)) as [d1 [u|e|p]] eqn:E1; cbn [snd]; [|exact I|exact (dev_seek_no_panic _ _ _ _ E1)].
    destruct (dev_write_all d1 (le32 (w_crc f))) as [d2 [u2|e2|p2]] eqn:E2; cbn [snd]; [|exact I|exact (dev_write_all_no_panic _ _ _ _ E2)].
    destruct (w_large f).
    - destruct (dev_seek d2 _) as [d3 [u3|e3|p3]] eqn:E3; cbn [snd]; [apply dev_write_chunks_np|exact I|exact (dev_seek_no_panic _ _ _ _ E3)].
    - destruct (ZIP64_BYTES_THR <? w_csize f); [exact I|apply dev_write_chunks_np].
  Qed.

  Ltac bail HIx := match goal with H : _ = (_, _) |- _ => injection H as <- <-; split; [exact I|]; split; [exact HIx|exact I] end.

  (* finish_file *)
  Lemma finish_file_spec s s' r : Inv s -> finish_file enc crc s = (s', r) ->
    not_panic r /\ Inv s' /\
    match r with
    | Ok _ => (exists d, ws_inner s' = WStorer d) /\ ws_to_extra s' = false /\ ws_central_only s' = false /\ ws_raw s' = false
    | _ => True
    end.
  Proof.
    intros HI H. unfold finish_file in H.
    (* phase 0: pending extra data *)
    assert (P0 : exists s0 r0, (if ws_to_extra s
                 then (let '(s', r) := end_extra_data enc s in (s', match r with Ok _ => Ok tt | Err e => Err e | Panic p => Panic p end))
                 else (s, Ok tt)) = (s0, r0) /\ not_panic r0 /\ Inv s0 /\
                 match r0 with Ok _ => ws_to_extra s0 = false /\ ws_central_only s0 = false | _ => True end).
    { destruct (ws_to_extra s) eqn:Ex.
      - destruct (end_extra_data enc s) as [sa ra] eqn:Ee. destruct (end_extra_data_spec s sa ra HI Ee) as (Hn & HIa & Hp).
        eexists. eexists. split; [reflexivity|]. destruct ra as [v|e|p]; cbn in *; rsplit; auto; try tauto.
      - assert (Hco : ws_central_only s = false)
          by (destruct (ws_central_only s) eqn:Eco; [pose proof (inv_co s HI Eco); congruence|reflexivity]).
        exists s, (Ok tt). rsplit; auto. }
    destruct P0 as (s0 & r0 & E0 & Hn0 & HI0 & Hp0). rewrite E0 in H. clear E0.
    destruct r0 as [u0|e0|p0]; [| bail HI0 | destruct Hn0].
    destruct Hp0 as [Hx0 Hco0].
    (* phase 1: back to the storer *)
    destruct (switch_to enc s0 CompressionMethod_Stored None) as [s1 r1] eqn:E1.
    destruct (switch_to_frame enc _ _ _ _ _ E1) as [i1 ->].
    destruct (switch_to_spec enc s0 _ _ _ _ (inv_comp s0 HI0) E1) as (Hn1 & Hc1 & Hs1). cbn [set_inner ws_inner] in Hc1, Hs1.
    assert (HI1 : Inv (set_inner s0 i1)) by (apply inv_set_inner; auto; intros X; congruence).
    destruct r1 as [u1|e1|p1]; [| bail HI1 | destruct Hn1].
    destruct Hs1 as [_ Hop1]. specialize (Hop1 eq_refl).
    (* phase 2: an encrypting storer is finished *)
    match type of H with (let (_, _) := ?X in _) = _ => destruct X as [s2 r2] eqn:E2 end.
    assert (P2 : not_panic r2 /\ Inv s2 /\ ws_to_extra s2 = false /\ ws_central_only s2 = false /\
               ws_files s2 = ws_files s0 /\ ws_raw s2 = ws_raw s0 /\
               match r2 with Ok _ => exists d, ws_inner s2 = WStorer d | _ => True end).
    { cbn [set_inner ws_inner] in E2. destruct i1 as [l|d|d b k|? ? ? ? ?]; try discriminate Hop1.
      - injection E2 as <- <-. rsplit; auto. eexists; reflexivity.
      - cbv zeta in E2. destruct (zc_encrypt k _) as [k' ct].
        destruct (dev_write_all d ct) as [d1 [u|e|p]] eqn:Ew.
        + destruct (dev_flush d1) as [d2 [u2|e2|p2]] eqn:Ef.
          * injection E2 as <- <-. rsplit; auto.
            -- apply inv_set_inner; auto; try exact I; try reflexivity.
            -- eexists; reflexivity.
          * injection E2 as <- <-. rsplit; auto. apply inv_set_inner; auto; try exact I; try reflexivity.
          * exfalso. exact (dev_event_no_panic _ _ _ Ef).
        + injection E2 as <- <-. rsplit; auto. apply inv_set_inner; auto; try exact I; try reflexivity.
        + exfalso. exact (dev_write_all_no_panic _ _ _ _ Ew). }
    destruct P2 as (Hn2 & HI2 & Hx2 & Hco2 & Hf2 & Hraw2 & Hin2). clear E2.
    destruct r2 as [u2|e2|p2]; [| bail HI2 | destruct Hn2].
    destruct Hin2 as [d2 Hin2]. rewrite Hin2 in H.
    destruct (ws_raw s2) eqn:Er2.
    { injection H as <- <-. split; [exact I|]. split.
      - apply inv_set_flags; auto; try congruence.
      - cbn. rsplit; auto. eexists; exact Hin2. }
    destruct (last_file (ws_files s2)) as [f|] eqn:El.
    2:{ injection H as <- <-. split; [exact I|]. split; [exact HI2|]. rsplit; auto. eexists; exact Hin2. }
    assert (Hop2 : open_plain (ws_inner s2) = true) by (rewrite Hin2; reflexivity).
    destruct (with_plain s2 dev_pos) as [s3 r3] eqn:E3.
    destruct (with_plain_spec s2 _ s3 r3 Hop2 dev_pos_np E3) as (i3 & -> & Ho3 & Hn3 & Hst3).
    destruct (Hst3 d2 Hin2) as [d3 ->].
    assert (HI3 : Inv (set_inner s2 (WStorer d3))) by (apply inv_set_inner; auto; try exact I; try reflexivity).
    destruct r3 as [file_end|e3|p3]; [| bail HI3 | destruct Hn3].
    destruct (file_end <? ws_start (set_inner s2 (WStorer d3))); [bail HI3|].
    set (f' := wf_set_sizes f (crc (ws_hashed (set_inner s2 (WStorer d3)))) (ws_written (set_inner s2 (WStorer d3)))
                            (file_end - ws_start (set_inner s2 (WStorer d3)))) in *.
    set (s4 := set_files (set_inner s2 (WStorer d3)) (upd_last (ws_files (set_inner s2 (WStorer d3))) (fun _ => f'))) in *.
    assert (HI4 : Inv s4).
    { subst s4. apply inv_upd_last; [exact HI3|]. intros g _. subst f'. cbn.
      exact (last_file_time _ _ (inv_times s2 HI2) El). }
    assert (Hop4 : open_plain (ws_inner s4) = true) by reflexivity.
    match type of H with (match with_plain s4 ?k with _ => _ end) = _ => destruct (with_plain s4 k) as [s5 r5] eqn:E5 end.
    match type of E5 with with_plain s4 ?k = _ => assert (Hk : forall d, not_panic (snd (k d))) end.
    { intro d. pose proof (update_local_np d f') as X. destruct (update_local d f') as [d1 [u|e|p]]; cbn [snd] in *; [apply dev_seek_np|exact I|exact X]. }
    destruct (with_plain_spec s4 _ s5 r5 Hop4 Hk E5) as (i5 & -> & Ho5 & Hn5 & Hst5).
    destruct (Hst5 d3 eq_refl) as [d5 ->].
    assert (HI5 : Inv (set_inner s4 (WStorer d5))) by (apply inv_set_inner; auto; try exact I; try reflexivity).
    destruct r5 as [u5|e5|p5]; [| bail HI5 | destruct Hn5].
    injection H as <- <-. split; [exact I|]. split.
    - apply inv_set_flags; auto; subst s4; cbn; try congruence.
    - subst s4. cbn. rsplit; auto. eexists; reflexivity.
  Qed.

  (* start_entry *)
  Lemma mk_wfile_time name o raw hs : w_time (mk_wfile name o raw hs) = o_time o.
  Proof. unfold mk_wfile. destruct raw as [[[a b] c]|]; reflexivity. Qed.
  Lemma mk_wfile_extra name o raw hs : w_extra (mk_wfile name o raw hs) = [].
  Proof. unfold mk_wfile. destruct raw as [[[a b] c]|]; reflexivity. Qed.

  Lemma start_entry_spec s name o raw s' r : Inv s -> time_ok (o_time o) -> start_entry enc crc s name o raw = (s', r) ->
    not_panic r /\ Inv s' /\
    match r with
    | Ok _ => open_plain (ws_inner s') = true /\ ws_to_extra s' = false /\ ws_central_only s' = false /\
              exists f, last_file (ws_files s') = Some f /\ w_extra f = []
    | _ => True
    end.
  Proof.
    intros HI Ht H. unfold start_entry in H.
    destruct (65535 <? len name); [bail HI|].
    destruct (finish_file enc crc s) as [s1 r1] eqn:E1.
    destruct (finish_file_spec s s1 r1 HI E1) as (Hn1 & HI1 & Hp1).
    destruct r1 as [u1|e1|p1]; [| bail HI1 | destruct Hn1].
    destruct Hp1 as ([d1 Hin1] & Hx1 & Hco1 & Hraw1).
    assert (Hop1 : open_plain (ws_inner s1) = true) by (rewrite Hin1; reflexivity).
    destruct (with_plain s1 dev_pos) as [s2 r2] eqn:E2.
    destruct (with_plain_spec s1 _ s2 r2 Hop1 dev_pos_np E2) as (i2 & -> & Ho2 & Hn2 & Hst2).
    destruct (Hst2 d1 Hin1) as [d2 ->].
    assert (HI2 : Inv (set_inner s1 (WStorer d2))) by (apply inv_set_inner; auto; try exact I; try reflexivity).
    destruct r2 as [hs|e2|p2]; [| bail HI2 | destruct Hn2].
    cbv zeta in H.
    destruct (local_header_np (mk_wfile name o raw hs)) as [cs Hcs]; [rewrite mk_wfile_time; exact Ht|apply mk_wfile_extra|].
    rewrite Hcs in H.
    destruct (with_plain (set_inner s1 (WStorer d2)) (fun d => dev_write_chunks d cs)) as [s3 r3] eqn:E3.
    destruct (with_plain_spec (set_inner s1 (WStorer d2)) _ s3 r3 eq_refl (fun d => dev_write_chunks_np d cs) E3) as (i3 & -> & Ho3 & Hn3 & Hst3).
    destruct (Hst3 d2 eq_refl) as [d3 ->].
    assert (HI3 : Inv (set_inner (set_inner s1 (WStorer d2)) (WStorer d3))) by (apply inv_set_inner; auto; try exact I; try reflexivity).
    destruct r3 as [u3|e3|p3]; [| bail HI3 | destruct Hn3].
    destruct (with_plain (set_inner (set_inner s1 (WStorer d2)) (WStorer d3)) dev_pos) as [s4 r4] eqn:E4.
    destruct (with_plain_spec (set_inner (set_inner s1 (WStorer d2)) (WStorer d3)) _ s4 r4 eq_refl dev_pos_np E4) as (i4 & -> & Ho4 & Hn4 & Hst4).
    destruct (Hst4 d3 eq_refl) as [d4 ->].
    set (s4 := set_inner (set_inner (set_inner s1 (WStorer d2)) (WStorer d3)) (WStorer d4)) in *.
    assert (HI4 : Inv s4) by (subst s4; apply inv_set_inner; auto; try exact I; try reflexivity).
    destruct r4 as [he|e4|p4]; [| bail HI4 | destruct Hn4].
    set (f := wf_set_data_start (mk_wfile name o raw hs) he) in *.
    assert (HI5 : Inv (set_files (set_stats s4 he 0 []) (ws_files s4 ++ [f]))).
    { apply (inv_set_files_app (set_stats s4 he 0 [])); [apply inv_set_stats; exact HI4|].
      subst f. cbn. rewrite mk_wfile_time. exact Ht. }
    assert (Hlast : last_file (ws_files s4 ++ [f]) = Some f /\ w_extra f = []).
    { split; [apply last_file_app|]. subst f. cbn. apply mk_wfile_extra. }
    destruct (o_encrypt o) as [pw|].
    - cbn [ws_inner set_files set_stats] in H. subst s4. cbn [ws_inner set_inner] in H.
      injection H as <- <-. split; [exact I|]. split.
      + apply inv_set_inner; auto; try exact I. 
      + cbn. rsplit; auto. exists f. exact Hlast.
    - injection H as <- <-. split; [exact I|]. split; [exact HI5|].
      subst s4. cbn. rsplit; auto. exists f. exact Hlast.
  Qed.

  (* ---------- write *)
  Lemma zw_write_spec s buf s' r : Inv s -> zw_write s buf = (s', r) ->
    not_panic r /\ Inv s' /\ ws_to_file s' = ws_to_file s /\ ws_to_extra s' = ws_to_extra s /\ ws_central_only s' = ws_central_only s /\
    match r with Ok k => k <= len buf | _ => True end.
  Proof.
    intros HI H. unfold zw_write in H.
    destruct (negb (ws_to_file s)); [injection H as <- <-; rsplit; auto|].
    destruct (is_closed (ws_inner s)) eqn:Ecl.
    { destruct (ws_inner s); try discriminate Ecl. injection H as <- <-. rsplit; auto. }
    assert (H' : (if ws_to_extra s
                  then (set_files s (upd_last (ws_files s) (fun g => wf_set_extra g (w_extra g ++ buf))), Ok (len buf))
                  else
                    let '(i', r) :=
                      match ws_inner s with
                      | WStorer d => let '(d', r) := dev_write d buf in (WStorer d', r)
                      | WEnc d b k => (WEnc d (b ++ buf) k, Ok (len buf))
                      | WComp m l d e pending => (WComp m l d e (pending ++ buf), Ok (len buf))
                      | WClosed l => (WClosed l, Err closed_err)
                      end in
                    match r with
                    | Ok count =>
                        let s1 := set_stats (set_inner s i') (ws_start s) (ws_written s + count) (ws_hashed s ++ take count buf) in
                        let large := match last_file (ws_files s1) with Some f => w_large f | None => false end in
                        if (ZIP64_BYTES_THR <? ws_written s1) && negb large
                        then (set_inner s1 (close_of (ws_inner s1)), Err (EIo KOther ILargeFile))
                        else (s1, Ok count)
                    | Err e => (set_inner s i', Err e)
                    | Panic p => (set_inner s i', Panic p)
                    end) = (s', r)) by (destruct (ws_inner s); try discriminate Ecl; exact H).
    clear H. rename H' into H.
    destruct (ws_to_extra s) eqn:Ex.
    - injection H as <- <-. rsplit; auto; try lia. apply inv_upd_last; auto.
    - match type of H with (let (_, _) := ?X in _) = _ => destruct X as [i' r'] eqn:Ei end.
      assert (Hi : comp_ok i' /\ not_panic r' /\ match r' with Ok k => k <= len buf | _ => True end).
      { pose proof (inv_comp s HI) as Hc. destruct (ws_inner s) as [l|d|d b k|m lv d e pend]; try discriminate Ecl.
        - destruct (dev_write d buf) as [d' rr] eqn:Ew. injection Ei as <- <-. split; [exact I|]. split.
          + destruct rr; auto. exact (dev_write_no_panic _ _ _ _ Ew).
          + unfold dev_write in Ew. destruct (d_plan d) as [|[n|] pl]; injection Ew as _ <-; auto; lia.
        - injection Ei as <- <-. rsplit; auto; lia.
        - injection Ei as <- <-. rsplit; auto; lia. }
      destruct Hi as (Hc' & Hn' & Hk').
      assert (HIi : Inv (set_inner s i')) by (apply inv_set_inner; auto; congruence).
      destruct r' as [count|e|p]; [| injection H as <- <-; rsplit; auto | destruct Hn'].
      cbv zeta in H.
      match type of H with (if ?c then _ else _) = _ => destruct c end; injection H as <- <-; rsplit; auto.
      + apply inv_set_inner; [apply inv_set_stats; exact HIi|exact I|]. cbn. congruence.
      + apply inv_set_stats; exact HIi.
  Qed.

  Lemma zw_write_all_fuel_spec fuel : forall s buf s' r, (length buf < fuel)%nat -> Inv s -> zw_write_all_fuel fuel s buf = (s', r) ->
    not_panic r /\ Inv s' /\ ws_to_file s' = ws_to_file s /\ ws_to_extra s' = ws_to_extra s /\ ws_central_only s' = ws_central_only s.
  Proof.
    induction fuel as [|f IH]; intros s buf s' r Hf HI H; [lia|].
    destruct buf as [|b rest]; cbn [zw_write_all_fuel] in H; [injection H as <- <-; rsplit; auto|].
    destruct (zw_write s (b :: rest)) as [s1 r1] eqn:E1.
    destruct (zw_write_spec _ _ _ _ HI E1) as (Hn1 & HI1 & A & B & C & Hk).
    destruct r1 as [k|e|p]; [| injection H as <- <-; rsplit; auto | destruct Hn1].
    destruct (k =? 0) eqn:Ek; [injection H as <- <-; rsplit; auto|].
    apply IH in H; auto.
    - destruct H as (X1 & X2 & X3 & X4 & X5). rsplit; auto; congruence.
    - rewrite drop_skipn, skipn_length. apply N.eqb_neq in Ek. cbn [length] in *. lia.
  Qed.

  Lemma zw_write_all_spec s buf s' r : Inv s -> zw_write_all s buf = (s', r) ->
    not_panic r /\ Inv s' /\ ws_to_file s' = ws_to_file s /\ ws_to_extra s' = ws_to_extra s /\ ws_central_only s' = ws_central_only s.
  Proof. intros HI H. eapply zw_write_all_fuel_spec; [|exact HI|exact H]. lia. Qed.

  (* a write in extra-data mode only appends to the last record's extra data *)
  Lemma zw_write_all_extra s buf : ws_to_file s = true -> ws_to_extra s = true -> is_closed (ws_inner s) = false ->
    zw_write_all s buf =
      (match buf with [] => s | _ => set_files s (upd_last (ws_files s) (fun g => wf_set_extra g (w_extra g ++ buf))) end, Ok tt).
  Proof.
    intros Hf Hx Hc. unfold zw_write_all. destruct buf as [|b rest]; [reflexivity|].
    cbn [zw_write_all_fuel]. unfold zw_write. rewrite Hf, Hx. cbn [negb].
    destruct (ws_inner s); try discriminate Hc;
      (assert ((len (b :: rest) =? 0) = false) as -> by (unfold len; cbn [length]; lia);
       rewrite drop_all by lia; destruct (length (b :: rest)); reflexivity).
  Qed.

  (* ---------- the API calls *)
  Lemma with_perm_time o a b : o_time (with_perm o a b) = o_time o.  Proof. reflexivity. Qed.
  Lemma with_stored_time o : o_time (with_stored o) = o_time o.  Proof. reflexivity. Qed.

  Lemma start_file_spec s name o s' r : Inv s -> time_ok (o_time o) -> start_file enc crc s name o = (s', r) -> not_panic r /\ Inv s'.
  Proof.
    intros HI Ht H. unfold start_file in H.
    destruct (start_entry enc crc s name (with_perm o 420 32768) None) as [s1 r1] eqn:E1.
    destruct (start_entry_spec _ _ (with_perm o 420 32768) _ _ _ HI Ht E1) as (Hn1 & HI1 & Hp1).
    destruct r1 as [u1|e1|p1]; [| injection H as <- <-; auto | destruct Hn1].
    destruct Hp1 as (Ho1 & Hx1 & Hco1 & _).
    destruct (switch_to enc s1 _ _) as [s2 r2] eqn:E2.
    destruct (switch_to_frame enc _ _ _ _ _ E2) as [i2 ->].
    destruct (switch_to_spec enc s1 _ _ _ _ (inv_comp s1 HI1) E2) as (Hn2 & Hc2 & _). cbn [set_inner ws_inner] in Hc2.
    assert (HI2 : Inv (set_inner s1 i2)) by (apply inv_set_inner; auto; congruence).
    destruct r2 as [u2|e2|p2]; [| injection H as <- <-; auto | destruct Hn2].
    injection H as <- <-. split; [exact I|]. apply inv_set_flags; auto; cbn; congruence.
  Qed.

  Lemma start_extra_spec s name o s' r : Inv s -> time_ok (o_time o) -> start_file_with_extra_data enc crc s name o = (s', r) ->
    not_panic r /\ Inv s' /\
    match r with
    | Ok v => ws_to_file s' = true /\ ws_to_extra s' = true /\ ws_central_only s' = false /\ open_plain (ws_inner s') = true /\
              exists f, last_file (ws_files s') = Some f /\ w_extra f = [] /\ w_data_start f = v
    | _ => True
    end.
  Proof.
    intros HI Ht H. unfold start_file_with_extra_data in H.
    destruct (start_entry enc crc s name (with_perm o 420 32768) None) as [s1 r1] eqn:E1.
    destruct (start_entry_spec _ _ (with_perm o 420 32768) _ _ _ HI Ht E1) as (Hn1 & HI1 & Hp1).
    destruct r1 as [u1|e1|p1]; [| injection H as <- <-; auto | destruct Hn1].
    destruct Hp1 as (Ho1 & Hx1 & Hco1 & f & Hl & Hfx).
    cbn [set_flags ws_files] in H. rewrite Hl in H. injection H as <- <-.
    split; [exact I|]. split.
    - apply inv_set_flags; auto; try congruence.
      + intros _. intro X. rewrite X in Hl. discriminate.
      + intros _ _. now apply open_plainish.
    - cbn. rsplit; auto. exists f. auto.
  Qed.

  Lemma end_local_spec s s' r : Inv s -> end_local_start_central enc s = (s', r) ->
    not_panic r /\ Inv s' /\
    match r with
    | Ok v => ws_to_extra s = true /\ exists f, last_file (ws_files s) = Some f /\
              v = (if ws_central_only s then w_data_start f else w_data_start f + len (w_extra f))
    | _ => True
    end.
  Proof.
    intros HI H. unfold end_local_start_central in H.
    destruct (end_extra_data enc s) as [s1 r1] eqn:E1.
    destruct (end_extra_data_spec _ _ _ HI E1) as (Hn1 & HI1 & Hp1).
    destruct r1 as [v|e1|p1]; [| injection H as <- <-; auto | destruct Hn1].
    destruct Hp1 as (Hx & Hx1 & Hco1 & Hne1 & Hf).
    injection H as <- <-. split; [exact I|]. split; [|split; auto].
    apply inv_set_flags; auto; cbn.
    - apply inv_upd_last; auto.
    - intros _. apply upd_last_nonempty. exact Hne1.
    - discriminate.
  Qed.

  Lemma len_zeros n : len (zeros n) = n.
  Proof. unfold zeros, len. rewrite repeat_length. lia. Qed.

  Lemma last_file_upd fs g f : last_file fs = Some f -> last_file (upd_last fs g) = Some (g f).
  Proof. intro H. destruct (last_file_some _ _ H) as [pre ->]. rewrite upd_last_app. apply last_file_app. Qed.

  Lemma start_aligned_spec s name o align s' r : Inv s -> time_ok (o_time o) ->
    start_file_aligned enc crc s name o align = (s', r) -> not_panic r /\ Inv s'.
  Proof.
    intros HI Ht H. unfold start_file_aligned in H.
    destruct (start_file_with_extra_data enc crc s name o) as [s1 r1] eqn:E1.
    destruct (start_extra_spec _ _ _ _ _ HI Ht E1) as (Hn1 & HI1 & Hp1).
    destruct r1 as [ds|e1|p1]; [| injection H as <- <-; auto | destruct Hn1].
    destruct Hp1 as (Hf1 & Hx1 & Hco1 & Ho1 & f & Hl1 & Hfx & Hfd).
    (* the padding phase *)
    match type of H with (let (_, _) := ?X in _) = _ => destruct X as [s2 r2] eqn:E2 end.
    assert (P : not_panic r2 /\ Inv s2).
    { destruct ((1 <? align) && negb (ds mod align =? 0)) eqn:Ec; [|injection E2 as <- <-; auto].
      apply Bool.andb_true_iff in Ec. destruct Ec as [Ea _]. apply N.ltb_lt in Ea.
      cbv zeta in E2. fold (pad_of align ds) in E2. set (pad := pad_of align ds) in *.
      assert (Hcl1 : is_closed (ws_inner s1) = false) by now apply open_not_closed.
      rewrite (zw_write_all_extra s1 [x7a; x61] Hf1 Hx1 Hcl1) in E2. cbv beta iota in E2.
      set (sa := set_files s1 (upd_last (ws_files s1) (fun g => wf_set_extra g (w_extra g ++ [x7a; x61])))) in *.
      assert (HIa : Inv sa) by (subst sa; apply inv_upd_last; auto).
      rewrite (zw_write_all_extra sa (le16 (pad mod 65536)) Hf1 Hx1 Hcl1) in E2.
      assert (Hle : exists b0 b1, le16 (pad mod 65536) = [b0; b1]) by (repeat eexists; reflexivity).
      destruct Hle as (b0 & b1 & Hle). rewrite Hle in E2. cbv beta iota in E2.
      set (sb := set_files sa (upd_last (ws_files sa) (fun g => wf_set_extra g (w_extra g ++ [b0; b1])))) in *.
      assert (HIb : Inv sb) by (subst sb; apply inv_upd_last; auto).
      rewrite (zw_write_all_extra sb (zeros pad) Hf1 Hx1 Hcl1) in E2. cbv beta iota in E2.
      set (sc := match zeros pad with [] => sb | _ => set_files sb (upd_last (ws_files sb) (fun g => wf_set_extra g (w_extra g ++ zeros pad))) end) in *.
      assert (HIc : Inv sc) by (subst sc; destruct (zeros pad); [exact HIb|apply inv_upd_last; auto]).
      assert (Hlc : exists g, last_file (ws_files sc) = Some g /\ w_data_start g = ds /\ len (w_extra g) = 4 + pad).
      { assert (Hlb : last_file (ws_files sb) = Some (wf_set_extra (wf_set_extra f (w_extra f ++ [x7a; x61])) ((w_extra f ++ [x7a; x61]) ++ [b0; b1]))).
        { subst sb sa. cbn [ws_files set_files]. erewrite last_file_upd; [|erewrite last_file_upd; [|exact Hl1]; reflexivity]. reflexivity. }
        subst sc. destruct (zeros pad) as [|z zs] eqn:Ez.
        - eexists. split; [exact Hlb|]. cbn [wf_set_extra w_data_start w_extra]. split; [exact Hfd|].
          rewrite Hfx. cbn [app]. pose proof (len_zeros pad) as Hz. rewrite Ez in Hz. change (len []) with 0 in Hz. unfold len; cbn [length]. lia.
        - cbn [ws_files set_files]. erewrite last_file_upd; [|exact Hlb]. eexists. split; [reflexivity|].
          cbn [wf_set_extra w_data_start w_extra]. split; [exact Hfd|].
          rewrite Hfx. cbn [app]. rewrite <- Ez. pose proof (len_zeros pad) as Hz. unfold len in *. cbn [length]. lia. }
      destruct Hlc as (g & Hlg & Hgd & Hgl).
      assert (Hcoc : ws_central_only sc = false) by (subst sc sb sa; destruct (zeros pad); exact Hco1).
      destruct (end_local_start_central enc sc) as [sd rd] eqn:Ed.
      destruct (end_local_spec _ _ _ HIc Ed) as (Hnd & HId & Hpd).
      destruct rd as [ds'|ed|pd]; [| injection E2 as <- <-; auto | destruct Hnd].
      destruct Hpd as (_ & g' & Hlg' & Hv). rewrite Hlg in Hlg'. injection Hlg' as <-. rewrite Hcoc in Hv.
      assert (Hal : ds' mod align = 0) by (rewrite Hv, Hgd, Hgl, N.add_assoc; apply pad_aligns; lia).
      rewrite Hal in E2. change (0 =? 0) with true in E2. cbv iota in E2. injection E2 as <- <-. auto. }
    destruct P as (Hn2 & HI2). clear E2.
    destruct r2 as [u2|e2|p2]; [| injection H as <- <-; auto | destruct Hn2].
    destruct (end_extra_data enc s2) as [s3 r3] eqn:E3.
    destruct (end_extra_data_spec _ _ _ HI2 E3) as (Hn3 & HI3 & _).
    destruct r3 as [v3|e3|p3]; [| injection H as <- <-; auto | destruct Hn3].
    injection H as <- <-. auto.
  Qed.

  Lemma add_directory_spec s name o s' r : Inv s -> time_ok (o_time o) -> add_directory enc crc s name o = (s', r) -> not_panic r /\ Inv s'.
  Proof.
    intros HI Ht H. unfold add_directory in H.
    match type of H with (match start_entry enc crc s ?n ?oo None with _ => _ end) = _ =>
      destruct (start_entry enc crc s n oo None) as [s1 r1] eqn:E1;
      destruct (start_entry_spec _ _ oo _ _ _ HI Ht E1) as (Hn1 & HI1 & Hp1) end.
    destruct r1 as [u1|e1|p1]; [| injection H as <- <-; auto | destruct Hn1].
    destruct Hp1 as (Ho1 & Hx1 & Hco1 & _).
    injection H as <- <-. split; [exact I|]. apply inv_set_flags; auto; congruence.
  Qed.

  Lemma add_symlink_spec s name target o s' r : Inv s -> time_ok (o_time o) -> add_symlink enc crc s name target o = (s', r) -> not_panic r /\ Inv s'.
  Proof.
    intros HI Ht H. unfold add_symlink in H.
    match type of H with (match start_entry enc crc s ?n ?oo None with _ => _ end) = _ =>
      destruct (start_entry enc crc s n oo None) as [s1 r1] eqn:E1;
      destruct (start_entry_spec _ _ oo _ _ _ HI Ht E1) as (Hn1 & HI1 & Hp1) end.
    destruct r1 as [u1|e1|p1]; [| injection H as <- <-; auto | destruct Hn1].
    destruct Hp1 as (Ho1 & Hx1 & Hco1 & _).
    assert (HIa : Inv (set_flags s1 true (ws_to_extra s1) (ws_central_only s1) (ws_raw s1))) by (apply inv_set_flags; auto; congruence).
    destruct (zw_write_all _ target) as [s2 r2] eqn:E2.
    destruct (zw_write_all_spec _ _ _ _ HIa E2) as (Hn2 & HI2 & _ & Hx2 & Hco2). cbn in Hx2, Hco2.
    destruct r2 as [u2|e2|p2]; [| injection H as <- <-; auto | destruct Hn2].
    injection H as <- <-. split; [exact I|]. apply inv_set_flags; auto; congruence.
  Qed.

  Lemma raw_copy_spec s src raw name s' r : Inv s -> time_ok (f_time src) -> raw_copy enc crc s src raw name = (s', r) -> not_panic r /\ Inv s'.
  Proof.
    intros HI Ht H. unfold raw_copy in H.
    match type of H with (match start_entry enc crc s name ?oo ?rv with _ => _ end) = _ =>
      destruct (start_entry enc crc s name oo rv) as [s1 r1] eqn:E1;
      destruct (start_entry_spec _ _ oo _ _ _ HI Ht E1) as (Hn1 & HI1 & Hp1) end.
    destruct r1 as [u1|e1|p1]; [| injection H as <- <-; auto | destruct Hn1].
    destruct Hp1 as (Ho1 & Hx1 & Hco1 & _).
    assert (HIa : Inv (set_flags s1 true (ws_to_extra s1) (ws_central_only s1) true)) by (apply inv_set_flags; auto; congruence).
    destruct (zw_write_all_spec _ _ _ _ HIa H) as (Hn2 & HI2 & _). auto.
  Qed.

  (* finalize / finish / drop *)
  Lemma finalize_spec s s' r : Inv s -> finalize enc crc s = (s', r) ->
    not_panic r /\ Inv s' /\ match r with Ok _ => exists d, ws_inner s' = WStorer d | _ => True end.
  Proof.
    intros HI H. unfold finalize in H.
    destruct (65535 <? len (ws_comment s)); [injection H as <- <-; auto|].
    destruct (finish_file enc crc s) as [s1 r1] eqn:E1.
    destruct (finish_file_spec _ _ _ HI E1) as (Hn1 & HI1 & Hp1).
    destruct r1 as [u1|e1|p1]; [| injection H as <- <-; auto | destruct Hn1].
    destruct Hp1 as ([d1 Hin1] & Hx1 & Hco1 & _).
    assert (Hop1 : open_plain (ws_inner s1) = true) by (rewrite Hin1; reflexivity).
    match type of H with with_plain s1 ?k = _ => assert (Hk : forall d, not_panic (snd (k d))) end.
    { intro d. destruct (write_cd_footer (ws_files s1) (ws_comment s1) d) as [da ra] eqn:Ea.
      destruct (write_cd_footer_spec _ _ _ _ _ (inv_times s1 HI1) Ea) as [Hna Hpa].
      destruct ra as [cs|e|p]; cbn [snd]; [|exact I|exact Hna].
      destruct (dev_pos da) as [db rb] eqn:Eb. destruct (dev_pos_spec _ _ _ Eb) as [Hpb Hrb].
      destruct rb as [fe|e|p]; cbn [snd]; [|exact I|exact Hrb]. subst fe.
      destruct (dev_seek_end db) as [dc [se|e|p]] eqn:Ec; cbn [snd]; [|exact I|exact (dev_seek_end_no_panic _ _ _ Ec)].
      destruct (d_pos da <? se); [|exact I].
      assert ((d_pos da <? cs) = false) as -> by (apply N.ltb_ge; lia).
      destruct (dev_seek dc _) as [dd [u|e|p]] eqn:Ed; cbn [snd]; [|exact I|exact (dev_seek_no_panic _ _ _ _ Ed)].
      destruct (write_cd_footer (ws_files s1) (ws_comment s1) dd) as [de re] eqn:Ee.
      destruct (write_cd_footer_spec _ _ _ _ _ (inv_times s1 HI1) Ee) as [Hne _].
      destruct re; cbn [snd]; auto. }
    destruct (with_plain_spec s1 _ s' r Hop1 Hk H) as (i2 & -> & Ho2 & Hn2 & Hst2).
    destruct (Hst2 d1 Hin1) as [d2 ->].
    split; [exact Hn2|]. split.
    - apply inv_set_inner; auto; try exact I; try reflexivity.
    - destruct r; auto. eexists; reflexivity.
  Qed.

  Lemma finish_spec s s' r : Inv s -> finish enc crc s = (s', r) -> not_panic r /\ Inv s'.
  Proof.
    intros HI H. unfold finish in H.
    destruct (finalize enc crc s) as [s1 r1] eqn:E1.
    destruct (finalize_spec _ _ _ HI E1) as (Hn1 & HI1 & Hp1).
    destruct r1 as [u1|e1|p1]; [| injection H as <- <-; auto | destruct Hn1].
    destruct Hp1 as [d Hin]. rewrite Hin in H. injection H as <- <-. split; [exact I|].
    apply inv_set_inner; auto; try exact I; try reflexivity.
  Qed.

  Lemma drop_spec s s' r : Inv s -> drop_writer enc crc s = (s', r) -> not_panic r /\ Inv s'.
  Proof.
    intros HI H. unfold drop_writer in H.
    destruct (is_closed (ws_inner s)) eqn:Ecl.
    { destruct (ws_inner s); try discriminate Ecl. injection H as <- <-. auto. }
    assert (H' : match finalize enc crc s with
                 | (s1, Panic p) => (s1, Panic p)
                 | (s1, _) => (set_inner s1 (drop_inner enc (ws_inner s1)), Ok tt)
                 end = (s', r)) by (destruct (ws_inner s); try discriminate Ecl; exact H).
    clear H. destruct (finalize enc crc s) as [s1 r1] eqn:E1.
    destruct (finalize_spec _ _ _ HI E1) as (Hn1 & HI1 & _).
    assert (Hd : comp_ok (drop_inner enc (ws_inner s1)) /\ plainish (drop_inner enc (ws_inner s1)) = true).
    { unfold drop_inner. destruct (ws_inner s1) as [l|d|d b k|m lv d [e|] pend]; cbn; auto. destruct m; cbn; auto. }
    destruct Hd as [Hd1 Hd2].
    destruct r1 as [u1|e1|p1]; [| |destruct Hn1]; injection H' as <- <-; split; auto; apply inv_set_inner; auto.
  Qed.

  (* ---------- one call, and every sequence of calls *)
  Definition valid_call (c : wcall) : Prop :=
    match c with
    | KStartFile _ o | KStartExtra _ o | KStartAligned _ o _ | KAddDir _ o | KSymlink _ _ o => time_ok (o_time o)
    | KRawCopy src _ _ => time_ok (f_time src)
    | _ => True
    end.

  Lemma do_call_spec s c s' r : Inv s -> valid_call c -> do_call enc crc s c = (s', r) -> is_panic r = false /\ Inv s'.
  Proof.
    intros HI Hv H. destruct c; cbn [do_call valid_call] in *.
    - destruct (start_file enc crc s name o) as [sa ra] eqn:E. injection H as <- <-.
      destruct (start_file_spec _ _ _ _ _ HI Hv E) as [Hn HI']. split; [destruct ra; auto; destruct Hn|exact HI'].
    - destruct (zw_write_all s data) as [sa ra] eqn:E. injection H as <- <-.
      destruct (zw_write_all_spec _ _ _ _ HI E) as (Hn & HI' & _). split; [destruct ra; auto; destruct Hn|exact HI'].
    - destruct (start_file_with_extra_data enc crc s name o) as [sa ra] eqn:E. injection H as <- <-.
      destruct (start_extra_spec _ _ _ _ _ HI Hv E) as (Hn & HI' & _). split; [destruct ra; auto; destruct Hn|exact HI'].
    - destruct (start_file_aligned enc crc s name o align) as [sa ra] eqn:E. injection H as <- <-.
      destruct (start_aligned_spec _ _ _ _ _ _ HI Hv E) as (Hn & HI'). split; [destruct ra; auto; destruct Hn|exact HI'].
    - destruct (end_local_start_central enc s) as [sa ra] eqn:E. injection H as <- <-.
      destruct (end_local_spec _ _ _ HI E) as (Hn & HI' & _). split; [destruct ra; auto; destruct Hn|exact HI'].
    - destruct (end_extra_data enc s) as [sa ra] eqn:E. injection H as <- <-.
      destruct (end_extra_data_spec _ _ _ HI E) as (Hn & HI' & _). split; [destruct ra; auto; destruct Hn|exact HI'].
    - destruct (add_directory enc crc s name o) as [sa ra] eqn:E. injection H as <- <-.
      destruct (add_directory_spec _ _ _ _ _ HI Hv E) as (Hn & HI'). split; [destruct ra; auto; destruct Hn|exact HI'].
    - destruct (add_symlink enc crc s name target o) as [sa ra] eqn:E. injection H as <- <-.
      destruct (add_symlink_spec _ _ _ _ _ _ HI Hv E) as (Hn & HI'). split; [destruct ra; auto; destruct Hn|exact HI'].
    - injection H as <- <-. split; [reflexivity|]. now apply inv_set_comment.
    - destruct (raw_copy enc crc s src raw name) as [sa ra] eqn:E. injection H as <- <-.
      destruct (raw_copy_spec _ _ _ _ _ _ HI Hv E) as (Hn & HI'). split; [destruct ra; auto; destruct Hn|exact HI'].
    - destruct (finish enc crc s) as [sa ra] eqn:E. injection H as <- <-.
      destruct (finish_spec _ _ _ HI E) as (Hn & HI'). split; [destruct ra; auto; destruct Hn|exact HI'].
    - destruct (drop_writer enc crc s) as [sa ra] eqn:E. injection H as <- <-.
      destruct (drop_spec _ _ _ HI E) as (Hn & HI'). split; [destruct ra; auto; destruct Hn|exact HI'].
  Qed.

  Theorem run_calls_no_panic : forall cs s s' rs, Inv s -> Forall valid_call cs -> run_calls enc crc s cs = (s', rs) ->
    Forall (fun r => is_panic r = false) rs /\ Inv s'.
  Proof.
    induction cs as [|c rest IH]; intros s s' rs HI Hv H; cbn [run_calls] in H.
    - injection H as <- <-. split; [constructor|exact HI].
    - inversion Hv as [|? ? Hc Hr]; subst.
      destruct (do_call enc crc s c) as [s1 r1] eqn:E1.
      destruct (do_call_spec _ _ _ _ HI Hc E1) as [Hp1 HI1].
      destruct (run_calls enc crc s1 rest) as [s2 rs2] eqn:E2.
      injection H as <- <-. destruct (IH _ _ _ HI1 Hr E2) as [Hps HI2]. split; [constructor; auto|exact HI2].
  Qed.
End W2.

(* ---------- a writer opened for append satisfies the invariant *)
Lemma z64_step_time ex acc w : f_time (fst (fst (z64_step ex acc w))) = f_time (fst (fst acc)).
Proof.
  destruct acc as [[g p] e]. unfold z64_step. destruct e; [reflexivity|].
  destruct (_ =? ZIP64_BYTES_THR); [|reflexivity].
  destruct (ex_u ex p 8); cbn [fst]; try reflexivity; destruct (w =? 0), (w =? 1), (w =? 2); reflexivity.
Qed.

Lemma z64_fields_time ex f p0 : f_time (fst (fst (z64_fields ex f p0))) = f_time f.
Proof. unfold z64_fields. now rewrite !z64_step_time. Qed.

Lemma parse_extra_time fuel : forall f pos, f_time (fst (parse_extra fuel f pos)) = f_time f.
Proof.
  induction fuel as [|fu IH]; intros f pos; cbn [parse_extra]; destruct (len (f_extra f) <=? pos); try reflexivity.
  destruct (ex_u (f_extra f) pos 2) as [kind| |]; try reflexivity.
  destruct (ex_u (f_extra f) (pos + 2) 2) as [flen| |]; try reflexivity.
  destruct (kind =? 1).
  - pose proof (z64_fields_time (f_extra f) f (pos + 4)) as Hz.
    destruct (z64_fields (f_extra f) f (pos + 4)) as [[g p] e]. cbn [fst] in Hz.
    destruct e; cbn [fst]; [exact Hz|]. rewrite IH. exact Hz.
  - destruct (kind =? 39169).
    + destruct (negb (flen =? 7)); [reflexivity|]. destruct (aes_field _ _); [|reflexivity]. rewrite IH. reflexivity.
    + apply IH.
Qed.

Lemma from_msdos_time_ok d t dt : DateTime_from_msdos d t = Some dt -> time_ok dt.
Proof.
  unfold DateTime_from_msdos. cbv zeta. unfold obind, add_chk. destruct (fits 16 _); [|discriminate].
  intros [= <-]. unfold time_ok, DateTime_datepart. cbn [DateTime_year]. unfold obind, sub_chk.
  assert ((1980 <=? N.shiftr (N.land d 65024) 9 + 1980) = true) as -> by (apply N.leb_le; lia). discriminate.
Qed.

Lemma parse_central_time data pos ao f pos' : parse_central data pos ao = Ok (f, pos') -> time_ok (f_time f).
Proof.
  unfold parse_central. intro H.
  repeat match type of H with
         | (let* _ := of_opt (DateTime_from_msdos ?a ?b) _ in _) = _ =>
             destruct (DateTime_from_msdos a b) as [dt|] eqn:Edt; cbn [of_opt bind] in H; [|discriminate]
         | (let* _ := ?X in _) = _ => destruct X as [?v| |]; cbn [bind] in H; try discriminate
         | (if ?c then _ else _) = _ => destruct c; try discriminate
         end.
  match type of H with context [parse_extra_field ?f0] =>
    pose proof (parse_extra_time (S (N.to_nat (len (f_extra f0)))) f0 0) as Hpt; unfold parse_extra_field in H;
    destruct (parse_extra (S (N.to_nat (len (f_extra f0)))) f0 0) as [f1 r1] end.
  cbn [fst f_time] in Hpt.
  repeat match type of H with
         | (let* _ := ?X in _) = _ => destruct X as [?v| |]; cbn [bind] in H; try discriminate
         | (if ?c then _ else _) = _ => destruct c; try discriminate
         end.
  injection H as <- _. cbn [set_sizes f_time]. rewrite Hpt. exact (from_msdos_time_ok _ _ _ Edt).
Qed.

Lemma parse_cd_times fuel : forall data n pos ao files, parse_cd fuel data n pos ao = Ok files ->
  Forall (fun f => time_ok (f_time f)) files.
Proof.
  induction fuel as [|fu IH]; intros data n pos ao files H; cbn [parse_cd] in H; destruct (n =? 0);
    try (injection H as <-; constructor); try discriminate.
  destruct (parse_central data pos ao) as [[f pos']| |] eqn:Ec; cbn [bind] in H; try discriminate.
  destruct (parse_cd fu data (n - 1) pos' ao) as [rest| |] eqn:Er; cbn [bind] in H; try discriminate.
  injection H as <-. constructor; [exact (parse_central_time _ _ _ _ _ Ec)|exact (IH _ _ _ _ _ Er)].
Qed.

Lemma inv_new_append data plan s : new_append data plan = Ok s -> Inv s.
Proof.
  unfold new_append. intro H.
  destruct (find_eocd data) as [[e cde]| |]; cbn [bind] in H; try discriminate.
  destruct (negb (e_disk e =? e_disk_cd e)); [discriminate|].
  destruct (get_directory_counts data e cde) as [[[ao ds] n]| |]; cbn [bind] in H; try discriminate.
  destruct (cde <? ds); [discriminate|].
  destruct (parse_cd (S (length data)) data n ds ao) as [files| |] eqn:E4; cbn [bind] in H; try discriminate.
  injection H as <-. constructor; cbn; try discriminate; try exact I.
  apply parse_cd_times in E4. unfold times_ok. rewrite Forall_map. exact E4.
Qed.
