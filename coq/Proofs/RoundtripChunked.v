(* Proofs/RoundtripChunked.v — the write-then-read theorems were proved for a sink that accepts every write whole;
   by the writer simulation (Proofs/ChunkSim.v) the same program over ANY sink that splits writes arbitrarily (and
   does not fail) succeeds as well and finish() returns the very same bytes, so every conclusion about those bytes
   (C01_stored_roundtrip, C10_stream_sees_what_was_written, ...) holds for such sinks too. *)
From Coq Require Import ZArith List.
From ZipV Require Import Base.Bytes Base.Outcome Gen.CompressionGen Model.Readers Model.Reader Model.Writer
     Proofs.ShortWrites Proofs.ChunkSim Proofs.StoredRoundtrip.
Import ListNotations.
Open Scope N_scope.

Section RC.
  Variable enc : CompressionMethod -> Z -> bytes -> bytes.
  Variable crc : bytes -> N.

  Lemma write_entries_sim : forall es s1 s2 s1' r, R s1 s2 -> write_entries enc crc s1 es = (s1', r) -> not_large r ->
    exists s2', write_entries enc crc s2 es = (s2', r) /\ R s1' s2'.
  Proof.
    induction es as [|[[n o] c] es IH]; intros s1 s2 s1' r HR H Hnl; cbn [write_entries] in *.
    - injection H as <- <-. eexists. split; [reflexivity|exact HR].
    - destruct (start_file enc crc s1 n o) as [sa ra] eqn:Ea. destruct (start_file_sim enc crc _ _ _ _ _ _ HR Ea) as (sb & Eb & HRa). rewrite Eb.
      destruct ra as [ua|ea|pa]; [|injection H as <- <-; eexists; split; [reflexivity|exact HRa]..].
      destruct (zw_write_all sa c) as [sc rc] eqn:Ec.
      assert (Hn : not_large rc) by (destruct rc; try discriminate; injection H as _ <-; exact Hnl).
      destruct (zw_write_all_sim _ _ _ _ _ HRa Ec Hn) as (sd & Ed & HRc). rewrite Ed.
      destruct rc as [uc|ec|pc]; [|injection H as <- <-; eexists; split; [reflexivity|exact HRc]..].
      exact (IH _ _ _ _ HRc H Hnl).
  Qed.

  Theorem roundtrip_any_chunking es plan s' s3 data :
    nofail plan -> write_entries enc crc (new_writer []) es = (s', Ok tt) -> finish enc crc s' = (s3, Ok data) ->
    exists sp s3p, write_entries enc crc (new_writer plan) es = (sp, Ok tt) /\ finish enc crc sp = (s3p, Ok data).
  Proof.
    intros Hp Hw Hf.
    destruct (write_entries_sim es _ _ _ _ (R_new [] plan (Forall_nil _) Hp) Hw) as (sp & Ep & HRp); [discriminate|].
    destruct (finish_sim enc crc _ _ _ _ HRp Hf) as (s3p & Ef & _).
    exists sp, s3p. split; assumption.
  Qed.
End RC.
