(* Proofs/StreamProofs.v — chunk independence as a compositional fact.
   A reader [rd] with invariant [Inv] *streams* a denotation [D : S -> den]: [Good d] = "the remaining
   output is exactly d and the stream then ends cleanly", [Bad] = "no run ever completes successfully".
   [streams] is a one-step property; [run_good]/[run_bad] lift it to every schedule of caller buffer
   sizes (including zero-length reads), which is chunk independence: the bytes of a completed run are
   a function of the initial state only. *)
From ZipV Require Import Base.Bytes Base.Outcome Model.Readers.
Open Scope N_scope.

Inductive den := Good (d : bytes) | Bad.

Definition step_ok {S} (D : S -> den) (Inv : S -> Prop) (s : S) (n : N) (r : res (bytes * S)) : Prop :=
  match r with
  | Ok (bs, s') =>
      Inv s' /\ len bs <= n /\
      match D s with
      | Good d => exists d', d = bs ++ d' /\ D s' = Good d' /\ (0 < n -> bs = [] -> d = [])
      | Bad => D s' = Bad /\ (0 < n -> bs <> [])
      end
  | Err _ => D s = Bad
  | Panic _ => False
  end.

Definition streams {S} (rd : reader S) (Inv : S -> Prop) (D : S -> den) : Prop :=
  forall s n, Inv s -> step_ok D Inv s n (rd s n).

Definition oks (outs : list (res bytes)) : bytes :=
  flat_map (fun r => match r with Ok b => b | _ => [] end) outs.
Definition all_ok (outs : list (res bytes)) : Prop := Forall (fun r => exists b, r = Ok b) outs.

Section Lift.
  Context {S : Type} (rd : reader S) (Inv : S -> Prop) (D : S -> den).
  Hypothesis H : streams rd Inv D.

  (* every schedule on a Good state: no error, outputs form a prefix of d, the final state denotes the rest *)
  Lemma run_good : forall bufs s d outs sf,
    Inv s -> D s = Good d -> run_reads rd s bufs = (outs, sf) ->
    all_ok outs /\ length outs = length bufs /\ Inv sf /\ exists rest, d = oks outs ++ rest /\ D sf = Good rest.
  Proof.
    induction bufs as [|n bufs IH]; intros s d outs sf Hi Hd Hr; cbn [run_reads] in Hr.
    - injection Hr as <- <-. repeat split; [constructor|assumption|]. exists d. now split.
    - pose proof (H s n Hi) as Hs. unfold step_ok in Hs. rewrite Hd in Hs.
      destruct (rd s n) as [[bs s']|e|p]; [|discriminate|contradiction].
      destruct Hs as (Hi' & Hl & d' & -> & Hd' & _).
      destruct (run_reads rd s' bufs) as [outs' sf'] eqn:Er. injection Hr as <- <-.
      destruct (IH s' d' outs' sf' Hi' Hd' Er) as (Ha & Hn & Hif & rest & -> & Hf).
      repeat split.
      + constructor; [eauto|assumption].
      + cbn [length]. now rewrite Hn.
      + assumption.
      + exists rest. split; [|assumption]. unfold oks. cbn [flat_map]. now rewrite app_assoc.
  Qed.

  (* a completed run (an observed end of file on a non-empty buffer) delivered exactly d,
     and every later read keeps returning no bytes *)
  Theorem complete_run : forall bufs s d outs sf k n,
    Inv s -> D s = Good d -> run_reads rd s bufs = (outs, sf) ->
    nth_error bufs k = Some n -> 0 < n -> nth_error outs k = Some (Ok []) ->
    oks (firstn k outs) = d /\ forall j r, (k <= j)%nat -> nth_error outs j = Some r -> r = Ok [].
  Proof.
    induction bufs as [|m bufs IH]; intros s d outs sf k n Hi Hd Hr Hk Hn Ho.
    - destruct k; discriminate.
    - cbn [run_reads] in Hr. pose proof (H s m Hi) as Hs. unfold step_ok in Hs. rewrite Hd in Hs.
      destruct (rd s m) as [[bs s']|e|p]; [|discriminate|contradiction].
      destruct Hs as (Hi' & Hl & d' & -> & Hd' & Heof).
      destruct (run_reads rd s' bufs) as [outs' sf'] eqn:Er. injection Hr as <- <-.
      destruct k as [|k].
      + cbn in Hk, Ho. injection Hk as ->. injection Ho as ->.
        specialize (Heof Hn eq_refl). cbn [app] in Heof. subst d'.
        split; [reflexivity|]. intros j r Hj Hjr.
        destruct j as [|j]; [cbn in Hjr; now injection Hjr as <-|]. cbn in Hjr.
        (* all later reads: state denotes Good [] *)
        clear IH Hj. revert s' outs' sf' Hi' Hd' Er j r Hjr.
        induction bufs as [|m' bufs IHb]; intros s' outs' sf' Hi' Hd' Er j r Hjr.
        * cbn in Er. injection Er as <- <-. destruct j; discriminate.
        * cbn [run_reads] in Er. pose proof (H s' m' Hi') as Hs'. unfold step_ok in Hs'. rewrite Hd' in Hs'.
          destruct (rd s' m') as [[bs2 s2]|e|p]; [|discriminate|contradiction].
          destruct Hs' as (Hi2 & _ & d2 & Hsplit & Hd2 & _).
          symmetry in Hsplit. apply app_eq_nil in Hsplit as [-> ->].
          destruct (run_reads rd s2 bufs) as [o2 sf2] eqn:Er2. injection Er as <- <-.
          destruct j as [|j]; [cbn in Hjr; now injection Hjr as <-|]. cbn in Hjr.
          exact (IHb s2 o2 sf2 Hi2 Hd2 Er2 j r Hjr).
      + cbn in Hk, Ho.
        destruct (IH s' d' outs' sf' k n Hi' Hd' Er Hk Hn Ho) as [E L].
        split.
        * cbn [firstn]. unfold oks in *. cbn [flat_map]. now rewrite E.
        * intros j r Hj Hjr. destruct j as [|j]; [lia|]. cbn in Hjr. apply (L j r); [lia|assumption].
  Qed.

  (* on a Bad state no schedule ever observes a clean end of file *)
  Theorem run_bad : forall bufs s outs sf k n,
    Inv s -> D s = Bad -> run_reads rd s bufs = (outs, sf) ->
    nth_error bufs k = Some n -> 0 < n -> nth_error outs k <> Some (Ok []).
  Proof.
    induction bufs as [|m bufs IH]; intros s outs sf k n Hi Hd Hr Hk Hn.
    - destruct k; discriminate.
    - cbn [run_reads] in Hr. pose proof (H s m Hi) as Hs. unfold step_ok in Hs. rewrite Hd in Hs.
      destruct (rd s m) as [[bs s']|e|p]; [| |contradiction].
      + destruct Hs as (Hi' & Hl & Hd' & Hne).
        destruct (run_reads rd s' bufs) as [outs' sf'] eqn:Er. injection Hr as <- <-.
        destruct k as [|k].
        * cbn in Hk |- *. injection Hk as ->. intros [= ->]. now apply (Hne Hn).
        * cbn in Hk |- *. exact (IH s' outs' sf' k n Hi' Hd' Er Hk Hn).
      + injection Hr as <- <-. destruct k as [|k]; cbn; [discriminate|]. destruct k; discriminate.
  Qed.

  (* chunk independence: two complete runs from the same state deliver the same bytes *)
  Corollary chunk_independent : forall s d bufs1 bufs2 outs1 outs2 sf1 sf2 k1 k2 n1 n2,
    Inv s -> D s = Good d ->
    run_reads rd s bufs1 = (outs1, sf1) -> run_reads rd s bufs2 = (outs2, sf2) ->
    nth_error bufs1 k1 = Some n1 -> 0 < n1 -> nth_error outs1 k1 = Some (Ok []) ->
    nth_error bufs2 k2 = Some n2 -> 0 < n2 -> nth_error outs2 k2 = Some (Ok []) ->
    oks (firstn k1 outs1) = oks (firstn k2 outs2).
  Proof.
    intros s d bufs1 bufs2 outs1 outs2 sf1 sf2 k1 k2 n1 n2 Hi Hd R1 R2 K1 N1 O1 K2 N2 O2.
    destruct (complete_run bufs1 s d outs1 sf1 k1 n1 Hi Hd R1 K1 N1 O1) as [E1 _].
    destruct (complete_run bufs2 s d outs2 sf2 k2 n2 Hi Hd R2 K2 N2 O2) as [E2 _].
    congruence.
  Qed.
End Lift.

(* ---------- the source: whatever the plan of short reads, it streams its data *)
Definition plan_ok (p : list pev) : Prop := Forall (fun e => e <> PFail) p.

Lemma src_streams : streams src_read (fun s => plan_ok (s_plan s)) (fun s => Good (s_data s)).
Proof.
  intros s n Hp. unfold step_ok, src_read. destruct s as [data plan]; cbn [s_plan s_data] in *.
  destruct plan as [|e plan].
  - cbn [s_plan s_data]. split; [constructor|]. split; [rewrite len_take; lia|].
    exists (drop n data). split; [now rewrite take_drop|]. split; [reflexivity|].
    intros Hn Hz. assert (len (take n data) = 0) as Hl by (now rewrite Hz).
    rewrite len_take in Hl. destruct data; [reflexivity|]. unfold len in Hl. cbn [length] in Hl. lia.
  - inversion Hp as [|? ? He Hp']; subst. destruct e as [c|]; [|contradiction].
    cbn [s_plan s_data]. split; [exact Hp'|]. split; [rewrite len_take; lia|].
    exists (drop (N.min n (N.max 1 c)) data). split; [now rewrite take_drop|]. split; [reflexivity|].
    intros Hn Hz. assert (len (take (N.min n (N.max 1 c)) data) = 0) as Hl by (now rewrite Hz).
    rewrite len_take in Hl. destruct data; [reflexivity|]. unfold len in Hl. cbn [length] in Hl. lia.
Qed.

Definition always_good {S} (Inv : S -> Prop) (D : S -> den) : Prop :=
  forall s, Inv s -> exists d, D s = Good d.

(* ---------- Take (over an inner stream that cannot fail: the raw source) *)
Section TakeProof.
  Context {I : Type} (ird : reader I) (Inv : I -> Prop) (Di : I -> den).
  Hypothesis Hi : streams ird Inv Di.
  Hypothesis Hg : always_good Inv Di.

  Definition take_den (s : take_st I) : den :=
    if t_limit s =? 0 then Good []
    else match Di (t_inner s) with Good d => Good (take (t_limit s) d) | Bad => Bad end.

  Lemma take_streams : streams (take_read ird) (fun s => Inv (t_inner s)) take_den.
  Proof.
    intros [i lim] n Hinv. cbn [t_inner] in Hinv. unfold step_ok, take_read, take_den; cbn [t_limit t_inner].
    destruct (lim =? 0) eqn:El.
    - cbn [t_inner t_limit]. rewrite El. split; [assumption|]. split; [unfold len; cbn; lia|].
      exists []. repeat split; reflexivity.
    - pose proof (Hi i (N.min n lim) Hinv) as Hs. unfold step_ok in Hs.
      destruct (Hg i Hinv) as [d Hd]. rewrite Hd in Hs |- *.
      destruct (ird i (N.min n lim)) as [[bs i']|e|p]; cbn [bind]; [|discriminate|contradiction].
      destruct Hs as (Hinv' & Hl & d' & -> & Hd' & Heof). cbn [t_inner t_limit].
      split; [assumption|]. split; [lia|].
      destruct (lim - len bs =? 0) eqn:El2.
      + exists []. split.
        * rewrite app_nil_r. assert (len bs = lim) as Hb by lia. rewrite <- Hb. now rewrite take_app_exact.
        * split; [reflexivity|]. intros Hn ->. unfold len in *. cbn in *. lia.
      + rewrite Hd'. exists (take (lim - len bs) d'). split.
        * rewrite !take_firstn. replace (N.to_nat lim) with (length bs + N.to_nat (lim - len bs))%nat
            by (unfold len in *; lia).
          rewrite firstn_app_2. reflexivity.
        * split; [reflexivity|]. intros Hn ->. cbn [app]. unfold len; cbn [length].
          replace (lim - N.of_nat 0) with lim by lia.
          pose proof (Heof ltac:(lia) eq_refl) as E. cbn [app] in E. rewrite E. rewrite take_firstn. now rewrite firstn_nil.
  Qed.

  Lemma take_always_good : always_good (fun s : take_st I => Inv (t_inner s)) take_den.
  Proof.
    intros [i lim] Hinv. unfold take_den; cbn [t_limit t_inner] in *.
    destruct (lim =? 0); [eauto|]. destruct (Hg i Hinv) as [d ->]. eauto.
  Qed.
End TakeProof.

(* ---------- ZipCrypto: the key state is a function of the bytes consumed so far *)
Lemma zc_decrypt_app : forall a k b,
  zc_decrypt k (a ++ b) =
  let '(k1, pa) := zc_decrypt k a in let '(k2, pb) := zc_decrypt k1 b in (k2, pa ++ pb).
Proof.
  induction a as [|c a IH]; intros k b; cbn [app zc_decrypt].
  - destruct (zc_decrypt k b); reflexivity.
  - destruct (Gen.ZipCryptoGen.ZipCryptoKeys_decrypt_byte k (b2n c)) as [k1 p].
    rewrite IH. destruct (zc_decrypt k1 a) as [k2 pa]. destruct (zc_decrypt k2 b) as [k3 pb]. reflexivity.
Qed.

Lemma zc_decrypt_len : forall a k, length (snd (zc_decrypt k a)) = length a.
Proof.
  induction a as [|c a IH]; intro k; cbn [zc_decrypt]; [reflexivity|].
  destruct (Gen.ZipCryptoGen.ZipCryptoKeys_decrypt_byte k (b2n c)) as [k1 p].
  specialize (IH k1). destruct (zc_decrypt k1 a) as [k2 pa]. cbn [snd length] in *. now rewrite IH.
Qed.

Section ZcProof.
  Context {I : Type} (ird : reader I) (Inv : I -> Prop) (Di : I -> den).
  Hypothesis Hi : streams ird Inv Di.

  Definition zc_den (s : zc_st I) : den :=
    match Di (z_inner s) with Good r => Good (snd (zc_decrypt (z_keys s) r)) | Bad => Bad end.

  Lemma zc_streams : streams (zc_read ird) (fun s => Inv (z_inner s)) zc_den.
  Proof.
    intros [i k] n Hinv. cbn [z_inner] in Hinv. unfold step_ok, zc_read, zc_den; cbn [z_inner z_keys].
    pose proof (Hi i n Hinv) as Hs. unfold step_ok in Hs.
    destruct (ird i n) as [[ct i']|e|p]; cbn [bind]; [| |contradiction].
    - destruct Hs as (Hinv' & Hl & Hs).
      pose proof (zc_decrypt_len ct k) as Hlen.
      destruct (zc_decrypt k ct) as [k' pt] eqn:Ed. cbn [snd] in Hlen. cbn [z_inner z_keys].
      split; [assumption|]. split; [unfold len in *; lia|].
      destruct (Di i) as [d|].
      + destruct Hs as (d' & -> & Hd' & Heof). rewrite Hd'.
        exists (snd (zc_decrypt k' d')). split.
        * rewrite zc_decrypt_app, Ed. destruct (zc_decrypt k' d'); reflexivity.
        * split; [reflexivity|]. intros Hn ->. destruct ct; [|discriminate].
          rewrite (Heof Hn eq_refl). reflexivity.
      + destruct Hs as [Hd' Hne]. rewrite Hd'. split; [reflexivity|].
        intros Hn ->. destruct ct; [|discriminate]. now apply Hne.
    - now rewrite Hs.
  Qed.
End ZcProof.

(* ---------- Crc32Reader *)
Section CrcProof.
  Variable crc : bytes -> N.
  Context {I : Type} (ird : reader I) (Inv : I -> Prop) (Di : I -> den).
  Hypothesis Hi : streams ird Inv Di.

  Definition crc_den (s : crc_st I) : den :=
    match Di (k_inner s) with
    | Good r => if k_ae2 s || (crc (k_seen s ++ r) =? k_check s) then Good r else Bad
    | Bad => Bad
    end.

  Lemma crc_streams : streams (crc_read crc ird) (fun s => Inv (k_inner s)) crc_den.
  Proof.
    intros [i seen chk ae2] n Hinv. cbn [k_inner] in Hinv.
    unfold step_ok, crc_read, crc_den; cbn [k_inner k_seen k_check k_ae2].
    pose proof (Hi i n Hinv) as Hs. unfold step_ok in Hs.
    destruct (ird i n) as [[bs i']|e|p]; cbn [bind]; [| |contradiction].
    - destruct Hs as (Hinv' & Hl & Hs).
      destruct (Di i) as [d|] eqn:Edi.
      + destruct Hs as (d' & -> & Hd' & Heof).
        destruct (len bs =? 0) eqn:Eb.
        * assert (bs = []) as -> by (destruct bs; [reflexivity|unfold len in Eb; cbn in Eb; lia]).
          cbn [app] in *. cbn [andb].
          destruct (n =? 0) eqn:En; cbn [negb andb].
          -- cbn [k_inner k_seen k_check k_ae2]. rewrite app_nil_r, Hd'.
             split; [assumption|]. split; [assumption|].
             destruct (ae2 || (crc (seen ++ d') =? chk)).
             ++ exists d'. split; [reflexivity|]. split; [reflexivity|]. lia.
             ++ split; [reflexivity|]. lia.
          -- assert (d' = []) as -> by (apply Heof; [lia|reflexivity]).
             rewrite app_nil_r.
             destruct (crc seen =? chk) eqn:Ec; destruct ae2; cbn [negb andb orb];
               cbn [k_inner k_seen k_check k_ae2]; rewrite ?Hd'; rewrite ?app_nil_r; rewrite ?Ec; cbn [orb];
               try reflexivity;
               (split; [assumption|]; split; [assumption|]; exists []; repeat split; reflexivity).
        * cbn [andb]. cbn [k_inner k_seen k_check k_ae2]. rewrite Hd', <- app_assoc.
          split; [assumption|]. split; [assumption|].
          destruct (ae2 || (crc (seen ++ bs ++ d') =? chk)).
          -- exists d'. split; [reflexivity|]. split; [reflexivity|]. intros _ ->. unfold len in Eb. cbn in Eb. lia.
          -- split; [reflexivity|]. intros _ ->. unfold len in Eb. cbn in Eb. lia.
      + destruct Hs as [Hd' Hne].
        destruct (len bs =? 0) eqn:Eb.
        * assert (bs = []) as -> by (destruct bs; [reflexivity|unfold len in Eb; cbn in Eb; lia]).
          destruct (n =? 0) eqn:En; cbn [negb andb].
          -- cbn [k_inner k_seen k_check k_ae2]. rewrite Hd'. repeat split; try assumption; lia.
          -- exfalso. apply Hne; [lia|reflexivity].
        * cbn [andb]. cbn [k_inner k_seen k_check k_ae2]. rewrite Hd'. repeat split; try assumption;
            try (intros _ E; subst bs; unfold len in Eb; cbn in Eb; lia).
    - now rewrite Hs.
  Qed.

  (* C04 at the checksum layer: a clean end of file means the declared CRC matched (or AE-2) *)
  Theorem crc_complete_implies_match : forall bufs s outs sf k n,
    Inv (k_inner s) -> run_reads (crc_read crc ird) s bufs = (outs, sf) ->
    nth_error bufs k = Some n -> 0 < n -> nth_error outs k = Some (Ok []) ->
    exists r, Di (k_inner s) = Good r /\ oks (firstn k outs) = r /\
              (k_ae2 s = true \/ crc (k_seen s ++ r) = k_check s).
  Proof.
    intros bufs s outs sf k n Hinv Hr Hk Hn Ho.
    destruct (crc_den s) as [d|] eqn:Ed.
    - destruct (complete_run _ _ _ crc_streams bufs s d outs sf k n Hinv Ed Hr Hk Hn Ho) as [E _].
      unfold crc_den in Ed. destruct (Di (k_inner s)) as [r|]; [|discriminate].
      destruct (k_ae2 s || (crc (k_seen s ++ r) =? k_check s)) eqn:Ec; [|discriminate].
      injection Ed as <-. exists r. split; [reflexivity|]. split; [assumption|].
      apply orb_true_iff in Ec as [Ec|Ec]; [now left|right]. now apply N.eqb_eq.
    - exfalso. exact (run_bad _ _ _ crc_streams bufs s outs sf k n Hinv Ed Hr Hk Hn Ho).
  Qed.
End CrcProof.
