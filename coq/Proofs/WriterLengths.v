(* Proofs/WriterLengths.v — C02: the 16-bit length fields. *)
From Coq Require Import ZArith.
From ZipV Require Import Base.Bytes Base.Outcome Gen.TypesGen Model.Readers Model.Reader Model.Writer.
Open Scope N_scope.

Lemma long_name_rejected enc crc s name o raw : 65535 < len name ->
  start_entry enc crc s name o raw = (s, Err (EInvalid MTooLong)).
Proof. intro H. unfold start_entry. assert ((65535 <? len name) = true) as -> by lia. reflexivity. Qed.

Lemma long_comment_rejected enc crc s : 65535 < len (ws_comment s) ->
  finalize enc crc s = (s, Err (EInvalid MTooLong)).
Proof. intro H. unfold finalize. assert ((65535 <? len (ws_comment s)) = true) as -> by lia. reflexivity. Qed.

Lemma long_extra_rejected f : 65535 < len (w_extra f) + (if w_large f then 20 else 0) ->
  validate_extra_data f = Err (EIo KInvalidData IExtraTooLong).
Proof. intro H. unfold validate_extra_data. assert ((65535 <? len (w_extra f) + (if w_large f then 20 else 0)) = true) as -> by lia. reflexivity. Qed.

Lemma long_central_extra_rejected f : 65535 < len (central_z64 f) + len (w_extra f) ->
  central_header_chunks f = Err (EInvalid MTooLong).
Proof. intro H. unfold central_header_chunks. assert ((65535 <? len (central_z64 f) + len (w_extra f)) = true) as -> by lia. reflexivity. Qed.

Lemma central_length_fields f cs : len (w_name f) <= 65535 -> central_header_chunks f = Ok cs ->
  nth_error cs 10 = Some (le16 (len (w_name f))) /\
  nth_error cs 11 = Some (le16 (len (central_z64 f) + len (w_extra f))) /\
  len (central_z64 f) + len (w_extra f) <= 65535.
Proof.
  intros Hn. unfold central_header_chunks.
  destruct (65535 <? len (central_z64 f) + len (w_extra f)) eqn:E; [discriminate|].
  destruct (DateTime_datepart (w_time f)) as [d|]; cbn [of_opt bind]; [|discriminate].
  intros [= <-]. cbn [nth_error]. rewrite N.mod_small by lia. repeat split. lia.
Qed.
