(* Proofs/WriterEntry.v — a stored, unencrypted, non-large entry on a well-behaved sink, in closed form:
   start_file, write_all, and the closing of the entry (the header patch).  Facts about the state are kept as a
   record of projections so that they compose over any number of entries. *)
From Coq Require Import ZArith.
From ZipV Require Import Base.Bytes Base.Outcome Gen.GenLib Gen.SpecGen Gen.CompressionGen Gen.TypesGen Gen.WriteGen
     Model.Readers Model.Reader Model.Writer Proofs.WriterIdeal Proofs.Zip64Proofs.
Open Scope N_scope.

(* ---------- overwriting in the middle of the sink *)
Definition dev_at (buf : bytes) (pos : N) : dev := {| d_buf := buf; d_pos := pos; d_plan := [] |}.

Lemma at_end_dev_at b : at_end b = dev_at b (len b).
Proof. reflexivity. Qed.

Lemma put_at_mid A X B X' : len X' = len X -> put_at (A ++ X ++ B) (len A) X' = A ++ X' ++ B.
Proof.
  intro H. unfold put_at. rewrite take_app_exact.
  replace (len A - len (A ++ X ++ B)) with 0 by (rewrite !len_app; lia). cbn [zeros N.to_nat repeat app].
  rewrite H. replace (A ++ X ++ B) with ((A ++ X) ++ B) by (now rewrite <- app_assoc).
  replace (len A + len X) with (len (A ++ X)) by (now rewrite len_app). now rewrite drop_app_exact.
Qed.

Lemma dev_seek_at buf p q : dev_seek (dev_at buf p) q = (dev_at buf q, Ok tt).
Proof. reflexivity. Qed.

Lemma dev_write_all_mid A X B X' : len X' = len X ->
  dev_write_all (dev_at (A ++ X ++ B) (len A)) X' = (dev_at (A ++ X' ++ B) (len A + len X'), Ok tt).
Proof.
  intro H. unfold dev_write_all. destruct X' as [|x r].
  - assert (X = []) as -> by (destruct X; [reflexivity|unfold len in H; cbn [length] in H; lia]).
    cbn [dev_write_all_fuel app]. change (len []) with 0. now rewrite N.add_0_r.
  - set (X' := x :: r) in *. cbn [dev_write_all_fuel]. fold X'.
    unfold dev_write, dev_at. cbn [d_plan d_buf d_pos].
    rewrite put_at_mid by exact H.
    assert ((len X' =? 0) = false) as -> by (unfold len, X'; cbn [length]; lia).
    rewrite drop_all by lia. destruct (length X'); reflexivity.
Qed.

(* ---------- the local header of a non-large entry, flat *)
Definition lh_head (f : wfile) (d : N) : bytes :=      (* the 14 bytes in front of the CRC *)
  le 4 LOCAL_FILE_HEADER_SIGNATURE ++ le 2 (version_needed f) ++ le 2 (flag_of f) ++ le 2 (CompressionMethod_to_u16 (w_method f)) ++
  le 2 (DateTime_timepart (w_time f)) ++ le 2 d.
Definition lh_tail (f : wfile) : bytes := le 2 (len (w_name f) mod 65536) ++ le 2 0 ++ w_name f.

Lemma len_lh_head f d : len (lh_head f d) = 14.
Proof. unfold lh_head. rewrite !len_app, !len_le. reflexivity. Qed.

Lemma local_chunks_flat f hdr : w_large f = false -> w_extra f = [] -> local_header_chunks f = Ok hdr ->
  exists d, DateTime_datepart (w_time f) = Some d /\
    concat hdr = lh_head f d ++ le 4 (w_crc f) ++ le 4 (w_csize f mod 2 ^ 32) ++ le 4 (w_usize f mod 2 ^ 32) ++ lh_tail f.
Proof.
  intros Hl Hx. unfold local_header_chunks. destruct (DateTime_datepart (w_time f)) as [d|]; cbn [of_opt bind]; [|discriminate].
  rewrite Hl, Hx. change (len []) with 0. rewrite N.mod_0_l by lia. unfold add_chk, fits. cbn [N.add N.ltb N.compare of_opt bind].
  intros [= <-]. exists d. split; [reflexivity|].
  unfold lh_head, lh_tail, le16, le32. cbn [concat app]. rewrite ?app_nil_r, <- ?app_assoc. reflexivity.
Qed.

Lemma last_file_app' fs f : last_file (fs ++ [f]) = Some f.
Proof. unfold last_file. now rewrite rev_unit. Qed.

(* ---------- an open stored entry, and its closing *)
Definition lh_bytes (f : wfile) (d c cs us : N) : bytes :=
  lh_head f d ++ le 4 c ++ le 4 (cs mod 2 ^ 32) ++ le 4 (us mod 2 ^ 32) ++ lh_tail f.

Lemma len_lh_bytes f d c cs us : len (lh_bytes f d c cs us) = 30 + len (w_name f).
Proof. unfold lh_bytes, lh_tail. rewrite !len_app, len_lh_head, !len_le. cbn [N.of_nat Pos.of_succ_nat Pos.succ]. lia. Qed.

Record entry_open (s : wstate) (front : bytes) (f : wfile) (d : N) (content : bytes) (prev : list wfile) : Prop := {
  eo_inner : ws_inner s = WStorer (at_end (front ++ lh_bytes f d 0 0 0 ++ content));
  eo_files : ws_files s = prev ++ [f];
  eo_hs : w_header_start f = len front;
  eo_start : ws_start s = len front + 30 + len (w_name f);
  eo_written : ws_written s = len content;
  eo_hashed : ws_hashed s = content;
  eo_extra : ws_to_extra s = false;
  eo_raw : ws_raw s = false;
  eo_large : w_large f = false;
  eo_tofile : ws_to_file s = true }.

Section Close.
  Variable enc : CompressionMethod -> Z -> bytes -> bytes.
  Variable crc : bytes -> N.

  Theorem finish_file_stored s front f d content prev :
    entry_open s front f d content prev -> len content <= ZIP64_BYTES_THR -> crc content < 2 ^ 32 ->
    exists s',
      finish_file enc crc s = (s', Ok tt) /\
      ws_inner s' = WStorer (at_end (front ++ lh_bytes f d (crc content) (len content) (len content) ++ content)) /\
      ws_files s' = prev ++ [wf_set_sizes f (crc content) (len content) (len content)] /\
      ws_to_extra s' = false /\ ws_raw s' = false /\ ws_to_file s' = false /\ ws_comment s' = ws_comment s /\
      ws_central_only s' = ws_central_only s.
  Proof.
    intros [Hin Hfiles Hhs Hstart Hwr Hha Hx Hraw Hlarge Htf] Hlen Hcrc.
    unfold finish_file. rewrite Hx.
    unfold switch_to. rewrite Hin. cbn [cur_method CompressionMethod_eqb].
    rewrite Hin. rewrite Hin. rewrite Hraw.
    rewrite Hfiles, last_file_app'.
    unfold with_plain at 1. rewrite Hin. rewrite dev_pos_ideal. cbn [set_inner ws_inner ws_start ws_hashed ws_written ws_files].
    rewrite Hstart.
    set (buf := front ++ lh_bytes f d 0 0 0 ++ content).
    assert (Hbl : len buf = len front + 30 + len (w_name f) + len content)
      by (unfold buf; rewrite !len_app, len_lh_bytes; lia).
    assert ((len buf <? len front + 30 + len (w_name f)) = false) as -> by (apply N.ltb_ge; lia).
    rewrite Hha, Hwr. replace (len buf - (len front + 30 + len (w_name f))) with (len content) by lia.
    set (f' := wf_set_sizes f (crc content) (len content) (len content)).
    unfold with_plain. cbn [set_files set_inner ws_inner].
    (* the patch *)
    unfold update_local. cbn [f' wf_set_sizes w_header_start w_crc w_large w_csize w_usize w_name]. rewrite Hhs, Hlarge.
    rewrite at_end_dev_at, dev_seek_at.
    assert (Hb1 : buf = (front ++ lh_head f d) ++ le 4 0 ++ (le 4 (0 mod 2 ^ 32) ++ le 4 (0 mod 2 ^ 32) ++ lh_tail f ++ content)).
    { unfold buf, lh_bytes. rewrite <- !app_assoc. reflexivity. }
    rewrite Hb1. replace (len front + 14) with (len (front ++ lh_head f d)) by (rewrite len_app, len_lh_head; reflexivity).
    unfold le32. rewrite (dev_write_all_mid _ (le 4 0) _ (le 4 (crc content))) by (now rewrite !len_le).
    assert ((ZIP64_BYTES_THR <? len content) = false) as -> by (apply N.ltb_ge; exact Hlen).
    cbn [dev_write_chunks].
    (* compressed size *)
    replace ((front ++ lh_head f d) ++ le 4 (crc content) ++ le 4 (0 mod 2 ^ 32) ++ le 4 (0 mod 2 ^ 32) ++ lh_tail f ++ content)
      with (((front ++ lh_head f d) ++ le 4 (crc content)) ++ le 4 (0 mod 2 ^ 32) ++ (le 4 (0 mod 2 ^ 32) ++ lh_tail f ++ content))
      by (rewrite <- !app_assoc; reflexivity).
    replace (len (front ++ lh_head f d) + len (le 4 (crc content))) with (len ((front ++ lh_head f d) ++ le 4 (crc content)))
      by (now rewrite (len_app (front ++ lh_head f d))).
    rewrite (dev_write_all_mid _ (le 4 (0 mod 2 ^ 32)) _ (le 4 (len content mod 2 ^ 32))) by (now rewrite !len_le).
    (* uncompressed size *)
    replace (((front ++ lh_head f d) ++ le 4 (crc content)) ++ le 4 (len content mod 2 ^ 32) ++ le 4 (0 mod 2 ^ 32) ++ lh_tail f ++ content)
      with ((((front ++ lh_head f d) ++ le 4 (crc content)) ++ le 4 (len content mod 2 ^ 32)) ++ le 4 (0 mod 2 ^ 32) ++ (lh_tail f ++ content))
      by (rewrite <- !app_assoc; reflexivity).
    replace (len ((front ++ lh_head f d) ++ le 4 (crc content)) + len (le 4 (len content mod 2 ^ 32)))
      with (len (((front ++ lh_head f d) ++ le 4 (crc content)) ++ le 4 (len content mod 2 ^ 32)))
      by (now rewrite (len_app ((front ++ lh_head f d) ++ le 4 (crc content)))).
    rewrite (dev_write_all_mid _ (le 4 (0 mod 2 ^ 32)) _ (le 4 (len content mod 2 ^ 32))) by (now rewrite !len_le).
    rewrite dev_seek_at.
    set (buf' := (((front ++ lh_head f d) ++ le 4 (crc content)) ++ le 4 (len content mod 2 ^ 32)) ++ le 4 (len content mod 2 ^ 32) ++ lh_tail f ++ content).
    assert (Hb' : buf' = front ++ lh_bytes f d (crc content) (len content) (len content) ++ content).
    { unfold buf', lh_bytes. rewrite <- !app_assoc. reflexivity. }
    assert (Hl' : len buf' = len buf).
    { rewrite Hb', Hbl, !len_app, len_lh_bytes. lia. }
    eexists. split; [reflexivity|].
    cbn [set_flags set_inner set_files ws_inner ws_files ws_to_extra ws_raw ws_to_file ws_comment ws_central_only].
    rewrite <- Hb1, Hx, Hfiles. repeat split.
    - rewrite <- Hl'. rewrite <- at_end_dev_at. now rewrite Hb'.
    - unfold upd_last. rewrite rev_unit. cbn [rev app]. now rewrite rev_involutive.
  Qed.
End Close.

Section Open.
  Variable enc : CompressionMethod -> Z -> bytes -> bytes.
  Variable crc : bytes -> N.

  Definition stored_opts (o : wopts) : Prop :=
    o_method o = CompressionMethod_Stored /\ o_level o = None /\ o_encrypt o = None /\ o_large o = false.

  Theorem start_file_stored s s1 b name o hdr :
    finish_file enc crc s = (s1, Ok tt) -> ws_inner s1 = WStorer (at_end b) -> ws_to_extra s1 = false -> ws_raw s1 = false ->
    len name <= 65535 -> stored_opts o ->
    local_header_chunks (mk_wfile name (with_perm o 420 32768) None (len b)) = Ok hdr ->
    exists s2 f d,
      start_file enc crc s name o = (s2, Ok tt) /\ entry_open s2 b f d [] (ws_files s1) /\
      f = wf_set_data_start (mk_wfile name (with_perm o 420 32768) None (len b)) (len b + len (concat hdr)) /\
      DateTime_datepart (o_time o) = Some d /\
      ws_comment s2 = ws_comment s1 /\ ws_central_only s2 = ws_central_only s1.
  Proof.
    intros Hff Hin Hx Hraw Hn (Hm & Hlv & He & Hlg) Hh.
    set (o' := with_perm o 420 32768) in *. set (f0 := mk_wfile name o' None (len b)) in *.
    destruct (local_chunks_flat f0 hdr) as (d & Hd & Hflat); [exact Hlg|reflexivity|exact Hh|].
    unfold start_file. fold o'.
    rewrite (start_entry_ideal enc crc s s1 b name o' None hdr Hff Hin Hn He Hh). fold f0.
    unfold switch_to. cbn [after_header set_files set_stats set_inner ws_inner cur_method].
    replace (o_method o') with CompressionMethod_Stored by (symmetry; exact Hm). cbn [CompressionMethod_eqb].
    eexists. exists (wf_set_data_start f0 (len b + len (concat hdr))), d. split; [reflexivity|]. split; [|repeat split; auto].
    assert (Hlen : len (concat hdr) = 30 + len name).
    { rewrite Hflat. change (lh_head f0 d ++ le 4 (w_crc f0) ++ le 4 (w_csize f0 mod 2 ^ 32) ++ le 4 (w_usize f0 mod 2 ^ 32) ++ lh_tail f0)
        with (lh_bytes f0 d 0 0 0). now rewrite len_lh_bytes. }
    unfold after_header.
    constructor; cbn [set_flags set_files set_stats set_inner ws_inner ws_files ws_start ws_written ws_hashed ws_to_extra ws_raw ws_to_file
                     wf_set_data_start w_header_start w_name w_large]; auto.
    - rewrite app_nil_r, Hflat. reflexivity.
    - rewrite Hlen. unfold f0, mk_wfile. cbn [w_name]. lia.
  Qed.

  Theorem write_stored s front f d content prev buf :
    entry_open s front f d content prev -> len content + len buf <= ZIP64_BYTES_THR ->
    exists s', zw_write_all s buf = (s', Ok tt) /\ entry_open s' front f d (content ++ buf) prev /\
               ws_comment s' = ws_comment s /\ ws_central_only s' = ws_central_only s.
  Proof.
    intros [Hin Hfiles Hhs Hstart Hwr Hha Hx Hraw Hlarge Htf] Hlen.
    rewrite (zw_write_all_ideal crc s _ buf Htf Hx Hin).
    2:{ rewrite Hwr. assert ((ZIP64_BYTES_THR <? len content + len buf) = false) as -> by (apply N.ltb_ge; exact Hlen). reflexivity. }
    destruct buf as [|x r].
    - exists s. split; [reflexivity|]. rewrite app_nil_r. split; [constructor; auto|auto].
    - eexists. split; [reflexivity|]. split; [|auto]. set (buf := x :: r) in *.
      constructor; cbn [set_stats set_inner ws_inner ws_files ws_start ws_written ws_hashed ws_to_extra ws_raw ws_to_file]; auto.
      + rewrite <- !app_assoc. reflexivity.
      + rewrite Hwr, len_app. reflexivity.
      + rewrite Hha. reflexivity.
  Qed.
End Open.
