(* Proofs/CreatedNames.v — C12, the list of entries: no writer call removes, reorders or renames a record; a creating
   call adds at most its own name at the end, and adds it whenever it returns Ok.  For every sink plan. *)
From Coq Require Import ZArith Lia List.
From ZipV Require Import Base.Bytes Base.Outcome Gen.GenLib Gen.SpecGen Gen.CompressionGen Gen.TypesGen Gen.WriteGen
     Model.Readers Model.Reader Model.Writer Model.WriterCalls Proofs.WriterInv Proofs.FaultSurface.
Import ListNotations.
Open Scope N_scope.

Ltac injs H := injection H; clear H; intros; subst.

Definition names (s : wstate) : list bytes := map w_name (ws_files s).

Lemma names_set_inner s i : names (set_inner s i) = names s.  Proof. reflexivity. Qed.
Lemma names_set_stats s a b c : names (set_stats s a b c) = names s.  Proof. reflexivity. Qed.
Lemma names_set_flags s a b c d : names (set_flags s a b c d) = names s.  Proof. reflexivity. Qed.
Lemma names_set_comment s c : names (set_comment s c) = names s.  Proof. reflexivity. Qed.

Lemma map_upd_last fs g : (forall f, w_name (g f) = w_name f) -> map w_name (upd_last fs g) = map w_name fs.
Proof.
  intro Hg. destruct (last_file fs) as [f|] eqn:E.
  - destruct (last_file_some _ _ E) as [pre ->]. rewrite upd_last_app, !map_app. cbn [map]. now rewrite Hg.
  - apply last_file_none in E. subst fs. reflexivity.
Qed.

Section N.
  Variable enc : CompressionMethod -> Z -> bytes -> bytes.
  Variable crc : bytes -> N.

  Lemma with_plain_names {A} s (k : dev -> dev * res A) s' r : with_plain s k = (s', r) -> names s' = names s.
  Proof.
    unfold with_plain. destruct (ws_inner s); try (intro H; injection H as <- _; reflexivity);
      destruct (k d) as [d' r']; intro H; injection H as <- _; reflexivity.
  Qed.

  Lemma with_plain_files {A} s (k : dev -> dev * res A) s' r : with_plain s k = (s', r) -> ws_files s' = ws_files s.
  Proof.
    unfold with_plain. destruct (ws_inner s); try (intro H; injection H as <- _; reflexivity);
      destruct (k d) as [d' r']; intro H; injection H as <- _; reflexivity.
  Qed.

  Lemma switch_to_names s m lvl s' r : switch_to enc s m lvl = (s', r) -> names s' = names s.
  Proof. intro H. destruct (switch_to_frame enc _ _ _ _ _ H) as [i ->]. reflexivity. Qed.

  Lemma end_extra_data_names s s' r : end_extra_data enc s = (s', r) -> names s' = names s.
  Proof.
    unfold end_extra_data. destruct (negb (ws_to_extra s)); [intro H; injection H as <- _; reflexivity|].
    destruct (ws_inner s) eqn:Ei; try (intro H; injection H as <- _; reflexivity);
    (destruct (last_file (ws_files s)) as [f|]; [|intro H; injection H as <- _; reflexivity];
     destruct (validate_extra_data f); try (intro H; injection H as <- _; reflexivity);
     destruct (ws_central_only s); [intro H; injection H as <- _; reflexivity|];
     destruct (with_plain s _) as [s1 [u1|e1|p1]] eqn:E1; try (intro H; injection H as <- _; exact (with_plain_names _ _ _ _ E1));
     cbv zeta; destruct (add_chk 16 _ _); [|intro H; injection H as <- _; unfold names; cbn [ws_files set_files];
        rewrite map_upd_last by reflexivity; exact (with_plain_names _ _ _ _ E1)];
     match goal with |- (match with_plain ?S2 ?k with _ => _ end) = _ -> _ => destruct (with_plain S2 k) as [s3 [u3|e3|p3]] eqn:E3 end;
     assert (N2 : names s3 = names s) by (rewrite (with_plain_names _ _ _ _ E3); unfold names; cbn [ws_files set_files];
        rewrite map_upd_last by reflexivity; exact (with_plain_names _ _ _ _ E1));
     try (intro H; injection H as <- _; exact N2);
     destruct (switch_to enc s3 _ _) as [s4 [u4|e4|p4]] eqn:E4; intro H; injection H as <- _;
       rewrite ?names_set_flags; rewrite (switch_to_names _ _ _ _ _ E4); exact N2).
  Qed.

  Lemma map_upd_last_const fs f f' : last_file fs = Some f -> w_name f' = w_name f -> map w_name (upd_last fs (fun _ => f')) = map w_name fs.
  Proof. intros E Hn. destruct (last_file_some _ _ E) as [pre ->]. rewrite upd_last_app, !map_app. cbn [map]. now rewrite Hn. Qed.

  Lemma finish_file_names s s' r : finish_file enc crc s = (s', r) -> names s' = names s.
  Proof.
    unfold finish_file. intro H.
    match type of H with (let (_, _) := ?X in _) = _ => destruct X as [s0 r0] eqn:E0 end.
    assert (N0 : names s0 = names s).
    { destruct (ws_to_extra s); [|now injection E0 as <- _].
      destruct (end_extra_data enc s) as [sa ra] eqn:Ee. injection E0 as <- _. exact (end_extra_data_names _ _ _ Ee). }
    clear E0. destruct r0 as [u0|e0|p0]; try (injection H as <- _; exact N0).
    destruct (switch_to enc s0 CompressionMethod_Stored None) as [s1 [u1|e1|p1]] eqn:E1;
      pose proof (switch_to_names _ _ _ _ _ E1) as N1; try (injection H as <- _; congruence).
    match type of H with (let (_, _) := ?X in _) = _ => destruct X as [s2 r2] eqn:E2 end.
    assert (N2 : names s2 = names s1).
    { destruct (ws_inner s1); try (now injection E2 as <- _).
      cbv zeta in E2. destruct (zc_encrypt k _) as [k' ct]. destruct (dev_write_all d ct) as [d1 [u|e|p]]; try (now injection E2 as <- _).
      destruct (dev_flush d1) as [d2 [u2|e2|p2]]; now injection E2 as <- _. }
    clear E2. destruct r2 as [u2|e2|p2]; try (injection H as <- _; congruence).
    destruct (ws_inner s2); try (injection H as <- _; congruence).
    destruct (ws_raw s2); [injection H as <- _; rewrite names_set_flags; congruence|].
    destruct (last_file (ws_files s2)) as [f|] eqn:El; [|injection H as <- _; congruence].
    destruct (with_plain s2 dev_pos) as [s3 [fe|e3|p3]] eqn:E3; pose proof (with_plain_names _ _ _ _ E3) as N3;
      try (injection H as <- _; congruence).
    destruct (fe <? ws_start s3); [injection H as <- _; congruence|].
    match type of H with (match with_plain ?S4 ?k with _ => _ end) = _ => destruct (with_plain S4 k) as [s5 [u5|e5|p5]] eqn:E5 end;
      pose proof (with_plain_names _ _ _ _ E5) as N5; unfold names in N5; cbn [ws_files set_files] in N5;
      assert (El3 : last_file (ws_files s3) = Some f) by (rewrite (with_plain_files _ _ _ _ E3); exact El);
      (erewrite (map_upd_last_const (ws_files s3) f) in N5; [|exact El3|reflexivity]); injection H as <- _; rewrite ?names_set_flags; unfold names in *; congruence.
  Qed.

  Lemma mk_wfile_name name o raw hs : w_name (mk_wfile name o raw hs) = name.
  Proof. unfold mk_wfile. destruct raw as [[[a b] c]|]; reflexivity. Qed.

  Lemma start_entry_names s name o raw s' r : start_entry enc crc s name o raw = (s', r) ->
    (names s' = names s \/ names s' = names s ++ [name]) /\ (forall u, r = Ok u -> names s' = names s ++ [name]).
  Proof.
    unfold start_entry. destruct (65535 <? len name); [intro H; injs H; split; [now left|discriminate]|].
    destruct (finish_file enc crc s) as [s1 [u1|e1|p1]] eqn:E1; pose proof (finish_file_names _ _ _ E1) as N1;
      try (intro H; injs H; split; [now left|discriminate]).
    destruct (with_plain s1 dev_pos) as [s2 [hs|e2|p2]] eqn:E2; pose proof (with_plain_names _ _ _ _ E2) as N2;
      try (intro H; injs H; split; [left; congruence|discriminate]).
    cbv zeta. destruct (local_header_chunks _) as [cs|el|pl]; try (intro H; injs H; split; [left; congruence|discriminate]).
    destruct (with_plain s2 _) as [s3 [u3|e3|p3]] eqn:E3; pose proof (with_plain_names _ _ _ _ E3) as N3;
      try (intro H; injs H; split; [left; congruence|discriminate]).
    destruct (with_plain s3 dev_pos) as [s4 [he|e4|p4]] eqn:E4; pose proof (with_plain_names _ _ _ _ E4) as N4;
      try (intro H; injs H; split; [left; congruence|discriminate]).
    assert (N5 : map w_name (ws_files s4 ++ [wf_set_data_start (mk_wfile name o raw hs) he]) = names s ++ [name]).
    { rewrite map_app. cbn [map wf_set_data_start w_name]. rewrite mk_wfile_name. unfold names in *. congruence. }
    destruct (o_encrypt o) as [pw|].
    - cbn [ws_inner set_files set_stats]. destruct (ws_inner s4); intro H; injs H; (split; [right|intros ? _]); exact N5.
    - intro H. injs H. split; [right|intros ? _]; exact N5.
  Qed.

  Lemma zw_write_names s buf s' r : zw_write s buf = (s', r) -> names s' = names s.
  Proof.
    unfold zw_write. destruct (negb (ws_to_file s)); [intro H; injection H as <- _; reflexivity|].
    destruct (ws_inner s) as [l|d|d b k|m lv d e p]; try (intro H; injection H as <- _; reflexivity);
      (destruct (ws_to_extra s); [intro H; injection H as <- _; unfold names; cbn [ws_files set_files]; now rewrite map_upd_last by reflexivity|]).
    - destruct (dev_write d buf) as [d' [c|e|p]]; try (intro H; injection H as <- _; reflexivity).
      match goal with |- (if ?c then _ else _) = _ -> _ => destruct c end; intro H; injection H as <- _; reflexivity.
    - match goal with |- (if ?c then _ else _) = _ -> _ => destruct c end; intro H; injection H as <- _; reflexivity.
    - match goal with |- (if ?c then _ else _) = _ -> _ => destruct c end; intro H; injection H as <- _; reflexivity.
  Qed.

  Lemma zw_write_all_fuel_names : forall fuel s buf s' r, zw_write_all_fuel fuel s buf = (s', r) -> names s' = names s.
  Proof.
    induction fuel as [|f IH]; intros s buf s' r H; destruct buf as [|b rest]; cbn [zw_write_all_fuel] in H;
      try (injection H as <- _; reflexivity).
    destruct (zw_write s (b :: rest)) as [s1 [k|e|p]] eqn:E; pose proof (zw_write_names _ _ _ _ E) as N1; try (injection H as <- _; exact N1).
    destruct (k =? 0); [injection H as <- _; exact N1|]. rewrite (IH _ _ _ _ H). exact N1.
  Qed.
  Lemma zw_write_all_names s buf s' r : zw_write_all s buf = (s', r) -> names s' = names s.
  Proof. apply zw_write_all_fuel_names. Qed.

  Lemma end_local_names s s' r : end_local_start_central enc s = (s', r) -> names s' = names s.
  Proof.
    unfold end_local_start_central. destruct (end_extra_data enc s) as [s1 [v|e|p]] eqn:E; pose proof (end_extra_data_names _ _ _ E) as N1;
      intro H; injection H as <- _; try exact N1.
    unfold names in *. cbn [ws_files set_flags set_files]. now rewrite map_upd_last by reflexivity.
  Qed.

  (* the name a creating call adds *)
  Definition creates (c : wcall) : option bytes :=
    match c with
    | KStartFile n _ | KStartExtra n _ | KStartAligned n _ _ | KSymlink n _ _ | KRawCopy _ _ n => Some n
    | KAddDir n _ => Some (if ends_sep n then n else n ++ [x2f])
    | _ => None
    end.

  Definition grows (s s' : wstate) (c : wcall) (ok : bool) : Prop :=
    match creates c with
    | Some n => (names s' = names s \/ names s' = names s ++ [n]) /\ (ok = true -> names s' = names s ++ [n])
    | None => names s' = names s
    end.

  Lemma do_call_names s c s' r : do_call enc crc s c = (s', r) -> grows s s' c (Proofs.FaultSurface.is_ok r).
  Proof.
    intro H. unfold grows. destruct c; cbn [do_call creates] in *.
    - destruct (start_file enc crc s name o) as [s1 r1] eqn:E. injection H as <- <-. unfold start_file in E. cbv zeta in E.
      destruct (start_entry enc crc s name _ None) as [sa ra] eqn:Ea. destruct (start_entry_names _ _ _ _ _ _ Ea) as [Ha Hb].
      destruct ra as [ua|ea|pa]; try (injection E as <- <-; split; [exact Ha|discriminate]).
      specialize (Hb ua eq_refl).
      destruct (switch_to enc sa _ _) as [sb [ub|eb|pb]] eqn:Eb; pose proof (switch_to_names _ _ _ _ _ Eb) as Nb; injection E as <- <-;
        rewrite ?names_set_flags; (split; [right|intros _]); congruence.
    - destruct (zw_write_all s data) as [s1 r1] eqn:E. injection H as <- _. exact (zw_write_all_names _ _ _ _ E).
    - destruct (start_file_with_extra_data enc crc s name o) as [s1 r1] eqn:E. injection H as <- <-. unfold start_file_with_extra_data in E. cbv zeta in E.
      destruct (start_entry enc crc s name _ None) as [sa ra] eqn:Ea. destruct (start_entry_names _ _ _ _ _ _ Ea) as [Ha Hb].
      destruct ra as [ua|ea|pa]; try (injection E as <- <-; split; [exact Ha|discriminate]).
      specialize (Hb ua eq_refl). destruct (last_file _); injection E as <- <-; rewrite names_set_flags; (split; [right|intros _]); exact Hb.
    - destruct (start_file_aligned enc crc s name o align) as [s1 r1] eqn:E. injection H as <- <-. unfold start_file_aligned in E.
      destruct (start_file_with_extra_data enc crc s name o) as [sa ra] eqn:Ea.
      assert (Na : (names sa = names s \/ names sa = names s ++ [name]) /\ (forall v, ra = Ok v -> names sa = names s ++ [name])).
      { unfold start_file_with_extra_data in Ea. cbv zeta in Ea.
        destruct (start_entry enc crc s name _ None) as [sx rx] eqn:Ex. destruct (start_entry_names _ _ _ _ _ _ Ex) as [Hx Hy].
        destruct rx as [ux|ex|px]; try (injection Ea as <- <-; split; [exact Hx|discriminate]).
        specialize (Hy ux eq_refl). destruct (last_file _); injection Ea as <- <-; rewrite names_set_flags; (split; [right; exact Hy|intros; exact Hy]). }
      destruct Na as [Ha Hb]. destruct ra as [dst|ea|pa]; try (injection E as <- <-; split; [exact Ha|discriminate]).
      specialize (Hb dst eq_refl).
      match type of E with (let (_, _) := ?X in _) = _ => destruct X as [sc rc] eqn:Ec end.
      assert (Nc : names sc = names sa).
      { destruct ((1 <? align) && negb (dst mod align =? 0)); [|now injection Ec as <- _]. cbv zeta in Ec.
        destruct (zw_write_all sa _) as [t1 [x1|e1|p1]] eqn:E1; pose proof (zw_write_all_names _ _ _ _ E1) as M1; try (injection Ec as <- _; exact M1).
        destruct (zw_write_all t1 _) as [t2 [x2|e2|p2]] eqn:E2; pose proof (zw_write_all_names _ _ _ _ E2) as M2; try (injection Ec as <- _; congruence).
        destruct (zw_write_all t2 _) as [t3 [x3|e3|p3]] eqn:E3; pose proof (zw_write_all_names _ _ _ _ E3) as M3; try (injection Ec as <- _; congruence).
        destruct (end_local_start_central enc t3) as [t4 [x4|e4|p4]] eqn:E4; pose proof (end_local_names _ _ _ E4) as M4; try (injection Ec as <- _; congruence).
        destruct (x4 mod align =? 0); injection Ec as <- _; congruence. }
      destruct rc as [uc|ec|pc]; try (injection E as <- <-; split; [right; congruence|discriminate]).
      destruct (end_extra_data enc sc) as [sd rd] eqn:Ed. pose proof (end_extra_data_names _ _ _ Ed) as Nd.
      destruct rd; injection E as <- <-; (split; [right|intros _]); congruence.
    - destruct (end_local_start_central enc s) as [s1 r1] eqn:E. injection H as <- _. exact (end_local_names _ _ _ E).
    - destruct (end_extra_data enc s) as [s1 r1] eqn:E. injection H as <- _. exact (end_extra_data_names _ _ _ E).
    - destruct (add_directory enc crc s name o) as [s1 r1] eqn:E. injection H as <- <-. unfold add_directory in E. cbv zeta in E.
      destruct (start_entry enc crc s _ _ None) as [sa ra] eqn:Ea. destruct (start_entry_names _ _ _ _ _ _ Ea) as [Ha Hb].
      destruct ra as [ua|ea|pa]; try (injection E as <- <-; split; [exact Ha|discriminate]).
      specialize (Hb ua eq_refl). injection E as <- <-. rewrite names_set_flags. split; [right|intros _]; exact Hb.
    - destruct (add_symlink enc crc s name target o) as [s1 r1] eqn:E. injection H as <- <-. unfold add_symlink in E. cbv zeta in E.
      destruct (start_entry enc crc s _ _ None) as [sa ra] eqn:Ea. destruct (start_entry_names _ _ _ _ _ _ Ea) as [Ha Hb].
      destruct ra as [ua|ea|pa]; try (injection E as <- <-; split; [exact Ha|discriminate]).
      specialize (Hb ua eq_refl).
      destruct (zw_write_all _ target) as [sb [ub|eb|pb]] eqn:Eb; pose proof (zw_write_all_names _ _ _ _ Eb) as Nb; rewrite names_set_flags in Nb;
        injection E as <- <-; rewrite ?names_set_flags; (split; [right|intros _]); congruence.
    - injection H as <- _. reflexivity.
    - destruct (raw_copy enc crc s src raw name) as [s1 r1] eqn:E. injection H as <- <-. unfold raw_copy in E. cbv zeta in E.
      destruct (start_entry enc crc s name _ _) as [sa ra] eqn:Ea. destruct (start_entry_names _ _ _ _ _ _ Ea) as [Ha Hb].
      destruct ra as [ua|ea|pa]; try (injection E as <- <-; split; [exact Ha|discriminate]).
      specialize (Hb ua eq_refl). pose proof (zw_write_all_names _ _ _ _ E) as Nb. rewrite names_set_flags in Nb.
      split; [right|intros _]; congruence.
    - destruct (finish enc crc s) as [s1 r1] eqn:E. injection H as <- _. unfold finish in E.
      destruct (finalize enc crc s) as [sa ra] eqn:Ea.
      assert (Na : names sa = names s).
      { unfold finalize in Ea. destruct (65535 <? len (ws_comment s)); [now injection Ea as <- _|].
        destruct (finish_file enc crc s) as [sx [ux|ex|px]] eqn:Ex; pose proof (finish_file_names _ _ _ Ex) as Nx; try (injection Ea as <- _; exact Nx).
        rewrite (with_plain_names _ _ _ _ Ea). exact Nx. }
      destruct ra; try (injection E as <- _; exact Na). destruct (ws_inner sa); injection E as <- _; exact Na.
    - destruct (drop_writer enc crc s) as [s1 r1] eqn:E. injection H as <- _. unfold drop_writer in E.
      destruct (ws_inner s); try (now injection E as <- _);
      (destruct (finalize enc crc s) as [sa ra] eqn:Ea;
       assert (Na : names sa = names s) by
         (unfold finalize in Ea; destruct (65535 <? len (ws_comment s)); [now injection Ea as <- _|];
          destruct (finish_file enc crc s) as [sx [ux|ex|px]] eqn:Ex; pose proof (finish_file_names _ _ _ Ex) as Nx; try (injection Ea as <- _; exact Nx);
          rewrite (with_plain_names _ _ _ _ Ea); exact Nx);
       destruct ra; injection E as <- _; exact Na).
  Qed.

  (* which names a program adds: the name of every creating call that returned Ok, possibly the name of a creating
     call that failed after it had written its header, nothing else; in call order *)
  Inductive selected : list wcall -> list wresult -> list bytes -> Prop :=
  | sel_nil : selected [] [] []
  | sel_other c r cs rs l : creates c = None -> selected cs rs l -> selected (c :: cs) (r :: rs) l
  | sel_add c r n cs rs l : creates c = Some n -> selected cs rs l -> selected (c :: cs) (r :: rs) (n :: l)
  | sel_failed c r n cs rs l : creates c = Some n -> Proofs.FaultSurface.is_ok r = false -> selected cs rs l -> selected (c :: cs) (r :: rs) l.

  Theorem run_calls_names : forall cs s s' rs, run_calls enc crc s cs = (s', rs) ->
    exists l, selected cs rs l /\ names s' = names s ++ l.
  Proof.
    induction cs as [|c cs IH]; intros s s' rs H; cbn [run_calls] in H.
    - injection H as <- <-. exists []. split; [constructor|now rewrite app_nil_r].
    - destruct (do_call enc crc s c) as [s1 r1] eqn:E1. destruct (run_calls enc crc s1 cs) as [s2 rs2] eqn:E2. injection H as <- <-.
      destruct (IH _ _ _ E2) as (l & Hl & Hn). pose proof (do_call_names _ _ _ _ E1) as Hg. unfold grows in Hg.
      destruct (creates c) as [n|] eqn:Ec.
      + destruct Hg as [[Hsame|Hadd] Hok].
        * destruct (Proofs.FaultSurface.is_ok r1) eqn:Eok.
          -- specialize (Hok eq_refl). exists (n :: l). split; [now apply sel_add|]. rewrite Hn, Hok, <- app_assoc. reflexivity.
          -- exists l. split; [now apply (sel_failed c r1 n)|]. now rewrite Hn, Hsame.
        * exists (n :: l). split; [now apply sel_add|]. rewrite Hn, Hadd, <- app_assoc. reflexivity.
      + exists l. split; [now apply sel_other|]. now rewrite Hn, Hg.
  Qed.
End N.
