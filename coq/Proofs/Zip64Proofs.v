(* Proofs/Zip64Proofs.v — C08: the end records the writer emits are decoded by the reader to the exact
   values, for all values below 2^64; an over-long write into a non-large entry is an error that closes the writer. *)
From Coq Require Import ZArith.
From ZipV Require Import Base.Bytes Base.Outcome Gen.GenLib Gen.SpecGen Gen.CompressionGen Gen.TypesGen Gen.WriteGen
     Model.Readers Model.Reader Model.Writer Proofs.WriterMisuse.
Open Scope N_scope.

(* ---------- reading fields out of rendered chunks *)
Lemma len_le k v : len (le k v) = N.of_nat k.
Proof. unfold len. now rewrite le_length. Qed.

Lemma skipn_app_plus {A} (a rest : list A) p : skipn (length a + p) (a ++ rest) = skipn p rest.
Proof. induction a as [|x a IH]; cbn [length app Nat.add skipn]; [reflexivity|exact IH]. Qed.

Lemma rd_skip a rest p m : rd_at (a ++ rest) (len a + p) m = rd_at rest p m.
Proof.
  unfold rd_at. rewrite len_app.
  replace (len a + p + m <=? len a + len rest) with (p + m <=? len rest)
    by (destruct (p + m <=? len rest) eqn:E; symmetry; [apply N.leb_le in E; apply N.leb_le|apply N.leb_gt in E; apply N.leb_gt]; lia).
  destruct (p + m <=? len rest); [|reflexivity].
  f_equal. f_equal. rewrite !drop_skipn. rewrite N2Nat.inj_add. unfold len. rewrite Nat2N.id.
  apply skipn_app_plus.
Qed.

Lemma rd_skip_le k v rest q m : rd_at (le k v ++ rest) (N.of_nat k + q) m = rd_at rest q m.
Proof. rewrite <- (len_le k v). apply rd_skip. Qed.

Lemma rd_head a rest : rd_at (a ++ rest) 0 (len a) = Ok a.
Proof.
  unfold rd_at. rewrite len_app. assert ((0 + len a <=? len a + len rest) = true) as -> by (apply N.leb_le; lia).
  rewrite drop_skipn. cbn [N.to_nat skipn]. now rewrite take_app_exact.
Qed.

Lemma rd_head_le k v rest : rd_at (le k v ++ rest) 0 (N.of_nat k) = Ok (le k v).
Proof. rewrite <- (len_le k v). apply rd_head. Qed.

Lemma rd_head_only a : rd_at a 0 (len a) = Ok a.
Proof. rewrite <- (app_nil_r a) at 1. apply rd_head. Qed.

Ltac peel :=
  match goal with
  | |- context [rd_at (le ?k ?v ++ ?rest) ?p ?m] =>
      let kk := eval vm_compute in (N.of_nat k) in
      let q := eval vm_compute in (p - kk) in
      let t := eval vm_compute in (kk <=? p) in
      match t with true =>
        match p with
        | 0 => fail 1
        | _ => replace (rd_at (le k v ++ rest) p m) with (rd_at rest q m) by (symmetry; apply (rd_skip_le k v rest q m))
        end
      end
  end.
Ltac head := first [rewrite rd_head_le | rewrite rd_head_only].

(* the records as flat byte strings *)
Definition eocd_bytes (n sz cs : N) (comment : bytes) : bytes :=
  le 4 CENTRAL_DIRECTORY_END_SIGNATURE ++ le 2 0 ++ le 2 0 ++ le 2 (N.min n ZIP64_ENTRY_THR) ++ le 2 (N.min n ZIP64_ENTRY_THR) ++
  le 4 (N.min sz ZIP64_BYTES_THR) ++ le 4 (N.min cs ZIP64_BYTES_THR) ++ le 2 (len comment mod 65536) ++ comment.
Definition z64_bytes (n sz cs : N) : bytes :=
  le 4 ZIP64_CENTRAL_DIRECTORY_END_SIGNATURE ++ le 8 44 ++ le 2 DEFAULT_VERSION ++ le 2 DEFAULT_VERSION ++ le 4 0 ++ le 4 0 ++
  le 8 n ++ le 8 n ++ le 8 sz ++ le 8 cs ++
  le 4 ZIP64_CENTRAL_DIRECTORY_END_LOCATOR_SIGNATURE ++ le 4 0 ++ le 8 (cs + sz) ++ le 4 1.

Definition needs64 (n sz cs : N) : bool := (ZIP64_ENTRY_THR <? n) || (ZIP64_BYTES_THR <? N.max sz cs).

Lemma end_records_flat n cs sz comment :
  concat (end_records n cs sz comment) = (if needs64 n sz cs then z64_bytes n sz cs else []) ++ eocd_bytes n sz cs comment.
Proof.
  unfold end_records, needs64, z64_bytes, eocd_bytes, le16, le32, le64.
  destruct ((ZIP64_ENTRY_THR <? n) || (ZIP64_BYTES_THR <? N.max sz cs)); cbn [concat app]; rewrite ?app_nil_r, <- ?app_assoc; reflexivity.
Qed.

Lemma len_z64_bytes n sz cs : len (z64_bytes n sz cs) = 76.
Proof. unfold z64_bytes. rewrite !len_app, !len_le. reflexivity. Qed.

Lemma unle_le2 v : v < 65536 -> unle (le 2 v) = v.
Proof. intro H. apply unle_le_small. exact H. Qed.
Lemma unle_le4 v : v < 4294967296 -> unle (le 4 v) = v.
Proof. intro H. apply unle_le_small. exact H. Qed.
Lemma unle_le8 v : v < 2 ^ 64 -> unle (le 8 v) = v.
Proof. intro H. apply unle_le_small. exact H. Qed.

(* ---------- the end record parses back *)
Lemma parse_eocd_rendered pre n sz cs comment : len comment <= 65535 ->
  parse_eocd (pre ++ eocd_bytes n sz cs comment) (len pre) =
    Ok {| e_disk := 0; e_disk_cd := 0; e_n_disk := N.min n ZIP64_ENTRY_THR; e_n := N.min n ZIP64_ENTRY_THR;
          e_cd_size := N.min sz ZIP64_BYTES_THR; e_cd_off := N.min cs ZIP64_BYTES_THR; e_comment := comment |}.
Proof.
  intro Hc. unfold parse_eocd, u32_at, u16_at.
  rewrite <- (N.add_0_r (len pre)) at 1. rewrite !rd_skip.
  unfold eocd_bytes. head. cbn [bind]. rewrite unle_le4 by (unfold CENTRAL_DIRECTORY_END_SIGNATURE; lia).
  rewrite N.eqb_refl. cbn [negb].
  repeat peel. head. cbn [bind].
  repeat peel. head. cbn [bind].
  repeat peel. head. cbn [bind].
  repeat peel. head. cbn [bind].
  repeat peel. head. cbn [bind].
  repeat peel. head. cbn [bind].
  repeat peel. head. cbn [bind].
  rewrite (unle_le2 (len comment mod 65536)) by (apply N.mod_lt; lia).
  rewrite N.mod_small by lia.
  rewrite rd_skip. repeat peel. head. cbn [bind].
  unfold ZIP64_ENTRY_THR, ZIP64_BYTES_THR.
  rewrite !unle_le2, !unle_le4 by lia. reflexivity.
Qed.

(* ---------- get_directory_counts on rendered end records *)
Lemma rd_in_prefix a rest p k : p + k <= len a -> rd_at (a ++ rest) p k = rd_at a p k.
Proof.
  intro H. unfold rd_at. rewrite len_app.
  assert ((p + k <=? len a + len rest) = true) as -> by (apply N.leb_le; lia).
  assert ((p + k <=? len a) = true) as -> by (apply N.leb_le; lia).
  f_equal. rewrite !take_firstn, !drop_skipn.
  rewrite skipn_app. rewrite firstn_app.
  replace (N.to_nat k - length (skipn (N.to_nat p) a))%nat with 0%nat.
  - cbn [firstn]. now rewrite app_nil_r.
  - rewrite skipn_length. unfold len in H. lia.
Qed.

Definition no_locator_before (pre : bytes) : Prop :=
  20 <= len pre -> u32_at pre (len pre - 20) <> Ok ZIP64_CENTRAL_DIRECTORY_END_LOCATOR_SIGNATURE.

Lemma first_sig_head sig rest off limit : off <= limit -> sig < 4294967296 ->
  first_sig (le 4 sig ++ rest) off limit sig = Some off.
Proof.
  intros Ho Hs.
  assert (H : exists a b c d, le 4 sig = [a; b; c; d]) by (repeat eexists; reflexivity).
  destruct H as (a & b & c & d & H). rewrite H. cbn [app].
  change (first_sig (a :: b :: c :: d :: rest) off limit sig)
    with (if limit <? off then None else if unle [a; b; c; d] =? sig then Some off else first_sig (b :: c :: d :: rest) (off + 1) limit sig).
  assert ((limit <? off) = false) as -> by (apply N.ltb_ge; lia).
  rewrite <- H. rewrite unle_le4 by exact Hs. now rewrite N.eqb_refl.
Qed.

Ltac rd_step := rewrite ?rd_skip; repeat peel; head; cbn [bind].

Lemma counts_small pre n sz cs comment :
  len pre = cs + sz -> needs64 n sz cs = false -> len comment <= 65535 -> no_locator_before pre ->
  forall e, parse_eocd (pre ++ eocd_bytes n sz cs comment) (len pre) = Ok e ->
  get_directory_counts (pre ++ eocd_bytes n sz cs comment) e (len pre) = Ok (0, cs, n).
Proof.
  intros Hlen Hn Hc Hloc e He. rewrite parse_eocd_rendered in He by exact Hc. injection He as <-.
  unfold needs64 in Hn. apply Bool.orb_false_iff in Hn. destruct Hn as [Hn1 Hn2].
  apply N.ltb_ge in Hn1. apply N.ltb_ge in Hn2. unfold ZIP64_ENTRY_THR, ZIP64_BYTES_THR in *.
  unfold get_directory_counts. cbn [e_comment e_cd_size e_cd_off e_n_disk e_disk].
  assert (Hl : len (pre ++ eocd_bytes n sz cs comment) = len pre + 22 + len comment).
  { unfold eocd_bytes. rewrite !len_app, !len_le. cbn [N.of_nat Pos.of_succ_nat Pos.succ]. lia. }
  rewrite Hl.
  replace (20 + 22 + len comment <=? len pre + 22 + len comment) with (20 <=? len pre)
    by (destruct (20 <=? len pre) eqn:E; symmetry; [apply N.leb_le in E; apply N.leb_le|apply N.leb_gt in E; apply N.leb_gt]; lia).
  assert (HX : (if 20 <=? len pre
                then match u32_at (pre ++ eocd_bytes n sz cs comment) (len pre + 22 + len comment - (20 + 22 + len comment)) with
                     | Ok magic => if negb (magic =? ZIP64_CENTRAL_DIRECTORY_END_LOCATOR_SIGNATURE) then Ok None
                                   else let* dc := u32_at (pre ++ eocd_bytes n sz cs comment) (len pre + 22 + len comment - (20 + 22 + len comment) + 4) in
                                        let* off := u64_at (pre ++ eocd_bytes n sz cs comment) (len pre + 22 + len comment - (20 + 22 + len comment) + 8) in
                                        let* nd := u32_at (pre ++ eocd_bytes n sz cs comment) (len pre + 22 + len comment - (20 + 22 + len comment) + 16) in
                                        Ok (Some {| l_disk_cd := dc; l_off := off; l_disks := nd |})
                     | Err e0 => Err e0 | Panic p => Panic p end
                else Ok None) = Ok (@None z64loc)).
  { destruct (20 <=? len pre) eqn:E; [|reflexivity].
    apply N.leb_le in E.
    replace (len pre + 22 + len comment - (20 + 22 + len comment)) with (len pre - 20) by lia.
    unfold u32_at at 1. rewrite rd_in_prefix by lia.
    specialize (Hloc E). unfold u32_at in Hloc.
    destruct (rd_at pre (len pre - 20) 4) as [b| |] eqn:Er.
    - cbn [bind] in *. destruct (unle b =? ZIP64_CENTRAL_DIRECTORY_END_LOCATOR_SIGNATURE) eqn:Em; [|reflexivity].
      apply N.eqb_eq in Em. rewrite Em in Hloc. congruence.
    - unfold rd_at in Er. assert ((len pre - 20 + 4 <=? len pre) = true) as Hb by (apply N.leb_le; lia). rewrite Hb in Er. discriminate.
    - unfold rd_at in Er. destruct (len pre - 20 + 4 <=? len pre); discriminate. }
  rewrite HX. cbn [bind].
  rewrite !N.min_l by lia.
  assert ((sz + cs <=? len pre) = true) as -> by (apply N.leb_le; lia).
  do 2 f_equal. f_equal; lia.
Qed.

Lemma counts_zip64 pre n sz cs comment :
  len pre = cs + sz -> n < 2 ^ 64 -> cs + sz < 2 ^ 64 -> len comment <= 65535 ->
  forall e, parse_eocd (pre ++ z64_bytes n sz cs ++ eocd_bytes n sz cs comment) (len pre + 76) = Ok e ->
  get_directory_counts (pre ++ z64_bytes n sz cs ++ eocd_bytes n sz cs comment) e (len pre + 76) = Ok (0, cs, n).
Proof.
  intros Hlen Hn Hoff Hc e He.
  assert (Hp : parse_eocd (pre ++ z64_bytes n sz cs ++ eocd_bytes n sz cs comment) (len pre + 76) =
               parse_eocd ((pre ++ z64_bytes n sz cs) ++ eocd_bytes n sz cs comment) (len (pre ++ z64_bytes n sz cs)))
    by (rewrite len_app, len_z64_bytes, <- app_assoc; reflexivity).
  rewrite Hp, parse_eocd_rendered in He by exact Hc. injection He as <-.
  unfold get_directory_counts. cbn [e_comment e_cd_size e_cd_off e_n_disk e_disk].
  assert (Hl : len (pre ++ z64_bytes n sz cs ++ eocd_bytes n sz cs comment) = len pre + 76 + 22 + len comment).
  { rewrite !len_app, len_z64_bytes. unfold eocd_bytes. rewrite !len_app, !len_le. cbn [N.of_nat Pos.of_succ_nat Pos.succ]. lia. }
  rewrite Hl.
  assert ((20 + 22 + len comment <=? len pre + 76 + 22 + len comment) = true) as -> by (apply N.leb_le; lia).
  replace (len pre + 76 + 22 + len comment - (20 + 22 + len comment)) with (len pre + 56) by lia.
  replace (len pre + 56 + 4) with (len pre + 60) by lia.
  replace (len pre + 56 + 8) with (len pre + 64) by lia.
  replace (len pre + 56 + 16) with (len pre + 72) by lia.
  unfold u32_at at 1. unfold z64_bytes at 1. rewrite <- !app_assoc.
  rd_step. rewrite unle_le4 by (unfold ZIP64_CENTRAL_DIRECTORY_END_LOCATOR_SIGNATURE; lia).
  rewrite N.eqb_refl. cbn [negb].
  unfold u32_at at 1. unfold z64_bytes at 1. rewrite <- !app_assoc. rd_step.
  unfold u64_at at 1. unfold z64_bytes at 1. rewrite <- !app_assoc. rd_step.
  unfold u32_at at 1. unfold z64_bytes at 1. rewrite <- !app_assoc. rd_step.
  rewrite (unle_le4 0) by lia. rewrite (unle_le8 (cs + sz)) by exact Hoff.
  cbn [l_disk_cd l_off]. rewrite N.eqb_refl. cbn [negb]. rewrite Bool.andb_false_r.
  assert ((len pre + 76 <? 60) = false) as -> by (apply N.ltb_ge; lia).
  (* the ZIP64 record is found exactly where the locator points *)
  unfold find_z64. rewrite <- Hlen.
  rewrite drop_app_exact. unfold z64_bytes at 1. rewrite <- !app_assoc.
  rewrite first_sig_head by (unfold ZIP64_CENTRAL_DIRECTORY_END_SIGNATURE; lia).
  unfold u64_at, u32_at, u16_at.
  unfold z64_bytes at 1. rewrite <- !app_assoc. rd_step.
  unfold z64_bytes at 1. rewrite <- !app_assoc. rd_step.
  unfold z64_bytes at 1. rewrite <- !app_assoc. rd_step.
  unfold z64_bytes at 1. rewrite <- !app_assoc. rd_step.
  unfold z64_bytes at 1. rewrite <- !app_assoc. rd_step.
  unfold z64_bytes at 1. rewrite <- !app_assoc. rd_step.
  unfold z64_bytes at 1. rewrite <- !app_assoc. rd_step.
  unfold z64_bytes at 1. rewrite <- !app_assoc. rd_step.
  unfold z64_bytes at 1. rewrite <- !app_assoc. rd_step.
  cbn [z_disk z_disk_cd z_cd_off z_n]. rewrite N.eqb_refl. cbn [negb].
  rewrite N.sub_diag, N.add_0_r.
  rewrite (unle_le8 cs) by lia. rewrite (unle_le8 n) by exact Hn.
  unfold fits. assert ((cs <? 2 ^ 64) = true) as -> by (apply N.ltb_lt; lia). reflexivity.
Qed.

Theorem end_records_roundtrip pre n cs sz comment :
  len pre = cs + sz -> n < 2 ^ 64 -> cs + sz < 2 ^ 64 -> len comment <= 65535 ->
  (needs64 n sz cs = false -> no_locator_before pre) ->
  let data := pre ++ concat (end_records n cs sz comment) in
  let pos := len pre + (if needs64 n sz cs then 76 else 0) in
  exists e, parse_eocd data pos = Ok e /\ e_comment e = comment /\ get_directory_counts data e pos = Ok (0, cs, n).
Proof.
  intros Hlen Hn Hoff Hc Hloc data pos. subst data pos. rewrite end_records_flat.
  destruct (needs64 n sz cs) eqn:E.
  - assert (Hp : parse_eocd (pre ++ z64_bytes n sz cs ++ eocd_bytes n sz cs comment) (len pre + 76) =
                 parse_eocd ((pre ++ z64_bytes n sz cs) ++ eocd_bytes n sz cs comment) (len (pre ++ z64_bytes n sz cs)))
      by (rewrite len_app, len_z64_bytes, <- app_assoc; reflexivity).
    eexists. split; [rewrite Hp; apply parse_eocd_rendered; exact Hc|]. split; [reflexivity|].
    apply counts_zip64; try assumption. rewrite Hp. apply parse_eocd_rendered. exact Hc.
  - cbn [app]. rewrite N.add_0_r.
    eexists. split; [apply parse_eocd_rendered; exact Hc|]. split; [reflexivity|].
    apply counts_small; try assumption; [now apply Hloc|]. apply parse_eocd_rendered. exact Hc.
Qed.

(* the writer emits ZIP64 end records exactly when a value does not fit *)
Lemma needs64_iff n sz cs : needs64 n sz cs = true <-> (65535 < n \/ 4294967295 < sz \/ 4294967295 < cs).
Proof.
  unfold needs64, ZIP64_ENTRY_THR, ZIP64_BYTES_THR. rewrite Bool.orb_true_iff, !N.ltb_lt. lia.
Qed.

(* ---------- more than 4 GiB into an entry not declared large *)
Definition last_large (s : wstate) : bool := match last_file (ws_files s) with Some f => w_large f | None => false end.

Lemma set_inner_files s i : ws_files (set_inner s i) = ws_files s.  Proof. reflexivity. Qed.

(* a successful content write never takes the byte count of a non-large entry above the 32-bit limit ... *)
Lemma write_ok_bounded s buf s' k :
  zw_write s buf = (s', Ok k) -> ws_to_extra s = false -> last_large s = false ->
  ws_written s' <= ZIP64_BYTES_THR /\ ws_written s' = ws_written s + k.
Proof.
  unfold zw_write. intros H Hx Hl.
  destruct (negb (ws_to_file s)); [discriminate|].
  rewrite Hx in H.
  destruct (ws_inner s) as [l|d|d b kk|m lv d e p] eqn:Ei; [discriminate| | |].
  1: destruct (dev_write d buf) as [d' r]; destruct r as [count| |]; try discriminate.
  all: cbn [set_stats set_inner ws_files ws_written] in H.
  all: unfold last_large in Hl; rewrite Hl in H; cbn [negb] in H; rewrite Bool.andb_true_r in H.
  all: match type of H with (if ?c then _ else _) = _ => destruct c eqn:Eb end; [discriminate|].
  all: injection H as <- <-; cbn [ws_written set_stats]; apply N.ltb_ge in Eb; split; [exact Eb|reflexivity].
Qed.

(* ... and the write that would cross it is the large-file error, which closes the writer *)
Lemma write_overflow_closes s buf s' :
  zw_write s buf = (s', Err (EIo KOther ILargeFile)) -> ws_to_extra s = false -> is_closed (ws_inner s') = true.
Proof.
  unfold zw_write. intros H Hx.
  destruct (negb (ws_to_file s)); [discriminate|].
  rewrite Hx in H.
  destruct (ws_inner s) as [l|d|d b kk|m lv d e p] eqn:Ei; [discriminate| | |].
  - destruct (dev_write d buf) as [d' r] eqn:Ed. destruct r as [count|e|p]; cbn [set_stats set_inner ws_files ws_written] in H.
    + destruct ((ZIP64_BYTES_THR <? ws_written s + count) && negb (last_large s)) eqn:Eb;
        unfold last_large in Eb; rewrite Eb in H; [|discriminate].
      injection H as <-. reflexivity.
    + injection H as <- He. unfold dev_write in Ed. destruct (d_plan d) as [|[n|] pl]; try discriminate.
      injection Ed as _ Er. unfold io_fail in Er. congruence.
    + discriminate.
  - cbn [set_stats set_inner ws_files ws_written] in H.
    destruct ((ZIP64_BYTES_THR <? ws_written s + len buf) && negb (last_large s)) eqn:Eb;
      unfold last_large in Eb; rewrite Eb in H; [|discriminate].
    injection H as <-. reflexivity.
  - cbn [set_stats set_inner ws_files ws_written] in H.
    destruct ((ZIP64_BYTES_THR <? ws_written s + len buf) && negb (last_large s)) eqn:Eb;
      unfold last_large in Eb; rewrite Eb in H; [|discriminate].
    injection H as <-. reflexivity.
Qed.

(* when the compressed size of a non-large entry does not fit, closing it is an error: sizes are never wrapped *)
Lemma update_local_rejects d f : w_large f = false -> ZIP64_BYTES_THR < w_csize f ->
  forall d' r, update_local d f = (d', r) -> r <> Ok tt.
Proof.
  intros Hl Hc d' r H. unfold update_local in H. rewrite Hl in H.
  destruct (dev_seek d (w_header_start f + 14)) as [d1 [u| |]]; try (injection H as _ <-; discriminate).
  destruct (dev_write_all d1 (le32 (w_crc f))) as [d2 [u2| |]]; try (injection H as _ <-; discriminate).
  assert ((ZIP64_BYTES_THR <? w_csize f) = true) as Hb by (apply N.ltb_lt; exact Hc). rewrite Hb in H.
  injection H as _ <-. discriminate.
Qed.
