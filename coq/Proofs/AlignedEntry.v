(* Proofs/AlignedEntry.v — C17 as the reader sees it: for an entry started with start_file_aligned on a
   well-behaved sink, the data offset the READER computes from the local header (find_content) is the offset the
   writer returned, and it is a multiple of the alignment. *)
From Coq Require Import ZArith.
From ZipV Require Import Base.Bytes Base.Outcome Gen.GenLib Gen.SpecGen Gen.CompressionGen Gen.TypesGen Gen.WriteGen
     Model.Readers Model.Reader Model.Writer Proofs.Zip64Proofs Proofs.WriterIdeal Proofs.WriterEntry Proofs.EntryRead
     Proofs.AlignProofs Proofs.WriterMisuse Proofs.RawCopyRead Proofs.WriterInv Proofs.StoredRoundtrip.
Open Scope N_scope.

(* overwriting the 2 bytes of the extra-length field inside the sink *)
Lemma patch_u16 A v B w : dev_write_all (dev_at (A ++ le 2 v ++ B) (len A)) (le 2 w) = (dev_at (A ++ le 2 w ++ B) (len A + 2), Ok tt).
Proof. rewrite (dev_write_all_mid A (le 2 v) B (le 2 w)) by (now rewrite !len_le). rewrite len_le. reflexivity. Qed.

Lemma len_zeros' n : len (zeros n) = n.
Proof. unfold zeros, len. rewrite repeat_length. lia. Qed.

Section Aligned.
  Variable enc : CompressionMethod -> Z -> bytes -> bytes.
  Variable crc : bytes -> N.

  (* end_extra_data on a well-behaved sink, local (not central-only) extra data, plain stored entry *)
  Lemma end_extra_ideal s b lh name zx f :
    ws_to_extra s = true -> ws_central_only s = false ->
    ws_inner s = WStorer (at_end (b ++ lh ++ name ++ zx)) ->
    local_fixed_ok lh (len name) (len zx) -> len name <= 65535 ->
    last_file (ws_files s) = Some f ->
    w_header_start f = len b -> w_data_start f = len b + 30 + len name + len zx -> len zx = (if w_large f then 20 else 0) ->
    validate_extra_data f = Ok tt -> w_method f = CompressionMethod_Stored -> w_level f = None ->
    exists s' lh',
      end_extra_data enc s = (s', Ok (w_data_start f + len (w_extra f))) /\
      ws_inner s' = WStorer (at_end (b ++ lh' ++ name ++ zx ++ w_extra f)) /\
      local_fixed_ok lh' (len name) (len zx + len (w_extra f)) /\
      ws_files s' = upd_last (ws_files s) (fun g => wf_set_data_start g (w_data_start f + len (w_extra f))) /\
      ws_to_file s' = ws_to_file s /\ ws_to_extra s' = false /\ ws_central_only s' = false /\ ws_raw s' = ws_raw s.
  Proof.
    intros Hx Hco Hin (mid & Hm & Hlh) Hn Hl Hhs Hds Hzx Hv Hmeth Hlvl.
    unfold end_extra_data. rewrite Hx. cbn [negb]. rewrite Hin, Hl, Hv, Hco.
    unfold with_plain at 1. rewrite Hin. rewrite dev_write_all_ideal. cbn [set_inner ws_inner ws_files ws_written ws_hashed].
    pose proof (extra_validation_len f Hv) as Hlen.
    assert (Hadd : add_chk 16 (if w_large f then 20 else 0) (len (w_extra f) mod 65536) = Some ((if w_large f then 20 else 0) + len (w_extra f))).
    { unfold add_chk, fits. rewrite N.mod_small by (destruct (w_large f); lia).
      assert (((if w_large f then 20 else 0) + len (w_extra f) <? 2 ^ 16) = true) as -> by (apply N.ltb_lt; change (2 ^ 16) with 65536; destruct (w_large f); lia).
      reflexivity. }
    rewrite Hadd. unfold with_plain. cbn [set_files set_stats set_inner ws_inner].
    (* the patch of the extra-length field at header_start + 28 *)
    rewrite at_end_dev_at, dev_seek_at. rewrite Hhs.
    set (buf := (b ++ lh ++ name ++ zx) ++ w_extra f).
    assert (Hbuf : buf = (b ++ le 4 LOCAL_FILE_HEADER_SIGNATURE ++ mid ++ le 2 (len name)) ++ le 2 (len zx) ++ (name ++ zx ++ w_extra f)).
    { unfold buf. rewrite Hlh, <- !app_assoc. reflexivity. }
    rewrite Hbuf.
    replace (len b + 28) with (len (b ++ le 4 LOCAL_FILE_HEADER_SIGNATURE ++ mid ++ le 2 (len name)))
      by (rewrite !len_app, !len_le, Hm; cbn [N.of_nat Pos.of_succ_nat Pos.succ]; lia).
    unfold le16. rewrite patch_u16. rewrite dev_seek_at.
    set (xl := (if w_large f then 20 else 0) + len (w_extra f)).
    set (buf' := (b ++ le 4 LOCAL_FILE_HEADER_SIGNATURE ++ mid ++ le 2 (len name)) ++ le 2 xl ++ name ++ zx ++ w_extra f).
    (* switch to the entry's method: stored -> nothing to do *)
    unfold switch_to. cbn [set_inner ws_inner cur_method]. rewrite Hmeth. cbn [CompressionMethod_eqb].
    assert (Hl' : len buf' = w_data_start f + len (w_extra f)).
    { subst buf'. rewrite !len_app, !len_le, Hm, Hds. cbn [N.of_nat Pos.of_succ_nat Pos.succ]. lia. }
    exists (set_flags (set_inner (set_files (set_stats (set_inner s (WStorer (at_end buf))) (w_data_start f + len (w_extra f)) (ws_written s) (ws_hashed s))
                                       (upd_last (ws_files s) (fun g => wf_set_data_start g (w_data_start f + len (w_extra f)))))
                             (WStorer (dev_at buf' (w_data_start f + len (w_extra f)))))
                  (ws_to_file s) false false (ws_raw s)),
           (le 4 LOCAL_FILE_HEADER_SIGNATURE ++ mid ++ le 2 (len name) ++ le 2 xl).
    split; [|split; [|split; [|repeat split]]].
    - subst buf. rewrite <- Hbuf. reflexivity.
    - cbn [set_flags set_inner ws_inner]. rewrite <- Hl'. rewrite <- at_end_dev_at. f_equal. f_equal. subst buf'. rewrite <- !app_assoc. reflexivity.
    - exists mid. split; [exact Hm|]. subst xl. rewrite Hzx. reflexivity.
  Qed.

  (* the padding record passes the writer's own validation *)
  Lemma validate_records_step fu data : data <> [] ->
    validate_records (S fu) data =
      (if len data <? 4 then Err (EIo KOther IExtraIncomplete) else
       let kind := unle (take 2 data) in
       let size := unle (take 2 (drop 2 data)) in
       if kind =? 1 then Err (EIo KOther IExtraZip64) else
       if reserved_id kind then Err (EIo KOther IExtraReserved) else
       if len data - 4 <? size then Err (EIo KOther IExtraSize) else
       validate_records fu (drop (4 + size) data)).
  Proof. destruct data; [contradiction|reflexivity]. Qed.

  Lemma validate_padding f pad : w_extra f = [x7a; x61] ++ le 2 pad ++ zeros pad -> w_large f = false -> pad <= 65531 ->
    validate_extra_data f = Ok tt.
  Proof.
    intros Hx Hl Hp. unfold validate_extra_data. rewrite Hx, Hl.
    set (E := [x7a; x61] ++ le 2 pad ++ zeros pad).
    assert (Hlen : len E = 4 + pad) by (unfold E; rewrite !len_app, len_le, len_zeros'; unfold len; cbn [length]; lia).
    rewrite Hlen. assert ((65535 <? 4 + pad + 0) = false) as -> by (apply N.ltb_ge; lia).
    rewrite validate_records_step by (unfold E; discriminate).
    rewrite Hlen. assert ((4 + pad <? 4) = false) as -> by (apply N.ltb_ge; lia). cbv zeta.
    assert (Hk : take 2 E = [x7a; x61]) by (unfold E; rewrite take_firstn; reflexivity).
    assert (Hs : take 2 (drop 2 E) = le 2 pad).
    { unfold E. assert (X : exists a b, le 2 pad = [a; b]) by (repeat eexists; reflexivity). destruct X as (a & b & X). rewrite X. rewrite take_firstn, drop_skipn. reflexivity. }
    rewrite Hk, Hs. rewrite unle_le2 by lia.
    change (unle [x7a; x61] =? 1) with false. change (reserved_id (unle [x7a; x61])) with false. cbv iota.
    assert ((4 + pad - 4 <? pad) = false) as -> by (apply N.ltb_ge; lia).
    rewrite drop_all by lia. destruct (length E); reflexivity.
  Qed.

  Lemma last_file_snoc fs f : last_file (fs ++ [f]) = Some f.
  Proof. unfold last_file. now rewrite rev_unit. Qed.
  Lemma upd_last_snoc fs f g : upd_last (fs ++ [f]) g = fs ++ [g f].
  Proof. unfold upd_last. rewrite rev_unit. now rewrite rev_involutive. Qed.

  (* start_file_aligned for a stored, unencrypted, non-large entry on a well-behaved sink *)
  Theorem aligned_reader_view s s1 b name o align hdr :
    finish_file enc crc s = (s1, Ok tt) -> ws_inner s1 = WStorer (at_end b) -> ws_central_only s1 = false ->
    len name <= 65535 -> stored_opts o -> align <= 32768 ->
    local_header_chunks (mk_wfile name (with_perm o 420 32768) None (len b)) = Ok hdr ->
    exists s' v lh extra,
      start_file_aligned enc crc s name o align = (s', Ok v) /\
      ws_inner s' = WStorer (at_end (b ++ lh ++ name ++ extra)) /\
      local_fixed_ok lh (len name) (len extra) /\ len extra <= 65535 /\
      (1 < align -> (len b + 30 + len name + len extra) mod align = 0).
  Proof.
    intros Hff Hin Hco Hn (Hm & Hlv & He & Hlg) Hal Hh.
    set (o' := with_perm o 420 32768) in *. set (f0 := mk_wfile name o' None (len b)) in *.
    destruct (local_chunks_flat f0 hdr) as (d & Hd & Hflat); [exact Hlg|reflexivity|exact Hh|].
    change (lh_head f0 d ++ le 4 (w_crc f0) ++ le 4 (w_csize f0 mod 2 ^ 32) ++ le 4 (w_usize f0 mod 2 ^ 32) ++ lh_tail f0)
      with (lh_bytes f0 d 0 0 0) in Hflat.
    destruct (lh_bytes_shape f0 d 0 0 0) as (lh0 & Hsh & Hok0); [exact Hn|].
    assert (Hnm0 : w_name f0 = name) by reflexivity. rewrite Hnm0 in Hsh, Hok0.
    assert (Hhl : len (concat hdr) = 30 + len name) by (rewrite Hflat, len_lh_bytes; reflexivity).
    set (he := len b + len (concat hdr)).
    set (f := wf_set_data_start f0 he).
    unfold start_file_aligned, start_file_with_extra_data. fold o'.
    rewrite (start_entry_ideal enc crc s s1 b name o' None hdr Hff Hin Hn He Hh). fold f0. fold he. fold f.
    set (sA := after_header s1 b hdr f0).
    assert (HfA : ws_files sA = ws_files s1 ++ [f]) by reflexivity.
    cbn [set_flags ws_files]. rewrite HfA, last_file_snoc. cbn [w_data_start f wf_set_data_start].
    set (s2 := set_flags sA true true (ws_central_only sA) (ws_raw sA)).
    assert (Hin2 : ws_inner s2 = WStorer (at_end (b ++ lh0 ++ name ++ []))) by (cbn; rewrite Hflat, Hsh; reflexivity).
    assert (Hfm : w_method f = CompressionMethod_Stored) by exact Hm.
    assert (Hfl : w_large f = false) by exact Hlg.
    destruct ((1 <? align) && negb (he mod align =? 0)) eqn:Ec.
    - (* padding needed *)
      apply Bool.andb_true_iff in Ec. destruct Ec as [Ea _]. apply N.ltb_lt in Ea.
      fold (pad_of align he). set (pad := pad_of align he).
      assert (Hpad : pad < align) by (apply pad_lt; lia).
      assert (Hcl2 : is_closed (ws_inner s2) = false) by (rewrite Hin2; reflexivity).
      rewrite (zw_write_all_extra enc crc s2 [x7a; x61] eq_refl eq_refl Hcl2).
      cbn [ws_files s2 set_flags]. rewrite HfA, upd_last_snoc.
      set (sa := set_files s2 (ws_files s1 ++ [wf_set_extra f (w_extra f ++ [x7a; x61])])).
      rewrite (zw_write_all_extra enc crc sa (le16 (pad mod 65536)) eq_refl eq_refl Hcl2).
      assert (Hle : exists q0 q1, le16 (pad mod 65536) = [q0; q1]) by (repeat eexists; reflexivity).
      destruct Hle as (q0 & q1 & Hle). rewrite Hle. cbn [ws_files sa set_files]. rewrite upd_last_snoc.
      set (sb := set_files sa (ws_files s1 ++ [wf_set_extra (wf_set_extra f (w_extra f ++ [x7a; x61])) (w_extra (wf_set_extra f (w_extra f ++ [x7a; x61])) ++ [q0; q1])])).
      rewrite (zw_write_all_extra enc crc sb (zeros pad) eq_refl eq_refl Hcl2).
      set (E := [x7a; x61] ++ le 2 pad ++ zeros pad).
      set (fE := wf_set_extra f E).
      assert (Hsc : exists sc, (match zeros pad with [] => sb | _ => set_files sb (upd_last (ws_files sb) (fun g => wf_set_extra g (w_extra g ++ zeros pad))) end) = sc /\
                 ws_inner sc = ws_inner s2 /\ ws_files sc = ws_files s1 ++ [fE] /\ ws_to_extra sc = true /\ ws_central_only sc = false /\
                 ws_to_file sc = true /\ ws_raw sc = ws_raw s2).
      { assert (HE : w_extra f ++ [x7a; x61] ++ [q0; q1] ++ zeros pad = E).
        { subst E. rewrite <- Hle. unfold le16. rewrite N.mod_small by lia. reflexivity. }
        destruct (zeros pad) as [|z zs] eqn:Ez.
        - exists sb. split; [reflexivity|]. cbn. repeat split; auto.
          subst fE. rewrite <- HE. reflexivity.
        - eexists. split; [reflexivity|]. cbn [ws_inner ws_files ws_to_extra ws_central_only ws_to_file ws_raw set_files sb sa].
          rewrite upd_last_snoc. repeat split; auto.
          subst fE. rewrite <- HE. reflexivity. }
      destruct Hsc as (sc & -> & Hinc & Hfc & Hxc & Hcoc & Htfc & Hrawc).
      assert (HlE : len E = 4 + pad) by (subst E; rewrite !len_app, len_le, len_zeros'; unfold len; cbn [length]; lia).
      (* end_local_start_central: the padded extra data goes out, the length field is patched *)
      unfold end_local_start_central.
      destruct (end_extra_ideal sc b lh0 name [] fE Hxc Hcoc) as (sd0 & lh1 & Hee & Hind & Hok1 & Hfd & Htfd & Hxd & Hcod & Hrawd);
        [rewrite Hinc; exact Hin2|exact Hok0|exact Hn|rewrite Hfc; apply last_file_snoc|reflexivity
        |cbn; subst he; rewrite Hhl; change (len []) with 0; lia|change (w_large fE) with (w_large f); rewrite Hfl; reflexivity
        |apply (validate_padding fE pad); [reflexivity|exact Hfl|lia]|exact Hfm|exact Hlv|].
      rewrite Hee.
      assert (Hv : w_data_start fE + len (w_extra fE) = he + 4 + pad) by (cbn [fE wf_set_extra w_data_start w_extra f wf_set_data_start]; rewrite HlE; lia).
      assert (Hpa : (he + 4 + pad) mod align = 0) by (apply pad_aligns; lia).
      rewrite Hv, Hpa. change (0 =? 0) with true. cbv iota.
      (* the final end_extra_data: central-only mode, nothing is written *)
      set (sd := set_flags (set_files sd0 (upd_last (ws_files sd0) (fun g => wf_set_extra g []))) (ws_to_file sd0) true true (ws_raw sd0)).
      assert (Hlsd : exists g, last_file (ws_files sd) = Some g /\ w_extra g = [] /\ w_data_start g = he + 4 + pad /\ w_large g = false).
      { cbn [sd set_flags set_files ws_files]. rewrite Hfd, Hfc, upd_last_snoc, upd_last_snoc, last_file_snoc.
        eexists. split; [reflexivity|]. cbn [wf_set_extra wf_set_data_start w_extra w_data_start w_large].
        split; [reflexivity|]. split; [exact Hv|exact Hfl]. }
      destruct Hlsd as (g & Hlg' & Hgx & Hgd & Hgl).
      unfold end_extra_data. cbn [sd set_flags ws_to_extra negb ws_inner set_files]. rewrite Hind.
      change (ws_files (set_flags (set_files sd0 (upd_last (ws_files sd0) (fun g0 : wfile => wf_set_extra g0 []))) (ws_to_file sd0) true true (ws_raw sd0)))
        with (ws_files sd). rewrite Hlg'.
      assert (Hvg : validate_extra_data g = Ok tt).
      { unfold validate_extra_data. rewrite Hgx, Hgl. reflexivity. }
      rewrite Hvg. cbn [ws_central_only set_flags].
      eexists. eexists. exists lh1, E. split; [reflexivity|].
      assert (Hinsd : ws_inner (set_flags sd (ws_to_file sd) false false (ws_raw sd)) = WStorer (at_end (b ++ lh1 ++ name ++ E)))
        by (cbn [sd set_flags ws_inner set_files]; rewrite Hind; reflexivity).
      split; [exact Hinsd|]. split; [exact Hok1|]. split; [lia|].
      intros _. rewrite HlE.
      replace (len b + 30 + len name + (4 + pad)) with (he + 4 + pad) by (subst he; rewrite Hhl; lia).
      exact Hpa.
    - (* already aligned (or no alignment requested) *)
      destruct (end_extra_ideal s2 b lh0 name [] f eq_refl) as (sd0 & lh1 & Hee & Hind & Hok1 & _);
        [exact Hco|exact Hin2|exact Hok0|exact Hn|change (ws_files s2) with (ws_files sA); rewrite HfA; apply last_file_snoc|reflexivity
        |cbn; subst he; rewrite Hhl; change (len []) with 0; lia|rewrite Hfl; reflexivity
        |unfold validate_extra_data; rewrite Hfl; reflexivity|exact Hfm|exact Hlv|].
      rewrite Hee. eexists. eexists. exists lh1, []. split; [reflexivity|].
      rewrite Hind. cbn [f wf_set_data_start f0 mk_wfile w_extra app]. split; [reflexivity|]. split; [exact Hok1|]. split; [unfold len; cbn; lia|].
      intro Ha. apply Bool.andb_false_iff in Ec. destruct Ec as [Ec|Ec]; [apply N.ltb_ge in Ec; lia|].
      apply Bool.negb_false_iff, N.eqb_eq in Ec. change (len []) with 0. subst he. rewrite Hhl in Ec.
      replace (len b + 30 + len name + 0) with (len b + (30 + len name)) by lia. exact Ec.
  Qed.
End Aligned.
