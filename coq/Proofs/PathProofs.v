(* Proofs/PathProofs.v — C06: sanitised entry paths cannot escape the extraction root. *)
From ZipV Require Import Base.Bytes Spec.PathSpec Model.Path.
Open Scope N_scope.

Lemma beqb_refl b : Byte.eqb b b = true.
Proof. now apply Byte.byte_dec_lb. Qed.

(* ---------- counting view of the depth walk *)
Fixpoint cnt_n (cs : list comp) : N :=
  match cs with [] => 0 | Normal _ :: r => 1 + cnt_n r | _ :: r => cnt_n r end.
Fixpoint cnt_p (cs : list comp) : N :=
  match cs with [] => 0 | ParentDir :: r => 1 + cnt_p r | _ :: r => cnt_p r end.

Definition never_above (d : N) (cs : list comp) : Prop :=
  forall k, cnt_p (firstn k cs) <= d + cnt_n (firstn k cs).

Lemma never_above_cons_inv d c cs :
  never_above d (c :: cs) ->
  match c with
  | ParentDir => 1 <= d /\ never_above (d - 1) cs
  | Normal _ => never_above (d + 1) cs
  | _ => never_above d cs
  end.
Proof.
  intro H. destruct c.
  - intro k. specialize (H (S k)). cbn [firstn cnt_p cnt_n] in H. exact H.
  - intro k. specialize (H (S k)). cbn [firstn cnt_p cnt_n] in H. exact H.
  - split.
    + specialize (H 1%nat). cbn [firstn cnt_p cnt_n] in H. lia.
    + pose proof (H 1%nat) as H1. cbn [firstn cnt_p cnt_n] in H1.
      intro k. specialize (H (S k)). cbn [firstn cnt_p cnt_n] in H. lia.
  - intro k. specialize (H (S k)). cbn [firstn cnt_p cnt_n] in H. lia.
Qed.

Lemma depth_walk_spec cs : forall d,
  depth_walk d cs = true <-> (~ In RootDir cs /\ never_above d cs).
Proof.
  induction cs as [|c cs IH]; intro d.
  - cbn [depth_walk]. split; [intros _|reflexivity]. split; [intros []|].
    intro k. destruct k; cbn [firstn cnt_p cnt_n]; lia.
  - split.
    + intro H. destruct c; cbn [depth_walk] in H.
      * discriminate.
      * apply IH in H as [Hr Hn]. split.
        { intros [E|E]; [discriminate|tauto]. }
        { intros [|k]; cbn [firstn cnt_p cnt_n]; [lia|apply Hn]. }
      * destruct (d =? 0) eqn:E; [discriminate|]. apply IH in H as [Hr Hn]. split.
        { intros [E'|E']; [discriminate|tauto]. }
        { intros [|k]; cbn [firstn cnt_p cnt_n]; [lia|]. specialize (Hn k). lia. }
      * apply IH in H as [Hr Hn]. split.
        { intros [E'|E']; [discriminate|tauto]. }
        { intros [|k]; cbn [firstn cnt_p cnt_n]; [lia|]. specialize (Hn k). lia. }
    + intros [Hr Hn]. pose proof (never_above_cons_inv _ _ _ Hn) as Hi.
      destruct c; cbn [depth_walk].
      * exfalso. apply Hr. now left.
      * apply IH. split; [intro; apply Hr; now right|exact Hi].
      * destruct Hi as [Hd Hi]. destruct (d =? 0) eqn:E; [lia|].
        apply IH. split; [intro; apply Hr; now right|exact Hi].
      * apply IH. split; [intro; apply Hr; now right|exact Hi].
Qed.

Lemma has_nul_false n : has_nul n = false <-> ~ In nul n.
Proof.
  unfold has_nul. split.
  - intros H Hin. assert (existsb (Byte.eqb nul) n = true) as E.
    { apply existsb_exists. exists nul. split; [assumption|now apply Byte.byte_dec_lb]. }
    congruence.
  - intro H. destruct (existsb (Byte.eqb nul) n) eqn:E; [|reflexivity].
    apply existsb_exists in E as (x & Hx & Ex). apply Byte.byte_dec_bl in Ex. subst x. contradiction.
Qed.

Definition safe (n : bytes) : Prop :=
  ~ In nul n /\ ~ In RootDir (components n) /\ never_above 0 (components n).

Theorem enclosed_iff n p : enclosed_name n = Some p <-> (p = n /\ safe n).
Proof.
  unfold enclosed_name, safe. destruct (has_nul n) eqn:Hn.
  - split; [discriminate|]. intros [_ [H _]]. apply has_nul_false in H. congruence.
  - apply has_nul_false in Hn. destruct (depth_walk 0 (components n)) eqn:Hw.
    + apply depth_walk_spec in Hw as [Hr Ha]. split; [intros [= <-]; tauto|intros [-> _]; reflexivity].
    + split; [discriminate|]. intros [_ [_ [Hr Ha]]].
      assert (depth_walk 0 (components n) = true) by (apply depth_walk_spec; tauto). congruence.
Qed.

Theorem enclosed_none_iff n : enclosed_name n = None <-> ~ safe n.
Proof.
  split.
  - intros H Hs. assert (enclosed_name n = Some n) by (apply enclosed_iff; tauto). congruence.
  - intro H. destruct (enclosed_name n) as [p|] eqn:E; [|reflexivity].
    apply enclosed_iff in E as [_ Hs]. contradiction.
Qed.

(* ---------- confinement: the lexical walk never pops the base, at any prefix *)
Lemma depth_walk_confined cs : forall stack,
  depth_walk (N.of_nat (length stack)) cs = true ->
  forall k, exists rel, walk stack (firstn k cs) = Some rel.
Proof.
  induction cs as [|c cs IH]; intros stack H k.
  - destruct k; cbn [firstn walk]; eauto.
  - destruct k as [|k]; [cbn [firstn walk]; eauto|]. cbn [firstn].
    destruct c; cbn [depth_walk] in H; cbn [walk].
    + discriminate.
    + now apply IH.
    + destruct stack as [|s stack]; [cbn in H; discriminate|].
      destruct (N.of_nat (length (s :: stack)) =? 0) eqn:E; [discriminate|].
      apply IH. replace (N.of_nat (length stack)) with (N.of_nat (length (s :: stack)) - 1)
        by (cbn [length]; lia). exact H.
    + apply IH. replace (N.of_nat (length (n :: stack))) with (N.of_nat (length stack) + 1)
        by (cbn [length]; lia). exact H.
Qed.

Theorem enclosed_confined n p : enclosed_name n = Some p ->
  forall k, exists rel, walk [] (firstn k (components p)) = Some rel.
Proof.
  unfold enclosed_name. destruct (has_nul n); [discriminate|].
  destruct (depth_walk 0 (components n)) eqn:E; [|discriminate].
  intros [= <-]. now apply (depth_walk_confined (components n) []).
Qed.

(* ---------- mangled_name: shape and confinement *)
Definition goodb (n : bytes) : bool :=
  negb (is_empty n) && negb (is_dot n) && negb (is_dotdot n) && negb (existsb (Byte.eqb slash) n).

Lemma split_on_nonempty sep bs : split_on sep bs <> [].
Proof.
  induction bs as [|b r IH]; cbn [split_on]; [discriminate|].
  destruct (Byte.eqb b sep); [discriminate|]. destruct (split_on sep r); discriminate.
Qed.

Lemma split_on_no_sep sep bs : Forall (fun p => existsb (Byte.eqb sep) p = false) (split_on sep bs).
Proof.
  induction bs as [|b r IH]; cbn [split_on].
  - constructor; [reflexivity|constructor].
  - destruct (Byte.eqb b sep) eqn:E.
    + constructor; [reflexivity|exact IH].
    + destruct (split_on sep r) as [|p ps] eqn:Es.
      * constructor; [|constructor]. cbn [existsb]. rewrite orb_false_r.
        destruct (Byte.eqb sep b) eqn:E2; [|reflexivity].
        apply Byte.byte_dec_bl in E2. subst. rewrite (beqb_refl b) in E. discriminate.
      * inversion IH as [|? ? Hp Hps]; subst. constructor; [|exact Hps].
        cbn [existsb]. rewrite Hp, orb_false_r.
        destruct (Byte.eqb sep b) eqn:E2; [|reflexivity].
        apply Byte.byte_dec_bl in E2. subst. rewrite (beqb_refl b) in E. discriminate.
Qed.

Lemma piece_comp_normal p n : piece_comp p = Some (Normal n) ->
  n = p /\ is_empty p = false /\ is_dot p = false /\ is_dotdot p = false.
Proof.
  unfold piece_comp. destruct (is_empty p) eqn:E1; [discriminate|].
  destruct (is_dot p) eqn:E2; [discriminate|]. cbn [orb].
  destruct (is_dotdot p) eqn:E3; [discriminate|]. intros [= <-]. tauto.
Qed.

Lemma normals_body_good ps :
  Forall (fun p => existsb (Byte.eqb slash) p = false) ps ->
  Forall (fun n => goodb n = true) (normals (body ps)).
Proof.
  induction ps as [|p r IH]; intro H; cbn [body normals]; [constructor|].
  inversion H as [|? ? Hp Hr]; subst. specialize (IH Hr).
  destruct (piece_comp p) as [c|] eqn:E; [|exact IH].
  destruct c; cbn [normals]; try exact IH.
  apply piece_comp_normal in E as (-> & E1 & E2 & E3).
  constructor; [|exact IH]. unfold goodb. now rewrite E1, E2, E3, Hp.
Qed.

Lemma normals_components_good s : Forall (fun n => goodb n = true) (normals (components s)).
Proof.
  unfold components. destruct s as [|b s']; [constructor|].
  pose proof (split_on_no_sep slash (b :: s')) as Hs.
  destruct (Byte.eqb b slash).
  - cbn [normals]. now apply normals_body_good.
  - destruct (split_on slash (b :: s')) as [|p0 rest]; [constructor|].
    destruct (is_dot p0).
    + cbn [normals]. apply normals_body_good. now inversion Hs.
    + now apply normals_body_good.
Qed.

Lemma split_join_good ns : ns <> [] -> Forall (fun n => goodb n = true) ns ->
  split_on slash (join slash ns) = ns.
Proof.
  induction ns as [|n r IH]; intros Hne Hg; [contradiction|].
  inversion Hg as [|? ? Hn Hr]; subst.
  assert (Hns : existsb (Byte.eqb slash) n = false).
  { unfold goodb in Hn. apply andb_true_iff in Hn as [_ Hn]. now apply negb_true_iff in Hn. }
  assert (Hsplit_single : forall m, existsb (Byte.eqb slash) m = false -> split_on slash m = [m]).
  { induction m as [|b m IHm]; intro Hm; cbn [split_on]; [reflexivity|].
    cbn [existsb] in Hm. apply orb_false_iff in Hm as [Hb Hm].
    assert (Byte.eqb b slash = false) as ->.
    { destruct (Byte.eqb b slash) eqn:E; [|reflexivity]. apply Byte.byte_dec_bl in E. subst.
      rewrite (beqb_refl slash) in Hb. discriminate. }
    now rewrite (IHm Hm). }
  destruct r as [|n2 r'].
  - cbn [join]. now apply Hsplit_single.
  - assert (IH' : split_on slash (join slash (n2 :: r')) = n2 :: r') by (apply IH; [discriminate|assumption]).
    change (join slash (n :: n2 :: r')) with (n ++ slash :: join slash (n2 :: r')).
    clear IH Hn Hg Hne. induction n as [|b m IHm].
    + cbn [app split_on]. rewrite (beqb_refl slash). now rewrite IH'.
    + cbn [existsb] in Hns. apply orb_false_iff in Hns as [Hb Hm].
      cbn [app split_on].
      assert (Byte.eqb b slash = false) as ->.
      { destruct (Byte.eqb b slash) eqn:E; [|reflexivity]. apply Byte.byte_dec_bl in E. subst.
        rewrite (beqb_refl slash) in Hb. discriminate. }
      now rewrite (IHm Hm).
Qed.

Lemma body_good ns : Forall (fun n => goodb n = true) ns -> body ns = map Normal ns.
Proof.
  induction ns as [|n r IH]; intro H; [reflexivity|]. inversion H as [|? ? Hn Hr]; subst.
  cbn [body map]. unfold piece_comp. unfold goodb in Hn.
  apply andb_true_iff in Hn as [Hn _]. apply andb_true_iff in Hn as [Hn H3].
  apply andb_true_iff in Hn as [H1 H2].
  apply negb_true_iff in H1, H2, H3. rewrite H1, H2, H3. cbn [orb]. now rewrite IH.
Qed.

Lemma components_join ns : Forall (fun n => goodb n = true) ns ->
  components (join slash ns) = map Normal ns.
Proof.
  intro Hg. destruct ns as [|n r]; [reflexivity|].
  pose proof (split_join_good (n :: r) ltac:(discriminate) Hg) as Hs.
  inversion Hg as [|? ? Hn Hr]; subst.
  assert (Hn' := Hn). unfold goodb in Hn'.
  apply andb_true_iff in Hn' as [Hn' H4]. apply andb_true_iff in Hn' as [Hn' H3].
  apply andb_true_iff in Hn' as [H1 H2]. apply negb_true_iff in H1, H2, H3, H4.
  destruct n as [|b m]; [discriminate|].
  unfold components.
  assert (Hj : exists tl, join slash ((b :: m) :: r) = b :: tl).
  { destruct r; cbn [join app]; eauto. }
  destruct Hj as [tl Hj]. rewrite Hs. rewrite Hj.
  assert (Byte.eqb b slash = false) as ->.
  { cbn [existsb] in H4. apply orb_false_iff in H4 as [Hb _].
    destruct (Byte.eqb b slash) eqn:E; [|reflexivity]. apply Byte.byte_dec_bl in E. subst.
    rewrite (beqb_refl slash) in Hb. discriminate. }
  rewrite H2. now apply body_good.
Qed.

Theorem mangled_shape n :
  components (mangled_name n) = map Normal (normals (components (slashify (until_nul n)))).
Proof. unfold mangled_name. apply components_join. apply normals_components_good. Qed.

Lemma walk_normals ns : forall stack, walk stack (map Normal ns) = Some (rev ns ++ stack).
Proof.
  induction ns as [|n r IH]; intro stack; cbn [map walk rev app]; [reflexivity|].
  rewrite IH. now rewrite <- app_assoc.
Qed.

Theorem mangled_confined n stack : forall k,
  exists rel, walk stack (firstn k (components (mangled_name n))) = Some (rel ++ stack).
Proof.
  intro k. rewrite mangled_shape. rewrite firstn_map. rewrite walk_normals. eauto.
Qed.

Lemma until_nul_no_nul n : ~ In nul (until_nul n).
Proof.
  induction n as [|b r IH]; cbn [until_nul]; [intros []|].
  destruct (Byte.eqb b nul) eqn:E; [intros []|].
  intros [->|H]; [|contradiction]. rewrite (beqb_refl nul) in E. discriminate.
Qed.

Lemma until_nul_prefix n : exists rest, n = until_nul n ++ rest /\ (rest = [] \/ exists r, rest = nul :: r).
Proof.
  induction n as [|b r (rest & E & H)]; cbn [until_nul].
  - exists []. split; [reflexivity|now left].
  - destruct (Byte.eqb b nul) eqn:Eb.
    + apply Byte.byte_dec_bl in Eb. subst. exists (nul :: r). split; [reflexivity|right; eauto].
    + exists rest. split; [cbn [app]; now rewrite <- E|exact H].
Qed.

(* non-vacuity *)
Example ex_enclosed : enclosed_name [x61; x2f; x2e; x2e; x2f; x62] = Some [x61; x2f; x2e; x2e; x2f; x62].
Proof. vm_compute. reflexivity. Qed.
Example ex_enclosed_bad : enclosed_name [x61; x2f; x2e; x2e; x2f; x2e; x2e; x2f; x62] = None.
Proof. vm_compute. reflexivity. Qed.
Example ex_mangled : mangled_name [x2f; x61; x5c; x2e; x2e; x2f; x2e; x2f; x62; x00; x63] = [x61; x2f; x62].
Proof. vm_compute. reflexivity. Qed.
