(* Proofs/OkSim.v — C11, writer side: "either some call reports an error, or the outcome is the failure-free one".
   One-sided simulation along the all-Ok paths: if a Result-returning call returns Ok on a sink with ANY plan (short
   writes and failures anywhere), the same call on a failure-free sink with the same bytes and position returns the
   same Ok value and leaves the same bytes and position -- an Ok result means every sink operation on the way
   returned Ok (no error is swallowed, cf. FaultSurface), and a sink operation that returned Ok did what the ideal
   sink does.  Relation S: the two states agree on everything except the plans; the second sink is failure-free. *)
From Coq Require Import ZArith Lia List.
From ZipV Require Import Base.Bytes Base.Outcome Gen.GenLib Gen.SpecGen Gen.CompressionGen Gen.TypesGen Gen.WriteGen
     Model.Readers Model.Reader Model.Writer Model.WriterCalls Proofs.WriterIdeal Proofs.ShortWrites Proofs.ChunkSim Proofs.FaultSurface.
Import ListNotations.
Open Scope N_scope.

(* ---------- a sink operation that returned Ok did what the ideal sink does *)
Lemma dev_write_ok d bs d' k : dev_write d bs = (d', Ok k) ->
  d_buf d' = put_at (d_buf d) (d_pos d) (take k bs) /\ d_pos d' = d_pos d + k /\ k <= len bs /\ (bs <> [] -> 1 <= k).
Proof.
  unfold dev_write. destruct (d_plan d) as [|[n|] p]; intro H; try discriminate; injection H as <- <-; cbn [d_buf d_pos].
  - rewrite take_all. repeat split; try lia. intro Hne. destruct bs; [congruence|unfold len; cbn [length]; lia].
  - repeat split; try lia. intro Hne. assert (1 <= len bs) by (destruct bs; [congruence|unfold len; cbn [length]; lia]). lia.
Qed.

Lemma dev_write_all_fuel_ok : forall fuel bs d d' u, dev_write_all_fuel fuel d bs = (d', Ok u) ->
  d_buf d' = wr (d_buf d) (d_pos d) bs /\ d_pos d' = d_pos d + len bs.
Proof.
  induction fuel as [|f IH]; intros bs d d' u H; destruct bs as [|x r] eqn:Eb; cbn [dev_write_all_fuel] in H; try discriminate.
  - injection H as <- _. cbn [wr len length N.of_nat]. split; [reflexivity|lia].
  - injection H as <- _. cbn [wr len length N.of_nat]. split; [reflexivity|lia].
  - rewrite <- Eb in *. destruct (dev_write d bs) as [d1 [k|e|p]] eqn:Ew; try discriminate.
    destruct (dev_write_ok _ _ _ _ Ew) as (Hb & Hp & Hk & Hk1). assert (Hne : bs <> []) by (rewrite Eb; discriminate). specialize (Hk1 Hne).
    destruct (k =? 0) eqn:Ek; [discriminate|]. destruct (IH _ _ _ _ H) as (Hb' & Hp').
    assert (Hlt : len (take k bs) = k) by (rewrite len_take; lia).
    assert (Hput : put_at (d_buf d) (d_pos d) (take k bs) = wr (d_buf d) (d_pos d) (take k bs)).
    { destruct (take k bs) eqn:Et; [cbn [len length N.of_nat] in Hlt; lia|reflexivity]. }
    rewrite Hb', Hp', Hb, Hp, Hput. rewrite <- Hlt at 2. rewrite wr_app, take_drop, len_drop. split; [reflexivity|lia].
Qed.
Lemma dev_write_all_ok d bs d' u : dev_write_all d bs = (d', Ok u) ->
  d_buf d' = wr (d_buf d) (d_pos d) bs /\ d_pos d' = d_pos d + len bs.
Proof. apply dev_write_all_fuel_ok. Qed.

Lemma dev_event_ok d d' u : dev_event d = (d', Ok u) -> d_buf d' = d_buf d /\ d_pos d' = d_pos d.
Proof. unfold dev_event, io_fail. destruct (d_plan d) as [|[n|] p]; intro H; try discriminate; injection H as <- _; auto. Qed.

(* ---------- the relation: second sink failure-free *)
Definition srel (d1 d2 : dev) : Prop := d_buf d1 = d_buf d2 /\ d_pos d1 = d_pos d2 /\ nofail (d_plan d2).
Definition osrel (o1 o2 : option dev) : Prop :=
  match o1, o2 with Some a, Some b => srel a b | None, None => True | _, _ => False end.
Definition isrel (i1 i2 : winner) : Prop :=
  match i1, i2 with
  | WClosed l1, WClosed l2 => osrel l1 l2
  | WStorer d1, WStorer d2 => srel d1 d2
  | WEnc d1 b1 k1, WEnc d2 b2 k2 => srel d1 d2 /\ b1 = b2 /\ k1 = k2
  | WComp m1 l1 d1 e1 p1, WComp m2 l2 d2 e2 p2 => m1 = m2 /\ l1 = l2 /\ srel d1 d2 /\ e1 = e2 /\ p1 = p2
  | _, _ => False
  end.
Record S (s1 s2 : wstate) : Prop := {
  s_inner : isrel (ws_inner s1) (ws_inner s2);
  s_files : ws_files s1 = ws_files s2; s_start : ws_start s1 = ws_start s2; s_written : ws_written s1 = ws_written s2;
  s_hashed : ws_hashed s1 = ws_hashed s2; s_tf : ws_to_file s1 = ws_to_file s2; s_te : ws_to_extra s1 = ws_to_extra s2;
  s_co : ws_central_only s1 = ws_central_only s2; s_raw : ws_raw s1 = ws_raw s2; s_comment : ws_comment s1 = ws_comment s2 }.

Lemma S_set_inner s1 s2 i1 i2 : S s1 s2 -> isrel i1 i2 -> S (set_inner s1 i1) (set_inner s2 i2).
Proof. intros [] H. constructor; cbn; auto. Qed.
Lemma S_same_inner s1 s2 : S s1 s2 -> exists i2, s2 = set_inner s1 i2 /\ isrel (ws_inner s1) i2.
Proof.
  intros [H1 H2 H3 H4 H5 H6 H7 H8 H9 H10]. exists (ws_inner s2). split; [|exact H1].
  destruct s1, s2; cbn in *; subst; reflexivity.
Qed.
Lemma isrel_cur i1 i2 : isrel i1 i2 -> cur_method i1 = cur_method i2.
Proof. destruct i1, i2; cbn; try tauto. intros (-> & _). reflexivity. Qed.
Lemma isrel_closed i1 i2 : isrel i1 i2 -> is_closed i1 = is_closed i2.
Proof. destruct i1, i2; cbn; tauto. Qed.

Lemma srel_mk b p p1 p2 : nofail p2 -> srel {| d_buf := b; d_pos := p; d_plan := p1 |} {| d_buf := b; d_pos := p; d_plan := p2 |}.
Proof. intros. repeat split; assumption. Qed.

(* one-sided simulation of a sink closure: Ok on the left gives the same Ok on the right *)
Definition oksim {A} (k : dev -> dev * res A) : Prop :=
  forall d1 d2 d1' v, srel d1 d2 -> k d1 = (d1', Ok v) -> exists d2', k d2 = (d2', Ok v) /\ srel d1' d2'.

Lemma dev_write_all_oksim bs : oksim (fun d => dev_write_all d bs).
Proof.
  intros d1 d2 d1' v (Hb & Hp & Hn) H. destruct (dev_write_all_ok _ _ _ _ H) as (Hb' & Hp').
  destruct (dev_write_all_cf d2 bs Hn) as (p2 & Hp2 & E2). rewrite E2. destruct v. eexists. split; [reflexivity|].
  repeat split; cbn [d_buf d_pos d_plan]; [now rewrite Hb', Hb, Hp|now rewrite Hp', Hp|exact Hp2].
Qed.
Lemma dev_write_chunks_oksim : forall cs, oksim (fun d => dev_write_chunks d cs).
Proof.
  induction cs as [|c cs IH]; intros d1 d2 d1' v Hd H; cbn [dev_write_chunks] in *.
  - injection H as <- <-. eexists. split; [reflexivity|exact Hd].
  - destruct (dev_write_all d1 c) as [a1 [u|e|p]] eqn:Ea; try discriminate.
    destruct (dev_write_all_oksim c d1 d2 a1 u Hd Ea) as (a2 & Ea2 & Ha). cbv beta in Ea2. rewrite Ea2. exact (IH _ _ _ _ Ha H).
Qed.
Lemma dev_event_oksim : oksim dev_event.
Proof.
  intros d1 d2 d1' v (Hb & Hp & Hn) H. destruct (dev_event_ok _ _ _ H) as (Hb' & Hp').
  destruct (dev_event_nf d2 Hn) as (p2 & Hp2 & E2). rewrite E2. destruct v. eexists. split; [reflexivity|].
  repeat split; cbn [d_buf d_pos d_plan]; congruence || exact Hp2.
Qed.
Lemma dev_seek_oksim q : oksim (fun d => dev_seek d q).
Proof.
  intros d1 d2 d1' v Hd H. unfold dev_seek in *. destruct (dev_event d1) as [a1 [u|e|p]] eqn:Ea; try discriminate.
  destruct (dev_event_oksim d1 d2 a1 u Hd Ea) as (a2 & Ea2 & (Hb & Hp & Hn)). rewrite Ea2. injection H as <- <-.
  eexists. split; [reflexivity|]. repeat split; cbn [d_buf d_pos d_plan]; auto.
Qed.
Lemma dev_pos_oksim : oksim dev_pos.
Proof.
  intros d1 d2 d1' v Hd H. unfold dev_pos in *. destruct (dev_event d1) as [a1 [u|e|p]] eqn:Ea; try discriminate.
  destruct (dev_event_oksim d1 d2 a1 u Hd Ea) as (a2 & Ea2 & (Hb & Hp & Hn)). rewrite Ea2. injection H as <- <-.
  eexists. split; [now rewrite Hp|]. repeat split; auto.
Qed.
Lemma dev_flush_oksim : oksim dev_flush.
Proof. exact dev_event_oksim. Qed.
Lemma dev_seek_end_oksim : oksim dev_seek_end.
Proof.
  intros d1 d2 d1' v Hd H. unfold dev_seek_end in *. destruct (dev_event d1) as [a1 [u|e|p]] eqn:Ea; try discriminate.
  destruct (dev_event_oksim d1 d2 a1 u Hd Ea) as (a2 & Ea2 & (Hb & Hp & Hn)). rewrite Ea2. injection H as <- <-.
  eexists. split; [now rewrite Hb|]. repeat split; cbn [d_buf d_pos d_plan]; auto. now rewrite Hb.
Qed.

Section OkSim.
  Variable enc : CompressionMethod -> Z -> bytes -> bytes.
  Variable crc : bytes -> N.

  Lemma with_plain_ok {A} (k : dev -> dev * res A) s1 s2 s1' v : oksim k -> S s1 s2 -> with_plain s1 k = (s1', Ok v) ->
    exists s2', with_plain s2 k = (s2', Ok v) /\ S s1' s2'.
  Proof.
    intros Hk HS H. pose proof HS as HS0. destruct (S_same_inner _ _ HS) as (i2 & -> & Hi). unfold with_plain in *. cbn [ws_inner set_inner].
    destruct (ws_inner s1) as [l1|d1|d1 b1 k1|? ? ? ? ?] eqn:E1; destruct i2 as [l2|d2|d2 b2 k2|? ? ? ? ?]; try (now cbn in Hi); try discriminate.
    - destruct (k d1) as [d1' r] eqn:Ea. inj H. destruct (Hk d1 d2 d1' v Hi Ea) as (d2' & Eb & Hd). rewrite Eb.
      eexists. split; [reflexivity|]. destruct HS0. constructor; cbn; auto.
    - destruct Hi as (Hd0 & -> & ->). destruct (k d1) as [d1' r] eqn:Ea. inj H. destruct (Hk d1 d2 d1' v Hd0 Ea) as (d2' & Eb & Hd). rewrite Eb.
      eexists. split; [reflexivity|]. destruct HS0. constructor; cbn; auto.
  Qed.

  Lemma finish_comp_ok i1 i2 i1' u : isrel i1 i2 -> finish_comp enc i1 = (i1', Ok u) ->
    exists i2', finish_comp enc i2 = (i2', Ok u) /\ isrel i1' i2'.
  Proof.
    intros Hi H. destruct i1 as [l1|d1|d1 b1 k1|m1 lv1 d1 e1 p1]; destruct i2 as [l2|d2|d2 b2 k2|m2 lv2 d2 e2 p2]; try (now cbn in Hi);
      cbn [finish_comp] in *.
    - inj H. eexists. split; [reflexivity|exact Hi].
    - inj H. eexists. split; [reflexivity|exact Hi].
    - inj H. eexists. split; [reflexivity|exact Hi].
    - destruct Hi as (-> & -> & Hd & -> & ->). destruct e2 as [[b k]|].
      + inj H. eexists. split; [reflexivity|]. cbn. auto.
      + destruct (dev_write_all d1 _) as [a1 [x|e|p]] eqn:Ea; try discriminate. inj H.
        destruct (dev_write_all_oksim _ d1 d2 a1 x Hd Ea) as (a2 & Eb & Ha). cbv beta in Eb. rewrite Eb. eexists. split; [reflexivity|exact Ha].
  Qed.

  Lemma switch_to_ok s1 s2 m lvl s1' u : S s1 s2 -> switch_to enc s1 m lvl = (s1', Ok u) ->
    exists s2', switch_to enc s2 m lvl = (s2', Ok u) /\ S s1' s2'.
  Proof.
    intros HS H. pose proof (s_inner _ _ HS) as Hi. unfold switch_to in *. rewrite <- (isrel_cur _ _ Hi).
    destruct (cur_method (ws_inner s1)) as [cm|]; [|discriminate].
    destruct (CompressionMethod_eqb cm m); [inj H; eexists; split; [reflexivity|exact HS]|].
    destruct (finish_comp enc (ws_inner s1)) as [i1 [u1|e1|p1]] eqn:E1; try discriminate.
    destruct (finish_comp_ok _ _ _ _ Hi E1) as (i2 & E2 & Hi'). rewrite E2.
    destruct m; try discriminate.
    - destruct lvl; [discriminate|]. inj H. eexists. split; [reflexivity|now apply S_set_inner].
    - destruct (level_ok _ lvl); [|discriminate].
      destruct i1, i2; try (now cbn in Hi'); try discriminate; inj H; eexists; (split; [reflexivity|]); apply S_set_inner; auto; cbn in *; intuition (subst; auto).
    - destruct (level_ok _ lvl); [|discriminate].
      destruct i1, i2; try (now cbn in Hi'); try discriminate; inj H; eexists; (split; [reflexivity|]); apply S_set_inner; auto; cbn in *; intuition (subst; auto).
    - destruct (level_ok _ lvl); [|discriminate].
      destruct i1, i2; try (now cbn in Hi'); try discriminate; inj H; eexists; (split; [reflexivity|]); apply S_set_inner; auto; cbn in *; intuition (subst; auto).
  Qed.

  Lemma update_local_oksim f : oksim (fun d => update_local d f).
  Proof.
    intros d1 d2 d1' v Hd H. unfold update_local in *.
    destruct (dev_seek d1 _) as [a1 [x|e|p]] eqn:Ea; try discriminate.
    destruct (dev_seek_oksim _ d1 d2 a1 x Hd Ea) as (a2 & Ea2 & Ha). cbv beta in Ea2. rewrite Ea2.
    destruct (dev_write_all a1 _) as [b1 [y|e|p]] eqn:Eb; try discriminate.
    destruct (dev_write_all_oksim _ a1 a2 b1 y Ha Eb) as (b2 & Eb2 & Hb). cbv beta in Eb2. rewrite Eb2.
    destruct (w_large f).
    - destruct (dev_seek b1 _) as [c1 [z|e|p]] eqn:Ec; try discriminate.
      destruct (dev_seek_oksim _ b1 b2 c1 z Hb Ec) as (c2 & Ec2 & Hc). cbv beta in Ec2. rewrite Ec2.
      exact (dev_write_chunks_oksim _ c1 c2 d1' v Hc H).
    - destruct (ZIP64_BYTES_THR <? w_csize f); [discriminate|]. exact (dev_write_chunks_oksim _ b1 b2 d1' v Hb H).
  Qed.

  Lemma patch_oksim q xl he : oksim (fun d => match dev_seek d q with
                              | (d1, Ok _) => match dev_write_all d1 (le16 xl) with
                                              | (d2, Ok _) => dev_seek d2 he
                                              | bad => bad end
                              | bad => bad end).
  Proof.
    intros d1 d2 d1' v Hd H.
    destruct (dev_seek d1 q) as [a1 [x|e|p]] eqn:Ea; try discriminate.
    destruct (dev_seek_oksim _ d1 d2 a1 x Hd Ea) as (a2 & Ea2 & Ha). cbv beta in Ea2. rewrite Ea2.
    destruct (dev_write_all a1 _) as [b1 [y|e|p]] eqn:Eb; try discriminate.
    destruct (dev_write_all_oksim _ a1 a2 b1 y Ha Eb) as (b2 & Eb2 & Hb). cbv beta in Eb2. rewrite Eb2.
    exact (dev_seek_oksim _ b1 b2 d1' v Hb H).
  Qed.

  Lemma patch_sizes_oksim f q : oksim (fun d => match update_local d f with
                                              | (d1, Ok _) => dev_seek d1 q
                                              | bad => bad end).
  Proof.
    intros d1 d2 d1' v Hd H. destruct (update_local d1 f) as [a1 [x|e|p]] eqn:Ea; try discriminate.
    destruct (update_local_oksim f d1 d2 a1 x Hd Ea) as (a2 & Ea2 & Ha). cbv beta in Ea2. rewrite Ea2.
    exact (dev_seek_oksim _ a1 a2 d1' v Ha H).
  Qed.

  Lemma eed_open_ok s1 s2 s1' v : S s1 s2 -> eed_open enc s1 = (s1', Ok v) -> exists s2', eed_open enc s2 = (s2', Ok v) /\ S s1' s2'.
  Proof.
    intros HS H. pose proof HS as HS0. destruct (S_same_inner _ _ HS) as (i2 & -> & Hi). unfold eed_open in *.
    cbn [set_inner ws_files ws_central_only ws_to_file ws_raw].
    destruct (last_file (ws_files s1)) as [f|]; [|discriminate].
    destruct (validate_extra_data f); try discriminate.
    destruct (ws_central_only s1).
    { inj H. eexists. split; [reflexivity|]. destruct HS0. constructor; cbn; auto. }
    destruct (with_plain s1 _) as [sa [ua|ea|pa]] eqn:Ea; try discriminate.
    destruct (with_plain_ok _ _ _ _ _ (dev_write_all_oksim (w_extra f)) HS0 Ea) as (sb & Eb & HSa). rewrite Eb. clear Ea Eb.
    destruct (S_same_inner _ _ HSa) as (ib & -> & Hib). cbv zeta in *. cbn [set_inner ws_files ws_written ws_hashed].
    match type of H with context [set_files ?x ?y] => set (S1 := set_files x y) in * end.
    match goal with |- context [set_files (set_stats (set_inner sa ib) ?a ?b ?c) ?y] => set (S2 := set_files (set_stats (set_inner sa ib) a b c) y) in * end.
    assert (HS2 : S S1 S2) by (subst S1 S2; destruct HSa; constructor; cbn; auto).
    destruct (add_chk 16 _ _) as [xl|]; [|discriminate].
    destruct (with_plain S1 _) as [sc [uc|ec|pc]] eqn:Ec; try discriminate.
    destruct (with_plain_ok _ _ _ _ _ (patch_oksim _ _ _) HS2 Ec) as (sd & Ed & HSc). rewrite Ed. clear Ec Ed.
    destruct (switch_to enc sc _ _) as [se [ue|ee|pe]] eqn:Ee; try discriminate.
    destruct (switch_to_ok _ _ _ _ _ _ HSc Ee) as (sf & Ef & HSe). rewrite Ef.
    inj H. eexists. split; [reflexivity|]. destruct HSe. constructor; cbn; auto.
  Qed.

  Lemma end_extra_data_ok s1 s2 s1' v : S s1 s2 -> end_extra_data enc s1 = (s1', Ok v) ->
    exists s2', end_extra_data enc s2 = (s2', Ok v) /\ S s1' s2'.
  Proof.
    intros HS H. rewrite end_extra_data_unfold in *. rewrite <- (s_te _ _ HS), <- (isrel_closed _ _ (s_inner _ _ HS)).
    destruct (negb (ws_to_extra s1)); [discriminate|]. destruct (is_closed (ws_inner s1)); [discriminate|].
    exact (eed_open_ok _ _ _ _ HS H).
  Qed.

  Lemma finish_file_ok s1 s2 s1' u : S s1 s2 -> finish_file enc crc s1 = (s1', Ok u) ->
    exists s2', finish_file enc crc s2 = (s2', Ok u) /\ S s1' s2'.
  Proof.
    intros HS H. unfold finish_file in *. rewrite <- (s_te _ _ HS).
    match type of H with (let (_, _) := ?X in _) = _ => destruct X as [sa ra] eqn:Ea end.
    destruct ra as [ua|ea|pa]; try discriminate.
    match goal with |- exists _, (let (_, _) := ?Y in _) = _ /\ _ => assert (P0 : exists sb, Y = (sb, Ok ua) /\ S sa sb) end.
    { destruct (ws_to_extra s1).
      - destruct (end_extra_data enc s1) as [sx [vx|ex|px]] eqn:Ex; try discriminate. inj Ea.
        destruct (end_extra_data_ok _ _ _ _ HS Ex) as (sy & Ey & HSx). rewrite Ey. eexists. split; [reflexivity|exact HSx].
      - inj Ea. eexists. split; [reflexivity|exact HS]. }
    destruct P0 as (sb & Eb & HSa). rewrite Eb. clear Ea Eb.
    destruct (switch_to enc sa CompressionMethod_Stored None) as [sc [uc|ec|pc]] eqn:Ec; try discriminate.
    destruct (switch_to_ok _ _ _ _ _ _ HSa Ec) as (sd & Ed & HSc). rewrite Ed. clear Ec Ed.
    match type of H with (let (_, _) := ?X in _) = _ => destruct X as [se re] eqn:Ee end.
    destruct re as [ue|ee|pe]; try discriminate.
    match goal with |- exists _, (let (_, _) := ?Y in _) = _ /\ _ => assert (P2 : exists sf, Y = (sf, Ok ue) /\ S se sf) end.
    { pose proof HSc as HSc0. destruct (S_same_inner _ _ HSc) as (id & -> & Hid). cbn [set_inner ws_inner ws_hashed] in *.
      destruct (ws_inner sc) as [l1|d1|d1 b1 k1|? ? ? ? ?] eqn:Ei; destruct id as [l2|d2|d2 b2 k2|? ? ? ? ?]; try (now cbn in Hid); try discriminate.
      - inj Ee. eexists. split; [reflexivity|exact HSc0].
      - destruct Hid as (Hd & -> & ->). cbv zeta in *. destruct (zc_encrypt k2 _) as [k' ct].
        destruct (dev_write_all d1 ct) as [a1 [x|e|p]] eqn:Ea1; try discriminate.
        destruct (dev_write_all_oksim ct d1 d2 a1 x Hd Ea1) as (a2 & Ea2 & Ha). cbv beta in Ea2. rewrite Ea2.
        destruct (dev_flush a1) as [c1 [y|e|p]] eqn:Ec1; try discriminate.
        destruct (dev_flush_oksim a1 a2 c1 y Ha Ec1) as (c2 & Ec2 & Hc). rewrite Ec2.
        inj Ee. eexists. split; [reflexivity|]. destruct HSc0. constructor; cbn; auto. }
    destruct P2 as (sf & Ef & HSe). rewrite Ef. clear Ee Ef.
    pose proof HSe as HSe0. destruct (S_same_inner _ _ HSe) as (ie & -> & Hie). cbn [set_inner ws_inner ws_raw ws_files ws_to_extra ws_central_only] in *.
    destruct (ws_inner se) as [l1|d1|d1 b1 k1|? ? ? ? ?] eqn:Ei; destruct ie as [l2|d2|d2 b2 k2|? ? ? ? ?]; try (now cbn in Hie); try discriminate.
    destruct (ws_raw se).
    { inj H. eexists. split; [reflexivity|]. destruct HSe0. constructor; cbn in *; auto. }
    destruct (last_file (ws_files se)) as [f|]; [|inj H; eexists; split; [reflexivity|exact HSe0]].
    destruct (with_plain se dev_pos) as [sg [fe|eg|pg]] eqn:Eg; try discriminate.
    destruct (with_plain_ok _ _ _ _ _ dev_pos_oksim HSe0 Eg) as (sh & Eh & HSg). rewrite Eh. clear Eg Eh.
    pose proof HSg as HSg0. destruct (S_same_inner _ _ HSg) as (ig & -> & Hig). cbn [set_inner ws_start ws_hashed ws_written ws_files] in *.
    destruct (fe <? ws_start sg); [discriminate|].
    match type of H with (match with_plain ?S1 _ with _ => _ end) = _ => set (T1 := S1) in * end.
    match goal with |- context [with_plain ?S2 _] => set (T2 := S2) in * end.
    assert (HSt : S T1 T2) by (subst T1 T2; destruct HSg0; constructor; cbn; auto).
    destruct (with_plain T1 _) as [si [ui|ei|pi]] eqn:Ei2; try discriminate.
    destruct (with_plain_ok _ _ _ _ _ (patch_sizes_oksim _ _) HSt Ei2) as (sj & Ej & HSi). rewrite Ej. clear Ei2 Ej.
    inj H. eexists. split; [reflexivity|]. destruct HSi. constructor; cbn; auto.
  Qed.

  Lemma start_entry_ok s1 s2 name o raw s1' u : S s1 s2 -> start_entry enc crc s1 name o raw = (s1', Ok u) ->
    exists s2', start_entry enc crc s2 name o raw = (s2', Ok u) /\ S s1' s2'.
  Proof.
    intros HS H. unfold start_entry in *.
    destruct (65535 <? len name); [discriminate|].
    destruct (finish_file enc crc s1) as [sa [ua|ea|pa]] eqn:Ea; try discriminate.
    destruct (finish_file_ok _ _ _ _ HS Ea) as (sb & Eb & HSa). rewrite Eb. clear Ea Eb.
    destruct (with_plain sa dev_pos) as [sc [hs|ec|pc]] eqn:Ec; try discriminate.
    destruct (with_plain_ok _ _ _ _ _ dev_pos_oksim HSa Ec) as (sd & Ed & HSc). rewrite Ed. clear Ec Ed.
    cbv zeta in *. destruct (local_header_chunks _) as [cs|el|pl]; try discriminate.
    destruct (with_plain sc _) as [se [ue|ee|pe]] eqn:Ee; try discriminate.
    destruct (with_plain_ok _ _ _ _ _ (dev_write_chunks_oksim cs) HSc Ee) as (sf & Ef & HSe). rewrite Ef. clear Ee Ef.
    destruct (with_plain se dev_pos) as [sg [he|eg|pg]] eqn:Eg; try discriminate.
    destruct (with_plain_ok _ _ _ _ _ dev_pos_oksim HSe Eg) as (sh & Eh & HSg). rewrite Eh. clear Eg Eh.
    pose proof HSg as HSg0. destruct (S_same_inner _ _ HSg) as (ig & -> & Hig). cbn [set_inner set_files set_stats ws_files ws_inner] in *.
    destruct (o_encrypt o) as [pw|].
    - destruct (ws_inner sg) as [l1|d1|d1 b1 k1|? ? ? ? ?] eqn:Ei; destruct ig as [l2|d2|d2 b2 k2|? ? ? ? ?]; try (now cbn in Hig); try discriminate;
        inj H; eexists; (split; [reflexivity|]); destruct HSg0; constructor; cbn in *; auto.
    - inj H. eexists. split; [reflexivity|]. destruct HSg0; constructor; cbn in *; auto.
  Qed.

  (* write_all on an open stored entry: an Ok result is the closed form, on any plan *)
  Lemma zw_write_all_fuel_ok_cf : forall fuel bs s d s' u,
    ws_to_file s = true -> ws_to_extra s = false -> ws_inner s = WStorer d ->
    zw_write_all_fuel fuel s bs = (s', Ok u) ->
    (bs = [] \/ ws_written s + len bs <= ZIP64_BYTES_THR \/ large_last s = true) /\
    exists d', ws_inner s' = WStorer d' /\ d_buf d' = wr (d_buf d) (d_pos d) bs /\ d_pos d' = d_pos d + len bs /\
               s' = wrote s d' bs.
  Proof.
    induction fuel as [|f IH]; intros bs s d s' u Hf He Hi H; destruct bs as [|x r] eqn:Eb; cbn [zw_write_all_fuel] in H; try discriminate.
    - inj H. split; [now left|]. exists d. cbn [wr len length N.of_nat]. repeat split; auto; try lia.
      unfold wrote, set_stats, set_inner. cbn [len length N.of_nat]. rewrite N.add_0_r, app_nil_r.
      match goal with |- ?x = _ => destruct x; cbn in *; now subst end.
    - inj H. split; [now left|]. exists d. cbn [wr len length N.of_nat]. repeat split; auto; try lia.
      unfold wrote, set_stats, set_inner. cbn [len length N.of_nat]. rewrite N.add_0_r, app_nil_r.
      match goal with |- ?x = _ => destruct x; cbn in *; now subst end.
    - rewrite <- Eb in *. assert (Hne : bs <> []) by (rewrite Eb; discriminate). clear Eb.
      destruct (zw_write s bs) as [sx [kx|e|p]] eqn:Ez; try discriminate.
      destruct (kx =? 0) eqn:Ek; [discriminate|]. apply N.eqb_neq in Ek.
      (* one inner write *)
      unfold zw_write in Ez. rewrite Hf, He, Hi in Ez. cbn [negb] in Ez.
      destruct (dev_write d bs) as [d1 [k|e0|p0]] eqn:Ew; try discriminate.
      destruct (dev_write_ok _ _ _ _ Ew) as (Hb1 & Hp1 & Hk & _).
      cbn [set_stats set_inner ws_files ws_written] in Ez. fold (large_last s) in Ez.
      destruct ((ZIP64_BYTES_THR <? ws_written s + k) && negb (large_last s)) eqn:Ec; [discriminate|].
      injection Ez as <- <-.
      assert (Hlt : len (take k bs) = k) by (rewrite len_take; lia).
      set (s1 := set_stats (set_inner s (WStorer d1)) (ws_start s) (ws_written s + k) (ws_hashed s ++ take k bs)) in *.
      destruct (IH (drop k bs) s1 d1 s' u) as (Hcond & d' & Hi' & Hb' & Hp' & Es'); auto.
      split.
      + right. assert (Hll : large_last s1 = large_last s) by reflexivity.
        destruct (large_last s) eqn:Ell; [now right|left]. rewrite Bool.andb_true_r in Ec. apply N.ltb_ge in Ec.
        destruct Hcond as [Hd0|[Hle|Hl]].
        * pose proof (len_drop k bs) as L. rewrite Hd0 in L. cbn [len length N.of_nat] in L. lia.
        * unfold s1 in Hle. cbn [set_stats ws_written] in Hle. rewrite len_drop in Hle. lia.
        * rewrite Hll in Hl. discriminate.
      + exists d'. split; [exact Hi'|].
        assert (Hput : put_at (d_buf d) (d_pos d) (take k bs) = wr (d_buf d) (d_pos d) (take k bs)).
        { destruct (take k bs) eqn:Et; [cbn [len length N.of_nat] in Hlt; lia|reflexivity]. }
        split; [|split].
        * rewrite Hb', Hb1, Hp1, Hput. rewrite <- Hlt at 2. now rewrite wr_app, take_drop.
        * rewrite Hp', Hp1, len_drop. lia.
        * rewrite Es'. unfold wrote, s1, set_stats, set_inner. cbn. rewrite <- app_assoc, take_drop, len_drop.
          replace (ws_written s + k + (len bs - k)) with (ws_written s + len bs) by lia. reflexivity.
  Qed.

  Lemma zw_write_buffered_ok s1 s2 buf s1' k : S s1 s2 -> indirect s1 ->
    zw_write s1 buf = (s1', Ok k) -> exists s2', zw_write s2 buf = (s2', Ok k) /\ S s1' s2'.
  Proof.
    intros HS Hns H. pose proof HS as HS0. destruct (S_same_inner _ _ HS) as (i2 & -> & Hi). unfold zw_write in *.
    cbn [set_inner ws_to_file ws_to_extra ws_inner ws_files ws_start ws_written ws_hashed] in *.
    destruct (ws_to_file s1) eqn:Etf; cbn [negb] in *; [|discriminate].
    destruct (ws_inner s1) as [l1|d1|d1 b1 k1|m1 lv1 d1 e1 p1] eqn:Ei; destruct i2 as [l2|d2|d2 b2 k2|m2 lv2 d2 e2 p2]; try (now cbn in Hi); try discriminate.
    - destruct (Hns d1 Ei) as [Hx|Hx]; [|congruence]. rewrite Hx in *. inj H. eexists. split; [reflexivity|].
      destruct HS0. constructor; cbn in *; auto.
    - destruct Hi as (Hd & -> & ->). destruct (ws_to_extra s1).
      + inj H. eexists. split; [reflexivity|]. destruct HS0. constructor; cbn in *; auto.
      + cbn [set_stats set_inner ws_files ws_written ws_inner] in *.
        match type of H with (if ?c then _ else _) = _ => destruct c end; try discriminate; inj H; eexists; (split; [reflexivity|]);
          destruct HS0; constructor; cbn in *; auto.
    - destruct Hi as (-> & -> & Hd & -> & ->). destruct (ws_to_extra s1).
      + inj H. eexists. split; [reflexivity|]. destruct HS0. constructor; cbn in *; auto.
      + cbn [set_stats set_inner ws_files ws_written ws_inner] in *.
        match type of H with (if ?c then _ else _) = _ => destruct c end; try discriminate; inj H; eexists; (split; [reflexivity|]);
          destruct HS0; constructor; cbn in *; auto.
  Qed.

  Lemma zw_write_all_fuel_indirect_ok : forall fuel s1 s2 buf s1' u, S s1 s2 -> indirect s1 ->
    zw_write_all_fuel fuel s1 buf = (s1', Ok u) -> exists s2', zw_write_all_fuel fuel s2 buf = (s2', Ok u) /\ S s1' s2'.
  Proof.
    induction fuel as [|f IH]; intros s1 s2 buf s1' u HS Hq H; destruct buf as [|b rest]; cbn [zw_write_all_fuel] in *; try discriminate;
      try (inj H; eexists; split; [reflexivity|exact HS]).
    destruct (zw_write s1 (b :: rest)) as [sa [k|e|p]] eqn:Ea; try discriminate.
    destruct (zw_write_buffered_ok _ _ _ _ _ HS Hq Ea) as (sb & Eb & HSa). rewrite Eb.
    pose proof (zw_write_indirect _ _ _ _ Hq Ea) as Hqa.
    destruct (k =? 0); [discriminate|]. exact (IH _ _ _ _ _ HSa Hqa H).
  Qed.

  Lemma zw_write_all_ok s1 s2 buf s1' u : S s1 s2 -> zw_write_all s1 buf = (s1', Ok u) ->
    exists s2', zw_write_all s2 buf = (s2', Ok u) /\ S s1' s2'.
  Proof.
    intros HS H.
    destruct (ws_inner s1) as [l1|d1|d1 b1 k1|m1 lv1 d1 e1 p1] eqn:Ei.
    1,3,4: (apply (zw_write_all_fuel_indirect_ok _ _ _ _ _ _ HS); [intros d0 Hd0; congruence|exact H]).
    destruct (ws_to_extra s1) eqn:Ex.
    { apply (zw_write_all_fuel_indirect_ok _ _ _ _ _ _ HS); [intros d0 Hd0; now left|exact H]. }
    destruct (ws_to_file s1) eqn:Etf.
    2:{ apply (zw_write_all_fuel_indirect_ok _ _ _ _ _ _ HS); [intros d0 Hd0; now right|exact H]. }
    pose proof (s_inner _ _ HS) as Hi. rewrite Ei in Hi. destruct (ws_inner s2) as [l2|d2|d2 b2 k2|? ? ? ? ?] eqn:Ei2; try (now cbn in Hi).
    destruct Hi as (Hb & Hp & Hn2).
    destruct buf as [|x0 r0] eqn:Ebuf.
    { unfold zw_write_all in *. cbn [zw_write_all_fuel length] in *. injection H as <- <-. eexists. split; [reflexivity|exact HS]. }
    rewrite <- Ebuf in *. assert (Hne : buf <> []) by (rewrite Ebuf; discriminate). clear Ebuf.
    destruct (zw_write_all_fuel_ok_cf _ _ _ _ _ _ Etf Ex Ei H) as (Hcond & d' & Hi' & Hb' & Hp' & Es').
    assert (Hll : large_last s2 = large_last s1) by (unfold large_last; now rewrite (s_files _ _ HS)).
    destruct Hcond as [Hnil|Hcond]; [contradiction|].
    assert (Hcond2 : ws_written s2 + len buf <= ZIP64_BYTES_THR \/ large_last s2 = true)
      by (rewrite <- (s_written _ _ HS), Hll; exact Hcond).
    destruct (zw_write_all_fuel_cf (Datatypes.S (length buf)) buf s2 d2 (eq_trans (eq_sym (s_tf _ _ HS)) Etf) (eq_trans (eq_sym (s_te _ _ HS)) Ex) Ei2 Hn2 Hcond2 (Nat.lt_succ_diag_r _))
      as (p2 & Hp2 & E2).
    unfold zw_write_all. rewrite E2. destruct u. eexists. split; [reflexivity|].
    rewrite Es'. destruct HS. unfold wrote. constructor; cbn; auto; try congruence.
    repeat split; cbn [d_buf d_pos d_plan]; [now rewrite Hb', Hb, Hp|now rewrite Hp', Hp|exact Hp2].
  Qed.

  Lemma start_file_ok s1 s2 name o s1' u : S s1 s2 -> start_file enc crc s1 name o = (s1', Ok u) ->
    exists s2', start_file enc crc s2 name o = (s2', Ok u) /\ S s1' s2'.
  Proof.
    intros HS H. unfold start_file in *. cbv zeta in *.
    destruct (start_entry enc crc s1 name _ None) as [sa [ua|ea|pa]] eqn:Ea; try discriminate.
    destruct (start_entry_ok _ _ _ _ _ _ _ HS Ea) as (sb & Eb & HSa). rewrite Eb.
    destruct (switch_to enc sa _ _) as [sc [uc|ec|pc]] eqn:Ec; try discriminate.
    destruct (switch_to_ok _ _ _ _ _ _ HSa Ec) as (sd & Ed & HSc). rewrite Ed.
    inj H. eexists. split; [reflexivity|]. destruct HSc. constructor; cbn; auto.
  Qed.

  Lemma start_extra_ok s1 s2 name o s1' v : S s1 s2 -> start_file_with_extra_data enc crc s1 name o = (s1', Ok v) ->
    exists s2', start_file_with_extra_data enc crc s2 name o = (s2', Ok v) /\ S s1' s2'.
  Proof.
    intros HS H. unfold start_file_with_extra_data in *. cbv zeta in *.
    destruct (start_entry enc crc s1 name _ None) as [sa [ua|ea|pa]] eqn:Ea; try discriminate.
    destruct (start_entry_ok _ _ _ _ _ _ _ HS Ea) as (sb & Eb & HSa). rewrite Eb.
    cbn [set_flags ws_files] in *. rewrite <- (s_files _ _ HSa).
    destruct (last_file (ws_files sa)); try discriminate. inj H. eexists. split; [reflexivity|]. destruct HSa; constructor; cbn; auto.
  Qed.

  Lemma end_local_ok s1 s2 s1' v : S s1 s2 -> end_local_start_central enc s1 = (s1', Ok v) ->
    exists s2', end_local_start_central enc s2 = (s2', Ok v) /\ S s1' s2'.
  Proof.
    intros HS H. unfold end_local_start_central in *.
    destruct (end_extra_data enc s1) as [sa [va|ea|pa]] eqn:Ea; try discriminate.
    destruct (end_extra_data_ok _ _ _ _ HS Ea) as (sb & Eb & HSa). rewrite Eb.
    inj H. eexists. split; [reflexivity|]. destruct HSa. constructor; cbn; auto; congruence.
  Qed.

  Lemma start_aligned_ok s1 s2 name o align s1' v : S s1 s2 -> start_file_aligned enc crc s1 name o align = (s1', Ok v) ->
    exists s2', start_file_aligned enc crc s2 name o align = (s2', Ok v) /\ S s1' s2'.
  Proof.
    intros HS H. unfold start_file_aligned in *.
    destruct (start_file_with_extra_data enc crc s1 name o) as [sa [dst|ea|pa]] eqn:Ea; try discriminate.
    destruct (start_extra_ok _ _ _ _ _ _ HS Ea) as (sb & Eb & HSa). rewrite Eb.
    match type of H with (let (_, _) := ?X in _) = _ => destruct X as [sc rc] eqn:Ec end.
    destruct rc as [uc|ec|pc]; try discriminate.
    match goal with |- exists _, (let (_, _) := ?Y in _) = _ /\ _ => assert (P : exists sd, Y = (sd, Ok uc) /\ S sc sd) end.
    { destruct ((1 <? align) && negb (dst mod align =? 0)); [|inj Ec; eexists; split; [reflexivity|exact HSa]].
      cbv zeta in *.
      destruct (zw_write_all sa _) as [t1 [x1|e1|p1]] eqn:E1; try discriminate.
      destruct (zw_write_all_ok _ _ _ _ _ HSa E1) as (u1 & F1 & HS1). rewrite F1.
      destruct (zw_write_all t1 _) as [t2 [x2|e2|p2]] eqn:E2; try discriminate.
      destruct (zw_write_all_ok _ _ _ _ _ HS1 E2) as (u2 & F2 & HS2). rewrite F2.
      destruct (zw_write_all t2 _) as [t3 [x3|e3|p3]] eqn:E3; try discriminate.
      destruct (zw_write_all_ok _ _ _ _ _ HS2 E3) as (u3 & F3 & HS3). rewrite F3.
      destruct (end_local_start_central enc t3) as [t4 [x4|e4|p4]] eqn:E4; try discriminate.
      destruct (end_local_ok _ _ _ _ HS3 E4) as (u4 & F4 & HS4). rewrite F4.
      destruct (x4 mod align =? 0); try discriminate. inj Ec. eexists. split; [reflexivity|exact HS4]. }
    destruct P as (sd & Ed & HSc). rewrite Ed. clear Ec Ed.
    destruct (end_extra_data enc sc) as [se [ve|ee|pe]] eqn:Ee; try discriminate.
    destruct (end_extra_data_ok _ _ _ _ HSc Ee) as (sf & Ef & HSe). rewrite Ef.
    inj H. eexists. split; [reflexivity|exact HSe].
  Qed.

  Lemma add_directory_ok s1 s2 name o s1' u : S s1 s2 -> add_directory enc crc s1 name o = (s1', Ok u) ->
    exists s2', add_directory enc crc s2 name o = (s2', Ok u) /\ S s1' s2'.
  Proof.
    intros HS H. unfold add_directory in *. cbv zeta in *.
    destruct (start_entry enc crc s1 _ _ None) as [sa [ua|ea|pa]] eqn:Ea; try discriminate.
    destruct (start_entry_ok _ _ _ _ _ _ _ HS Ea) as (sb & Eb & HSa). rewrite Eb.
    inj H. eexists. split; [reflexivity|]. destruct HSa. constructor; cbn; auto.
  Qed.

  Lemma add_symlink_ok s1 s2 name target o s1' u : S s1 s2 -> add_symlink enc crc s1 name target o = (s1', Ok u) ->
    exists s2', add_symlink enc crc s2 name target o = (s2', Ok u) /\ S s1' s2'.
  Proof.
    intros HS H. unfold add_symlink in *. cbv zeta in *.
    destruct (start_entry enc crc s1 _ _ None) as [sa [ua|ea|pa]] eqn:Ea; try discriminate.
    destruct (start_entry_ok _ _ _ _ _ _ _ HS Ea) as (sb & Eb & HSa). rewrite Eb.
    assert (HSf : S (set_flags sa true (ws_to_extra sa) (ws_central_only sa) (ws_raw sa)) (set_flags sb true (ws_to_extra sb) (ws_central_only sb) (ws_raw sb)))
      by (destruct HSa; constructor; cbn; auto).
    destruct (zw_write_all _ target) as [sc [uc|ec|pc]] eqn:Ec; try discriminate.
    destruct (zw_write_all_ok _ _ _ _ _ HSf Ec) as (sd & Ed & HSc). rewrite Ed.
    inj H. eexists. split; [reflexivity|]. destruct HSc. constructor; cbn; auto.
  Qed.

  Lemma raw_copy_ok s1 s2 src raw name s1' u : S s1 s2 -> raw_copy enc crc s1 src raw name = (s1', Ok u) ->
    exists s2', raw_copy enc crc s2 src raw name = (s2', Ok u) /\ S s1' s2'.
  Proof.
    intros HS H. unfold raw_copy in *. cbv zeta in *.
    destruct (start_entry enc crc s1 name _ _) as [sa [ua|ea|pa]] eqn:Ea; try discriminate.
    destruct (start_entry_ok _ _ _ _ _ _ _ HS Ea) as (sb & Eb & HSa). rewrite Eb.
    assert (HSf : S (set_flags sa true (ws_to_extra sa) (ws_central_only sa) true) (set_flags sb true (ws_to_extra sb) (ws_central_only sb) true))
      by (destruct HSa; constructor; cbn; auto).
    exact (zw_write_all_ok _ _ _ _ _ HSf H).
  Qed.

  Lemma write_central_all_oksim : forall fs, oksim (fun d => write_central_all d fs).
  Proof.
    induction fs as [|f fs IH]; intros d1 d2 d1' v Hd H; cbn [write_central_all] in *.
    - injection H as <- <-. eexists. split; [reflexivity|exact Hd].
    - destruct (central_header_chunks f) as [cs|e|p]; try discriminate.
      destruct (dev_write_chunks d1 cs) as [a1 [x|e|p]] eqn:Ea; try discriminate.
      destruct (dev_write_chunks_oksim cs d1 d2 a1 x Hd Ea) as (a2 & Ea2 & Ha). cbv beta in Ea2. rewrite Ea2. exact (IH _ _ _ _ Ha H).
  Qed.

  Lemma write_cd_footer_oksim fs c : oksim (write_cd_footer fs c).
  Proof.
    intros d1 d2 d1' v Hd H. unfold write_cd_footer in *.
    destruct (dev_pos d1) as [a1 [cs|e|p]] eqn:Ea; try discriminate.
    destruct (dev_pos_oksim d1 d2 a1 cs Hd Ea) as (a2 & Ea2 & Ha). rewrite Ea2.
    destruct (write_central_all a1 fs) as [b1 [x|e|p]] eqn:Eb; try discriminate.
    destruct (write_central_all_oksim fs a1 a2 b1 x Ha Eb) as (b2 & Eb2 & Hb). cbv beta in Eb2. rewrite Eb2.
    destruct (dev_pos b1) as [c1 [ce|e|p]] eqn:Ec; try discriminate.
    destruct (dev_pos_oksim b1 b2 c1 ce Hb Ec) as (c2 & Ec2 & Hc). rewrite Ec2.
    destruct (ce <? cs); [discriminate|].
    destruct (dev_write_chunks c1 _) as [e1 [y|e|p]] eqn:Ee; try discriminate.
    destruct (dev_write_chunks_oksim _ c1 c2 e1 y Hc Ee) as (e2 & Ee2 & He). cbv beta in Ee2. rewrite Ee2.
    injection H as <- <-. eexists. split; [reflexivity|exact He].
  Qed.

  Lemma finalize_ok s1 s2 s1' u : S s1 s2 -> finalize enc crc s1 = (s1', Ok u) ->
    exists s2', finalize enc crc s2 = (s2', Ok u) /\ S s1' s2'.
  Proof.
    intros HS H. unfold finalize in *. rewrite <- (s_comment _ _ HS).
    destruct (65535 <? len (ws_comment s1)); [discriminate|].
    destruct (finish_file enc crc s1) as [sa [ua|ea|pa]] eqn:Ea; try discriminate.
    destruct (finish_file_ok _ _ _ _ HS Ea) as (sb & Eb & HSa). rewrite Eb.
    rewrite <- (s_files _ _ HSa), <- (s_comment _ _ HSa).
    refine (with_plain_ok _ _ _ _ _ _ HSa H).
    intros d1 d2 d1' v Hd X.
    destruct (write_cd_footer _ _ d1) as [a1 [cs|e|p]] eqn:E1; try discriminate.
    destruct (write_cd_footer_oksim _ _ d1 d2 a1 cs Hd E1) as (a2 & E2 & Ha). rewrite E2.
    destruct (dev_pos a1) as [b1 [fe|e|p]] eqn:E3; try discriminate.
    destruct (dev_pos_oksim a1 a2 b1 fe Ha E3) as (b2 & E4 & Hb). rewrite E4.
    destruct (dev_seek_end b1) as [c1 [se|e|p]] eqn:E5; try discriminate.
    destruct (dev_seek_end_oksim b1 b2 c1 se Hb E5) as (c2 & E6 & Hc). rewrite E6.
    destruct (fe <? se); [|injection X as <- <-; eexists; split; [reflexivity|exact Hc]].
    destruct (fe <? cs); [discriminate|].
    destruct (dev_seek c1 _) as [e1 [y|e|p]] eqn:E7; try discriminate.
    destruct (dev_seek_oksim _ c1 c2 e1 y Hc E7) as (e2 & E8 & He). cbv beta in E8. rewrite E8.
    destruct (write_cd_footer _ _ e1) as [f1 [z|e|p]] eqn:E9; try discriminate.
    destruct (write_cd_footer_oksim _ _ e1 e2 f1 z He E9) as (f2 & E10 & Hf). rewrite E10.
    injection X as <- <-. eexists. split; [reflexivity|exact Hf].
  Qed.

  Lemma finish_ok s1 s2 s1' b : S s1 s2 -> finish enc crc s1 = (s1', Ok b) ->
    exists s2', finish enc crc s2 = (s2', Ok b) /\ S s1' s2'.
  Proof.
    intros HS H. unfold finish in *.
    destruct (finalize enc crc s1) as [sa [ua|ea|pa]] eqn:Ea; try discriminate.
    destruct (finalize_ok _ _ _ _ HS Ea) as (sb & Eb & HSa). rewrite Eb.
    pose proof (s_inner _ _ HSa) as Hi.
    destruct (ws_inner sa) as [l1|d1|d1 b1 k1|? ? ? ? ?]; destruct (ws_inner sb) as [l2|d2|d2 b2 k2|? ? ? ? ?]; try (now cbn in Hi); try discriminate.
    destruct Hi as (Hb & Hp & Hn2). inj H. rewrite Hb. eexists. split; [reflexivity|].
    apply S_set_inner; [exact HSa|]. cbn. repeat split; auto.
  Qed.

  (* ---------- calls and programs *)
  Lemma do_call_ok s1 s2 c s1' r : S s1 s2 -> c <> KDrop -> do_call enc crc s1 c = (s1', r) -> Proofs.FaultSurface.is_ok r = true ->
    exists s2', do_call enc crc s2 c = (s2', r) /\ S s1' s2'.
  Proof.
    intros HS Hnd H Hok. destruct c; cbn [do_call] in *.
    - destruct (start_file enc crc s1 name o) as [sa [u|e|p]] eqn:E; inj H; try discriminate Hok. destruct (start_file_ok _ _ _ _ _ _ HS E) as (sb & -> & HSa). eauto.
    - destruct (zw_write_all s1 data) as [sa [u|e|p]] eqn:E; inj H; try discriminate Hok. destruct (zw_write_all_ok _ _ _ _ _ HS E) as (sb & -> & HSa). eauto.
    - destruct (start_file_with_extra_data enc crc s1 name o) as [sa [u|e|p]] eqn:E; inj H; try discriminate Hok. destruct (start_extra_ok _ _ _ _ _ _ HS E) as (sb & -> & HSa). eauto.
    - destruct (start_file_aligned enc crc s1 name o align) as [sa [u|e|p]] eqn:E; inj H; try discriminate Hok. destruct (start_aligned_ok _ _ _ _ _ _ _ HS E) as (sb & -> & HSa). eauto.
    - destruct (end_local_start_central enc s1) as [sa [u|e|p]] eqn:E; inj H; try discriminate Hok. destruct (end_local_ok _ _ _ _ HS E) as (sb & -> & HSa). eauto.
    - destruct (end_extra_data enc s1) as [sa [u|e|p]] eqn:E; inj H; try discriminate Hok. destruct (end_extra_data_ok _ _ _ _ HS E) as (sb & -> & HSa). eauto.
    - destruct (add_directory enc crc s1 name o) as [sa [u|e|p]] eqn:E; inj H; try discriminate Hok. destruct (add_directory_ok _ _ _ _ _ _ HS E) as (sb & -> & HSa). eauto.
    - destruct (add_symlink enc crc s1 name target o) as [sa [u|e|p]] eqn:E; inj H; try discriminate Hok. destruct (add_symlink_ok _ _ _ _ _ _ _ HS E) as (sb & -> & HSa). eauto.
    - inj H. eexists. split; [reflexivity|]. destruct HS. constructor; cbn; auto.
    - destruct (raw_copy enc crc s1 src raw name) as [sa [u|e|p]] eqn:E; inj H; try discriminate Hok. destruct (raw_copy_ok _ _ _ _ _ _ _ HS E) as (sb & -> & HSa). eauto.
    - destruct (finish enc crc s1) as [sa [u|e|p]] eqn:E; inj H; try discriminate Hok. destruct (finish_ok _ _ _ _ HS E) as (sb & -> & HSa). eauto.
    - exfalso. now apply Hnd.
  Qed.

  Theorem run_calls_ok : forall cs s1 s2 s1' rs, S s1 s2 -> Forall (fun c => c <> KDrop) cs ->
    run_calls enc crc s1 cs = (s1', rs) -> forallb Proofs.FaultSurface.is_ok rs = true ->
    exists s2', run_calls enc crc s2 cs = (s2', rs) /\ S s1' s2'.
  Proof.
    induction cs as [|c cs IH]; intros s1 s2 s1' rs HS Hnd H Hok; cbn [run_calls] in *.
    - inj H. eexists. split; [reflexivity|exact HS].
    - destruct (do_call enc crc s1 c) as [sa ra] eqn:Ea. destruct (run_calls enc crc sa cs) as [sc rc] eqn:Ec. inj H.
      cbn [forallb] in Hok. apply Bool.andb_true_iff in Hok as [Ho1 Ho2]. inversion Hnd as [|? ? Hc Hcs]. subst.
      destruct (do_call_ok _ _ _ _ _ HS Hc Ea Ho1) as (sb & Eb & HSa). rewrite Eb.
      destruct (IH _ _ _ _ HSa Hcs Ec Ho2) as (sd & Ed & HSc). rewrite Ed. eexists. split; [reflexivity|exact HSc].
  Qed.

  Lemma S_sink s1 s2 : S s1 s2 -> sink_bytes s1 = sink_bytes s2.
  Proof.
    intros HS. pose proof (s_inner _ _ HS) as Hi. unfold sink_bytes.
    destruct (ws_inner s1), (ws_inner s2); cbn in *; try tauto.
    - destruct last, last0; cbn in Hi; try tauto. destruct Hi as (-> & _). reflexivity.
    - destruct Hi as (-> & _). reflexivity.
    - destruct Hi as ((-> & _) & _). reflexivity.
    - destruct Hi as (_ & _ & (-> & _) & _). reflexivity.
  Qed.
End OkSim.

Lemma S_new p1 p2 : nofail p2 -> S (new_writer p1) (new_writer p2).
Proof. intros. constructor; cbn; auto. repeat split; auto. Qed.
Lemma S_new_append data p1 p2 s1 : nofail p2 -> new_append data p1 = Ok s1 -> exists s2, new_append data p2 = Ok s2 /\ S s1 s2.
Proof.
  intros H2. unfold new_append.
  destruct (find_eocd data) as [[e cde]| |]; cbn [bind]; try discriminate.
  destruct (negb (e_disk e =? e_disk_cd e)); [discriminate|].
  destruct (get_directory_counts data e cde) as [[[ao ds] n]| |]; cbn [bind]; try discriminate.
  destruct (cde <? ds); [discriminate|].
  destruct (parse_cd (Datatypes.S (length data)) data n ds ao) as [files| |]; cbn [bind]; try discriminate.
  intro H. inj H. eexists. split; [reflexivity|]. constructor; cbn; auto. repeat split; auto.
Qed.
