(* Proofs/WriterProofs.v — facts relating what the writer model emits to what the reader model recovers. *)
From Coq Require Import ZArith.
From ZipV Require Import Base.Bytes Base.Outcome Gen.GenLib Gen.SpecGen Gen.CompressionGen Gen.TypesGen
     Model.Dos Model.Readers Model.Reader Model.Writer.
Open Scope N_scope.

Definition THR := ZIP64_BYTES_THR.

(* reading k bytes at the boundary between two lists *)
Lemma rd_at_app pre x post k : len x = k -> rd_at (pre ++ x ++ post) (len pre) k = Ok x.
Proof.
  intro H. unfold rd_at. rewrite !len_app.
  assert ((len pre + k <=? len pre + (len x + len post)) = true) as -> by lia.
  rewrite drop_app_exact. rewrite <- H. now rewrite take_app_exact.
Qed.

Lemma ex_u_app pre v post k : v < 2 ^ (8 * N.of_nat k) ->
  ex_u (pre ++ le k v ++ post) (len pre) (N.of_nat k) = Ok v.
Proof.
  intro H. unfold ex_u. rewrite rd_at_app by (unfold len; now rewrite le_length).
  cbn [bind]. now rewrite unle_le_small.
Qed.

(* a record with given sizes and extra field; everything else is irrelevant *)
Definition zfd0 (us cs hs : N) (extra : bytes) : zfd :=
  {| f_system := System_Unix; f_made_by := 46; f_encrypted := false; f_dd := false; f_utf8 := false;
     f_method := CompressionMethod_Stored; f_time := DateTime_default; f_crc := 0; f_csize := cs; f_usize := us;
     f_name := []; f_name_raw := []; f_extra := extra; f_comment := []; f_header_start := hs; f_central_start := 0;
     f_ext_attr := 0; f_large := false; f_aes := None |}.
Definition wfile0 (us cs hs : N) : wfile :=
  {| w_system := 3; w_made_by := 46; w_encrypted := false; w_method := CompressionMethod_Stored; w_level := None;
     w_time := DateTime_default; w_crc := 0; w_csize := cs; w_usize := us; w_name := []; w_extra := [];
     w_header_start := hs; w_data_start := 0; w_ext_attr := 0; w_large := false |}.

(* the reader's ZIP64 field decoding (z64_fields, the core of parse_extra_field for header id 1), applied to
   the clamped header fields and the ZIP64 record body the writer emits for the three values *)
Definition sizes_of (g : zfd) : N * N * N := (f_usize g, f_csize g, f_header_start g).

Definition read_back_sizes (us cs hs : N) : N * N * N :=
  let ex := central_z64 (wfile0 us cs hs) in
  let g := zfd0 (N.min us THR) (N.min cs THR) (N.min hs THR) ex in
  let '(g', _, _) := z64_fields ex g 4 in sizes_of g'.

Lemma min_thr_eq v : (N.min v THR =? THR) = (THR <=? v).
Proof. unfold THR. destruct (ZIP64_BYTES_THR <=? v) eqn:E; lia. Qed.

Lemma z64_step_skip ex g p w :
  ((if w =? 0 then f_usize g else if w =? 1 then f_csize g else f_header_start g) =? ZIP64_BYTES_THR) = false ->
  z64_step ex (g, p, None) w = (g, p, None).
Proof. intro H. unfold z64_step. now rewrite H. Qed.

Lemma z64_step_read ex g p w v :
  ((if w =? 0 then f_usize g else if w =? 1 then f_csize g else f_header_start g) =? ZIP64_BYTES_THR) = true ->
  ex_u ex p 8 = Ok v ->
  exists g', z64_step ex (g, p, None) w = (g', p + 8, None) /\
    sizes_of g' = (if w =? 0 then v else f_usize g, if w =? 1 then v else f_csize g,
                   if (w =? 0) || (w =? 1) then f_header_start g else v).
Proof.
  intros H E. unfold z64_step. rewrite H, E.
  destruct (N.eq_dec w 0) as [->|n0]; [eexists; split; reflexivity|].
  destruct (N.eq_dec w 1) as [->|n1]; [eexists; split; reflexivity|].
  assert ((w =? 0) = false) as -> by lia. assert ((w =? 1) = false) as -> by lia. cbn [orb].
  destruct (w =? 2); eexists; split; reflexivity.
Qed.

Theorem central_sizes_roundtrip us cs hs : us < 2 ^ 64 -> cs < 2 ^ 64 -> hs < 2 ^ 64 ->
  read_back_sizes us cs hs = (us, cs, hs).
Proof.
  intros Hu Hc Hh. unfold read_back_sizes, central_z64, z64_fields.
  cbn [wfile0 w_usize w_csize w_header_start]. fold THR.
  remember (THR <=? us) as bu eqn:Eu. remember (THR <=? cs) as bc eqn:Ecb. remember (THR <=? hs) as bh eqn:Ehb.
  symmetry in Eu, Ecb, Ehb.
  set (body := (if bu then le64 us else []) ++ (if bc then le64 cs else []) ++ (if bh then le64 hs else [])).
  set (ex := match body with [] => [] | _ => le16 1 ++ le16 (len body) ++ body end).
  set (g0 := zfd0 (N.min us THR) (N.min cs THR) (N.min hs THR) ex).
  assert (Hex : forall pre v post, body = pre ++ le64 v ++ post -> v < 2 ^ 64 -> ex_u ex (4 + len pre) 8 = Ok v).
  { intros pre v post Hb Hv. subst ex. rewrite Hb.
    destruct (pre ++ le64 v ++ post) eqn:Eb; [destruct pre; discriminate|]. rewrite <- Eb.
    replace (le16 1 ++ le16 (len (pre ++ le64 v ++ post)) ++ pre ++ le64 v ++ post)
      with ((le16 1 ++ le16 (len (pre ++ le64 v ++ post)) ++ pre) ++ le 8 v ++ post) by (now rewrite <- !app_assoc).
    replace (4 + len pre) with (len (le16 1 ++ le16 (len (pre ++ le64 v ++ post)) ++ pre))
      by (rewrite !len_app; unfold len at 1 2, le16; rewrite !le_length; lia).
    apply (ex_u_app _ v post 8). exact Hv. }
  (* step 0: usize *)
  assert (S0 : exists g1 p1, z64_step ex (g0, 4, None) 0 = (g1, p1, None) /\
              sizes_of g1 = (us, N.min cs THR, N.min hs THR) /\ p1 = 4 + (if bu then 8 else 0)).
  { destruct bu.
    - destruct (z64_step_read ex g0 4 0 us) as (g1 & E & Hs).
      + cbn [N.eqb]. change (0 =? 0) with true. cbv iota. subst g0. cbn [zfd0 f_usize]. fold THR. rewrite min_thr_eq. exact Eu.
      + apply (Hex [] us ((if bc then le64 cs else []) ++ (if bh then le64 hs else []))); [subst body; reflexivity|assumption].
      + exists g1, (4 + 8). split; [exact E|]. split; [|reflexivity]. rewrite Hs. subst g0. reflexivity.
    - exists g0, 4. split; [|split].
      + apply z64_step_skip. change (0 =? 0) with true. cbv iota. subst g0. cbn [zfd0 f_usize]. fold THR. rewrite min_thr_eq. exact Eu.
      + subst g0. unfold sizes_of. cbn [zfd0 f_usize f_csize f_header_start]. f_equal. f_equal. unfold THR in *. lia.
      + lia. }
  destruct S0 as (g1 & p1 & E0 & Hs1 & Hp1). rewrite E0.
  assert (Hx1 : f_extra g1 = ex -> True) by trivial.
  (* step 1: csize *)
  assert (S1 : exists g2 p2, z64_step ex (g1, p1, None) 1 = (g2, p2, None) /\
              sizes_of g2 = (us, cs, N.min hs THR) /\ p2 = p1 + (if bc then 8 else 0)).
  { unfold sizes_of in Hs1. injection Hs1 as Hu1 Hc1 Hh1.
    destruct bc.
    - destruct (z64_step_read ex g1 p1 1 cs) as (g2 & E & Hs).
      + change (1 =? 0) with false. change (1 =? 1) with true. cbv iota. rewrite Hc1. fold THR. rewrite min_thr_eq. exact Ecb.
      + rewrite Hp1. replace (if bu then 8 else 0) with (len (if bu then le64 us else [])) by (destruct bu; reflexivity).
        apply (Hex (if bu then le64 us else []) cs (if bh then le64 hs else [])); [subst body; reflexivity|assumption].
      + exists g2, (p1 + 8). split; [exact E|]. split; [|reflexivity]. rewrite Hs. change (1 =? 0) with false. change (1 =? 1) with true.
        cbn [orb]. cbv iota. now rewrite Hu1, Hh1.
    - exists g1, p1. split; [|split].
      + apply z64_step_skip. change (1 =? 0) with false. change (1 =? 1) with true. cbv iota. rewrite Hc1. fold THR. rewrite min_thr_eq. exact Ecb.
      + unfold sizes_of. rewrite Hu1, Hc1, Hh1. f_equal. f_equal. unfold THR in *. lia.
      + lia. }
  destruct S1 as (g2 & p2 & E1 & Hs2 & Hp2). rewrite E1.
  (* step 2: header offset *)
  unfold sizes_of in Hs2. injection Hs2 as Hu2 Hc2 Hh2.
  destruct bh.
  - destruct (z64_step_read ex g2 p2 2 hs) as (g3 & E & Hs).
    + change (2 =? 0) with false. change (2 =? 1) with false. cbv iota. rewrite Hh2. fold THR. rewrite min_thr_eq. exact Ehb.
    + rewrite Hp2, Hp1. rewrite <- N.add_assoc.
      replace ((if bu then 8 else 0) + (if bc then 8 else 0)) with (len ((if bu then le64 us else []) ++ (if bc then le64 cs else [])))
        by (rewrite len_app; destruct bu, bc; reflexivity).
      apply (Hex ((if bu then le64 us else []) ++ (if bc then le64 cs else [])) hs []); [subst body; now rewrite <- app_assoc, app_nil_r|assumption].
    + rewrite E. rewrite Hs. change (2 =? 0) with false. change (2 =? 1) with false. cbn [orb]. cbv iota. now rewrite Hu2, Hc2.
  - rewrite z64_step_skip.
    + unfold sizes_of. rewrite Hu2, Hc2, Hh2. f_equal. unfold THR in *. lia.
    + change (2 =? 0) with false. change (2 =? 1) with false. cbv iota. rewrite Hh2. fold THR. rewrite min_thr_eq. exact Ehb.
Qed.
