(* Proofs/ShortWrites.v — C09, writer side: how the sink chunks the writes does not matter.
   For every plan of short writes (no failures), write_all on the sink leaves exactly the bytes, the position and
   the result that a sink accepting everything at once leaves; hence every header, directory record and
   compressed stream (all written with write_all) is chunk-independent. *)
From Coq Require Import ZArith Lia List.
From ZipV Require Import Base.Bytes Base.Outcome Gen.SpecGen Gen.CompressionGen Model.Readers Model.Reader Model.Writer Proofs.WriterIdeal.
Import ListNotations.
Open Scope N_scope.

Definition nofail (p : list wev) : Prop := Forall (fun e => e <> WFail) p.

Lemma skipn_add {A} (l : list A) : forall n k, skipn (n + k) l = skipn k (skipn n l).
Proof.
  induction l as [|x l IH]; intros n k.
  - now rewrite !skipn_nil.
  - destruct n as [|n]; [reflexivity|]. cbn [Nat.add skipn]. apply IH.
Qed.
Lemma drop_add n k bs : drop (n + k) bs = drop k (drop n bs).
Proof. rewrite !drop_skipn. replace (N.to_nat (n + k)) with (N.to_nat n + N.to_nat k)%nat by lia. apply skipn_add. Qed.

(* inside the buffer (or at its end) put_at overwrites without padding *)
Lemma put_at_inside buf pos bs : pos <= len buf -> put_at buf pos bs = take pos buf ++ bs ++ drop (pos + len bs) buf.
Proof. intro H. unfold put_at. replace (pos - len buf) with 0 by lia. reflexivity. Qed.

Lemma len_put_at buf pos bs : pos <= len buf -> len (put_at buf pos bs) = N.max (len buf) (pos + len bs).
Proof. intro H. rewrite put_at_inside by exact H. rewrite !len_app, len_take, len_drop. lia. Qed.

(* overwriting, then continuing where that ended = overwriting with the concatenation *)
Lemma put_at_app_inside buf pos a b : pos <= len buf ->
  put_at (put_at buf pos a) (pos + len a) b = put_at buf pos (a ++ b).
Proof.
  intro Hp.
  rewrite (put_at_inside (put_at buf pos a)) by (rewrite len_put_at by exact Hp; lia).
  rewrite !(put_at_inside buf) by exact Hp.
  set (X := take pos buf ++ a).
  assert (HX : len X = pos + len a) by (unfold X; rewrite len_app, len_take; lia).
  replace (take pos buf ++ a ++ drop (pos + len a) buf) with (X ++ drop (pos + len a) buf)
    by (unfold X; now rewrite <- app_assoc).
  rewrite <- HX at 1. rewrite take_app_exact.
  rewrite <- HX at 1. rewrite drop_add, drop_app_exact, <- drop_add.
  unfold X. rewrite <- !app_assoc, len_app. replace (pos + (len a + len b)) with (pos + len a + len b) by lia. reflexivity.
Qed.

Lemma take_ge n (bs : bytes) : len bs <= n -> take n bs = bs.
Proof. intro H. rewrite take_firstn. apply firstn_all2. unfold len in H. lia. Qed.
Lemma len_zeros' n : len (zeros n) = n.
Proof. unfold zeros, len. rewrite repeat_length. lia. Qed.

(* behind the end of the buffer the gap is filled with zeros, and the same law holds *)
Lemma put_at_beyond buf pos bs : len buf <= pos -> put_at buf pos bs = buf ++ zeros (pos - len buf) ++ bs.
Proof.
  intro H. unfold put_at. rewrite take_ge by exact H. rewrite (drop_all buf) by lia. now rewrite app_nil_r.
Qed.

Lemma put_at_app buf pos a b : put_at (put_at buf pos a) (pos + len a) b = put_at buf pos (a ++ b).
Proof.
  destruct (N.le_gt_cases pos (len buf)) as [Hp|Hp]; [now apply put_at_app_inside|].
  rewrite !(put_at_beyond buf pos) by lia.
  set (m := buf ++ zeros (pos - len buf) ++ a).
  assert (Hm : len m = pos + len a) by (unfold m; rewrite !len_app, len_zeros'; lia).
  rewrite <- Hm. rewrite put_at_end. unfold m. now rewrite <- !app_assoc.
Qed.

Lemma put_at_nil buf pos : pos <= len buf -> put_at buf pos [] = buf.
Proof. intro H. rewrite put_at_inside by exact H. cbn [app len length N.of_nat]. rewrite N.add_0_r. apply take_drop. Qed.

Lemma nofail_tail e p : nofail (e :: p) -> nofail p.
Proof. intro H. now inversion H. Qed.

(* one write on a sink that does not fail: some non-empty prefix is taken *)
Lemma dev_write_nofail d bs : nofail (d_plan d) -> bs <> [] ->
  exists k p', dev_write d bs = ({| d_buf := put_at (d_buf d) (d_pos d) (take k bs); d_pos := d_pos d + k; d_plan := p' |}, Ok k)
            /\ 1 <= k <= len bs /\ nofail p'.
Proof.
  intros Hp Hbs. assert (Hl : 1 <= len bs) by (destruct bs; [congruence|unfold len; cbn [length]; lia]).
  unfold dev_write. destruct (d_plan d) as [|[n|] p] eqn:E.
  - exists (len bs), []. rewrite take_all. split; [reflexivity|]. split; [lia|constructor].
  - exists (N.min (len bs) (N.max 1 n)), p. split; [reflexivity|]. split; [lia|now apply nofail_tail in Hp].
  - exfalso. inversion Hp as [|? ? H1 _]. now apply H1.
Qed.

(* write_all on a sink that never fails: whatever the chunking, the buffer is overwritten with all of bs *)
Lemma dev_write_all_fuel_nofail : forall fuel bs d, nofail (d_plan d) -> d_pos d <= len (d_buf d) -> (length bs < fuel)%nat ->
  exists p', dev_write_all_fuel fuel d bs =
             ({| d_buf := put_at (d_buf d) (d_pos d) bs; d_pos := d_pos d + len bs; d_plan := p' |}, Ok tt) /\ nofail p'.
Proof.
  induction fuel as [|f IH]; intros bs d Hp Hpos Hf; [lia|].
  destruct bs as [|x bs'] eqn:Eb.
  - exists (d_plan d). split; [|exact Hp]. cbn [dev_write_all_fuel]. rewrite put_at_nil by exact Hpos.
    cbn [len length N.of_nat]. rewrite N.add_0_r. now destruct d.
  - rewrite <- Eb in *. assert (Hne : bs <> []) by (rewrite Eb; discriminate).
    destruct (dev_write_nofail d bs Hp Hne) as (k & p1 & Hw & Hk & Hp1).
    replace (dev_write_all_fuel (S f) d bs) with
      (match dev_write d bs with
       | (d1, Ok k) => if k =? 0 then (d1, Err (EIo KOther IWriteZero)) else dev_write_all_fuel f d1 (drop k bs)
       | (d1, Err e) => (d1, Err e) | (d1, Panic p) => (d1, Panic p) end) by (rewrite Eb; reflexivity).
    rewrite Hw. destruct (k =? 0) eqn:Ek; [apply N.eqb_eq in Ek; lia|].
    set (d1 := {| d_buf := put_at (d_buf d) (d_pos d) (take k bs); d_pos := d_pos d + k; d_plan := p1 |}).
    assert (Hlt : len (take k bs) = k) by (rewrite len_take; lia).
    destruct (IH (drop k bs) d1) as (p' & Hr & Hp').
    + exact Hp1.
    + unfold d1. cbn [d_buf d_pos]. rewrite len_put_at by exact Hpos. lia.
    + pose proof (len_drop k bs) as Hd. unfold len in *. lia.
    + exists p'. split; [|exact Hp']. rewrite Hr. unfold d1. cbn [d_buf d_pos].
      rewrite <- Hlt at 2. rewrite put_at_app by exact Hpos. rewrite take_drop.
      rewrite len_drop. do 2 f_equal. lia.
Qed.

Theorem dev_write_all_nofail d bs : nofail (d_plan d) -> d_pos d <= len (d_buf d) ->
  exists p', dev_write_all d bs =
             ({| d_buf := put_at (d_buf d) (d_pos d) bs; d_pos := d_pos d + len bs; d_plan := p' |}, Ok tt) /\ nofail p'.
Proof. intros Hp Hpos. apply dev_write_all_fuel_nofail; [exact Hp|exact Hpos|lia]. Qed.

(* a header written field by field *)
Lemma dev_write_chunks_nofail : forall cs d, nofail (d_plan d) -> d_pos d <= len (d_buf d) ->
  exists p', dev_write_chunks d cs =
             ({| d_buf := put_at (d_buf d) (d_pos d) (concat cs); d_pos := d_pos d + len (concat cs); d_plan := p' |}, Ok tt)
             /\ nofail p'.
Proof.
  induction cs as [|c cs IH]; intros d Hp Hpos.
  - exists (d_plan d). split; [|exact Hp]. cbn [dev_write_chunks concat]. rewrite put_at_nil by exact Hpos.
    cbn [len length N.of_nat]. rewrite N.add_0_r. now destruct d.
  - cbn [dev_write_chunks concat]. destruct (dev_write_all_nofail d c Hp Hpos) as (p1 & Hw & Hp1). rewrite Hw.
    set (d1 := {| d_buf := put_at (d_buf d) (d_pos d) c; d_pos := d_pos d + len c; d_plan := p1 |}).
    destruct (IH d1) as (p' & Hr & Hp'); [exact Hp1| |].
    + unfold d1. cbn [d_buf d_pos]. rewrite len_put_at by exact Hpos. lia.
    + exists p'. split; [|exact Hp']. rewrite Hr. unfold d1. cbn [d_buf d_pos].
      rewrite put_at_app by exact Hpos. rewrite len_app. do 2 f_equal. lia.
Qed.

(* ---------- ZipWriter::write_all on a stored entry.  Each write call forwards to one sink write (which may be
   short), counts what was taken and hashes exactly that; the closed form below does not mention the plan. *)
Section StoredWrites.
  Variable enc : CompressionMethod -> Z -> bytes -> bytes.
  Variable crc : bytes -> N.

  Definition large_last (s : wstate) : bool := match last_file (ws_files s) with Some f => w_large f | None => false end.
  Definition wrote (s : wstate) (d : dev) (bs : bytes) : wstate :=
    set_stats (set_inner s (WStorer d)) (ws_start s) (ws_written s + len bs) (ws_hashed s ++ bs).

  Lemma zw_write_all_fuel_nofail : forall fuel bs s d,
    ws_to_file s = true -> ws_to_extra s = false -> ws_inner s = WStorer d ->
    nofail (d_plan d) -> d_pos d <= len (d_buf d) ->
    (ws_written s + len bs <= ZIP64_BYTES_THR \/ large_last s = true) -> (length bs < fuel)%nat ->
    exists p', nofail p' /\
      zw_write_all_fuel fuel s bs =
      (wrote s {| d_buf := put_at (d_buf d) (d_pos d) bs; d_pos := d_pos d + len bs; d_plan := p' |} bs, Ok tt).
  Proof.
    induction fuel as [|f IH]; intros bs s d Hf He Hi Hp Hpos Hlg Hfu; [lia|].
    destruct bs as [|x bs'] eqn:Eb.
    - exists (d_plan d). split; [exact Hp|]. cbn [zw_write_all_fuel]. f_equal. unfold wrote, set_stats, set_inner.
      cbn [ws_inner ws_files ws_start ws_written ws_hashed ws_to_file ws_to_extra ws_central_only ws_raw ws_comment].
      rewrite put_at_nil by exact Hpos. cbn [len length N.of_nat]. rewrite !N.add_0_r, app_nil_r.
      destruct s; cbn in *; subst; now destruct d.
    - rewrite <- Eb in *. assert (Hne : bs <> []) by (rewrite Eb; discriminate).
      destruct (dev_write_nofail d bs Hp Hne) as (k & p1 & Hw & Hk & Hp1).
      set (d1 := {| d_buf := put_at (d_buf d) (d_pos d) (take k bs); d_pos := d_pos d + k; d_plan := p1 |}) in *.
      assert (Hz : zw_write s bs = (wrote s d1 (take k bs), Ok k)).
      { unfold zw_write. rewrite Hf, He, Hi. cbn [negb]. rewrite Hw.
        assert (Hlt : len (take k bs) = k) by (rewrite len_take; lia).
        match goal with |- (if ?c then _ else _) = _ => replace c with false end.
        - unfold wrote. now rewrite Hlt.
        - symmetry. cbn [set_stats set_inner ws_files ws_written]. fold (large_last s).
          destruct Hlg as [Hlg|Hlg].
          + replace (ZIP64_BYTES_THR <? ws_written s + k) with false by (symmetry; apply N.ltb_ge; lia). reflexivity.
          + rewrite Hlg. apply Bool.andb_false_r. }
      replace (zw_write_all_fuel (S f) s bs) with
        (match zw_write s bs with
         | (s1, Ok k) => if k =? 0 then (s1, Err (EIo KOther IWriteZero)) else zw_write_all_fuel f s1 (drop k bs)
         | (s1, Err e) => (s1, Err e) | (s1, Panic p) => (s1, Panic p) end) by (rewrite Eb; reflexivity).
      rewrite Hz. destruct (k =? 0) eqn:Ek; [apply N.eqb_eq in Ek; lia|].
      assert (Hlt : len (take k bs) = k) by (rewrite len_take; lia).
      destruct (IH (drop k bs) (wrote s d1 (take k bs)) d1) as (p' & Hp' & Hr).
      + exact Hf. + exact He. + reflexivity. + exact Hp1.
      + unfold d1. cbn [d_buf d_pos]. rewrite len_put_at by exact Hpos. lia.
      + destruct Hlg as [Hlg|Hlg]; [left|right; exact Hlg].
        unfold wrote. cbn [set_stats ws_written]. rewrite Hlt, len_drop. lia.
      + pose proof (len_drop k bs) as Hd. unfold len in *. lia.
      + exists p'. split; [exact Hp'|]. rewrite Hr. f_equal. unfold wrote, set_stats, set_inner, d1.
        cbn [ws_inner ws_files ws_start ws_written ws_hashed ws_to_file ws_to_extra ws_central_only ws_raw ws_comment d_buf d_pos].
        rewrite <- Hlt at 2. rewrite put_at_app by exact Hpos. rewrite take_drop, <- app_assoc, take_drop, Hlt, len_drop.
        replace (d_pos d + k + (len bs - k)) with (d_pos d + len bs) by lia.
        replace (ws_written s + k + (len bs - k)) with (ws_written s + len bs) by lia. reflexivity.
  Qed.

  Theorem zw_write_all_nofail bs s d :
    ws_to_file s = true -> ws_to_extra s = false -> ws_inner s = WStorer d ->
    nofail (d_plan d) -> d_pos d <= len (d_buf d) ->
    (ws_written s + len bs <= ZIP64_BYTES_THR \/ large_last s = true) ->
    exists p', nofail p' /\
      zw_write_all s bs =
      (wrote s {| d_buf := put_at (d_buf d) (d_pos d) bs; d_pos := d_pos d + len bs; d_plan := p' |} bs, Ok tt).
  Proof. intros. eapply zw_write_all_fuel_nofail; eauto. Qed.
End StoredWrites.

(* ---------- unconditional closed forms.  [wr] is what a cursor does with write_all: nothing for an empty slice
   (not even zero-filling a gap), put_at otherwise. *)
Definition wr (buf : bytes) (pos : N) (bs : bytes) : bytes := match bs with [] => buf | _ => put_at buf pos bs end.

Lemma wr_app buf pos a b : wr (wr buf pos a) (pos + len a) b = wr buf pos (a ++ b).
Proof.
  destruct a as [|x a]; [cbn [wr app len length N.of_nat]; now rewrite N.add_0_r|].
  destruct b as [|y b]; [cbn [wr]; now rewrite app_nil_r|].
  cbn [wr app]. change (x :: a ++ y :: b) with ((x :: a) ++ (y :: b)). apply put_at_app.
Qed.

Lemma dev_write_all_fuel_cf : forall fuel bs d, nofail (d_plan d) -> (length bs < fuel)%nat ->
  exists p', nofail p' /\
    dev_write_all_fuel fuel d bs = ({| d_buf := wr (d_buf d) (d_pos d) bs; d_pos := d_pos d + len bs; d_plan := p' |}, Ok tt).
Proof.
  induction fuel as [|f IH]; intros bs d Hp Hf; [lia|].
  destruct bs as [|x bs'] eqn:Eb.
  - exists (d_plan d). split; [exact Hp|]. cbn [dev_write_all_fuel wr len length N.of_nat]. rewrite N.add_0_r. now destruct d.
  - rewrite <- Eb in *. assert (Hne : bs <> []) by (rewrite Eb; discriminate).
    destruct (dev_write_nofail d bs Hp Hne) as (k & p1 & Hw & Hk & Hp1).
    replace (dev_write_all_fuel (S f) d bs) with
      (match dev_write d bs with
       | (d1, Ok k) => if k =? 0 then (d1, Err (EIo KOther IWriteZero)) else dev_write_all_fuel f d1 (drop k bs)
       | (d1, Err e) => (d1, Err e) | (d1, Panic p) => (d1, Panic p) end) by (rewrite Eb; reflexivity).
    rewrite Hw. destruct (k =? 0) eqn:Ek; [apply N.eqb_eq in Ek; lia|].
    set (d1 := {| d_buf := put_at (d_buf d) (d_pos d) (take k bs); d_pos := d_pos d + k; d_plan := p1 |}).
    assert (Hlt : len (take k bs) = k) by (rewrite len_take; lia).
    destruct (IH (drop k bs) d1) as (p' & Hp' & Hr); [exact Hp1|pose proof (len_drop k bs) as Hd; unfold len in *; lia|].
    exists p'. split; [exact Hp'|]. rewrite Hr. unfold d1. cbn [d_buf d_pos].
    assert (Hput : put_at (d_buf d) (d_pos d) (take k bs) = wr (d_buf d) (d_pos d) (take k bs)).
    { destruct (take k bs) eqn:Et; [cbn [len length N.of_nat] in Hlt; lia|reflexivity]. }
    rewrite Hput. rewrite <- Hlt at 2. rewrite wr_app, take_drop, len_drop. do 2 f_equal. lia.
Qed.

Lemma dev_write_all_cf d bs : nofail (d_plan d) ->
  exists p', nofail p' /\
    dev_write_all d bs = ({| d_buf := wr (d_buf d) (d_pos d) bs; d_pos := d_pos d + len bs; d_plan := p' |}, Ok tt).
Proof. intro H. apply dev_write_all_fuel_cf; [exact H|lia]. Qed.

Lemma dev_write_chunks_cf : forall cs d, nofail (d_plan d) ->
  exists p', nofail p' /\
    dev_write_chunks d cs = ({| d_buf := wr (d_buf d) (d_pos d) (concat cs); d_pos := d_pos d + len (concat cs); d_plan := p' |}, Ok tt).
Proof.
  induction cs as [|c cs IH]; intros d Hp.
  - exists (d_plan d). split; [exact Hp|]. cbn [dev_write_chunks concat wr len length N.of_nat]. rewrite N.add_0_r. now destruct d.
  - cbn [dev_write_chunks concat]. destruct (dev_write_all_cf d c Hp) as (p1 & Hp1 & Hw). rewrite Hw.
    set (d1 := {| d_buf := wr (d_buf d) (d_pos d) c; d_pos := d_pos d + len c; d_plan := p1 |}).
    destruct (IH d1 Hp1) as (p' & Hp' & Hr). exists p'. split; [exact Hp'|]. rewrite Hr. unfold d1. cbn [d_buf d_pos].
    rewrite wr_app, len_app. do 2 f_equal. lia.
Qed.
