(* Proofs/StoredRoundtrip.v — C01 at the level of the two models, for archives of stored, unencrypted entries:
   the program  start_file n1 o1; write_all c1; ...; start_file nk ok; write_all ck; finish  run by the writer model
   on a well-behaved sink returns bytes on which the reader model's open succeeds with k entries, and opening
   entry i yields a reader that denotes exactly c_i (hence, by C09_complete_run, every completed read under every
   schedule of buffer sizes returns c_i), with the name, method, sizes and CRC that were written. *)
From Coq Require Import ZArith.
From ZipV Require Import Base.Bytes Base.Outcome Gen.GenLib Gen.SpecGen Gen.CompressionGen Gen.TypesGen Gen.WriteGen
     Spec.Utf8 Model.Cp437 Model.Readers Model.Reader Model.Stream Model.Writer
     Proofs.StreamProofs Proofs.Zip64Proofs Proofs.WriterIdeal Proofs.CentralRoundtrip Proofs.OpenRendered Proofs.EntryRead Proofs.WriterEntry Proofs.StreamRendered.
Open Scope N_scope.

(* one finished entry lies in the sink: header, then content, at the offset its record names *)
Definition laid_out (crc : bytes -> N) (b : bytes) (f : wfile) (content : bytes) : Prop :=
  exists front rest d f0,
    b = front ++ lh_bytes f0 d (crc content) (len content) (len content) ++ content ++ rest /\
    w_header_start f = len front /\ w_name f0 = w_name f /\
    w_crc f = crc content /\ w_csize f = len content /\ w_usize f = len content /\
    w_method f = CompressionMethod_Stored /\ w_encrypted f = false /\ len (w_name f) <= 65535.

Lemma laid_out_grow crc b f content x : laid_out crc b f content -> laid_out crc (b ++ x) f content.
Proof.
  intros (front & rest & d & f0 & -> & H). exists front, (rest ++ x), d, f0. split; [|exact H].
  rewrite <- !app_assoc. reflexivity.
Qed.

(* the 30 fixed bytes of lh_bytes are what the reader expects *)
Lemma lh_bytes_shape f d c cs us : len (w_name f) <= 65535 ->
  exists lh, lh_bytes f d c cs us = lh ++ w_name f ++ [] /\ local_fixed_ok lh (len (w_name f)) (len (@nil byte)).
Proof.
  intro Hn. unfold lh_bytes, lh_head, lh_tail.
  exists (le 4 LOCAL_FILE_HEADER_SIGNATURE ++
          (le 2 (version_needed f) ++ le 2 (flag_of f) ++ le 2 (CompressionMethod_to_u16 (w_method f)) ++ le 2 (DateTime_timepart (w_time f)) ++ le 2 d ++
           le 4 c ++ le 4 (cs mod 2 ^ 32) ++ le 4 (us mod 2 ^ 32)) ++ le 2 (len (w_name f)) ++ le 2 0).
  split.
  - rewrite (N.mod_small (len (w_name f)) 65536) by lia. rewrite app_nil_r, <- !app_assoc. reflexivity.
  - eexists. split; [|reflexivity]. rewrite !len_app, !len_le. reflexivity.
Qed.

Section RT.
  Variable kdf : bytes -> bytes -> N -> bytes.
  Variable blk : bytes -> bytes -> bytes.
  Variable mac : bytes -> bytes -> bytes.
  Variable enc : CompressionMethod -> Z -> bytes -> bytes.
  Variable crc : bytes -> N.
  Hypothesis crc32 : forall x, crc x < 2 ^ 32.

  (* reading entry i of an archive whose i-th record is the decoded image of a laid-out writer record *)
  Lemma read_laid_out ar i f dt pos content tailbytes b :
    ar_data ar = b ++ tailbytes -> laid_out crc b f content ->
    nth_error (ar_files ar) (N.to_nat i) = Some (decoded f dt 0 pos) ->
    len b < 2 ^ 64 ->
    exists ds c, by_index_opt kdf ar i None = Ok (Some (decoded f dt 0 pos, ds, c)) /\
                 plain_inv c /\ crc_den crc plain_den (make_stored (decoded f dt 0 pos) c) = Good content.
  Proof.
    intros Hdata (front & rest & d & f0 & Hb & Hhs & Hnm & Hcrc & Hcs & Hus & Hm & Henc & Hn) Hnth Hlen.
    destruct (lh_bytes_shape f0 d (crc content) (len content) (len content)) as (lh & Hlh & Hok); [rewrite Hnm; exact Hn|].
    eexists. eapply (stored_entry_denotes kdf blk mac crc ar i (decoded f dt 0 pos) front lh (w_name f0) [] content (rest ++ tailbytes)).
    - rewrite Hdata, Hb, Hlh. rewrite <- !app_assoc. reflexivity.
    - exact Hnth.
    - exact Henc.
    - reflexivity.
    - exact Hm.
    - exact Hok.
    - rewrite Hnm. exact Hn.
    - unfold len; cbn; lia.
    - cbn [decoded f_header_start]. rewrite Hhs. lia.
    - subst b. rewrite !len_app, len_lh_bytes in Hlen. change (len []) with 0. lia.
    - cbn [decoded f_csize]. exact Hcs.
    - cbn [decoded f_crc]. exact Hcrc.
  Qed.
End RT.

(* ---------- one stored entry, end to end *)
Definition dos_ok (t : DateTime) : Prop :=
  DateTime_timepart t < 65536 /\ exists d, DateTime_datepart t = Some d /\ d < 65536.

Lemma len_central_z64_le f : len (central_z64 f) <= 28.
Proof.
  rewrite central_z64_shape. pose proof (len_z64_body (w_usize f) (w_csize f) (w_header_start f)) as H.
  set (body := z64_body (w_usize f) (w_csize f) (w_header_start f)) in *.
  destruct body as [|x r] eqn:E; [unfold len; cbn; lia|].
  rewrite !len_app, !len_le. change (N.of_nat 2) with 2. lia.
Qed.

Section Single.
  Variable kdf : bytes -> bytes -> N -> bytes.
  Variable blk : bytes -> bytes -> bytes.
  Variable mac : bytes -> bytes -> bytes.
  Variable enc : CompressionMethod -> Z -> bytes -> bytes.
  Variable crc : bytes -> N.
  Hypothesis crc32 : forall x, crc x < 2 ^ 32.

  (* the record of a closed stored entry renders and is well-formed *)
  Lemma stored_record_rendered name o hs ds content :
    len name <= 65535 -> stored_opts o -> dos_ok (o_time o) -> len content <= ZIP64_BYTES_THR -> hs < 2 ^ 64 ->
    let f := wf_set_sizes (wf_set_data_start (mk_wfile name (with_perm o 420 32768) None hs) ds) (crc content) (len content) (len content) in
    exists cs, rendered f cs.
  Proof.
    intros Hn (Hm & Hlv & He & Hlg) (Htp & d & Hd & Hd16) Hlen Hhs f.
    assert (Hch : exists cs, central_header_chunks f = Ok cs).
    { unfold central_header_chunks. pose proof (len_central_z64_le f) as Hz.
      assert (Hxe : w_extra f = []) by reflexivity.
      assert ((65535 <? len (central_z64 f) + len (w_extra f)) = false) as -> by (apply N.ltb_ge; rewrite Hxe; change (len []) with 0; lia).
      subst f. cbn [w_time wf_set_sizes wf_set_data_start mk_wfile with_perm o_time]. rewrite Hd. cbn [of_opt bind]. eexists; reflexivity. }
    destruct Hch as [cs Hcs]. exists cs. split; [|exact Hcs].
    constructor; subst f; cbn [w_system w_made_by w_method w_time w_crc w_ext_attr w_usize w_csize w_header_start w_name w_extra
                              wf_set_sizes wf_set_data_start mk_wfile with_perm o_method o_time o_perm o_large o_level o_encrypt].
    all: first [ lia
               | unfold DEFAULT_VERSION; lia
               | exact Htp
               | exact Hn
               | apply crc32
               | apply N.mod_lt; lia
               | unfold ZIP64_BYTES_THR in Hlen; lia
               | exists 0%nat; reflexivity
               | rewrite Hm; unfold method_ok; cbn; repeat split; try discriminate; lia
               | intros d' Hd'; rewrite Hd in Hd'; injection Hd' as <-; exact Hd16 ].
  Qed.

  Theorem stored_single_roundtrip name o content :
    len name <= 65535 -> stored_opts o -> dos_ok (o_time o) -> len content <= ZIP64_BYTES_THR ->
    exists s1 s2 s3 data b dir,
      start_file enc crc (new_writer []) name o = (s1, Ok tt) /\
      zw_write_all s1 content = (s2, Ok tt) /\
      finish enc crc s2 = (s3, Ok data) /\
      data = b ++ dir ++ concat (end_records 1 (len b) (len dir) []) /\
      (* unless the bytes in front of a plain end record happen to look like a ZIP64 locator (finding D22): *)
      ((needs64 1 (len dir) (len b) = false -> no_locator_before (b ++ dir)) ->
       exists g ds c,
         open data = Ok {| ar_data := data; ar_files := [g]; ar_offset := 0; ar_comment := [] |} /\
         by_index_opt kdf {| ar_data := data; ar_files := [g]; ar_offset := 0; ar_comment := [] |} 0 None = Ok (Some (g, ds, c)) /\
         plain_inv c /\ crc_den crc plain_den (make_stored g c) = Good content /\
         f_name_raw g = name /\ f_name g = decode_text (negb (is_ascii name)) name /\
         f_method g = CompressionMethod_Stored /\ f_usize g = len content /\ f_csize g = len content /\ f_crc g = crc content).
  Proof.
    intros Hn Ho Hdos Hlen.
    assert (Hff0 : finish_file enc crc (new_writer []) = (new_writer [], Ok tt)) by reflexivity.
    destruct Ho as (Hm & Hlv & He & Hlg). destruct Hdos as (Htp & d & Hd & Hd16).
    set (o' := with_perm o 420 32768). set (f0 := mk_wfile name o' None (len (@nil byte))).
    assert (Hhdr : exists hdr, local_header_chunks f0 = Ok hdr).
    { unfold local_header_chunks. subst f0 o'. cbn [w_time mk_wfile with_perm o_time w_extra w_large o_large]. rewrite Hd, Hlg.
      change (len []) with 0. cbn. eexists; reflexivity. }
    destruct Hhdr as [hdr Hhdr].
    destruct (start_file_stored enc crc (new_writer []) (new_writer []) [] name o hdr Hff0 eq_refl eq_refl eq_refl Hn
                (conj Hm (conj Hlv (conj He Hlg))) Hhdr) as (s1 & f & d1 & Hsf & Heo & Hf & Hd1 & Hcm1 & Hco1).
    destruct (write_stored crc s1 [] f d1 [] [] content Heo) as (s2 & Hw & Heo2 & Hcm2 & Hco2); [change (len []) with 0; lia|].
    cbn [app] in Heo2.
    destruct (finish_file_stored enc crc s2 [] f d1 content [] Heo2 Hlen (crc32 content)) as (s2' & Hff & Hin' & Hfiles' & Hx' & Hraw' & Htf' & Hcm' & Hco').
    cbn [app] in Hin', Hfiles'.
    set (b := lh_bytes f d1 (crc content) (len content) (len content) ++ content) in *.
    set (f' := wf_set_sizes f (crc content) (len content) (len content)) in *.
    assert (Hcomment : ws_comment s2 = []) by (rewrite Hcm2, Hcm1; reflexivity).
    destruct (stored_record_rendered name o (len (@nil byte)) (len (@nil byte) + len (concat hdr)) content Hn
                (conj Hm (conj Hlv (conj He Hlg))) (conj Htp (ex_intro _ d (conj Hd Hd16))) Hlen) as [cs Hcs]; [change (len []) with 0; lia|].
    assert (Hcs' : rendered f' cs) by (subst f' f f0 o'; exact Hcs).
    assert (HR : Forall2 rendered (ws_files s2') [cs]) by (rewrite Hfiles'; constructor; [exact Hcs'|constructor]).
    assert (Hclen : len (ws_comment s2) <= 65535) by (rewrite Hcomment; change (len []) with 0; lia).
    destruct (finish_ideal enc crc s2 s2' b [cs] Hff Hin' Hclen Hcm' (Forall2_rendered_chunks _ _ HR)) as [s3 Hfin].
    rewrite Hfiles', Hcomment in Hfin. cbn [length map concat] in Hfin. rewrite app_nil_r in Hfin.
    exists s1, s2, s3. eexists. exists b, (concat cs).
    split; [exact Hsf|]. split; [exact Hw|]. split; [exact Hfin|]. split; [reflexivity|].
    intro Hloc.
    (* the reader *)
    assert (Hfn : w_name f = name) by (rewrite Hf; reflexivity).
    assert (Hfm : w_method f = CompressionMethod_Stored) by (rewrite Hf; cbn [wf_set_data_start mk_wfile w_method with_perm o_method]; exact Hm).
    assert (Hfe : w_encrypted f = false) by (rewrite Hf; cbn [wf_set_data_start mk_wfile w_encrypted with_perm o_encrypt]; rewrite He; reflexivity).
    assert (Hfh : w_header_start f = len (@nil byte)) by (rewrite Hf; reflexivity).
    clear Hf.
    assert (Hbl : len b + len (concat cs) < 2 ^ 64).
    { subst b. rewrite len_app, len_lh_bytes.
      destruct Hcs' as [_ Hch]. destruct (central_chunks_flat f' cs Hch) as (dd & _ & Hel & Hflat).
      rewrite Hflat, !len_app, len_central_fixed. pose proof (len_central_z64_le f'). unfold ZIP64_BYTES_THR in Hlen.
      assert (Hnm : w_name f' = name) by (subst f'; exact Hfn). rewrite Hnm, Hfn. lia. }
    destruct Hcs' as [W Hch].
    destruct (central_chunks_flat f' cs Hch) as (dd & Hdd & _ & _).
    destruct (from_msdos_total dd (DateTime_timepart (w_time f')) (wc_dp _ _ W dd Hdd)) as [dt Hdt].
    assert (Hcs' : rendered f' cs) by (split; assumption).
    assert (Hgs : decoded_list [f'] [cs] (len b) [decoded f' dt 0 (len b)])
      by (econstructor; [exists dd; split; eassumption|constructor]).
    destruct (open_rendered b [f'] [cs] [] [decoded f' dt 0 (len b)]) as (data & Hdata & Hopen);
      [constructor; [exact Hcs'|constructor] | cbn [map concat]; rewrite app_nil_r; exact Hbl | change (len []) with 0; lia
      | cbn [map concat length]; rewrite app_nil_r; exact Hloc | apply no_later_sig_empty | exact Hgs |].
    cbn [map concat length] in Hdata, Hopen. rewrite app_nil_r in Hdata. subst data.
    set (data := b ++ concat cs ++ concat (end_records 1 (len b) (len (concat cs)) [])) in *.
    set (ar := {| ar_data := data; ar_files := [decoded f' dt 0 (len b)]; ar_offset := 0; ar_comment := [] |}) in *.
    assert (Hlay : laid_out crc b f' content).
    { exists [], [], d1, f. subst b. rewrite app_nil_r. split; [reflexivity|].
      subst f'. cbn [wf_set_sizes w_header_start w_name w_crc w_csize w_usize w_method w_encrypted].
      rewrite Hfn. repeat split; auto. }
    destruct (read_laid_out kdf blk mac crc crc32 ar 0 f' dt (len b) content (concat cs ++ concat (end_records 1 (len b) (len (concat cs)) [])) b)
      as (ds & c & Hby & Hpi & Hden); [reflexivity|exact Hlay|reflexivity|lia|].
    exists (decoded f' dt 0 (len b)), ds, c.
    split; [exact Hopen|]. split; [exact Hby|]. split; [exact Hpi|]. split; [exact Hden|].
    subst f'. cbn [decoded wf_set_sizes f_name_raw f_name f_method f_usize f_csize f_crc w_name w_method w_usize w_csize w_crc].
    rewrite Hfn, Hfm. repeat split.
  Qed.
End Single.

(* ---------- any number of stored entries *)
Definition entry := (bytes * wopts * bytes)%type.
Definition entry_ok (e : entry) : Prop :=
  let '(n, o, c) := e in len n <= 65535 /\ stored_opts o /\ dos_ok (o_time o) /\ len c <= ZIP64_BYTES_THR.

Lemma decoded_list_nth files css pos gs : decoded_list files css pos gs ->
  forall i f, nth_error files i = Some f -> exists dt p, nth_error gs i = Some (decoded f dt 0 p).
Proof.
  induction 1 as [|f cs fs css pos dt gs Hdt Hrest IH]; intros i g Hi; [destruct i; discriminate|].
  destruct i as [|i]; cbn [nth_error] in *.
  - injection Hi as <-. eauto.
  - eapply IH. exact Hi.
Qed.

Lemma decoded_list_length files css pos gs : decoded_list files css pos gs -> length gs = length files.
Proof. induction 1; cbn [length]; congruence. Qed.

Section Many.
  Variable kdf : bytes -> bytes -> N -> bytes.
  Variable blk : bytes -> bytes -> bytes.
  Variable mac : bytes -> bytes -> bytes.
  Variable enc : CompressionMethod -> Z -> bytes -> bytes.
  Variable crc : bytes -> N.
  Hypothesis crc32 : forall x, crc x < 2 ^ 32.

  Fixpoint write_entries (s : wstate) (es : list entry) : wstate * res unit :=
    match es with
    | [] => (s, Ok tt)
    | (n, o, c) :: r =>
        match start_file enc crc s n o with
        | (s1, Ok _) => match zw_write_all s1 c with
                        | (s2, Ok _) => write_entries s2 r
                        | bad => bad
                        end
        | bad => bad
        end
    end.

  (* a closed entry: its final record, the rendered central record, its content *)
  Definition closed := (wfile * list bytes * bytes)%type.
  Definition closed_ok (b : bytes) (cl : closed) : Prop :=
    let '(f, cs, c) := cl in rendered f cs /\ laid_out crc b f c.

  Lemma closed_ok_grow b x cl : closed_ok b cl -> closed_ok (b ++ x) cl.
  Proof. destruct cl as [[f cs] c]. intros [H1 H2]. split; [exact H1|now apply laid_out_grow]. Qed.

  (* the writer in the middle of an entry, with everything before it closed *)
  Record open_inv (s : wstate) (front : bytes) (f : wfile) (d : N) (content : bytes) (cls : list closed) (name : bytes) (o : wopts) : Prop := {
    oi_open : entry_open s front f d content (map (fun cl => fst (fst cl)) cls);
    oi_closed : Forall (closed_ok front) cls;
    oi_f : f = wf_set_data_start (mk_wfile name (with_perm o 420 32768) None (len front)) (len front + 30 + len name);
    oi_ok : len name <= 65535 /\ stored_opts o /\ dos_ok (o_time o);
    oi_comment : ws_comment s = [];
    oi_d : DateTime_datepart (o_time o) = Some d }.

  Lemma hdr_exists name o hs : dos_ok (o_time o) -> stored_opts o ->
    exists hdr, local_header_chunks (mk_wfile name (with_perm o 420 32768) None hs) = Ok hdr.
  Proof.
    intros (Htp & d & Hd & Hd16) (Hm & Hlv & He & Hlg). unfold local_header_chunks.
    cbn [w_time mk_wfile with_perm o_time w_extra w_large o_large]. rewrite Hd, Hlg.
    change (len []) with 0. cbn. eexists; reflexivity.
  Qed.

  (* closing the open entry *)
  Lemma close_entry s front f d content cls name o :
    open_inv s front f d content cls name o -> len content <= ZIP64_BYTES_THR -> len front < 2 ^ 64 ->
    exists s' cs,
      finish_file enc crc s = (s', Ok tt) /\
      let f' := wf_set_sizes f (crc content) (len content) (len content) in
      let b := front ++ lh_bytes f d (crc content) (len content) (len content) ++ content in
      ws_inner s' = WStorer (at_end b) /\
      ws_files s' = map (fun cl => fst (fst cl)) (cls ++ [(f', cs, content)]) /\
      Forall (closed_ok b) (cls ++ [(f', cs, content)]) /\
      ws_to_extra s' = false /\ ws_raw s' = false /\ ws_comment s' = [] /\ w_name f = name.
  Proof.
    intros [Heo Hcl Hf (Hn & Ho & Hdos) Hcm Hdd] Hlen Hfront.
    destruct (finish_file_stored enc crc s front f d content _ Heo Hlen (crc32 content)) as (s' & Hff & Hin' & Hfiles' & Hx' & Hraw' & Htf' & Hcm' & Hco').
    destruct (stored_record_rendered kdf blk mac enc crc crc32 name o (len front) (len front + 30 + len name) content Hn Ho Hdos Hlen Hfront) as [cs Hcs].
    rewrite <- Hf in Hcs.
    assert (Hfn : w_name f = name) by (rewrite Hf; reflexivity).
    exists s', cs. split; [exact Hff|]. cbv zeta.
    split; [exact Hin'|]. split; [rewrite Hfiles', map_app; reflexivity|].
    split; [|rewrite Hcm' in *; auto].
    apply Forall_app. split.
    - eapply Forall_impl; [|exact Hcl]. intros cl Hc. apply closed_ok_grow. exact Hc.
    - constructor; [|constructor]. split; [exact Hcs|].
      exists front, [], d, f. rewrite app_nil_r. split; [reflexivity|].
      cbn [wf_set_sizes w_header_start w_name w_crc w_csize w_usize w_method w_encrypted].
      destruct Heo as [_ _ Hhs _ _ _ _ _ _ _]. rewrite Hfn.
      assert (Hfm : w_method f = CompressionMethod_Stored) by (rewrite Hf; cbn [wf_set_data_start mk_wfile w_method with_perm o_method]; apply Ho).
      assert (Hfe : w_encrypted f = false).
      { rewrite Hf. cbn [wf_set_data_start mk_wfile w_encrypted with_perm o_encrypt]. destruct Ho as (_ & _ & He & _). rewrite He. reflexivity. }
      repeat split; auto.
  Qed.

  (* starting the next entry closes the open one; then its content is written *)
  Lemma next_entry s front f d content cls name o n2 o2 c2 :
    open_inv s front f d content cls name o -> len content <= ZIP64_BYTES_THR -> len front < 2 ^ 64 ->
    entry_ok (n2, o2, c2) ->
    exists s2 cs f2 d2,
      start_file enc crc s n2 o2 = (fst (start_file enc crc s n2 o2), Ok tt) /\
      zw_write_all (fst (start_file enc crc s n2 o2)) c2 = (s2, Ok tt) /\
      let f' := wf_set_sizes f (crc content) (len content) (len content) in
      let b := front ++ lh_bytes f d (crc content) (len content) (len content) ++ content in
      open_inv s2 b f2 d2 c2 (cls ++ [(f', cs, content)]) n2 o2.
  Proof.
    intros Hoi Hlen Hfront (Hn2 & Ho2 & Hdos2 & Hlen2).
    destruct (close_entry s front f d content cls name o Hoi Hlen Hfront) as (s' & cs & Hff & Hrest). cbv zeta in Hrest.
    destruct Hrest as (Hin' & Hfiles' & Hcl' & Hx' & Hraw' & Hcm' & Hfn).
    set (f' := wf_set_sizes f (crc content) (len content) (len content)) in *.
    set (b := front ++ lh_bytes f d (crc content) (len content) (len content) ++ content) in *.
    destruct (hdr_exists n2 o2 (len b) Hdos2 Ho2) as [hdr Hhdr].
    destruct (start_file_stored enc crc s s' b n2 o2 hdr Hff Hin' Hx' Hraw' Hn2 Ho2 Hhdr) as (s1 & f2 & d2 & Hsf & Heo & Hf2 & Hd2 & Hcm1 & Hco1).
    destruct (write_stored crc s1 b f2 d2 [] _ c2 Heo) as (s2 & Hw & Heo2 & Hcm2 & Hco2); [change (len []) with 0; lia|].
    cbn [app] in Heo2.
    exists s2, cs, f2, d2. rewrite Hsf. cbn [fst]. split; [reflexivity|]. split; [exact Hw|]. cbv zeta.
    constructor.
    - rewrite Hfiles' in Heo2. exact Heo2.
    - exact Hcl'.
    - rewrite Hf2. f_equal.
      destruct (local_chunks_flat (mk_wfile n2 (with_perm o2 420 32768) None (len b)) hdr) as (dd & _ & Hflat);
        [cbn [mk_wfile w_large with_perm o_large]; apply Ho2|reflexivity|exact Hhdr|].
      rewrite Hflat.
      change (lh_head ?g dd ++ le 4 (w_crc ?g) ++ le 4 (w_csize ?g mod 2 ^ 32) ++ le 4 (w_usize ?g mod 2 ^ 32) ++ lh_tail ?g) with (lh_bytes g dd 0 0 0).
      rewrite len_lh_bytes. cbn [mk_wfile w_name]. lia.
    - auto.
    - rewrite Hcm2, Hcm1. exact Hcm'.
    - exact Hd2.
  Qed.

  Fixpoint layout_len (es : list entry) : N :=
    match es with [] => 0 | (n, _, c) :: r => 30 + len n + len c + layout_len r end.

  (* what has been written so far: (name, content) of every closed entry, then the open one *)
  Definition summary (cls : list closed) (name content : bytes) : list (bytes * bytes) :=
    map (fun cl : closed => (w_name (fst (fst cl)), snd cl)) cls ++ [(name, content)].

  Lemma write_rest : forall rest s front f d content cls name o,
    open_inv s front f d content cls name o -> len content <= ZIP64_BYTES_THR -> Forall entry_ok rest ->
    len front + 30 + len name + len content + layout_len rest < 2 ^ 64 ->
    exists s' front' f' d' content' cls' name' o',
      write_entries s rest = (s', Ok tt) /\ open_inv s' front' f' d' content' cls' name' o' /\ len content' <= ZIP64_BYTES_THR /\
      len front' + 30 + len name' + len content' = len front + 30 + len name + len content + layout_len rest /\
      summary cls' name' content' = summary cls name content ++ map (fun e : entry => (fst (fst e), snd e)) rest.
  Proof.
    induction rest as [|[[n2 o2] c2] rest IH]; intros s front f d content cls name o Hoi Hlen Hok Hb.
    - exists s, front, f, d, content, cls, name, o. cbn [write_entries map layout_len] in *. rewrite app_nil_r.
      split; [reflexivity|]. split; [exact Hoi|]. split; [exact Hlen|]. split; [lia|reflexivity].
    - inversion Hok as [|? ? He2 Hrest]; subst. cbn [layout_len] in Hb.
      destruct (next_entry s front f d content cls name o n2 o2 c2 Hoi Hlen) as (s2 & cs & f2 & d2 & Hsf & Hw & Hoi2); [lia|exact He2|].
      cbv zeta in Hoi2.
      set (f' := wf_set_sizes f (crc content) (len content) (len content)) in *.
      set (b := front ++ lh_bytes f d (crc content) (len content) (len content) ++ content) in *.
      assert (Hfn : w_name f = name) by (destruct Hoi as [_ _ Hf _ _]; rewrite Hf; reflexivity).
      assert (Hbl : len b = len front + 30 + len name + len content)
        by (subst b; rewrite !len_app, len_lh_bytes, Hfn; lia).
      destruct He2 as (Hn2 & Ho2 & Hdos2 & Hlen2).
      destruct (IH s2 b f2 d2 c2 (cls ++ [(f', cs, content)]) n2 o2 Hoi2 Hlen2 Hrest) as
        (s' & front' & f'' & d' & content' & cls' & name' & o' & Hwe & Hoi' & Hl' & Hb' & Hsum); [rewrite Hbl; lia|].
      exists s', front', f'', d', content', cls', name', o'.
      cbn [write_entries]. destruct (start_file enc crc s n2 o2) as [s1 r1] eqn:Es. cbn [fst] in Hsf, Hw. injection Hsf as ->.
      rewrite Hw. split; [exact Hwe|]. split; [exact Hoi'|]. split; [exact Hl'|]. split; [cbn [layout_len]; rewrite Hb', Hbl; lia|].
      rewrite Hsum. unfold summary. rewrite map_app. cbn [map fst snd]. subst f'. cbn [wf_set_sizes w_name]. rewrite Hfn.
      rewrite <- !app_assoc. reflexivity.
  Qed.

  Lemma closed_rendered b (all : list closed) : Forall (closed_ok b) all ->
    Forall2 rendered (map (fun cl : closed => fst (fst cl)) all) (map (fun cl : closed => snd (fst cl)) all).
  Proof.
    induction 1 as [|[[f cs] c] r [Hr _] HF IH]; cbn [map fst snd]; constructor; auto.
  Qed.

  Lemma rendered_dir_len (all : list closed) b : Forall (closed_ok b) all ->
    len (concat (map (@concat byte) (map (fun cl : closed => snd (fst cl)) all))) <= N.of_nat (length all) * 131116.
  Proof.
    induction 1 as [|[[f cs] c] r [[W Hch] _] HF IH]; cbn [map concat length fst snd]; [unfold len; cbn; lia|].
    rewrite len_app. destruct (central_chunks_flat f cs Hch) as (d & _ & Hel & Hflat).
    rewrite Hflat, !len_app, len_central_fixed. pose proof (wc_name _ _ W). lia.
  Qed.

  (* write_then_read, any number of stored entries *)
  Theorem stored_roundtrip n1 o1 c1 rest :
    let es := (n1, o1, c1) :: rest in
    Forall entry_ok es -> layout_len es + N.of_nat (length es) * 131218 < 2 ^ 64 ->
    exists s' s3 data b dir (cls : list closed),
      write_entries (new_writer []) es = (s', Ok tt) /\
      finish enc crc s' = (s3, Ok data) /\
      data = b ++ dir ++ concat (end_records (N.of_nat (length es)) (len b) (len dir) []) /\
      map (fun cl : closed => (w_name (fst (fst cl)), snd cl)) cls = map (fun e : entry => (fst (fst e), snd e)) es /\
      ((needs64 (N.of_nat (length es)) (len dir) (len b) = false -> no_locator_before (b ++ dir)) ->
       exists gs,
         let ar := {| ar_data := data; ar_files := gs; ar_offset := 0; ar_comment := [] |} in
         open data = Ok ar /\ length gs = length es /\
         forall i f cs c, nth_error cls i = Some (f, cs, c) ->
           exists dt p ds cr,
             nth_error gs i = Some (decoded f dt 0 p) /\
             by_index_opt kdf ar (N.of_nat i) None = Ok (Some (decoded f dt 0 p, ds, cr)) /\
             plain_inv cr /\ crc_den crc plain_den (make_stored (decoded f dt 0 p) cr) = Good c).
  Proof.
    intros es Hok Hbound. subst es.
    inversion Hok as [|? ? He1 Hrest]; subst. destruct He1 as (Hn1 & Ho1 & Hdos1 & Hlen1).
    cbn [layout_len length] in Hbound.
    (* the first entry *)
    assert (Hff0 : finish_file enc crc (new_writer []) = (new_writer [], Ok tt)) by reflexivity.
    destruct (hdr_exists n1 o1 (len (@nil byte)) Hdos1 Ho1) as [hdr Hhdr].
    destruct (start_file_stored enc crc (new_writer []) (new_writer []) [] n1 o1 hdr Hff0 eq_refl eq_refl eq_refl Hn1 Ho1 Hhdr)
      as (s1 & f & d & Hsf & Heo & Hf & Hd & Hcm1 & Hco1).
    destruct (write_stored crc s1 [] f d [] [] c1 Heo) as (s2 & Hw & Heo2 & Hcm2 & Hco2); [change (len []) with 0; lia|].
    cbn [app] in Heo2.
    assert (Hoi : open_inv s2 [] f d c1 [] n1 o1).
    { constructor; auto.
      - rewrite Hf. f_equal.
        destruct (local_chunks_flat (mk_wfile n1 (with_perm o1 420 32768) None (len (@nil byte))) hdr) as (dd & _ & Hflat);
          [cbn [mk_wfile w_large with_perm o_large]; apply Ho1|reflexivity|exact Hhdr|].
        rewrite Hflat.
        change (lh_head ?g dd ++ le 4 (w_crc ?g) ++ le 4 (w_csize ?g mod 2 ^ 32) ++ le 4 (w_usize ?g mod 2 ^ 32) ++ lh_tail ?g) with (lh_bytes g dd 0 0 0).
        rewrite len_lh_bytes. cbn [mk_wfile w_name]. lia.
      - rewrite Hcm2, Hcm1. reflexivity. }
    destruct (write_rest rest s2 [] f d c1 [] n1 o1 Hoi Hlen1 Hrest) as
      (s' & front' & f' & d' & content' & cls' & name' & o' & Hwe & Hoi' & Hl' & Hb' & Hsum); [change (len []) with 0; lia|].
    (* closing the last entry *)
    change (len []) with 0 in Hb'.
    destruct (close_entry s' front' f' d' content' cls' name' o' Hoi' Hl') as (s'' & cs & Hff & Hrest'); [lia|]. cbv zeta in Hrest'.
    destruct Hrest' as (Hin'' & Hfiles'' & Hcl'' & Hx'' & Hraw'' & Hcm'' & Hfn').
    set (flast := wf_set_sizes f' (crc content') (len content') (len content')) in *.
    set (b := front' ++ lh_bytes f' d' (crc content') (len content') (len content') ++ content') in *.
    set (all := cls' ++ [(flast, cs, content')]) in *.
    assert (Hbl : len b = len front' + 30 + len name' + len content') by (subst b; rewrite !len_app, len_lh_bytes, Hfn'; lia).
    assert (HR : Forall2 rendered (ws_files s'') (map (fun cl : closed => snd (fst cl)) all))
      by (rewrite Hfiles''; exact (closed_rendered b all Hcl'')).
    assert (Hcomment : ws_comment s' = []) by (destruct Hoi'; assumption).
    assert (Hclen : len (ws_comment s') <= 65535) by (rewrite Hcomment; change (len []) with 0; lia).
    destruct (finish_ideal enc crc s' s'' b (map (fun cl : closed => snd (fst cl)) all) Hff Hin'' Hclen) as [s3 Hfin];
      [rewrite Hcm'', Hcomment; reflexivity|apply Forall2_rendered_chunks; exact HR|].
    set (dir := concat (map (@concat byte) (map (fun cl : closed => snd (fst cl)) all))) in *.
    (* the summary: names and contents, in order *)
    assert (Hall : map (fun cl : closed => (w_name (fst (fst cl)), snd cl)) all = map (fun e : entry => (fst (fst e), snd e)) ((n1, o1, c1) :: rest)).
    { subst all. rewrite map_app. cbn [map fst snd]. subst flast. cbn [wf_set_sizes w_name]. rewrite Hfn'.
      change (map (fun cl : closed => (w_name (fst (fst cl)), snd cl)) cls' ++ [(name', content')]) with (summary cls' name' content').
      rewrite Hsum. reflexivity. }
    assert (Hlenall : length all = length ((n1, o1, c1) :: rest)).
    { apply (f_equal (@length _)) in Hall. rewrite !map_length in Hall. exact Hall. }
    assert (Hfl : length (ws_files s'') = length ((n1, o1, c1) :: rest)) by (rewrite Hfiles'', map_length; exact Hlenall).
    rewrite Hfl, Hcomment in Hfin.
    exists s', s3. eexists. exists b, dir, all.
    split. { cbn [write_entries]. rewrite Hsf, Hw. exact Hwe. }
    split; [exact Hfin|]. split; [reflexivity|]. split; [exact Hall|].
    intro Hloc.
    pose proof (rendered_dir_len all b Hcl'') as Hdl. fold dir in Hdl. rewrite Hlenall in Hdl.
    assert (Hbb : len b + len dir < 2 ^ 64) by (cbn [length] in *; lia).
    destruct (decoded_list_exists _ _ HR (len b)) as [gs Hgs].
    destruct (open_rendered b (ws_files s'') (map (fun cl : closed => snd (fst cl)) all) [] gs HR) as (data & Hdata & Hopen);
      [fold dir; exact Hbb | change (len []) with 0; lia | fold dir; rewrite Hfl; exact Hloc | apply no_later_sig_empty | exact Hgs |].
    fold dir in Hdata, Hopen. rewrite Hfl in Hdata. subst data.
    exists gs. cbv zeta. split; [exact Hopen|]. split; [rewrite (decoded_list_length _ _ _ _ Hgs); exact Hfl|].
    intros i fi csi ci Hnth.
    assert (Hfi : nth_error (ws_files s'') i = Some fi).
    { rewrite Hfiles''. exact (map_nth_error (fun cl : closed => fst (fst cl)) i all Hnth). }
    destruct (decoded_list_nth _ _ _ _ Hgs i fi Hfi) as (dt & p & Hg).
    assert (Hcok : closed_ok b (fi, csi, ci)).
    { rewrite Forall_forall in Hcl''. apply Hcl''. eapply nth_error_In. exact Hnth. }
    destruct Hcok as [_ Hlay].
    set (ar := {| ar_data := b ++ dir ++ concat (end_records (N.of_nat (length ((n1, o1, c1) :: rest))) (len b) (len dir) []);
                  ar_files := gs; ar_offset := 0; ar_comment := [] |}).
    destruct (read_laid_out kdf blk mac crc crc32 ar (N.of_nat i) fi dt p ci
                (dir ++ concat (end_records (N.of_nat (length ((n1, o1, c1) :: rest))) (len b) (len dir) [])) b)
      as (ds & cr & Hby & Hpi & Hden); [reflexivity|exact Hlay|rewrite Nat2N.id; exact Hg|lia|].
    exists dt, p, ds, cr. auto.
  Qed.

  (* ---------- the sink as a sequence of entries (what a forward-only reader walks over) *)
  Definition raw := (wfile * N * bytes)%type.
  Definition raw_bytes (r : raw) : bytes := let '(f, d, c) := r in lh_bytes f d (crc c) (len c) (len c) ++ c.
  Definition entries_bytes (l : list raw) : bytes := concat (map raw_bytes l).
  Definition raw_ok (r : raw) (cl : closed) : Prop :=
    let '(f, d, c) := r in stored_rec f d /\ len c <= ZIP64_BYTES_THR /\ c = snd cl /\ w_name f = w_name (fst (fst cl)).
  Definition seq_ok (front : bytes) (cls : list closed) : Prop :=
    exists raws, front = entries_bytes raws /\ Forall2 raw_ok raws cls.

  Lemma open_stored_rec s front f d content cls name o : open_inv s front f d content cls name o -> stored_rec f d /\ w_name f = name.
  Proof.
    intros [_ _ Hf (Hn & (Hm & _ & He & _) & (Htp & d' & Hd' & Hd16)) _ Hd]. rewrite Hd in Hd'. injection Hd' as <-.
    split; [|rewrite Hf; reflexivity].
    constructor; try exact Hd16; rewrite Hf; cbn [wf_set_data_start mk_wfile w_method w_encrypted w_name w_time with_perm o_method o_encrypt o_time]; auto.
    rewrite He. reflexivity.
  Qed.

  Lemma seq_ok_snoc front cls f d content cs :
    seq_ok front cls -> stored_rec f d -> len content <= ZIP64_BYTES_THR ->
    seq_ok (front ++ lh_bytes f d (crc content) (len content) (len content) ++ content)
           (cls ++ [(wf_set_sizes f (crc content) (len content) (len content), cs, content)]).
  Proof.
    intros (raws & -> & HF) R Hl. exists (raws ++ [(f, d, content)]). split.
    - unfold entries_bytes. rewrite map_app, concat_app. cbn [map concat raw_bytes]. now rewrite app_nil_r.
    - apply Forall2_app; [exact HF|]. constructor; [|constructor]. cbn [raw_ok snd fst wf_set_sizes w_name]. auto.
  Qed.

  Lemma write_rest_seq : forall rest s front f d content cls name o,
    open_inv s front f d content cls name o -> len content <= ZIP64_BYTES_THR -> Forall entry_ok rest ->
    len front + 30 + len name + len content + layout_len rest < 2 ^ 64 -> seq_ok front cls ->
    exists s' front' f' d' content' cls' name' o',
      write_entries s rest = (s', Ok tt) /\ open_inv s' front' f' d' content' cls' name' o' /\ len content' <= ZIP64_BYTES_THR /\
      len front' + 30 + len name' + len content' = len front + 30 + len name + len content + layout_len rest /\
      summary cls' name' content' = summary cls name content ++ map (fun e : entry => (fst (fst e), snd e)) rest /\
      seq_ok front' cls'.
  Proof.
    induction rest as [|[[n2 o2] c2] rest IH]; intros s front f d content cls name o Hoi Hlen Hok Hb Hseq.
    - exists s, front, f, d, content, cls, name, o. cbn [write_entries map layout_len] in *. rewrite app_nil_r.
      split; [reflexivity|]. split; [exact Hoi|]. split; [exact Hlen|]. split; [lia|]. split; [reflexivity|exact Hseq].
    - inversion Hok as [|? ? He2 Hrest]; subst. cbn [layout_len] in Hb.
      destruct (next_entry s front f d content cls name o n2 o2 c2 Hoi Hlen) as (s2 & cs & f2 & d2 & Hsf & Hw & Hoi2); [lia|exact He2|].
      cbv zeta in Hoi2.
      destruct (open_stored_rec _ _ _ _ _ _ _ _ Hoi) as [HR Hfn].
      pose proof (seq_ok_snoc front cls f d content cs Hseq HR Hlen) as Hseq2.
      set (f' := wf_set_sizes f (crc content) (len content) (len content)) in *.
      set (b := front ++ lh_bytes f d (crc content) (len content) (len content) ++ content) in *.
      assert (Hbl : len b = len front + 30 + len name + len content)
        by (subst b; rewrite !len_app, len_lh_bytes, Hfn; lia).
      destruct He2 as (Hn2 & Ho2 & Hdos2 & Hlen2).
      destruct (IH s2 b f2 d2 c2 (cls ++ [(f', cs, content)]) n2 o2 Hoi2 Hlen2 Hrest) as
        (s' & front' & f'' & d' & content' & cls' & name' & o' & Hwe & Hoi' & Hl' & Hb' & Hsum & Hseq'); [rewrite Hbl; lia|exact Hseq2|].
      exists s', front', f'', d', content', cls', name', o'.
      cbn [write_entries]. destruct (start_file enc crc s n2 o2) as [s1 r1] eqn:Es. cbn [fst] in Hsf, Hw. injection Hsf as ->.
      rewrite Hw. split; [exact Hwe|]. split; [exact Hoi'|]. split; [exact Hl'|]. split; [cbn [layout_len]; rewrite Hb', Hbl; lia|].
      split; [|exact Hseq'].
      rewrite Hsum. unfold summary. rewrite map_app. cbn [map fst snd]. subst f'. cbn [wf_set_sizes w_name]. rewrite Hfn.
      rewrite <- !app_assoc. reflexivity.
  Qed.

  (* ---------- the streaming reader walks exactly these entries and stops at the central directory *)
  Definition raw_seen (data : bytes) (r : raw) (e : sentry) : Prop :=
    let '(f, d, c) := r in
    f_name_raw (se_file e) = w_name f /\ f_method (se_file e) = CompressionMethod_Stored /\
    f_crc (se_file e) = crc c /\ f_usize (se_file e) = len c /\ f_csize (se_file e) = len c /\ entry_payload data e = c.

  Lemma len_raw_bytes f d c : len (raw_bytes (f, d, c)) = 30 + len (w_name f) + len c.
  Proof. cbn [raw_bytes]. rewrite len_app, len_lh_bytes. reflexivity. Qed.

  Theorem stream_walk : forall raws front rest fuel,
    Forall (fun r : raw => stored_rec (fst (fst r)) (snd (fst r)) /\ len (snd r) <= ZIP64_BYTES_THR) raws ->
    (length raws < fuel)%nat ->
    let data := front ++ entries_bytes raws ++ le 4 CENTRAL_DIRECTORY_HEADER_SIGNATURE ++ rest in
    exists es, stream_entries fuel data (len front) = (es, Ok (len front + len (entries_bytes raws) + 4)) /\
               Forall2 (raw_seen data) raws es.
  Proof.
    induction raws as [|[[f d] c] rs IH]; intros front rest fuel HF Hfuel data.
    - destruct fuel as [|fu]; [cbn [length] in Hfuel; lia|]. exists []. split; [|constructor].
      cbn [stream_entries]. unfold stream_next.
      assert (Hs : u32_at data (len front) = Ok CENTRAL_DIRECTORY_HEADER_SIGNATURE).
      { subst data. unfold entries_bytes. cbn [map concat app]. unfold u32_at. rewrite <- (N.add_0_r (len front)), rd_skip, rd_head_le.
        cbn [bind]. rewrite unle_le4 by (unfold CENTRAL_DIRECTORY_HEADER_SIGNATURE; lia). reflexivity. }
      rewrite Hs. cbn [bind]. rewrite N.eqb_refl. unfold entries_bytes. cbn [map concat]. change (len []) with 0. rewrite N.add_0_r. reflexivity.
    - destruct fuel as [|fu]; [cbn [length] in Hfuel; lia|].
      inversion HF as [|? ? [HR Hlc] HF']; subst. cbn [fst snd] in HR, Hlc.
      set (tail := le 4 CENTRAL_DIRECTORY_HEADER_SIGNATURE ++ rest) in *.
      assert (Hdata : data = front ++ lh_bytes f d (crc c) (len c) (len c) ++ c ++ (entries_bytes rs ++ tail)).
      { subst data. unfold entries_bytes. cbn [map concat raw_bytes]. rewrite <- !app_assoc. reflexivity. }
      destruct (stream_next_rendered f d (crc c) (len c) front c (entries_bytes rs ++ tail) HR (crc32 c) Hlc) as (dt & Hdt & Hsn).
      rewrite <- Hdata in Hsn.
      cbn [stream_entries]. rewrite Hsn.
      set (e := {| se_file := stream_file f dt (crc c) (len c); se_data_start := len front + 30 + len (w_name f) |}).
      assert (Hpa : pos_after data e = len (front ++ raw_bytes (f, d, c))).
      { unfold pos_after, e. cbn [se_file se_data_start stream_file f_csize].
        rewrite len_app, len_raw_bytes.
        assert (Hld : len front + 30 + len (w_name f) + len c <= len data).
        { rewrite Hdata, !len_app, len_lh_bytes. lia. }
        lia. }
      rewrite Hpa.
      assert (Hdata2 : data = (front ++ raw_bytes (f, d, c)) ++ entries_bytes rs ++ tail).
      { rewrite Hdata. cbn [raw_bytes]. rewrite <- !app_assoc. reflexivity. }
      destruct (IH (front ++ raw_bytes (f, d, c)) rest fu HF') as (es & Hes & Hseen); [cbn [length] in Hfuel; lia|].
      cbv zeta in Hes, Hseen. fold tail in Hes, Hseen. rewrite <- Hdata2 in Hes, Hseen.
      rewrite Hes. exists (e :: es). split.
      + f_equal. f_equal. unfold entries_bytes. cbn [map concat]. rewrite !len_app. fold (entries_bytes rs). lia.
      + constructor; [|exact Hseen]. cbn [raw_seen]. unfold e. cbn [se_file stream_file f_name_raw f_method f_crc f_usize f_csize].
        repeat split.
        unfold entry_payload. cbn [se_file se_data_start stream_file f_csize].
        rewrite Hdata. destruct (lh_split f d (crc c) (len c)) as (fx & Hfx & Hsp). rewrite Hsp.
        replace (front ++ (fx ++ w_name f) ++ c ++ entries_bytes rs ++ tail) with ((front ++ fx ++ w_name f) ++ c ++ entries_bytes rs ++ tail)
          by (rewrite <- !app_assoc; reflexivity).
        replace (len front + 30 + len (w_name f)) with (len (front ++ fx ++ w_name f)) by (rewrite !len_app, Hfx; lia).
        rewrite drop_app_exact. apply take_app_exact.
  Qed.

  Lemma dir_starts_sig b (all : list closed) : Forall (closed_ok b) all -> all <> [] ->
    exists dtail, concat (map (@concat byte) (map (fun cl : closed => snd (fst cl)) all)) = le 4 CENTRAL_DIRECTORY_HEADER_SIGNATURE ++ dtail.
  Proof.
    intros HF Hne. destruct all as [|[[f cs] c] r]; [contradiction|]. inversion HF as [|? ? Hc _]; subst.
    cbn [closed_ok] in Hc. destruct Hc as [[_ Hch] _]. cbn [map concat fst snd].
    destruct (central_chunks_flat _ _ Hch) as (dd & _ & _ & Hflat). rewrite Hflat. unfold central_fixed. rewrite <- !app_assoc. eexists; reflexivity.
  Qed.

  (* write, finish, then stream: the forward-only reader sees the written entries, in order, and stops at the directory *)
  Theorem stored_stream_roundtrip n1 o1 c1 rest :
    let es := (n1, o1, c1) :: rest in
    Forall entry_ok es -> layout_len es + N.of_nat (length es) * 131218 < 2 ^ 64 ->
    exists s' s3 data (raws : list raw) ents p,
      write_entries (new_writer []) es = (s', Ok tt) /\
      finish enc crc s' = (s3, Ok data) /\
      stream_entries (S (length data)) data 0 = (ents, Ok p) /\
      Forall2 (raw_seen data) raws ents /\
      map (fun r : raw => (w_name (fst (fst r)), snd r)) raws = map (fun e : entry => (fst (fst e), snd e)) es.
  Proof.
    intros es Hok Hbound. subst es.
    inversion Hok as [|? ? He1 Hrest]; subst. destruct He1 as (Hn1 & Ho1 & Hdos1 & Hlen1).
    cbn [layout_len length] in Hbound.
    assert (Hff0 : finish_file enc crc (new_writer []) = (new_writer [], Ok tt)) by reflexivity.
    destruct (hdr_exists n1 o1 (len (@nil byte)) Hdos1 Ho1) as [hdr Hhdr].
    destruct (start_file_stored enc crc (new_writer []) (new_writer []) [] n1 o1 hdr Hff0 eq_refl eq_refl eq_refl Hn1 Ho1 Hhdr)
      as (s1 & f & d & Hsf & Heo & Hf & Hd & Hcm1 & Hco1).
    destruct (write_stored crc s1 [] f d [] [] c1 Heo) as (s2 & Hw & Heo2 & Hcm2 & Hco2); [change (len []) with 0; lia|].
    cbn [app] in Heo2.
    assert (Hoi : open_inv s2 [] f d c1 [] n1 o1).
    { constructor; auto.
      - rewrite Hf. f_equal.
        destruct (local_chunks_flat (mk_wfile n1 (with_perm o1 420 32768) None (len (@nil byte))) hdr) as (dd & _ & Hflat);
          [cbn [mk_wfile w_large with_perm o_large]; apply Ho1|reflexivity|exact Hhdr|].
        rewrite Hflat.
        change (lh_head ?g dd ++ le 4 (w_crc ?g) ++ le 4 (w_csize ?g mod 2 ^ 32) ++ le 4 (w_usize ?g mod 2 ^ 32) ++ lh_tail ?g) with (lh_bytes g dd 0 0 0).
        rewrite len_lh_bytes. cbn [mk_wfile w_name]. lia.
      - rewrite Hcm2, Hcm1. reflexivity. }
    assert (Hseq0 : seq_ok [] []) by (exists []; split; [reflexivity|constructor]).
    destruct (write_rest_seq rest s2 [] f d c1 [] n1 o1 Hoi Hlen1 Hrest) as
      (s' & front' & f' & d' & content' & cls' & name' & o' & Hwe & Hoi' & Hl' & Hb' & Hsum & Hseq'); [change (len []) with 0; lia|exact Hseq0|].
    change (len []) with 0 in Hb'.
    destruct (close_entry s' front' f' d' content' cls' name' o' Hoi' Hl') as (s'' & cs & Hff & Hrest'); [lia|]. cbv zeta in Hrest'.
    destruct Hrest' as (Hin'' & Hfiles'' & Hcl'' & Hx'' & Hraw'' & Hcm'' & Hfn').
    destruct (open_stored_rec _ _ _ _ _ _ _ _ Hoi') as [HR' _].
    destruct (seq_ok_snoc front' cls' f' d' content' cs Hseq' HR' Hl') as (raws & Hb & HF2).
    set (flast := wf_set_sizes f' (crc content') (len content') (len content')) in *.
    set (b := front' ++ lh_bytes f' d' (crc content') (len content') (len content') ++ content') in *.
    set (all := cls' ++ [(flast, cs, content')]) in *.
    assert (HR : Forall2 rendered (ws_files s'') (map (fun cl : closed => snd (fst cl)) all))
      by (rewrite Hfiles''; exact (closed_rendered b all Hcl'')).
    assert (Hcomment : ws_comment s' = []) by (destruct Hoi'; assumption).
    assert (Hclen : len (ws_comment s') <= 65535) by (rewrite Hcomment; change (len []) with 0; lia).
    destruct (finish_ideal enc crc s' s'' b (map (fun cl : closed => snd (fst cl)) all) Hff Hin'' Hclen) as [s3 Hfin];
      [rewrite Hcm'', Hcomment; reflexivity|apply Forall2_rendered_chunks; exact HR|].
    set (dir := concat (map (@concat byte) (map (fun cl : closed => snd (fst cl)) all))) in *.
    (* the directory starts with a central header signature *)
    assert (Hdir : exists dtail, dir = le 4 CENTRAL_DIRECTORY_HEADER_SIGNATURE ++ dtail).
    { subst dir. apply (dir_starts_sig b all Hcl''). subst all. destruct cls'; discriminate. }
    destruct Hdir as [dtail Hdir].
    set (tailb := concat (end_records (N.of_nat (length (ws_files s''))) (len b) (len dir) (ws_comment s'))) in *.
    assert (Hrawsok : Forall (fun r : raw => stored_rec (fst (fst r)) (snd (fst r)) /\ len (snd r) <= ZIP64_BYTES_THR) raws).
    { clear - HF2. induction HF2 as [|[[fr dr] cr] cl rs cs' (A & B & _) _ IH]; constructor; auto. }
    destruct (stream_walk raws [] (dtail ++ tailb) (S (length (b ++ dir ++ tailb))) Hrawsok) as (ents & Hents & Hseen).
    { apply (f_equal (@length _)) in Hb. rewrite app_length. 
      assert (length raws <= length (entries_bytes raws))%nat.
      { clear. induction raws as [|[[fr dr] cr] rs IH]; [cbn; lia|]. unfold entries_bytes in *. cbn [map concat length]. rewrite app_length.
        pose proof (len_raw_bytes fr dr cr) as X. unfold len in X. lia. }
      rewrite Hb. lia. }
    cbv zeta in Hents, Hseen. cbn [app] in Hents, Hseen. change (len []) with 0 in Hents.
    assert (Hdat : entries_bytes raws ++ le 4 CENTRAL_DIRECTORY_HEADER_SIGNATURE ++ dtail ++ tailb = b ++ dir ++ tailb).
    { rewrite <- Hb, Hdir, <- !app_assoc. reflexivity. }
    rewrite Hdat in Hents, Hseen.
    exists s', s3. eexists. exists raws, ents. eexists.
    split. { cbn [write_entries]. rewrite Hsf, Hw. exact Hwe. }
    split; [exact Hfin|]. split; [exact Hents|]. split; [exact Hseen|].
    (* names and contents *)
    assert (Hall : map (fun cl : closed => (w_name (fst (fst cl)), snd cl)) all = map (fun e : entry => (fst (fst e), snd e)) ((n1, o1, c1) :: rest)).
    { subst all. rewrite map_app. cbn [map fst snd]. subst flast. cbn [wf_set_sizes w_name]. rewrite Hfn'.
      change (map (fun cl : closed => (w_name (fst (fst cl)), snd cl)) cls' ++ [(name', content')]) with (summary cls' name' content').
      rewrite Hsum. reflexivity. }
    rewrite <- Hall. clear - HF2. induction HF2 as [|[[fr dr] cr] [[fc csc] cc] rs cs' (A & B & C & D) _ IH]; [reflexivity|].
    cbn [map fst snd] in *. rewrite IH. f_equal. f_equal; auto.
  Qed.
End Many.
