(* Proofs/StoredRoundtrip.v — C01 at the level of the two models, for archives of stored, unencrypted entries:
   the program  start_file n1 o1; write_all c1; ...; start_file nk ok; write_all ck; finish  run by the writer model
   on a well-behaved sink returns bytes on which the reader model's open succeeds with k entries, and opening
   entry i yields a reader that denotes exactly c_i (hence, by C09_complete_run, every completed read under every
   schedule of buffer sizes returns c_i), with the name, method, sizes and CRC that were written. *)
From Coq Require Import ZArith.
From ZipV Require Import Base.Bytes Base.Outcome Gen.GenLib Gen.SpecGen Gen.CompressionGen Gen.TypesGen Gen.WriteGen
     Spec.Utf8 Model.Cp437 Model.Readers Model.Reader Model.Writer
     Proofs.StreamProofs Proofs.Zip64Proofs Proofs.WriterIdeal Proofs.CentralRoundtrip Proofs.OpenRendered Proofs.EntryRead Proofs.WriterEntry.
Open Scope N_scope.

(* one finished entry lies in the sink: header, then content, at the offset its record names *)
Definition laid_out (crc : bytes -> N) (b : bytes) (f : wfile) (content : bytes) : Prop :=
  exists front rest d f0,
    b = front ++ lh_bytes f0 d (crc content) (len content) (len content) ++ content ++ rest /\
    w_header_start f = len front /\ w_name f0 = w_name f /\
    w_crc f = crc content /\ w_csize f = len content /\ w_usize f = len content /\
    w_method f = CompressionMethod_Stored /\ w_encrypted f = false /\ len (w_name f) <= 65535.

Lemma laid_out_grow crc b f content x : laid_out crc b f content -> laid_out crc (b ++ x) f content.
Proof.
  intros (front & rest & d & f0 & -> & H). exists front, (rest ++ x), d, f0. split; [|exact H].
  rewrite <- !app_assoc. reflexivity.
Qed.

(* the 30 fixed bytes of lh_bytes are what the reader expects *)
Lemma lh_bytes_shape f d c cs us : len (w_name f) <= 65535 ->
  exists lh, lh_bytes f d c cs us = lh ++ w_name f ++ [] /\ local_fixed_ok lh (len (w_name f)) (len (@nil byte)).
Proof.
  intro Hn. unfold lh_bytes, lh_head, lh_tail.
  exists (le 4 LOCAL_FILE_HEADER_SIGNATURE ++
          (le 2 (version_needed f) ++ le 2 (flag_of f) ++ le 2 (CompressionMethod_to_u16 (w_method f)) ++ le 2 (DateTime_timepart (w_time f)) ++ le 2 d ++
           le 4 c ++ le 4 (cs mod 2 ^ 32) ++ le 4 (us mod 2 ^ 32)) ++ le 2 (len (w_name f)) ++ le 2 0).
  split.
  - rewrite (N.mod_small (len (w_name f)) 65536) by lia. rewrite app_nil_r, <- !app_assoc. reflexivity.
  - eexists. split; [|reflexivity]. rewrite !len_app, !len_le. reflexivity.
Qed.

Section RT.
  Variable kdf : bytes -> bytes -> N -> bytes.
  Variable blk : bytes -> bytes -> bytes.
  Variable mac : bytes -> bytes -> bytes.
  Variable enc : CompressionMethod -> Z -> bytes -> bytes.
  Variable crc : bytes -> N.
  Hypothesis crc32 : forall x, crc x < 2 ^ 32.

  (* reading entry i of an archive whose i-th record is the decoded image of a laid-out writer record *)
  Lemma read_laid_out ar i f dt pos content tailbytes b :
    ar_data ar = b ++ tailbytes -> laid_out crc b f content ->
    nth_error (ar_files ar) (N.to_nat i) = Some (decoded f dt 0 pos) ->
    len b < 2 ^ 64 ->
    exists ds c, by_index_opt kdf ar i None = Ok (Some (decoded f dt 0 pos, ds, c)) /\
                 plain_inv c /\ crc_den crc plain_den (make_stored (decoded f dt 0 pos) c) = Good content.
  Proof.
    intros Hdata (front & rest & d & f0 & Hb & Hhs & Hnm & Hcrc & Hcs & Hus & Hm & Henc & Hn) Hnth Hlen.
    destruct (lh_bytes_shape f0 d (crc content) (len content) (len content)) as (lh & Hlh & Hok); [rewrite Hnm; exact Hn|].
    eexists. eapply (stored_entry_denotes kdf blk mac crc ar i (decoded f dt 0 pos) front lh (w_name f0) [] content (rest ++ tailbytes)).
    - rewrite Hdata, Hb, Hlh. rewrite <- !app_assoc. reflexivity.
    - exact Hnth.
    - exact Henc.
    - reflexivity.
    - exact Hm.
    - exact Hok.
    - rewrite Hnm. exact Hn.
    - unfold len; cbn; lia.
    - cbn [decoded f_header_start]. rewrite Hhs. lia.
    - subst b. rewrite !len_app, len_lh_bytes in Hlen. change (len []) with 0. lia.
    - cbn [decoded f_csize]. exact Hcs.
    - cbn [decoded f_crc]. exact Hcrc.
  Qed.
End RT.

(* ---------- one stored entry, end to end *)
Definition dos_ok (t : DateTime) : Prop :=
  DateTime_timepart t < 65536 /\ exists d, DateTime_datepart t = Some d /\ d < 65536.

Lemma len_central_z64_le f : len (central_z64 f) <= 28.
Proof.
  rewrite central_z64_shape. pose proof (len_z64_body (w_usize f) (w_csize f) (w_header_start f)) as H.
  set (body := z64_body (w_usize f) (w_csize f) (w_header_start f)) in *.
  destruct body as [|x r] eqn:E; [unfold len; cbn; lia|].
  rewrite !len_app, !len_le. change (N.of_nat 2) with 2. lia.
Qed.

Section Single.
  Variable kdf : bytes -> bytes -> N -> bytes.
  Variable blk : bytes -> bytes -> bytes.
  Variable mac : bytes -> bytes -> bytes.
  Variable enc : CompressionMethod -> Z -> bytes -> bytes.
  Variable crc : bytes -> N.
  Hypothesis crc32 : forall x, crc x < 2 ^ 32.

  (* the record of a closed stored entry renders and is well-formed *)
  Lemma stored_record_rendered name o hs ds content :
    len name <= 65535 -> stored_opts o -> dos_ok (o_time o) -> len content <= ZIP64_BYTES_THR -> hs < 2 ^ 64 ->
    let f := wf_set_sizes (wf_set_data_start (mk_wfile name (with_perm o 420 32768) None hs) ds) (crc content) (len content) (len content) in
    exists cs, rendered f cs.
  Proof.
    intros Hn (Hm & Hlv & He & Hlg) (Htp & d & Hd & Hd16) Hlen Hhs f.
    assert (Hch : exists cs, central_header_chunks f = Ok cs).
    { unfold central_header_chunks. pose proof (len_central_z64_le f) as Hz.
      assert (Hxe : w_extra f = []) by reflexivity.
      assert ((65535 <? len (central_z64 f) + len (w_extra f)) = false) as -> by (apply N.ltb_ge; rewrite Hxe; change (len []) with 0; lia).
      subst f. cbn [w_time wf_set_sizes wf_set_data_start mk_wfile with_perm o_time]. rewrite Hd. cbn [of_opt bind]. eexists; reflexivity. }
    destruct Hch as [cs Hcs]. exists cs. split; [|exact Hcs].
    constructor; subst f; cbn [w_system w_made_by w_method w_time w_crc w_ext_attr w_usize w_csize w_header_start w_name w_extra
                              wf_set_sizes wf_set_data_start mk_wfile with_perm o_method o_time o_perm o_large o_level o_encrypt].
    all: first [ lia
               | unfold DEFAULT_VERSION; lia
               | exact Htp
               | exact Hn
               | apply crc32
               | apply N.mod_lt; lia
               | unfold ZIP64_BYTES_THR in Hlen; lia
               | exists 0%nat; reflexivity
               | rewrite Hm; unfold method_ok; cbn; repeat split; try discriminate; lia
               | intros d' Hd'; rewrite Hd in Hd'; injection Hd' as <-; exact Hd16 ].
  Qed.

  Theorem stored_single_roundtrip name o content :
    len name <= 65535 -> stored_opts o -> dos_ok (o_time o) -> len content <= ZIP64_BYTES_THR ->
    exists s1 s2 s3 data b dir,
      start_file enc crc (new_writer []) name o = (s1, Ok tt) /\
      zw_write_all s1 content = (s2, Ok tt) /\
      finish enc crc s2 = (s3, Ok data) /\
      data = b ++ dir ++ concat (end_records 1 (len b) (len dir) []) /\
      (* unless the bytes in front of a plain end record happen to look like a ZIP64 locator (finding D22): *)
      ((needs64 1 (len dir) (len b) = false -> no_locator_before (b ++ dir)) ->
       exists g ds c,
         open data = Ok {| ar_data := data; ar_files := [g]; ar_offset := 0; ar_comment := [] |} /\
         by_index_opt kdf {| ar_data := data; ar_files := [g]; ar_offset := 0; ar_comment := [] |} 0 None = Ok (Some (g, ds, c)) /\
         plain_inv c /\ crc_den crc plain_den (make_stored g c) = Good content /\
         f_name_raw g = name /\ f_name g = decode_text (negb (is_ascii name)) name /\
         f_method g = CompressionMethod_Stored /\ f_usize g = len content /\ f_csize g = len content /\ f_crc g = crc content).
  Proof.
    intros Hn Ho Hdos Hlen.
    assert (Hff0 : finish_file enc crc (new_writer []) = (new_writer [], Ok tt)) by reflexivity.
    destruct Ho as (Hm & Hlv & He & Hlg). destruct Hdos as (Htp & d & Hd & Hd16).
    set (o' := with_perm o 420 32768). set (f0 := mk_wfile name o' None (len (@nil byte))).
    assert (Hhdr : exists hdr, local_header_chunks f0 = Ok hdr).
    { unfold local_header_chunks. subst f0 o'. cbn [w_time mk_wfile with_perm o_time w_extra w_large o_large]. rewrite Hd, Hlg.
      change (len []) with 0. cbn. eexists; reflexivity. }
    destruct Hhdr as [hdr Hhdr].
    destruct (start_file_stored enc crc (new_writer []) (new_writer []) [] name o hdr Hff0 eq_refl eq_refl eq_refl Hn
                (conj Hm (conj Hlv (conj He Hlg))) Hhdr) as (s1 & f & d1 & Hsf & Heo & Hf & Hd1 & Hcm1 & Hco1).
    destruct (write_stored crc s1 [] f d1 [] [] content Heo) as (s2 & Hw & Heo2 & Hcm2 & Hco2); [change (len []) with 0; lia|].
    cbn [app] in Heo2.
    destruct (finish_file_stored enc crc s2 [] f d1 content [] Heo2 Hlen (crc32 content)) as (s2' & Hff & Hin' & Hfiles' & Hx' & Hraw' & Htf' & Hcm' & Hco').
    cbn [app] in Hin', Hfiles'.
    set (b := lh_bytes f d1 (crc content) (len content) (len content) ++ content) in *.
    set (f' := wf_set_sizes f (crc content) (len content) (len content)) in *.
    assert (Hcomment : ws_comment s2 = []) by (rewrite Hcm2, Hcm1; reflexivity).
    destruct (stored_record_rendered name o (len (@nil byte)) (len (@nil byte) + len (concat hdr)) content Hn
                (conj Hm (conj Hlv (conj He Hlg))) (conj Htp (ex_intro _ d (conj Hd Hd16))) Hlen) as [cs Hcs]; [change (len []) with 0; lia|].
    assert (Hcs' : rendered f' cs) by (subst f' f f0 o'; exact Hcs).
    assert (HR : Forall2 rendered (ws_files s2') [cs]) by (rewrite Hfiles'; constructor; [exact Hcs'|constructor]).
    assert (Hclen : len (ws_comment s2) <= 65535) by (rewrite Hcomment; change (len []) with 0; lia).
    destruct (finish_ideal enc crc s2 s2' b [cs] Hff Hin' Hclen Hcm' (Forall2_rendered_chunks _ _ HR)) as [s3 Hfin].
    rewrite Hfiles', Hcomment in Hfin. cbn [length map concat] in Hfin. rewrite app_nil_r in Hfin.
    exists s1, s2, s3. eexists. exists b, (concat cs).
    split; [exact Hsf|]. split; [exact Hw|]. split; [exact Hfin|]. split; [reflexivity|].
    intro Hloc.
    (* the reader *)
    assert (Hfn : w_name f = name) by (rewrite Hf; reflexivity).
    assert (Hfm : w_method f = CompressionMethod_Stored) by (rewrite Hf; cbn [wf_set_data_start mk_wfile w_method with_perm o_method]; exact Hm).
    assert (Hfe : w_encrypted f = false) by (rewrite Hf; cbn [wf_set_data_start mk_wfile w_encrypted with_perm o_encrypt]; rewrite He; reflexivity).
    assert (Hfh : w_header_start f = len (@nil byte)) by (rewrite Hf; reflexivity).
    clear Hf.
    assert (Hbl : len b + len (concat cs) < 2 ^ 64).
    { subst b. rewrite len_app, len_lh_bytes.
      destruct Hcs' as [_ Hch]. destruct (central_chunks_flat f' cs Hch) as (dd & _ & Hel & Hflat).
      rewrite Hflat, !len_app, len_central_fixed. pose proof (len_central_z64_le f'). unfold ZIP64_BYTES_THR in Hlen.
      assert (Hnm : w_name f' = name) by (subst f'; exact Hfn). rewrite Hnm, Hfn. lia. }
    destruct Hcs' as [W Hch].
    destruct (central_chunks_flat f' cs Hch) as (dd & Hdd & _ & _).
    destruct (from_msdos_total dd (DateTime_timepart (w_time f')) (wc_dp _ _ W dd Hdd)) as [dt Hdt].
    assert (Hcs' : rendered f' cs) by (split; assumption).
    assert (Hgs : decoded_list [f'] [cs] (len b) [decoded f' dt 0 (len b)])
      by (econstructor; [exists dd; split; eassumption|constructor]).
    destruct (open_rendered b [f'] [cs] [] [decoded f' dt 0 (len b)]) as (data & Hdata & Hopen);
      [constructor; [exact Hcs'|constructor] | cbn [map concat]; rewrite app_nil_r; exact Hbl | change (len []) with 0; lia
      | cbn [map concat length]; rewrite app_nil_r; exact Hloc | apply no_later_sig_empty | exact Hgs |].
    cbn [map concat length] in Hdata, Hopen. rewrite app_nil_r in Hdata. subst data.
    set (data := b ++ concat cs ++ concat (end_records 1 (len b) (len (concat cs)) [])) in *.
    set (ar := {| ar_data := data; ar_files := [decoded f' dt 0 (len b)]; ar_offset := 0; ar_comment := [] |}) in *.
    assert (Hlay : laid_out crc b f' content).
    { exists [], [], d1, f. subst b. rewrite app_nil_r. split; [reflexivity|].
      subst f'. cbn [wf_set_sizes w_header_start w_name w_crc w_csize w_usize w_method w_encrypted].
      rewrite Hfn. repeat split; auto. }
    destruct (read_laid_out kdf blk mac crc crc32 ar 0 f' dt (len b) content (concat cs ++ concat (end_records 1 (len b) (len (concat cs)) [])) b)
      as (ds & c & Hby & Hpi & Hden); [reflexivity|exact Hlay|reflexivity|lia|].
    exists (decoded f' dt 0 (len b)), ds, c.
    split; [exact Hopen|]. split; [exact Hby|]. split; [exact Hpi|]. split; [exact Hden|].
    subst f'. cbn [decoded wf_set_sizes f_name_raw f_name f_method f_usize f_csize f_crc w_name w_method w_usize w_csize w_crc].
    rewrite Hfn, Hfm. repeat split.
  Qed.
End Single.
