(* Proofs/StoredRoundtrip.v — C01 at the level of the two models, for archives of stored, unencrypted entries:
   the program  start_file n1 o1; write_all c1; ...; start_file nk ok; write_all ck; finish  run by the writer model
   on a well-behaved sink returns bytes on which the reader model's open succeeds with k entries, and opening
   entry i yields a reader that denotes exactly c_i (hence, by C09_complete_run, every completed read under every
   schedule of buffer sizes returns c_i), with the name, method, sizes and CRC that were written. *)
From Coq Require Import ZArith.
From ZipV Require Import Base.Bytes Base.Outcome Gen.GenLib Gen.SpecGen Gen.CompressionGen Gen.TypesGen Gen.WriteGen
     Spec.Utf8 Model.Cp437 Model.Readers Model.Reader Model.Writer
     Proofs.StreamProofs Proofs.Zip64Proofs Proofs.WriterIdeal Proofs.CentralRoundtrip Proofs.OpenRendered Proofs.EntryRead Proofs.WriterEntry.
Open Scope N_scope.

(* one finished entry lies in the sink: header, then content, at the offset its record names *)
Definition laid_out (crc : bytes -> N) (b : bytes) (f : wfile) (content : bytes) : Prop :=
  exists front rest d f0,
    b = front ++ lh_bytes f0 d (crc content) (len content) (len content) ++ content ++ rest /\
    w_header_start f = len front /\ w_name f0 = w_name f /\
    w_crc f = crc content /\ w_csize f = len content /\ w_usize f = len content /\
    w_method f = CompressionMethod_Stored /\ w_encrypted f = false /\ len (w_name f) <= 65535.

Lemma laid_out_grow crc b f content x : laid_out crc b f content -> laid_out crc (b ++ x) f content.
Proof.
  intros (front & rest & d & f0 & -> & H). exists front, (rest ++ x), d, f0. split; [|exact H].
  rewrite <- !app_assoc. reflexivity.
Qed.

(* the 30 fixed bytes of lh_bytes are what the reader expects *)
Lemma lh_bytes_shape f d c cs us : len (w_name f) <= 65535 ->
  exists lh, lh_bytes f d c cs us = lh ++ w_name f ++ [] /\ local_fixed_ok lh (len (w_name f)) (len (@nil byte)).
Proof.
  intro Hn. unfold lh_bytes, lh_head, lh_tail.
  exists (le 4 LOCAL_FILE_HEADER_SIGNATURE ++
          (le 2 (version_needed f) ++ le 2 (flag_of f) ++ le 2 (CompressionMethod_to_u16 (w_method f)) ++ le 2 (DateTime_timepart (w_time f)) ++ le 2 d ++
           le 4 c ++ le 4 (cs mod 2 ^ 32) ++ le 4 (us mod 2 ^ 32)) ++ le 2 (len (w_name f)) ++ le 2 0).
  split.
  - rewrite (N.mod_small (len (w_name f)) 65536) by lia. rewrite app_nil_r, <- !app_assoc. reflexivity.
  - eexists. split; [|reflexivity]. rewrite !len_app, !len_le. reflexivity.
Qed.

Section RT.
  Variable kdf : bytes -> bytes -> N -> bytes.
  Variable blk : bytes -> bytes -> bytes.
  Variable mac : bytes -> bytes -> bytes.
  Variable enc : CompressionMethod -> Z -> bytes -> bytes.
  Variable crc : bytes -> N.
  Hypothesis crc32 : forall x, crc x < 2 ^ 32.

  (* reading entry i of an archive whose i-th record is the decoded image of a laid-out writer record *)
  Lemma read_laid_out ar i f dt pos content tailbytes b :
    ar_data ar = b ++ tailbytes -> laid_out crc b f content ->
    nth_error (ar_files ar) (N.to_nat i) = Some (decoded f dt 0 pos) ->
    len b < 2 ^ 64 ->
    exists ds c, by_index_opt kdf ar i None = Ok (Some (decoded f dt 0 pos, ds, c)) /\
                 plain_inv c /\ crc_den crc plain_den (make_stored (decoded f dt 0 pos) c) = Good content.
  Proof.
    intros Hdata (front & rest & d & f0 & Hb & Hhs & Hnm & Hcrc & Hcs & Hus & Hm & Henc & Hn) Hnth Hlen.
    destruct (lh_bytes_shape f0 d (crc content) (len content) (len content)) as (lh & Hlh & Hok); [rewrite Hnm; exact Hn|].
    eexists. eapply (stored_entry_denotes kdf blk mac crc ar i (decoded f dt 0 pos) front lh (w_name f0) [] content (rest ++ tailbytes)).
    - rewrite Hdata, Hb, Hlh. rewrite <- !app_assoc. reflexivity.
    - exact Hnth.
    - exact Henc.
    - reflexivity.
    - exact Hm.
    - exact Hok.
    - rewrite Hnm. exact Hn.
    - unfold len; cbn; lia.
    - cbn [decoded f_header_start]. rewrite Hhs. lia.
    - subst b. rewrite !len_app, len_lh_bytes in Hlen. change (len []) with 0. lia.
    - cbn [decoded f_csize]. exact Hcs.
    - cbn [decoded f_crc]. exact Hcrc.
  Qed.
End RT.
