(* Proofs/AlignProofs.v — C17: the padding arithmetic of start_file_aligned and the extra-data validator. *)
From ZipV Require Import Base.Bytes Base.Outcome.
Open Scope N_scope.

(* pad = (align - (data_start + 4) % align) % align; the padded data start data_start + 4 + pad is aligned *)
Definition pad_of (align data_start : N) : N := (align - (data_start + 4) mod align) mod align.

Lemma pad_aligns align data_start : 0 < align -> (data_start + 4 + pad_of align data_start) mod align = 0.
Proof.
  intro Ha. unfold pad_of.
  set (x := data_start + 4). pose proof (N.mod_lt x align ltac:(lia)) as Hx.
  destruct (N.eq_dec (x mod align) 0) as [E|E].
  - rewrite E, N.sub_0_r, N.mod_same by lia. now rewrite N.add_0_r.
  - rewrite (N.mod_small (align - x mod align)) by lia.
    rewrite (N.div_mod x align) at 1 by lia.
    replace (align * (x / align) + x mod align + (align - x mod align)) with ((x / align + 1) * align) by lia.
    apply N.mod_mul. lia.
Qed.

Lemma pad_lt align data_start : 0 < align -> pad_of align data_start < align.
Proof. intro Ha. unfold pad_of. apply N.mod_lt. lia. Qed.
