(* Proofs/RawCopyChunk.v — the raw-copy theorem carried over to short-writing sinks by the chunking simulation. *)
From Coq Require Import ZArith List.
From ZipV Require Import Base.Bytes Base.Outcome Gen.CompressionGen Gen.WriteGen Model.Readers Model.Reader Model.Writer
     Model.WriterCalls Proofs.WriterIdeal Proofs.ChunkSim.
Import ListNotations.
Open Scope N_scope.

Lemma raw_copy_any_chunking enc crc s t s1 b src raw name hdr :
  R s t ->
  finish_file enc crc s = (s1, Ok tt) -> ws_inner s1 = WStorer (at_end b) -> ws_to_extra s1 = false ->
  len name <= 65535 -> len raw = f_csize src ->
  local_header_chunks (raw_file src name (len b) 0) = Ok hdr ->
  exists t2,
    raw_copy enc crc t src raw name = (t2, Ok tt) /\
    sink_bytes t2 = Some (b ++ concat hdr ++ raw) /\
    ws_files t2 = ws_files s1 ++ [raw_file src name (len b) (len b + len (concat hdr))] /\
    ws_raw t2 = true.
Proof.
  intros HR Hff Hin Hte Hn Hr Hh.
  destruct (raw_copy_exact enc crc s s1 b src raw name hdr Hff Hin Hte Hn Hr Hh) as (s2 & Hrc & Hi2 & Hf2 & Hraw & _).
  assert (Hc : do_call enc crc s (KRawCopy src raw name) = (s2, RUnit (Ok tt))) by (cbn [do_call]; rewrite Hrc; reflexivity).
  destruct (do_call_sim enc crc s t _ _ _ HR Hc) as (t2 & Ht & HR2); [cbn; unfold not_large; discriminate|].
  cbn [do_call] in Ht. destruct (raw_copy enc crc t src raw name) as [t2' r] eqn:E.
  injection Ht as <- <-. exists t2'. split; [reflexivity|].
  split; [rewrite <- (R_sink _ _ HR2); unfold sink_bytes; rewrite Hi2; reflexivity|].
  split; [rewrite <- (r_files _ _ HR2); exact Hf2|rewrite <- (r_raw _ _ HR2); exact Hraw].
Qed.
