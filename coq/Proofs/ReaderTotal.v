(* Proofs/ReaderTotal.v — C05: the reader model never panics and never runs out of fuel, for every
   byte string; every loop is bounded by the input length. *)
From ZipV Require Import Base.Bytes Base.Outcome Gen.GenLib Gen.SpecGen Gen.CompressionGen Gen.TypesGen
     Model.Cp437 Model.Readers Model.Reader Proofs.DosProofs.
Open Scope N_scope.

Ltac np_step :=
  match goal with
  | |- no_panic (Ok _) => apply no_panic_ok
  | |- no_panic (Err _) => apply no_panic_err
  | |- no_panic (bind _ _) => apply no_panic_bind; [|intros ? ?]
  | |- no_panic (if ?c then _ else _) => destruct c
  | |- no_panic (let '(_, _) := ?x in _) => destruct x
  | |- no_panic (match ?x with _ => _ end) => destruct x eqn:?
  end.
Ltac np := repeat np_step.

Lemma rd_at_np data pos k : no_panic (rd_at data pos k).
Proof. unfold rd_at. np. Qed.
Lemma u16_at_np data pos : no_panic (u16_at data pos).
Proof. unfold u16_at. np. apply rd_at_np. Qed.
Lemma u32_at_np data pos : no_panic (u32_at data pos).
Proof. unfold u32_at. np. apply rd_at_np. Qed.
Lemma u64_at_np data pos : no_panic (u64_at data pos).
Proof. unfold u64_at. np. apply rd_at_np. Qed.
#[global] Hint Resolve rd_at_np u16_at_np u32_at_np u64_at_np : np.
Ltac np_absurd :=
  match goal with
  | E : _ = Panic ?p |- no_panic (Panic ?p) =>
      exfalso; first [exact (u16_at_np _ _ _ E) | exact (u32_at_np _ _ _ E) | exact (u64_at_np _ _ _ E) | exact (rd_at_np _ _ _ _ E)]
  end.

Lemma rd_at_ok data pos k b : rd_at data pos k = Ok b -> pos + k <= len data /\ len b = k.
Proof.
  unfold rd_at. destruct (pos + k <=? len data) eqn:E; [|discriminate]. intros [= <-].
  split; [lia|]. rewrite len_take, len_drop. lia.
Qed.
Lemma unle_bound b k : len b = k -> unle b < 2 ^ (8 * k).
Proof. intros <-. apply unle_lt. Qed.
Lemma u16_at_ok data pos v : u16_at data pos = Ok v -> pos + 2 <= len data /\ v < 65536.
Proof.
  unfold u16_at. destruct (rd_at data pos 2) as [b| |] eqn:E; cbn [bind]; try discriminate.
  intros [= <-]. apply rd_at_ok in E as [H1 H2]. split; [assumption|]. exact (unle_bound b 2 H2).
Qed.
Lemma u32_at_ok data pos v : u32_at data pos = Ok v -> pos + 4 <= len data /\ v < 4294967296.
Proof.
  unfold u32_at. destruct (rd_at data pos 4) as [b| |] eqn:E; cbn [bind]; try discriminate.
  intros [= <-]. apply rd_at_ok in E as [H1 H2]. split; [assumption|]. exact (unle_bound b 4 H2).
Qed.

Lemma parse_eocd_np data pos : no_panic (parse_eocd data pos).
Proof. unfold parse_eocd. np; auto with np. Qed.

Lemma find_eocd_np data : no_panic (find_eocd data).
Proof. unfold find_eocd. np. apply parse_eocd_np. Qed.

Lemma find_z64_np data a b : no_panic (find_z64 data a b).
Proof. unfold find_z64. np; auto with np. Qed.

Lemma get_directory_counts_np data e p : no_panic (get_directory_counts data e p).
Proof.
  unfold get_directory_counts. np; auto with np; try apply find_z64_np; try np_absurd.
Qed.

(* ---------- extra-field walk *)
Lemma ex_u_np ex pos k : no_panic (ex_u ex pos k).
Proof. unfold ex_u. np. apply rd_at_np. Qed.

Lemma z64_step_inv ex g p e w g' p' e' :
  z64_step ex (g, p, e) w = (g', p', e') -> f_extra g' = f_extra g /\ p <= p'.
Proof.
  unfold z64_step. destruct e as [er|].
  - intros [= <- <- <-]. split; [reflexivity|lia].
  - destruct ((if w =? 0 then f_usize g else if w =? 1 then f_csize g else f_header_start g) =? ZIP64_BYTES_THR).
    + destruct (ex_u ex p 8) as [v|er|pp].
      * intros [= <- <- <-]. split; [|lia]. destruct (w =? 0); destruct (w =? 1); destruct (w =? 2); reflexivity.
      * intros [= <- <- <-]. split; [|lia]. destruct (w =? 2); reflexivity.
      * intros [= <- <- <-]. split; [reflexivity|lia].
    + intros [= <- <- <-]. split; [reflexivity|lia].
Qed.

Lemma z64_fields_inv ex f p0 g p e :
  z64_fields ex f p0 = (g, p, e) -> f_extra g = f_extra f /\ p0 <= p.
Proof.
  unfold z64_fields. intro H.
  destruct (z64_step ex (f, p0, None) 0) as [[g1 p1] e1] eqn:E1.
  destruct (z64_step ex (g1, p1, e1) 1) as [[g2 p2] e2] eqn:E2.
  apply z64_step_inv in E1 as [A1 B1]. apply z64_step_inv in E2 as [A2 B2]. apply z64_step_inv in H as [A3 B3].
  split; [congruence|lia].
Qed.

Lemma parse_extra_np : forall fuel f pos,
  (N.to_nat (len (f_extra f) - pos) < fuel)%nat -> no_panic (snd (parse_extra fuel f pos)).
Proof.
  induction fuel as [|fuel IH]; intros f pos Hf; [lia|].
  cbn [parse_extra].
  destruct (len (f_extra f) <=? pos) eqn:Ep; [cbn [snd]; apply no_panic_ok|].
  destruct (ex_u (f_extra f) pos 2) as [kind|er|pp] eqn:Ek;
    [|cbn [snd]; apply no_panic_err|exfalso; exact (ex_u_np _ _ _ _ Ek)].
  destruct (ex_u (f_extra f) (pos + 2) 2) as [flen|er|pp] eqn:El;
    [|cbn [snd]; apply no_panic_err|exfalso; exact (ex_u_np _ _ _ _ El)].
  destruct (kind =? 1).
  - destruct (z64_fields (f_extra f) f (pos + 4)) as [[g p] e] eqn:Ez.
    apply z64_fields_inv in Ez as [Hx Hp].
    destruct e as [er|]; [cbn [snd]; apply no_panic_err|].
    apply IH. rewrite Hx. destruct (p - (pos + 4) <? flen); lia.
  - destruct (kind =? 39169).
    + destruct (negb (flen =? 7)); [cbn [snd]; apply no_panic_err|].
      destruct (aes_field (f_extra f) (pos + 4)) as [a m|er]; [|cbn [snd]; apply no_panic_err].
      apply IH. cbn [set_aes f_extra]. lia.
    + apply IH. lia.
Qed.

Lemma parse_extra_field_np f : no_panic (snd (parse_extra_field f)).
Proof. unfold parse_extra_field. apply parse_extra_np. lia. Qed.

(* ---------- central directory *)
Lemma from_msdos_some d t : d < 65536 -> t < 65536 -> exists dt, DateTime_from_msdos d t = Some dt.
Proof. intros Hd Ht. destruct (pack_unpack d t Hd Ht) as (dt & E & _). eauto. Qed.

Lemma parse_central_np data pos off : no_panic (parse_central data pos off).
Proof.
  unfold parse_central.
  repeat (apply no_panic_bind; [auto with np|intros ? ?]).
  np_step; [apply no_panic_err|].
  repeat (apply no_panic_bind; [auto with np|intros ? ?]).
  - match goal with
    | Ht : u16_at data (pos + 12) = Ok ?t, Hd : u16_at data (pos + 14) = Ok ?d |- _ =>
        apply u16_at_ok in Ht as [_ Ht]; apply u16_at_ok in Hd as [_ Hd];
        destruct (from_msdos_some d t Hd Ht) as [dt Edt]; rewrite Edt
    end.
    apply no_panic_ok.
  - match goal with |- context [parse_extra_field ?f0] =>
      pose proof (parse_extra_field_np f0) as Hx; destruct (parse_extra_field f0) as [f1 r] end.
    cbn [snd] in Hx.
    apply no_panic_bind.
    + destruct r as [u|e|p]; [apply no_panic_ok|destruct (is_io e); [apply no_panic_ok|apply no_panic_err]|exfalso; now apply (Hx p)].
    + intros ? _. np.
Qed.

Lemma parse_central_adv data pos off f pos' :
  parse_central data pos off = Ok (f, pos') -> pos + 4 <= len data /\ pos + 46 <= pos'.
Proof.
  unfold parse_central.
  destruct (u32_at data pos) as [sig| |] eqn:E0; cbn [bind]; try discriminate.
  apply u32_at_ok in E0 as [H0 _]. intro H. split; [assumption|].
  destruct (negb (sig =? CENTRAL_DIRECTORY_HEADER_SIGNATURE)); [discriminate|].
  repeat match type of H with
         | bind ?r _ = Ok _ => destruct r as [?| |]; cbn [bind] in H; try discriminate
         | (let '(_, _) := ?x in _) = Ok _ => destruct x
         | (if ?c then _ else _) = Ok _ => destruct c; try discriminate
         end.
  injection H as _ <-. lia.
Qed.

Lemma parse_cd_np data off : forall fuel n pos,
  (N.to_nat (len data - pos) < fuel)%nat -> no_panic (parse_cd fuel data n pos off).
Proof.
  induction fuel as [|fuel IH]; intros n pos Hf; [lia|].
  cbn [parse_cd]. destruct (n =? 0); [apply no_panic_ok|].
  apply no_panic_bind; [apply parse_central_np|].
  intros [f pos'] E. apply parse_central_adv in E as [H1 H2].
  apply no_panic_bind; [|intros; apply no_panic_ok].
  apply IH. lia.
Qed.

Theorem open_np data : no_panic (open data).
Proof.
  unfold open.
  apply no_panic_bind; [apply find_eocd_np|]. intros [e cde] _.
  np_step; [apply no_panic_err|].
  apply no_panic_bind; [apply get_directory_counts_np|]. intros [[ao ds] n] _.
  apply no_panic_bind; [|intros; apply no_panic_ok].
  apply parse_cd_np. unfold len. lia.
Qed.

(* ---------- opening an entry *)
Lemma find_content_np data f : len data < 2 ^ 63 -> no_panic (find_content data f).
Proof.
  intro Hl. unfold find_content.
  apply no_panic_bind; [auto with np|]. intros sig Es. apply u32_at_ok in Es as [Hs _].
  np_step; [apply no_panic_err|].
  apply no_panic_bind; [auto with np|]. intros nl En. apply u16_at_ok in En as [_ Hn].
  apply no_panic_bind; [auto with np|]. intros el Ee. apply u16_at_ok in Ee as [_ He].
  unfold add_chk, fits.
  assert ((f_header_start f + 30 + nl + el <? 2 ^ 64) = true) as -> by (change (2 ^ 64) with (2 * 2 ^ 63); lia).
  cbn [of_opt bind]. apply no_panic_ok.
Qed.

(* ---------- readers never panic *)
Definition safe_reader {S} (rd : reader S) (Inv : S -> Prop) : Prop :=
  forall s n, Inv s -> no_panic (rd s n) /\ forall bs s', rd s n = Ok (bs, s') -> Inv s'.

Lemma run_reads_np {S} (rd : reader S) Inv : safe_reader rd Inv ->
  forall bufs s, Inv s -> Forall (fun r => no_panic r) (fst (run_reads rd s bufs)).
Proof.
  intros H. induction bufs as [|n bufs IH]; intros s Hi; cbn [run_reads]; [constructor|].
  destruct (H s n Hi) as [Hn Hp]. destruct (rd s n) as [[bs s']|e|p] eqn:E.
  - specialize (IH s' (Hp bs s' eq_refl)). destruct (run_reads rd s' bufs) as [outs sf]. cbn [fst] in *.
    constructor; [apply no_panic_ok|assumption].
  - cbn [fst]. constructor; [apply no_panic_err|constructor].
  - exfalso. now apply (Hn p).
Qed.

Lemma read_exact_np {S} (rd : reader S) Inv : safe_reader rd Inv ->
  forall fuel s n, Inv s -> (N.to_nat n < fuel)%nat ->
  no_panic (read_exact_fuel rd fuel s n) /\
  forall bs s', read_exact_fuel rd fuel s n = Ok (bs, s') -> Inv s'.
Proof.
  intro H. induction fuel as [|fuel IH]; intros s n Hi Hf; [lia|].
  cbn [read_exact_fuel]. destruct (n =? 0) eqn:En.
  - split; [apply no_panic_ok|]. now intros bs s' [= <- <-].
  - destruct (H s n Hi) as [Hn Hp]. destruct (rd s n) as [[bs s1]|e|p] eqn:E; cbn [bind].
    + destruct (len bs =? 0) eqn:Eb; [split; [apply no_panic_err|discriminate]|].
      destruct (IH s1 (n - len bs) (Hp _ _ eq_refl) ltac:(lia)) as [A B].
      destruct (read_exact_fuel rd fuel s1 (n - len bs)) as [[rest s2]|e|p]; cbn [bind].
      * split; [apply no_panic_ok|]. intros ? ? [= <- <-]. now apply (B rest s2).
      * split; [apply no_panic_err|discriminate].
      * exfalso. now apply (A p).
    + split; [apply no_panic_err|discriminate].
    + exfalso. now apply (Hn p).
Qed.

Lemma src_safe : safe_reader src_read (fun _ => True).
Proof.
  intros s n _. unfold src_read. destruct (s_plan s) as [|[c|] p]; split; try apply no_panic_ok; try apply no_panic_err; auto; discriminate.
Qed.

Lemma take_safe {I} (ird : reader I) Inv : safe_reader ird Inv -> safe_reader (take_read ird) (fun s => Inv (t_inner s)).
Proof.
  intros H s n Hi. unfold take_read. destruct (t_limit s =? 0).
  - split; [apply no_panic_ok|]. now intros ? ? [= <- <-].
  - destruct (H (t_inner s) (N.min n (t_limit s)) Hi) as [Hn Hp].
    destruct (ird (t_inner s) (N.min n (t_limit s))) as [[bs i']|e|p]; cbn [bind].
    + split; [apply no_panic_ok|]. intros ? ? [= <- <-]. cbn [t_inner]. now apply (Hp bs i').
    + split; [apply no_panic_err|discriminate].
    + exfalso. now apply (Hn p).
Qed.

Lemma zc_safe {I} (ird : reader I) Inv : safe_reader ird Inv -> safe_reader (zc_read ird) (fun s => Inv (z_inner s)).
Proof.
  intros H s n Hi. unfold zc_read.
  destruct (H (z_inner s) n Hi) as [Hn Hp].
  destruct (ird (z_inner s) n) as [[ct i']|e|p]; cbn [bind].
  - destruct (zc_decrypt (z_keys s) ct) as [k' pt]. split; [apply no_panic_ok|].
    intros ? ? [= <- <-]. cbn [z_inner]. now apply (Hp ct i').
  - split; [apply no_panic_err|discriminate].
  - exfalso. now apply (Hn p).
Qed.

Section AesSafe.
  Variables (blk : bytes -> bytes -> bytes) (mac : bytes -> bytes -> bytes).
  Context {I : Type} (ird : reader I) (Inv : I -> Prop).
  Hypothesis H : safe_reader ird Inv.

  Definition aes_inv (s : aes_st (I := I)) : Prop := Inv (a_inner s) /\ (a_final s = true -> a_remaining s = 0).

  Lemma aes_safe : safe_reader (aes_read blk mac ird) aes_inv.
  Proof.
    intros s n [Hi Hf]. unfold aes_read. destruct (a_remaining s =? 0) eqn:Er.
    - split; [apply no_panic_ok|]. intros ? ? [= <- <-]. now split.
    - destruct (H (a_inner s) (N.min (a_remaining s) n) Hi) as [Hn Hp].
      destruct (ird (a_inner s) (N.min (a_remaining s) n)) as [[ct i1]|e|p]; cbn [bind].
      + destruct ((len ct =? 0) && negb (N.min (a_remaining s) n =? 0)); [split; [apply no_panic_err|discriminate]|].
        destruct (ctr_crypt blk (a_ctr s) ct) as [c' pt].
        destruct (a_remaining s - len ct =? 0) eqn:Er2.
        * destruct (a_final s) eqn:Ef; [specialize (Hf eq_refl); lia|].
          destruct (read_exact_np ird Inv H (S (N.to_nat 10)) i1 10 (Hp _ _ eq_refl) ltac:(lia)) as [A B].
          unfold read_exact.
          destruct (read_exact_fuel ird (S (N.to_nat 10)) i1 10) as [[tag i2]|e|p]; cbn [bind].
          -- destruct (bytes_eqb _ tag).
             ++ split; [apply no_panic_ok|]. intros ? ? [= <- <-]. split; cbn [a_inner a_final a_remaining]; [now apply (B tag i2)|reflexivity].
             ++ split; [apply no_panic_err|discriminate].
          -- split; [apply no_panic_err|discriminate].
          -- exfalso. now apply (A p).
        * split; [apply no_panic_ok|]. intros ? ? [= <- <-]. split; cbn [a_inner a_final a_remaining]; [now apply (Hp ct i1)|].
          intro Hf'. specialize (Hf Hf'). lia.
      + split; [apply no_panic_err|discriminate].
      + exfalso. now apply (Hn p).
  Qed.
End AesSafe.

Lemma crc_safe crc {I} (ird : reader I) Inv : safe_reader ird Inv -> safe_reader (crc_read crc ird) (fun s => Inv (k_inner s)).
Proof.
  intros H s n Hi. unfold crc_read.
  destruct (H (k_inner s) n Hi) as [Hn Hp].
  destruct (ird (k_inner s) n) as [[bs i']|e|p]; cbn [bind].
  - destruct ((len bs =? 0) && _).
    + split; [apply no_panic_err|discriminate].
    + split; [apply no_panic_ok|]. intros ? ? [= <- <-]. cbn [k_inner]. now apply (Hp bs i').
  - split; [apply no_panic_err|discriminate].
  - exfalso. now apply (Hn p).
Qed.

(* ---------- the whole entry session *)
Section Session.
  Variables (kdf : bytes -> bytes -> N -> bytes) (blk : bytes -> bytes -> bytes) (mac : bytes -> bytes -> bytes) (crc : bytes -> N).

  Definition tsrc_safe : safe_reader tsrc_read (fun _ => True).
  Proof. exact (take_safe src_read (fun _ => True) src_safe). Qed.

  Definition crypto_inv (c : crypto) : Prop :=
    match c with CAes s _ => aes_inv (fun _ : take_st src => True) s | _ => True end.

  Lemma crypto_safe : safe_reader (crypto_read blk mac) crypto_inv.
  Proof.
    intros c n Hc. destruct c as [s|z|s v]; cbn [crypto_read crypto_inv] in *.
    - destruct (tsrc_safe s n I) as [Hn Hp]. destruct (tsrc_read s n) as [[b s']|e|p]; cbn [bind].
      + split; [apply no_panic_ok|]. now intros ? ? [= <- <-].
      + split; [apply no_panic_err|discriminate].
      + exfalso. now apply (Hn p).
    - destruct (zc_safe tsrc_read (fun _ => True) tsrc_safe z n I) as [Hn Hp].
      destruct (zc_read tsrc_read z n) as [[b s']|e|p]; cbn [bind].
      + split; [apply no_panic_ok|]. now intros ? ? [= <- <-].
      + split; [apply no_panic_err|discriminate].
      + exfalso. now apply (Hn p).
    - destruct (aes_safe blk mac tsrc_read (fun _ => True) tsrc_safe s n Hc) as [Hn Hp].
      destruct (aes_read blk mac tsrc_read s n) as [[b s']|e|p]; cbn [bind].
      + split; [apply no_panic_ok|]. intros ? ? [= <- <-]. cbn [crypto_inv]. now apply (Hp b s').
      + split; [apply no_panic_err|discriminate].
      + exfalso. now apply (Hn p).
  Qed.

  Lemma zipfile_safe : safe_reader (zipfile_read blk mac crc) (fun s => crypto_inv (k_inner s)).
  Proof.
    intros s n Hi. unfold zipfile_read. destruct (n =? 0).
    - split; [apply no_panic_ok|]. now intros ? ? [= <- <-].
    - exact (crc_safe crc (crypto_read blk mac) crypto_inv crypto_safe s n Hi).
  Qed.

  Lemma make_crypto_reader_np f s pw :
    no_panic (make_crypto_reader kdf f s pw) /\
    forall c, make_crypto_reader kdf f s pw = Ok (Some c) -> crypto_inv c.
  Proof.
    unfold make_crypto_reader. destruct (is_unsupported (f_method f)); [split; [apply no_panic_err|discriminate]|].
    destruct pw as [pw|]; destruct (f_aes f) as [[mode vv]|].
    - destruct (f_csize f <? aes_overhead mode); [split; [apply no_panic_err|discriminate]|].
      unfold read_exact.
      destruct (read_exact_np tsrc_read (fun _ => True) tsrc_safe (S (N.to_nat (AesMode_key_length mode / 2))) s _ I (le_n _)) as [A _].
      destruct (read_exact_fuel tsrc_read _ s (AesMode_key_length mode / 2)) as [[salt s1]|e|p]; cbn [bind];
        [|split; [apply no_panic_err|discriminate]|exfalso; now apply (A p)].
      destruct (read_exact_np tsrc_read (fun _ => True) tsrc_safe (S (N.to_nat 2)) s1 2 I ltac:(lia)) as [A2 _].
      destruct (read_exact_fuel tsrc_read _ s1 2) as [[pv s2]|e|p]; cbn [bind];
        [|split; [apply no_panic_err|discriminate]|exfalso; now apply (A2 p)].
      destruct (negb _).
      + split; [apply no_panic_ok|discriminate].
      + split; [apply no_panic_ok|]. intros c [= <-]. cbn [crypto_inv]. split; cbn [a_inner a_final a_remaining]; [exact I|discriminate].
    - unfold zc_validate, read_exact.
      destruct (read_exact_np tsrc_read (fun _ => True) tsrc_safe (S (N.to_nat 12)) s 12 I ltac:(lia)) as [A _].
      destruct (read_exact_fuel tsrc_read _ s 12) as [[hdr s1]|e|p]; cbn [bind];
        [|split; [apply no_panic_err|discriminate]|exfalso; now apply (A p)].
      destruct (zc_decrypt (zc_derive pw) hdr) as [k' ph].
      destruct (_ =? _); cbn [bind].
      + split; [apply no_panic_ok|]. intros c [= <-]. exact I.
      + split; [apply no_panic_ok|discriminate].
    - split; [apply no_panic_ok|discriminate].
    - split; [apply no_panic_ok|]. intros c [= <-]. exact I.
  Qed.

  Theorem by_index_opt_np ar i pw : len (ar_data ar) < 2 ^ 63 ->
    no_panic (by_index_opt kdf ar i pw) /\
    forall f ds c, by_index_opt kdf ar i pw = Ok (Some (f, ds, c)) -> crypto_inv c.
  Proof.
    intro Hl. unfold by_index_opt. destruct (nth_error (ar_files ar) (N.to_nat i)) as [f|]; [|split; [apply no_panic_err|discriminate]].
    destruct (opt_is_none pw && f_encrypted f); [split; [apply no_panic_err|discriminate]|].
    pose proof (find_content_np (ar_data ar) f Hl) as Hfc.
    destruct (find_content (ar_data ar) f) as [[ds s]|e|p]; cbn [bind];
      [|split; [apply no_panic_err|discriminate]|exfalso; now apply (Hfc p)].
    destruct (make_crypto_reader_np f s (if f_encrypted f then pw else None)) as [A B].
    destruct (make_crypto_reader kdf f s (if f_encrypted f then pw else None)) as [[c|]|e|p]; cbn [bind].
    - split; [apply no_panic_ok|]. intros ? ? ? [= <- <- <-]. now apply B.
    - split; [apply no_panic_ok|discriminate].
    - split; [apply no_panic_err|discriminate].
    - exfalso. now apply (A p).
  Qed.

  (* every schedule of reads on an opened entry: no call panics *)
  Theorem entry_reads_np f c bufs : crypto_inv c ->
    Forall (fun r => no_panic r) (fst (run_reads (zipfile_read blk mac crc) (make_stored f c) bufs)).
  Proof. intro Hc. apply (run_reads_np _ _ zipfile_safe). exact Hc. Qed.
End Session.

(* the pre-allocation requested while opening is bounded by the input length, whatever the count says *)
Lemma prealloc_bound n cde_pos data : cde_pos <= len data -> prealloc_entries n cde_pos <= len data.
Proof. intro H. unfold prealloc_entries. destruct (cde_pos <? n) eqn:E; lia. Qed.
