(* Proofs/CallerSplit.v — C09, writer side, the caller's half: writing a ++ b with one write_all call or with two leaves
   writer states that differ only in the unconsumed plan of the sink (relation R of Proofs/ChunkSim.v), for a stored
   entry on any failure-free short-writing sink.  By the simulation, everything that follows -- more writes, further
   entries, finish -- gives the same results and the same archive bytes. *)
From Coq Require Import ZArith Lia List.
From ZipV Require Import Base.Bytes Base.Outcome Gen.GenLib Gen.SpecGen Gen.CompressionGen Gen.TypesGen Gen.WriteGen
     Model.Readers Model.Reader Model.Writer Model.WriterCalls Proofs.WriterIdeal Proofs.ShortWrites Proofs.ChunkSim.
Import ListNotations.
Open Scope N_scope.

Lemma caller_split (enc : CompressionMethod -> Z -> bytes -> bytes) (crc : bytes -> N) s d a b :
  ws_to_file s = true -> ws_to_extra s = false -> ws_inner s = WStorer d ->
  nofail (d_plan d) -> d_pos d <= len (d_buf d) ->
  (ws_written s + len (a ++ b) <= ZIP64_BYTES_THR \/ large_last s = true) ->
  exists s1 s2 s12,
    zw_write_all s (a ++ b) = (s12, Ok tt) /\
    zw_write_all s a = (s1, Ok tt) /\ zw_write_all s1 b = (s2, Ok tt) /\
    R s12 s2.
Proof.
  intros Hf He Hi Hp Hpos Hlg.
  destruct (zw_write_all_nofail enc crc (a ++ b) s d Hf He Hi Hp Hpos Hlg) as (p12 & Hp12 & E12).
  assert (Hlga : ws_written s + len a <= ZIP64_BYTES_THR \/ large_last s = true)
    by (destruct Hlg as [H|H]; [left; rewrite len_app in H; lia|right; exact H]).
  destruct (zw_write_all_nofail enc crc a s d Hf He Hi Hp Hpos Hlga) as (p1 & Hp1 & E1).
  set (d1 := {| d_buf := put_at (d_buf d) (d_pos d) a; d_pos := d_pos d + len a; d_plan := p1 |}) in *.
  set (s1 := wrote s d1 a) in *.
  assert (Hpos1 : d_pos d1 <= len (d_buf d1)) by (cbn [d1 d_pos d_buf]; rewrite len_put_at by exact Hpos; lia).
  assert (Hlgb : ws_written s1 + len b <= ZIP64_BYTES_THR \/ large_last s1 = true).
  { destruct Hlg as [H|H]; [left; cbn [s1 wrote set_stats ws_written]; rewrite len_app in H; lia|right; exact H]. }
  destruct (zw_write_all_nofail enc crc b s1 d1 Hf He eq_refl Hp1 Hpos1 Hlgb) as (p2 & Hp2 & E2).
  eexists. eexists. eexists. split; [exact E12|]. split; [exact E1|]. split; [exact E2|].
  constructor; cbn [ws_inner ws_files ws_start ws_written ws_hashed ws_to_file ws_to_extra ws_central_only ws_raw ws_comment wrote set_stats set_inner s1 irel d_buf d_pos d_plan d1]; auto.
  - unfold drel. cbn [d_buf d_pos d_plan]. repeat split; auto.
    + rewrite put_at_app. reflexivity.
    + rewrite len_app. lia.
  - rewrite len_app. lia.
  - rewrite <- app_assoc. reflexivity.
Qed.
