(* Proofs/CrcProofs.v — C04 at the Crc32Reader layer, for an *arbitrary* inner reader (any decoder,
   any decryptor, any misbehaviour) and an arbitrary checksum function. *)
From ZipV Require Import Base.Bytes Base.Outcome Model.Readers Proofs.StreamProofs.
Open Scope N_scope.

Section Crc.
  Variable crc : bytes -> N.
  Context {I : Type} (ird : reader I).

  Theorem crc_eof_means_match : forall bufs s outs sf k n,
    run_reads (crc_read crc ird) s bufs = (outs, sf) ->
    nth_error bufs k = Some n -> n <> 0 -> nth_error outs k = Some (Ok []) ->
    k_ae2 s = true \/ crc (k_seen s ++ oks (firstn k outs)) = k_check s.
  Proof.
    induction bufs as [|m bufs IH]; intros s outs sf k n Hr Hk Hn Ho.
    - destruct k; discriminate.
    - cbn [run_reads] in Hr. unfold crc_read in Hr at 1.
      destruct (ird (k_inner s) m) as [[bs i']|e|p] eqn:Ei; cbn [bind] in Hr.
      + destruct ((len bs =? 0) && (negb (m =? 0) && negb (crc (k_seen s) =? k_check s) && negb (k_ae2 s))) eqn:Ec.
        * injection Hr as <- <-. destruct k as [|k]; cbn in Ho; [discriminate|]. destruct k; discriminate.
        * set (s' := {| k_inner := i'; k_seen := k_seen s ++ bs; k_check := k_check s; k_ae2 := k_ae2 s |}) in *.
          destruct (run_reads (crc_read crc ird) s' bufs) as [outs' sf'] eqn:Er. injection Hr as <- <-.
          destruct k as [|k].
          -- cbn in Hk, Ho. injection Hk as ->. injection Ho as ->.
             cbn [firstn oks flat_map]. rewrite app_nil_r.
             change (len [] =? 0) with true in Ec. cbn [andb] in Ec.
             destruct (k_ae2 s); [now left|right].
             destruct (n =? 0) eqn:En; [lia|]. cbn [negb andb] in Ec.
             destruct (crc (k_seen s) =? k_check s) eqn:E2; [now apply N.eqb_eq|discriminate].
          -- cbn in Hk, Ho. specialize (IH s' outs' sf' k n Er Hk Hn Ho).
             subst s'. cbn [k_ae2 k_seen k_check] in IH.
             cbn [firstn]. unfold oks in *. cbn [flat_map]. now rewrite app_assoc.
      + injection Hr as <- <-. destruct k as [|k]; cbn in Ho; [discriminate|]. destruct k; discriminate.
      + injection Hr as <- <-. destruct k as [|k]; cbn in Ho; [discriminate|]. destruct k; discriminate.
  Qed.
End Crc.
