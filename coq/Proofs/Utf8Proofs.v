(* Proofs/Utf8Proofs.v — facts about Spec/Utf8.v only (hand-written spec of std; independent of the
   generated files, so the 1.1M-point sweep below is compiled once and cached). *)
From ZipV Require Import Base.Bytes Base.Sweep Spec.Utf8.
Open Scope N_scope.
Open Scope bool_scope.

Lemma width_ascii b : b2n b < 128 -> width b = 1.
Proof. intro H. unfold width. destruct (b2n b <? 128) eqn:E; [reflexivity|lia]. Qed.

Lemma lossy_ascii bs : is_ascii bs = true -> utf8_lossy bs = bs.
Proof.
  induction bs as [|b r IH]; intro E; [reflexivity|]. cbn [is_ascii forallb] in E.
  apply andb_true_iff in E as [Hb Hr]. cbn [utf8_lossy]. rewrite width_ascii by lia.
  change (1 =? 1) with true. cbn iota. f_equal. now apply IH.
Qed.

(* ---- UTF-8: lossy decoding is the identity on encoded scalar values *)
Definition scalar (c : N) : bool := (c <? 55296) || ((57344 <=? c) && (c <? 1114112)).

Definition valid_enc (c : N) : bool :=
  negb (scalar c) ||
  match utf8_encode_cp c with
  | [b0] => width b0 =? 1
  | [b0; b1] => (width b0 =? 2) && is_cont b1
  | [b0; b1; b2] => (width b0 =? 3) && ok3 b0 b1 && is_cont b2
  | [b0; b1; b2; b3] => (width b0 =? 4) && ok4 b0 b1 && is_cont b2 && is_cont b3
  | _ => false
  end.

Lemma sweep_enc : forallb valid_enc (N_range 1114112) = true.
Proof. vm_compute. reflexivity. Qed.

Lemma lossy_encoded c rest : scalar c = true ->
  utf8_lossy (utf8_encode_cp c ++ rest) = utf8_encode_cp c ++ utf8_lossy rest.
Proof.
  intro Hs.
  assert (Hc : c < 1114112) by (unfold scalar in Hs; lia).
  pose proof (sweep _ _ sweep_enc c Hc) as V. unfold valid_enc in V. rewrite Hs in V. cbn [negb orb] in V.
  destruct (utf8_encode_cp c) as [|b0 [|b1 [|b2 [|b3 [|b4 l]]]]]; try discriminate.
  - apply N.eqb_eq in V. cbn [app utf8_lossy]. rewrite V. reflexivity.
  - apply andb_true_iff in V as [V0 V1]. apply N.eqb_eq in V0.
    cbn [app utf8_lossy]. rewrite V0, V1. reflexivity.
  - apply andb_true_iff in V as [V V2]. apply andb_true_iff in V as [V0 V1]. apply N.eqb_eq in V0.
    cbn [app utf8_lossy]. rewrite V0, V1, V2. reflexivity.
  - apply andb_true_iff in V as [V V3]. apply andb_true_iff in V as [V V2].
    apply andb_true_iff in V as [V0 V1]. apply N.eqb_eq in V0.
    cbn [app utf8_lossy]. rewrite V0, V1, V2, V3. reflexivity.
Qed.

Theorem lossy_encode cps : forallb scalar cps = true -> utf8_lossy (utf8_encode cps) = utf8_encode cps.
Proof.
  induction cps as [|c r IH]; intro H; [reflexivity|]. cbn [forallb] in H.
  apply andb_true_iff in H as [Hc Hr]. unfold utf8_encode. cbn [flat_map].
  rewrite lossy_encoded by assumption. f_equal. now apply IH.
Qed.

