(* Proofs/EncryptedEntry.v — C15, writer side: closing a ZipCrypto-encrypted stored entry on a well-behaved sink.
   What lands in the archive is the PKWARE encryption, under the keys derived from the password, of the 12-byte
   header (its last byte = the high byte of the CRC-32 of the content) followed by the content; the header fields are
   patched to CRC, 12 + |content|, |content|; decrypting with the same password gives the content back. *)
From Coq Require Import ZArith.
From ZipV Require Import Base.Bytes Base.Outcome Gen.GenLib Gen.SpecGen Gen.CompressionGen Gen.TypesGen Gen.WriteGen Gen.ZipCryptoGen
     Model.Readers Model.Reader Model.Writer Proofs.WriterIdeal Proofs.Zip64Proofs Proofs.WriterEntry Proofs.ZipCryptoProofs.
Open Scope N_scope.

(* the header patch, for any payload behind the header *)
Lemma patch_header front f d payload f' :
  w_header_start f' = len front -> w_large f' = false -> w_csize f' <= ZIP64_BYTES_THR ->
  let buf := front ++ lh_bytes f d 0 0 0 ++ payload in
  let buf' := front ++ lh_bytes f d (w_crc f') (w_csize f') (w_usize f') ++ payload in
  exists p, update_local (at_end buf) f' = (dev_at buf' p, Ok tt) /\ len buf' = len buf.
Proof.
  intros Hhs Hlarge Hcs buf buf'.
  unfold update_local. rewrite Hhs, Hlarge.
  rewrite at_end_dev_at, dev_seek_at.
  assert (Hb1 : buf = (front ++ lh_head f d) ++ le 4 0 ++ (le 4 (0 mod 2 ^ 32) ++ le 4 (0 mod 2 ^ 32) ++ lh_tail f ++ payload)).
  { unfold buf, lh_bytes. rewrite <- !app_assoc. reflexivity. }
  rewrite Hb1. replace (len front + 14) with (len (front ++ lh_head f d)) by (rewrite len_app, len_lh_head; reflexivity).
  unfold le32. rewrite (dev_write_all_mid _ (le 4 0) _ (le 4 (w_crc f'))) by (now rewrite !len_le).
  assert ((ZIP64_BYTES_THR <? w_csize f') = false) as -> by (apply N.ltb_ge; exact Hcs).
  cbn [dev_write_chunks].
  replace ((front ++ lh_head f d) ++ le 4 (w_crc f') ++ le 4 (0 mod 2 ^ 32) ++ le 4 (0 mod 2 ^ 32) ++ lh_tail f ++ payload)
    with (((front ++ lh_head f d) ++ le 4 (w_crc f')) ++ le 4 (0 mod 2 ^ 32) ++ (le 4 (0 mod 2 ^ 32) ++ lh_tail f ++ payload))
    by (rewrite <- !app_assoc; reflexivity).
  replace (len (front ++ lh_head f d) + len (le 4 (w_crc f'))) with (len ((front ++ lh_head f d) ++ le 4 (w_crc f')))
    by (now rewrite (len_app (front ++ lh_head f d))).
  rewrite (dev_write_all_mid _ (le 4 (0 mod 2 ^ 32)) _ (le 4 (w_csize f' mod 2 ^ 32))) by (now rewrite !len_le).
  replace (((front ++ lh_head f d) ++ le 4 (w_crc f')) ++ le 4 (w_csize f' mod 2 ^ 32) ++ le 4 (0 mod 2 ^ 32) ++ lh_tail f ++ payload)
    with ((((front ++ lh_head f d) ++ le 4 (w_crc f')) ++ le 4 (w_csize f' mod 2 ^ 32)) ++ le 4 (0 mod 2 ^ 32) ++ (lh_tail f ++ payload))
    by (rewrite <- !app_assoc; reflexivity).
  replace (len ((front ++ lh_head f d) ++ le 4 (w_crc f')) + len (le 4 (w_csize f' mod 2 ^ 32)))
    with (len (((front ++ lh_head f d) ++ le 4 (w_crc f')) ++ le 4 (w_csize f' mod 2 ^ 32)))
    by (now rewrite (len_app ((front ++ lh_head f d) ++ le 4 (w_crc f')))).
  rewrite (dev_write_all_mid _ (le 4 (0 mod 2 ^ 32)) _ (le 4 (w_usize f' mod 2 ^ 32))) by (now rewrite !len_le).
  eexists. split.
  - f_equal. f_equal. unfold buf', lh_bytes. rewrite <- !app_assoc. reflexivity.
  - unfold buf'. rewrite !len_app, len_lh_bytes, len_lh_head, !len_le. unfold lh_tail. rewrite !len_app, !len_le.
    cbn [N.of_nat Pos.of_succ_nat Pos.succ]. lia.
Qed.

(* an open ZipCrypto entry (stored): header out, plaintext (12-byte header placeholder ++ content) buffered *)
Record enc_open (s : wstate) (front : bytes) (f : wfile) (d : N) (content : bytes) (prev : list wfile) (k : zc_keys) : Prop := {
  xo_inner : ws_inner s = WEnc (at_end (front ++ lh_bytes f d 0 0 0)) (repeat x00 12 ++ content) k;
  xo_files : ws_files s = prev ++ [f];
  xo_hs : w_header_start f = len front;
  xo_start : ws_start s = len front + 30 + len (w_name f);
  xo_written : ws_written s = len content;
  xo_hashed : ws_hashed s = content;
  xo_extra : ws_to_extra s = false;
  xo_raw : ws_raw s = false;
  xo_large : w_large f = false }.

(* what ends up in the archive *)
Definition zc_plain (crc : bytes -> N) (content : bytes) : bytes :=
  repeat x00 11 ++ [n2b (N.shiftr (crc content) 24)] ++ content.
Definition zc_payload (crc : bytes -> N) (k : zc_keys) (content : bytes) : bytes := snd (zc_encrypt k (zc_plain crc content)).

Lemma len_zc_payload crc k content : len (zc_payload crc k content) = 12 + len content.
Proof.
  unfold zc_payload, len. rewrite zc_encrypt_len. unfold zc_plain. rewrite !app_length, repeat_length. cbn [length]. lia.
Qed.

Section EncClose.
  Variable enc : CompressionMethod -> Z -> bytes -> bytes.
  Variable crc : bytes -> N.

  Theorem finish_file_encrypted s front f d content prev k :
    enc_open s front f d content prev k -> 12 + len content <= ZIP64_BYTES_THR ->
    exists s',
      finish_file enc crc s = (s', Ok tt) /\
      ws_inner s' = WStorer (at_end (front ++ lh_bytes f d (crc content) (12 + len content) (len content) ++ zc_payload crc k content)) /\
      ws_files s' = prev ++ [wf_set_sizes f (crc content) (len content) (12 + len content)] /\
      ws_to_extra s' = false /\ ws_raw s' = false /\ ws_to_file s' = false.
  Proof.
    intros [Hin Hfiles Hhs Hstart Hwr Hha Hx Hraw Hlarge] Hlen.
    unfold finish_file. rewrite Hx.
    unfold switch_to. rewrite Hin. cbn [cur_method CompressionMethod_eqb].
    rewrite Hin. cbv zeta. rewrite Hha.
    change (firstn 11 (repeat x00 12 ++ content) ++ [n2b (N.shiftr (crc content) 24)] ++ skipn 12 (repeat x00 12 ++ content))
      with (zc_plain crc content).
    destruct (zc_encrypt k (zc_plain crc content)) as [k' ct] eqn:Eenc.
    assert (Hct : ct = zc_payload crc k content) by (unfold zc_payload; rewrite Eenc; reflexivity).
    rewrite dev_write_all_ideal. unfold dev_flush. cbn [dev_event at_end d_plan].
    cbn [set_inner ws_inner ws_raw]. rewrite Hraw.
    cbn [set_inner ws_files]. rewrite Hfiles, last_file_app'.
    unfold with_plain at 1. cbn [set_inner ws_inner]. 
    change {| d_buf := (front ++ lh_bytes f d 0 0 0) ++ ct; d_pos := len ((front ++ lh_bytes f d 0 0 0) ++ ct); d_plan := [] |}
      with (at_end ((front ++ lh_bytes f d 0 0 0) ++ ct)).
    rewrite dev_pos_ideal. cbn [set_inner ws_inner ws_start ws_hashed ws_written ws_files].
    rewrite Hstart, Hha, Hwr.
    set (buf := (front ++ lh_bytes f d 0 0 0) ++ ct).
    assert (Hbl : len buf = len front + 30 + len (w_name f) + (12 + len content)).
    { unfold buf. rewrite !len_app, len_lh_bytes, Hct, len_zc_payload. lia. }
    assert ((len buf <? len front + 30 + len (w_name f)) = false) as -> by (apply N.ltb_ge; lia).
    replace (len buf - (len front + 30 + len (w_name f))) with (12 + len content) by lia.
    set (f' := wf_set_sizes f (crc content) (len content) (12 + len content)).
    unfold with_plain. cbn [set_files set_inner ws_inner].
    assert (Hbuf : buf = front ++ lh_bytes f d 0 0 0 ++ ct) by (unfold buf; rewrite <- app_assoc; reflexivity).
    destruct (patch_header front f d ct f') as (p & Hp & Hpl); [exact Hhs|exact Hlarge|exact Hlen|]. cbv zeta in Hp, Hpl.
    rewrite <- Hbuf in Hp, Hpl. rewrite Hp. rewrite dev_seek_at. rewrite <- Hpl, <- at_end_dev_at.
    eexists. split; [reflexivity|].
    cbn [set_flags set_inner set_files ws_inner ws_files ws_to_extra ws_raw ws_to_file].
    subst f'. cbn [wf_set_sizes w_crc w_csize w_usize]. rewrite Hct, Hx, Hfiles. repeat split.
    unfold upd_last. rewrite rev_unit. cbn [rev app]. now rewrite rev_involutive.
  Qed.

  (* decrypting what was written, with the same keys, gives the check byte and the content back *)
  Theorem zc_payload_decrypts k content :
    exists k', zc_decrypt k (zc_payload crc k content) = (k', zc_plain crc content) /\
               b2n (nth 11 (zc_plain crc content) x00) = N.shiftr (crc content) 24 mod 256 /\
               skipn 12 (zc_plain crc content) = content.
  Proof.
    unfold zc_payload. rewrite decrypt_encrypt. eexists. split; [reflexivity|]. split.
    - unfold zc_plain. cbn [repeat app nth]. apply b2n_n2b.
    - reflexivity.
  Qed.
End EncClose.
