(* Proofs/WriterIdeal.v — the writer model over an ideal sink (no short writes, no failures, positioned
   at its end): device lemmas, and the raw-copy theorem of C14. *)
From Coq Require Import ZArith.
From ZipV Require Import Base.Bytes Base.Outcome Gen.GenLib Gen.SpecGen Gen.CompressionGen Gen.TypesGen Gen.WriteGen
     Model.Readers Model.Reader Model.Writer.
Open Scope N_scope.

Definition ideal (d : dev) : Prop := d_plan d = [] /\ d_pos d = len (d_buf d).
Definition at_end (b : bytes) : dev := {| d_buf := b; d_pos := len b; d_plan := [] |}.

Lemma ideal_at_end d : ideal d -> d = at_end (d_buf d).
Proof. destruct d as [b p pl]. unfold ideal, at_end. cbn. intros [-> ->]. reflexivity. Qed.

Lemma take_all bs : take (len bs) bs = bs.
Proof. rewrite <- (app_nil_r bs) at 2. apply take_app_exact. Qed.
Lemma drop_all bs n : len bs <= n -> drop n bs = [].
Proof.
  intro H. rewrite drop_skipn. apply skipn_all2. unfold len in H. lia.
Qed.

Lemma put_at_end b bs : put_at b (len b) bs = b ++ bs.
Proof.
  unfold put_at. rewrite take_all. rewrite N.sub_diag. cbn [zeros N.to_nat repeat app].
  rewrite drop_all by lia. now rewrite app_nil_r.
Qed.

Lemma dev_write_ideal b bs : dev_write (at_end b) bs = (at_end (b ++ bs), Ok (len bs)).
Proof.
  unfold dev_write, at_end. cbn [d_plan d_buf d_pos]. rewrite put_at_end, len_app. reflexivity.
Qed.

Lemma dev_write_all_ideal b bs : dev_write_all (at_end b) bs = (at_end (b ++ bs), Ok tt).
Proof.
  unfold dev_write_all. destruct bs as [|x r]; [now rewrite app_nil_r|].
  cbn [dev_write_all_fuel]. rewrite dev_write_ideal.
  assert ((len (x :: r) =? 0) = false) as -> by (unfold len; cbn [length]; lia).
  rewrite drop_all by lia. destruct (length (x :: r)); reflexivity.
Qed.

Lemma dev_write_chunks_ideal cs : forall b, dev_write_chunks (at_end b) cs = (at_end (b ++ concat cs), Ok tt).
Proof.
  induction cs as [|c r IH]; intro b; cbn [dev_write_chunks concat]; [now rewrite app_nil_r|].
  rewrite dev_write_all_ideal, IH. now rewrite app_assoc.
Qed.

Lemma dev_pos_ideal b : dev_pos (at_end b) = (at_end b, Ok (len b)).
Proof. reflexivity. Qed.

(* ---------- starting an entry on an ideal sink *)
Section Ideal.
  Variable enc : CompressionMethod -> Z -> bytes -> bytes.
  Variable crc : bytes -> N.

  Definition after_header (s1 : wstate) (b : bytes) (hdr : list bytes) (f0 : wfile) : wstate :=
    set_files (set_stats (set_inner s1 (WStorer (at_end (b ++ concat hdr)))) (len b + len (concat hdr)) 0 [])
              (ws_files s1 ++ [wf_set_data_start f0 (len b + len (concat hdr))]).

  Lemma start_entry_ideal s s1 b name o raw hdr :
    finish_file enc crc s = (s1, Ok tt) -> ws_inner s1 = WStorer (at_end b) ->
    len name <= 65535 -> o_encrypt o = None ->
    local_header_chunks (mk_wfile name o raw (len b)) = Ok hdr ->
    start_entry enc crc s name o raw = (after_header s1 b hdr (mk_wfile name o raw (len b)), Ok tt).
  Proof.
    intros Hff Hin Hn He Hh. unfold start_entry.
    assert ((65535 <? len name) = false) as -> by lia.
    rewrite Hff. unfold with_plain. rewrite Hin. rewrite dev_pos_ideal.
    cbn [set_inner ws_inner]. rewrite Hh. rewrite dev_write_chunks_ideal.
    cbn [set_inner ws_inner]. rewrite dev_pos_ideal. rewrite He. cbn [set_inner ws_inner ws_files].
    rewrite len_app. reflexivity.
  Qed.

  (* one write_all of a whole buffer into a plain ideal sink *)
  Lemma zw_write_all_ideal s b buf :
    ws_to_file s = true -> ws_to_extra s = false -> ws_inner s = WStorer (at_end b) ->
    (ZIP64_BYTES_THR <? ws_written s + len buf) && negb (match last_file (ws_files s) with Some f => w_large f | None => false end) = false ->
    zw_write_all s buf =
      (match buf with [] => s | _ =>
         set_stats (set_inner s (WStorer (at_end (b ++ buf)))) (ws_start s) (ws_written s + len buf) (ws_hashed s ++ buf) end, Ok tt).
  Proof.
    intros Hf Hx Hin Hl. unfold zw_write_all. destruct buf as [|x r]; [reflexivity|].
    set (buf := x :: r) in *. cbn [zw_write_all_fuel]. fold buf.
    unfold zw_write. rewrite Hf, Hx, Hin. cbn [negb]. rewrite dev_write_ideal.
    cbn [set_inner set_stats ws_inner ws_files ws_written]. rewrite Hl. rewrite take_all.
    assert ((len buf =? 0) = false) as -> by (unfold len, buf; cbn [length]; lia).
    rewrite drop_all by lia. destruct (length buf); reflexivity.
  Qed.

  (* closing an entry that is in raw mode touches neither the sink nor the records *)
  Lemma finish_file_raw s d :
    ws_to_extra s = false -> ws_inner s = WStorer d -> ws_raw s = true ->
    finish_file enc crc s = (set_flags s false false (ws_central_only s) false, Ok tt).
  Proof.
    intros Hx Hin Hr. unfold finish_file. rewrite Hx. unfold switch_to. rewrite Hin.
    cbn [cur_method CompressionMethod_eqb]. rewrite Hin. rewrite Hr, Hx. now rewrite Hin.
  Qed.
End Ideal.

(* ---------- raw copy *)
Definition raw_opts (src : zfd) : wopts :=
  {| o_method := f_method src; o_level := None; o_time := f_time src;
     o_perm := unix_mode src;
     o_large := ZIP64_BYTES_THR <? N.max (f_csize src) (f_usize src); o_encrypt := None |}.

(* the record the writer keeps for a raw-copied entry: everything but name and offsets comes from the source *)
Definition raw_file (src : zfd) (name : bytes) (header_start data_start : N) : wfile :=
  {| w_system := 3; w_made_by := DEFAULT_VERSION; w_encrypted := false;
     w_method := f_method src; w_level := None; w_time := f_time src;
     w_crc := f_crc src; w_csize := f_csize src; w_usize := f_usize src;
     w_name := name; w_extra := []; w_header_start := header_start; w_data_start := data_start;
     w_ext_attr := ((match unix_mode src with Some m => m | None => 33188 end) * 65536) mod 2 ^ 32;
     w_large := ZIP64_BYTES_THR <? N.max (f_csize src) (f_usize src) |}.

Section RawCopy.
  Variable enc : CompressionMethod -> Z -> bytes -> bytes.
  Variable crc : bytes -> N.

  (* Any state in which closing the previous entry succeeds and leaves an ideal sink holding [b]. *)
  Theorem raw_copy_exact s s1 b src raw name hdr :
    finish_file enc crc s = (s1, Ok tt) -> ws_inner s1 = WStorer (at_end b) -> ws_to_extra s1 = false ->
    len name <= 65535 -> len raw = f_csize src ->
    local_header_chunks (raw_file src name (len b) 0) = Ok hdr ->
    let f := raw_file src name (len b) (len b + len (concat hdr)) in
    exists s2,
      raw_copy enc crc s src raw name = (s2, Ok tt) /\
      ws_inner s2 = WStorer (at_end (b ++ concat hdr ++ raw)) /\
      ws_files s2 = ws_files s1 ++ [f] /\
      ws_raw s2 = true /\
      (* closing the copied entry recomputes nothing: same sink bytes, same records *)
      exists s3, finish_file enc crc s2 = (s3, Ok tt) /\
        ws_inner s3 = ws_inner s2 /\ ws_files s3 = ws_files s2 /\ ws_to_file s3 = false /\ ws_raw s3 = false.
  Proof.
    intros Hff Hin Hex Hn Hraw Hh f.
    assert (Hmk : mk_wfile name (raw_opts src) (Some (f_crc src, f_csize src, f_usize src)) (len b) = raw_file src name (len b) 0).
    { unfold mk_wfile, raw_file, raw_opts. cbn [o_perm o_encrypt o_method o_level o_time o_large opt_is_some].
      destruct (unix_mode src); reflexivity. }
    unfold raw_copy. fold (raw_opts src).
    rewrite (start_entry_ideal enc crc s s1 b name (raw_opts src) _ hdr Hff Hin Hn eq_refl) by (now rewrite Hmk).
    rewrite Hmk. change (wf_set_data_start (raw_file src name (len b) 0) (len b + len (concat hdr))) with f.
    rewrite zw_write_all_ideal with (b := b ++ concat hdr); cbn [after_header ws_to_file ws_to_extra ws_inner ws_written ws_files set_flags set_files set_stats set_inner]; try reflexivity; try assumption.
    2:{ unfold last_file. rewrite rev_unit. unfold f, raw_file. cbn [w_large wf_set_data_start]. rewrite Hraw.
        destruct (ZIP64_BYTES_THR <? 0 + f_csize src) eqn:E; [|reflexivity].
        cbn [andb]. apply Bool.negb_false_iff. lia. }
    destruct raw as [|r0 rr].
    - eexists. split; [reflexivity|]. cbn [ws_inner ws_files ws_raw set_flags set_files set_stats set_inner].
      rewrite app_nil_r. repeat split.
      eexists. split; [eapply finish_file_raw; cbn [ws_inner ws_to_extra ws_raw set_flags set_files set_stats set_inner]; try reflexivity; assumption|].
      repeat split.
    - eexists. split; [reflexivity|]. cbn [ws_inner ws_files ws_raw set_flags set_files set_stats set_inner].
      rewrite <- app_assoc. repeat split.
      eexists. split; [eapply finish_file_raw; cbn [ws_inner ws_to_extra ws_raw set_flags set_files set_stats set_inner]; try reflexivity; assumption|].
      repeat split.
  Qed.
End RawCopy.
