(* Proofs/RawCopyRead.v — C14: the bytes a raw copy puts into the archive are found again by the reader:
   find_content on the copied entry points exactly at them. *)
From Coq Require Import ZArith.
From ZipV Require Import Base.Bytes Base.Outcome Gen.GenLib Gen.SpecGen Gen.CompressionGen Gen.TypesGen Gen.WriteGen
     Model.Readers Model.Reader Model.Writer Proofs.Zip64Proofs Proofs.CentralRoundtrip Proofs.WriterIdeal Proofs.EntryRead.
Open Scope N_scope.

(* any local header the writer emits for a record without user extra data has the shape the reader relies on *)
Lemma local_chunks_shape f hdr : local_header_chunks f = Ok hdr -> w_extra f = [] -> len (w_name f) <= 65535 ->
  exists lh extra, concat hdr = lh ++ w_name f ++ extra /\ local_fixed_ok lh (len (w_name f)) (len extra) /\ len extra <= 65535.
Proof.
  unfold local_header_chunks. intros H Hx Hn.
  destruct (DateTime_datepart (w_time f)) as [d|]; cbn [of_opt bind] in H; [|discriminate].
  rewrite Hx in H. change (len []) with 0 in H. rewrite N.mod_0_l in H by lia.
  unfold add_chk, fits in H.
  destruct (w_large f) eqn:El; cbn [N.add N.ltb N.compare of_opt bind] in H; injection H as <-.
  - exists (le 4 LOCAL_FILE_HEADER_SIGNATURE ++
            (le 2 (version_needed f) ++ le 2 (flag_of f) ++ le 2 (CompressionMethod_to_u16 (w_method f)) ++ le 2 (DateTime_timepart (w_time f)) ++ le 2 d ++
             le 4 (w_crc f) ++ le 4 ZIP64_BYTES_THR ++ le 4 ZIP64_BYTES_THR) ++ le 2 (len (w_name f)) ++ le 2 20),
           (le 2 1 ++ le 2 16 ++ le 8 (w_usize f) ++ le 8 (w_csize f)).
    split; [|split].
    + unfold le16, le32, le64. cbn [concat app]. rewrite (N.mod_small (len (w_name f)) 65536) by lia. rewrite ?app_nil_r, <- !app_assoc. reflexivity.
    + eexists. split; [|rewrite !len_app, !len_le; reflexivity]. rewrite !len_app, !len_le. reflexivity.
    + rewrite !len_app, !len_le. cbn. lia.
  - exists (le 4 LOCAL_FILE_HEADER_SIGNATURE ++
            (le 2 (version_needed f) ++ le 2 (flag_of f) ++ le 2 (CompressionMethod_to_u16 (w_method f)) ++ le 2 (DateTime_timepart (w_time f)) ++ le 2 d ++
             le 4 (w_crc f) ++ le 4 (w_csize f mod 2 ^ 32) ++ le 4 (w_usize f mod 2 ^ 32)) ++ le 2 (len (w_name f)) ++ le 2 0), [].
    split; [|split].
    + unfold le16, le32. cbn [concat app]. rewrite (N.mod_small (len (w_name f)) 65536) by lia. rewrite ?app_nil_r, <- !app_assoc. reflexivity.
    + eexists. split; [|reflexivity]. rewrite !len_app, !len_le. reflexivity.
    + unfold len; cbn; lia.
Qed.

(* after a raw copy onto a well-behaved sink, whatever is written later, the reader locates exactly the copied bytes *)
Theorem raw_copy_found b hdr raw rest src name g :
  local_header_chunks (raw_file src name (len b) 0) = Ok hdr -> len name <= 65535 ->
  f_header_start g = len b -> f_csize g = len raw -> len b + len (concat hdr) < 2 ^ 64 ->
  exists ds t, find_content (b ++ concat hdr ++ raw ++ rest) g = Ok (ds, t) /\ ds = len b + len (concat hdr) /\
               take (f_csize g) (s_data (t_inner t)) = raw /\ t_limit t = len raw.
Proof.
  intros Hh Hn Hhs Hcs Hfit.
  destruct (local_chunks_shape _ hdr Hh eq_refl Hn) as (lh & extra & Hc & Hok & Hel). cbn [raw_file w_name] in Hc, Hok.
  assert (Hlh : len lh = 30).
  { destruct Hok as (mid & Hm & ->). rewrite !len_app, !len_le, Hm. reflexivity. }
  assert (Hlen : len (concat hdr) = 30 + len name + len extra) by (rewrite Hc, !len_app, Hlh; lia).
  rewrite Hc, <- !app_assoc.
  rewrite (find_content_rendered b lh name extra raw rest g Hok Hn Hel Hhs) by (rewrite Hlen in Hfit; lia).
  do 2 eexists. split; [reflexivity|]. split; [rewrite !len_app, Hlh; lia|].
  cbn [t_inner s_data t_limit]. split; [rewrite Hcs; apply take_app_exact|exact Hcs].
Qed.
