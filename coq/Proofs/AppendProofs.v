(* Proofs/AppendProofs.v — C13: what opening for append establishes. *)
From Coq Require Import ZArith.
From ZipV Require Import Base.Bytes Base.Outcome Gen.CompressionGen Gen.WriteGen Model.Readers Model.Reader Model.Writer.
Open Scope N_scope.

Lemma new_append_state data plan s :
  new_append data plan = Ok s ->
  exists e cde ao ds n files,
    find_eocd data = Ok (e, cde) /\ get_directory_counts data e cde = Ok (ao, ds, n) /\
    parse_cd (S (length data)) data n ds ao = Ok files /\ ds <= cde /\
    ws_inner s = WStorer {| d_buf := data; d_pos := ds; d_plan := plan |} /\
    ws_files s = map wfile_of_zfd files /\ ws_comment s = e_comment e /\ ws_raw s = true /\
    ws_to_file s = false /\ ws_to_extra s = false.
Proof.
  unfold new_append. intro H.
  destruct (find_eocd data) as [[e cde]| |] eqn:E1; cbn [bind] in H; try discriminate.
  destruct (negb (e_disk e =? e_disk_cd e)); [discriminate|].
  destruct (get_directory_counts data e cde) as [[[ao ds] n]| |] eqn:E2; cbn [bind] in H; try discriminate.
  destruct (cde <? ds) eqn:E3; [discriminate|].
  destruct (parse_cd (S (length data)) data n ds ao) as [files| |] eqn:E4; cbn [bind] in H; try discriminate.
  injection H as <-. exists e, cde, ao, ds, n, files. cbn [ws_inner ws_files ws_comment ws_raw ws_to_file ws_to_extra]. apply N.ltb_ge in E3. repeat split; try reflexivity; assumption.
Qed.
