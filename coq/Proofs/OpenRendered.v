(* Proofs/OpenRendered.v — the reader model on a directory rendered by the writer model:
   parse_cd over the concatenated central records, find_eocd on the end records, and [open] on the whole. *)
From Coq Require Import ZArith.
From ZipV Require Import Base.Bytes Base.Outcome Gen.GenLib Gen.SpecGen Gen.CompressionGen Gen.TypesGen Gen.WriteGen
     Spec.Utf8 Model.Cp437 Model.Readers Model.Reader Model.Writer Proofs.Zip64Proofs Proofs.CentralRoundtrip.
Open Scope N_scope.

(* one rendered record per file *)
Definition rendered (f : wfile) (cs : list bytes) : Prop := wf_central f 0 /\ central_header_chunks f = Ok cs.

(* the records the reader must produce, with the position of each *)
Inductive decoded_list : list wfile -> list (list bytes) -> N -> list zfd -> Prop :=
| DLnil pos : decoded_list [] [] pos []
| DLcons f cs fs css pos dt gs :
    (exists d, DateTime_datepart (w_time f) = Some d /\ DateTime_from_msdos d (DateTime_timepart (w_time f)) = Some dt) ->
    decoded_list fs css (pos + len (concat cs)) gs ->
    decoded_list (f :: fs) (cs :: css) pos (decoded f dt 0 pos :: gs).

Lemma parse_cd_rendered : forall files css, Forall2 rendered files css ->
  forall pre post fuel, (length files <= fuel)%nat ->
  exists gs, parse_cd fuel (pre ++ concat (map (@concat byte) css) ++ post) (N.of_nat (length files)) (len pre) 0 = Ok gs /\
             decoded_list files css (len pre) gs.
Proof.
  induction 1 as [|f cs fs css [W Hcs] HF IH]; intros pre post fuel Hf.
  - exists []. split; [|constructor]. destruct fuel; reflexivity.
  - destruct fuel as [|fu]; [cbn [length] in Hf; lia|].
    cbn [length map concat]. cbn [parse_cd].
    assert ((N.of_nat (S (length fs)) =? 0) = false) as -> by (apply N.eqb_neq; lia).
    rewrite <- app_assoc.
    destruct (central_roundtrip f 0 cs pre (concat (map (@concat byte) css) ++ post) W Hcs) as (d & dt & Hd & Hdt & Hp).
    rewrite Hp. cbn [bind].
    replace (N.of_nat (S (length fs)) - 1) with (N.of_nat (length fs)) by lia.
    destruct (IH (pre ++ concat cs) post fu) as (gs & Hgs & Hdl); [cbn [length] in Hf; lia|].
    rewrite <- app_assoc in Hgs. rewrite len_app in Hgs, Hdl. rewrite Hgs. cbn [bind].
    eexists. split; [reflexivity|]. econstructor; [exists d; auto|exact Hdl].
Qed.

(* ---------- the backward search for the end record *)
Lemma last_sig_none tl : forall off limit sig best, limit < off -> last_sig tl off limit sig best = best.
Proof.
  induction tl as [|b r IH]; intros off limit sig best H; cbn [last_sig]; [reflexivity|].
  assert ((off <=? limit) = false) as -> by (apply N.leb_gt; lia). cbn [andb]. apply IH. lia.
Qed.

Lemma drop_succ (x : byte) r i : drop (i + 1) (x :: r) = drop i r.
Proof. rewrite !drop_skipn. replace (N.to_nat (i + 1)) with (S (N.to_nat i)) by lia. reflexivity. Qed.
Lemma drop_0 (l : bytes) : drop 0 l = l.
Proof. rewrite drop_skipn. reflexivity. Qed.

(* no occurrence within the limit: the scan keeps its candidate *)
Lemma last_sig_nomore r : forall off limit sig best,
  (forall i, off + i <= limit -> i < len r -> starts_with_sig (drop i r) sig = false) ->
  last_sig r off limit sig best = best.
Proof.
  induction r as [|x r IH]; intros off limit sig best H; cbn [last_sig]; [reflexivity|].
  destruct (off <=? limit) eqn:E; cbn [andb].
  - apply N.leb_le in E. pose proof (H 0) as H0. rewrite drop_0 in H0. rewrite H0 by (unfold len; cbn [length]; lia).
    apply IH. intros i Hi Hl. rewrite <- (drop_succ x). apply H; [lia|unfold len in *; cbn [length]; lia].
  - apply IH. intros i Hi Hl. apply N.leb_gt in E. lia.
Qed.

(* the signature stands right behind [a], within the limit, and nowhere later within the limit *)
Lemma last_sig_found a : forall rest off limit sig best,
  off + len a <= limit -> starts_with_sig rest sig = true ->
  (forall i, 0 < i -> off + len a + i <= limit -> i < len rest -> starts_with_sig (drop i rest) sig = false) ->
  last_sig (a ++ rest) off limit sig best = Some (off + len a).
Proof.
  induction a as [|x a IH]; intros rest off limit sig best Hl Hs Hn.
  - cbn [app]. change (len []) with 0 in *. rewrite N.add_0_r in *.
    destruct rest as [|b r]; [discriminate|]. cbn [last_sig].
    assert ((off <=? limit) = true) as -> by (apply N.leb_le; lia). rewrite Hs. cbn [andb].
    apply last_sig_nomore. intros i Hi Hlen. rewrite <- (drop_succ b). apply Hn; [lia|lia|unfold len in *; cbn [length]; lia].
  - cbn [app last_sig].
    replace (off + len (x :: a)) with (off + 1 + len a) in * by (unfold len; cbn [length]; lia).
    apply IH; auto.
Qed.

Lemma drop_app_le (a b : bytes) n : n <= len a -> drop n (a ++ b) = drop n a ++ b.
Proof.
  intro H. rewrite !drop_skipn, skipn_app.
  replace (N.to_nat n - length a)%nat with 0%nat by (unfold len in H; lia). reflexivity.
Qed.

Lemma starts_with_sig_le sig rest : sig < 4294967296 -> starts_with_sig (le 4 sig ++ rest) sig = true.
Proof.
  intro H. assert (E : exists a b c d, le 4 sig = [a; b; c; d]) by (repeat eexists; reflexivity).
  destruct E as (a & b & c & d & E). rewrite E. cbn [app starts_with_sig]. rewrite <- E. rewrite unle_le4 by exact H. apply N.eqb_refl.
Qed.

(* the end record is the last place where its signature occurs (always true for an empty comment) *)
Definition no_later_sig (n sz cs : N) (comment : bytes) : Prop :=
  forall i, 0 < i -> i <= len comment ->
    starts_with_sig (drop i (eocd_bytes n sz cs comment)) CENTRAL_DIRECTORY_END_SIGNATURE = false.

Lemma no_later_sig_empty n sz cs : no_later_sig n sz cs [].
Proof. intros i H1 H2. change (len []) with 0 in H2. lia. Qed.

Lemma len_eocd_bytes n sz cs comment : len (eocd_bytes n sz cs comment) = 22 + len comment.
Proof. unfold eocd_bytes. rewrite !len_app, !len_le. cbn [N.of_nat Pos.of_succ_nat Pos.succ]. lia. Qed.

Lemma find_eocd_rendered body n sz cs comment : len comment <= 65535 -> no_later_sig n sz cs comment ->
  find_eocd (body ++ eocd_bytes n sz cs comment) =
    Ok ({| e_disk := 0; e_disk_cd := 0; e_n_disk := N.min n ZIP64_ENTRY_THR; e_n := N.min n ZIP64_ENTRY_THR;
           e_cd_size := N.min sz ZIP64_BYTES_THR; e_cd_off := N.min cs ZIP64_BYTES_THR; e_comment := comment |}, len body).
Proof.
  intros Hc Hn. unfold find_eocd. rewrite len_app, len_eocd_bytes.
  assert ((len body + (22 + len comment) <? 22) = false) as -> by (apply N.ltb_ge; lia).
  set (bound := len body + (22 + len comment) - (22 + 65535)).
  assert (Hb : bound <= len body) by (subst bound; lia).
  rewrite drop_app_le by exact Hb.
  rewrite (last_sig_found (drop bound body) (eocd_bytes n sz cs comment) bound).
  - rewrite len_drop. replace (bound + (len body - bound)) with (len body) by lia.
    rewrite parse_eocd_rendered by exact Hc. reflexivity.
  - rewrite len_drop. lia.
  - unfold eocd_bytes. apply starts_with_sig_le. unfold CENTRAL_DIRECTORY_END_SIGNATURE. lia.
  - intros i Hi Hl _. apply Hn; [exact Hi|]. rewrite len_drop in Hl. lia.
Qed.

Lemma rendered_len f cs : rendered f cs -> 46 <= len (concat cs).
Proof.
  intros [_ H]. destruct (central_chunks_flat f cs H) as (d & _ & _ & E). rewrite E, len_app, len_central_fixed. lia.
Qed.

Lemma dir_len files css : Forall2 rendered files css -> N.of_nat (length files) <= len (concat (map (@concat byte) css)).
Proof.
  induction 1 as [|f cs fs css R HF IH]; cbn [length map concat]; [unfold len; cbn; lia|].
  rewrite len_app. pose proof (rendered_len f cs R). lia.
Qed.

(* ---------- the reader on everything the writer puts behind the entries *)
Theorem open_rendered front files css comment gs :
  Forall2 rendered files css ->
  let dir := concat (map (@concat byte) css) in
  let n := N.of_nat (length files) in
  let cstart := len front in let csize := len dir in
  cstart + csize < 2 ^ 64 -> len comment <= 65535 ->
  (needs64 n csize cstart = false -> no_locator_before (front ++ dir)) ->
  no_later_sig n csize cstart comment ->
  decoded_list files css cstart gs ->
  exists data, data = front ++ dir ++ concat (end_records n cstart csize comment) /\
    open data = Ok {| ar_data := data; ar_files := gs; ar_offset := 0; ar_comment := comment |}.
Proof.
  intros HF dir n cstart csize Hoff Hc Hloc Hlater Hdl.
  eexists. split; [reflexivity|].
  rewrite end_records_flat.
  assert (Hn64 : n < 2 ^ 64).
  { pose proof (dir_len _ _ HF) as X. fold dir in X. fold csize in X. subst n. lia. }
  unfold open.
  set (z := if needs64 n csize cstart then z64_bytes n csize cstart else []).
  replace (front ++ dir ++ z ++ eocd_bytes n csize cstart comment)
    with (((front ++ dir) ++ z) ++ eocd_bytes n csize cstart comment) by (rewrite <- !app_assoc; reflexivity).
  rewrite find_eocd_rendered by assumption. cbn [bind e_disk e_disk_cd].
  rewrite N.eqb_refl. cbn [negb]. rewrite Bool.andb_false_r.
  assert (Hcounts : get_directory_counts (((front ++ dir) ++ z) ++ eocd_bytes n csize cstart comment)
                      {| e_disk := 0; e_disk_cd := 0; e_n_disk := N.min n ZIP64_ENTRY_THR; e_n := N.min n ZIP64_ENTRY_THR;
                         e_cd_size := N.min csize ZIP64_BYTES_THR; e_cd_off := N.min cstart ZIP64_BYTES_THR; e_comment := comment |}
                      (len ((front ++ dir) ++ z)) = Ok (0, cstart, n)).
  { subst z. destruct (needs64 n csize cstart) eqn:E64.
    - rewrite <- app_assoc. rewrite len_app, len_z64_bytes.
      apply counts_zip64; try assumption.
      + rewrite len_app. subst cstart csize. reflexivity.
      + replace (len (front ++ dir) + 76) with (len ((front ++ dir) ++ z64_bytes n csize cstart)) by (rewrite len_app, len_z64_bytes; reflexivity).
        rewrite app_assoc. apply parse_eocd_rendered. exact Hc.
    - rewrite app_nil_r. apply counts_small; try assumption.
      + rewrite len_app. subst cstart csize. reflexivity.
      + now apply Hloc.
      + apply parse_eocd_rendered. exact Hc. }
  rewrite Hcounts. cbn [bind].
  replace (((front ++ dir) ++ z) ++ eocd_bytes n csize cstart comment)
    with (front ++ dir ++ (z ++ eocd_bytes n csize cstart comment)) by (rewrite <- !app_assoc; reflexivity).
  destruct (parse_cd_rendered files css HF front (z ++ eocd_bytes n csize cstart comment)
              (S (length (front ++ dir ++ z ++ eocd_bytes n csize cstart comment)))) as (gs' & Hgs & Hdl').
  { pose proof (dir_len _ _ HF) as X. fold dir in X. rewrite !app_length. unfold len in X. lia. }
  fold dir in Hgs. fold n in Hgs. fold cstart in Hgs. rewrite Hgs. cbn [bind].
  assert (gs' = gs).
  { clear - Hdl Hdl'. fold cstart in Hdl'. revert gs' Hdl'. induction Hdl; intros gs' H'; inversion H'; subst; [reflexivity|].
    f_equal.
    - match goal with H1 : exists d, _ /\ DateTime_from_msdos d _ = Some dt, H2 : exists d, _ /\ DateTime_from_msdos d _ = Some ?dt' |- _ =>
        destruct H1 as (d1 & A1 & B1); destruct H2 as (d2 & A2 & B2); rewrite A1 in A2; injection A2 as <-; rewrite B1 in B2; injection B2 as <- end.
      reflexivity.
    - apply IHHdl. assumption. }
  subst gs'. reflexivity.
Qed.

(* ---------- finish() on a well-behaved sink writes exactly that directory, and the reader lists the writer's records *)
From ZipV Require Import Proofs.WriterIdeal.

Lemma write_central_all_ideal files : forall css b, Forall2 (fun f cs => central_header_chunks f = Ok cs) files css ->
  write_central_all (at_end b) files = (at_end (b ++ concat (map (@concat byte) css)), Ok tt).
Proof.
  induction files as [|f fs IH]; intros css b H; inversion H as [|? cs ? css' Hc HF]; subst; cbn [write_central_all map concat].
  - now rewrite app_nil_r.
  - rewrite Hc, dev_write_chunks_ideal. rewrite (IH css' _ HF). now rewrite <- app_assoc.
Qed.

Lemma dev_seek_end_ideal b : dev_seek_end (at_end b) = (at_end b, Ok (len b)).
Proof. reflexivity. Qed.

Section Finish.
  Variable enc : CompressionMethod -> Z -> bytes -> bytes.
  Variable crc : bytes -> N.

  Theorem finish_ideal s s1 b css :
    finish_file enc crc s = (s1, Ok tt) -> ws_inner s1 = WStorer (at_end b) ->
    len (ws_comment s) <= 65535 -> ws_comment s1 = ws_comment s ->
    Forall2 (fun f cs => central_header_chunks f = Ok cs) (ws_files s1) css ->
    let dir := concat (map (@concat byte) css) in
    exists s2, finish enc crc s = (s2, Ok (b ++ dir ++ concat (end_records (N.of_nat (length (ws_files s1))) (len b) (len dir) (ws_comment s)))).
  Proof.
    intros Hff Hin Hc Hcm HF dir. unfold finish, finalize.
    assert ((65535 <? len (ws_comment s)) = false) as -> by (apply N.ltb_ge; exact Hc).
    rewrite Hff. unfold with_plain. rewrite Hin.
    unfold write_cd_footer at 1. rewrite dev_pos_ideal.
    rewrite (write_central_all_ideal _ css b HF). fold dir.
    rewrite dev_pos_ideal. rewrite len_app.
    assert ((len b + len dir <? len b) = false) as -> by (apply N.ltb_ge; lia).
    replace (len b + len dir - len b) with (len dir) by lia.
    rewrite dev_write_chunks_ideal. rewrite Hcm.
    set (out := (b ++ dir) ++ concat (end_records (N.of_nat (length (ws_files s1))) (len b) (len dir) (ws_comment s))).
    rewrite dev_pos_ideal, dev_seek_end_ideal. rewrite N.ltb_irrefl.
    cbn [set_inner ws_inner]. eexists. subst out. rewrite <- app_assoc. reflexivity.
  Qed.
End Finish.

Lemma decoded_list_exists files css : Forall2 rendered files css -> forall pos, exists gs, decoded_list files css pos gs.
Proof.
  induction 1 as [|f cs fs css [W Hcs] HF IH]; intro pos; [exists []; constructor|].
  destruct (central_chunks_flat f cs Hcs) as (d & Hd & _ & _).
  destruct (from_msdos_total d (DateTime_timepart (w_time f)) (wc_dp _ _ W d Hd)) as [dt Hdt].
  destruct (IH (pos + len (concat cs))) as [gs Hgs].
  eexists. econstructor; [exists d; split; eassumption|exact Hgs].
Qed.

Lemma Forall2_rendered_chunks files css : Forall2 rendered files css ->
  Forall2 (fun f cs => central_header_chunks f = Ok cs) files css.
Proof. induction 1 as [|f cs fs css [_ H] HF IH]; constructor; auto. Qed.

(* finish, then open: the reader lists exactly the writer's records, in order, with offset 0 and the comment *)
Theorem finish_then_open enc crc s s1 b css :
  finish_file enc crc s = (s1, Ok tt) -> ws_inner s1 = WStorer (at_end b) ->
  len (ws_comment s) <= 65535 -> ws_comment s1 = ws_comment s ->
  Forall2 rendered (ws_files s1) css ->
  let dir := concat (map (@concat byte) css) in
  let n := N.of_nat (length (ws_files s1)) in
  len b + len dir < 2 ^ 64 ->
  (needs64 n (len dir) (len b) = false -> no_locator_before (b ++ dir)) ->
  no_later_sig n (len dir) (len b) (ws_comment s) ->
  exists s2 data gs,
    finish enc crc s = (s2, Ok data) /\
    open data = Ok {| ar_data := data; ar_files := gs; ar_offset := 0; ar_comment := ws_comment s |} /\
    decoded_list (ws_files s1) css (len b) gs.
Proof.
  intros Hff Hin Hc Hcm HR dir n Hoff Hloc Hlater.
  destruct (finish_ideal enc crc s s1 b css Hff Hin Hc Hcm (Forall2_rendered_chunks _ _ HR)) as [s2 Hfin].
  destruct (decoded_list_exists _ _ HR (len b)) as [gs Hgs].
  destruct (open_rendered b (ws_files s1) css (ws_comment s) gs HR Hoff Hc Hloc Hlater Hgs) as (data & Hdata & Hopen).
  exists s2, data, gs. subst data. split; [exact Hfin|]. split; [exact Hopen|exact Hgs].
Qed.
