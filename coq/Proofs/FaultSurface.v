(* Proofs/FaultSurface.v — C11, writer side: an injected failure surfaces as an error of the very call during which
   it happened.  The sink's plan is consumed front to back; [clean p p'] says that the part consumed between two
   states contains no failure.  Every sink primitive that returns Ok consumed a clean part, and every writer
   function that returns Ok only performed sink operations that returned Ok: no error is swallowed on the way up
   (Drop is not a Result-returning call and is excluded: it ignores errors by design). *)
From Coq Require Import ZArith Lia List.
From ZipV Require Import Base.Bytes Base.Outcome Gen.GenLib Gen.SpecGen Gen.CompressionGen Gen.TypesGen Gen.WriteGen
     Model.Readers Model.Reader Model.Writer Model.WriterCalls Proofs.ShortWrites.
Import ListNotations.
Open Scope N_scope.

Definition clean (p p' : list wev) : Prop := exists used, p = used ++ p' /\ nofail used.

Lemma clean_refl p : clean p p.
Proof. exists []. split; [reflexivity|constructor]. Qed.
Lemma clean_trans p q r : clean p q -> clean q r -> clean p r.
Proof.
  intros (u1 & -> & H1) (u2 & -> & H2). exists (u1 ++ u2). split; [now rewrite app_assoc|]. apply Forall_app. auto.
Qed.
Lemma clean_short n p : clean (WShort n :: p) p.
Proof. exists [WShort n]. split; [reflexivity|]. repeat constructor. discriminate. Qed.

(* ---------- sink primitives *)
Lemma dev_write_clean d bs d' k : dev_write d bs = (d', Ok k) -> clean (d_plan d) (d_plan d').
Proof.
  unfold dev_write. destruct (d_plan d) as [|[n|] p]; intro H; try discriminate; injection H as <- _; cbn [d_plan].
  - apply clean_refl. - apply clean_short.
Qed.

Lemma dev_write_all_fuel_clean : forall fuel d bs d' u, dev_write_all_fuel fuel d bs = (d', Ok u) -> clean (d_plan d) (d_plan d').
Proof.
  induction fuel as [|f IH]; intros d bs d' u H; destruct bs as [|b rest]; cbn [dev_write_all_fuel] in H;
    try (injection H as <- _; apply clean_refl); try discriminate.
  destruct (dev_write d (b :: rest)) as [d1 [k|e|q]] eqn:E; try discriminate.
  destruct (k =? 0); [discriminate|]. eapply clean_trans; [exact (dev_write_clean _ _ _ _ E)|exact (IH _ _ _ _ H)].
Qed.
Lemma dev_write_all_clean d bs d' u : dev_write_all d bs = (d', Ok u) -> clean (d_plan d) (d_plan d').
Proof. apply dev_write_all_fuel_clean. Qed.

Lemma dev_write_chunks_clean : forall cs d d' u, dev_write_chunks d cs = (d', Ok u) -> clean (d_plan d) (d_plan d').
Proof.
  induction cs as [|c cs IH]; intros d d' u H; cbn [dev_write_chunks] in H; [injection H as <- _; apply clean_refl|].
  destruct (dev_write_all d c) as [d1 [u1|e|q]] eqn:E; try discriminate.
  eapply clean_trans; [exact (dev_write_all_clean _ _ _ _ E)|exact (IH _ _ _ H)].
Qed.

Lemma dev_event_clean d d' u : dev_event d = (d', Ok u) -> clean (d_plan d) (d_plan d').
Proof.
  unfold dev_event, io_fail. destruct (d_plan d) as [|[n|] p] eqn:E; intro H; try discriminate; injection H as <- _; cbn [d_plan].
  - rewrite E. apply clean_refl. - apply clean_short.
Qed.
Lemma dev_seek_clean d q d' u : dev_seek d q = (d', Ok u) -> clean (d_plan d) (d_plan d').
Proof.
  unfold dev_seek. destruct (dev_event d) as [d1 [u1|e|p]] eqn:E; intro H; try discriminate.
  injection H as <- _. cbn [d_plan]. exact (dev_event_clean _ _ _ E).
Qed.
Lemma dev_pos_clean d d' v : dev_pos d = (d', Ok v) -> clean (d_plan d) (d_plan d').
Proof.
  unfold dev_pos. destruct (dev_event d) as [d1 [u1|e|p]] eqn:E; intro H; try discriminate.
  injection H as <- _. exact (dev_event_clean _ _ _ E).
Qed.
Lemma dev_flush_clean d d' u : dev_flush d = (d', Ok u) -> clean (d_plan d) (d_plan d').
Proof. apply dev_event_clean. Qed.
Lemma dev_seek_end_clean d d' v : dev_seek_end d = (d', Ok v) -> clean (d_plan d) (d_plan d').
Proof.
  unfold dev_seek_end. destruct (dev_event d) as [d1 [u1|e|p]] eqn:E; intro H; try discriminate.
  injection H as <- _. cbn [d_plan]. exact (dev_event_clean _ _ _ E).
Qed.

(* ---------- the writer *)
Definition pli (i : winner) : list wev := match dev_of i with Some d => d_plan d | None => [] end.
Definition pl (s : wstate) : list wev := pli (ws_inner s).

Section W.
  Variable enc : CompressionMethod -> Z -> bytes -> bytes.
  Variable crc : bytes -> N.

  Lemma finish_comp_clean i i' u : finish_comp enc i = (i', Ok u) -> clean (pli i) (pli i').
  Proof.
    destruct i as [l|d|d b k|m lvl d [[b k]|] pending]; cbn [finish_comp]; intro H; try (injection H as <- _; apply clean_refl).
    destruct (dev_write_all d (enc m lvl pending)) as [d' [u'|e|p]] eqn:E; try discriminate.
    injection H as <- _. exact (dev_write_all_clean _ _ _ _ E).
  Qed.

  Lemma switch_to_clean s m lvl s' u : switch_to enc s m lvl = (s', Ok u) -> clean (pl s) (pl s').
  Proof.
    unfold switch_to. destruct (cur_method (ws_inner s)) as [cm|]; [|discriminate].
    destruct (CompressionMethod_eqb cm m); [intro H; injection H as <- _; apply clean_refl|].
    destruct (finish_comp enc (ws_inner s)) as [i1 [u1|e|p]] eqn:E; try discriminate.
    pose proof (finish_comp_clean _ _ _ E) as C.
    destruct m; try discriminate.
    - destruct lvl; [discriminate|]. intro H. injection H as <- _. exact C.
    - destruct (level_ok _ lvl); [|discriminate]. destruct i1; try discriminate; intro H; injection H as <- _; exact C.
    - destruct (level_ok _ lvl); [|discriminate]. destruct i1; try discriminate; intro H; injection H as <- _; exact C.
    - destruct (level_ok _ lvl); [|discriminate]. destruct i1; try discriminate; intro H; injection H as <- _; exact C.
  Qed.

  Lemma with_plain_clean {A} s (k : dev -> dev * res A) s' (v : A) :
    with_plain s k = (s', Ok v) -> (forall d d' w, k d = (d', Ok w) -> clean (d_plan d) (d_plan d')) -> clean (pl s) (pl s').
  Proof.
    unfold with_plain, pl. intros H Hk. destruct (ws_inner s) as [l|d|d b kk|? ? ? ? ?]; try discriminate.
    - destruct (k d) as [d' r] eqn:E. injection H as <- ->. exact (Hk _ _ _ E).
    - destruct (k d) as [d' r] eqn:E. injection H as <- ->. exact (Hk _ _ _ E).
  Qed.

  Lemma update_local_clean d f d' u : update_local d f = (d', Ok u) -> clean (d_plan d) (d_plan d').
  Proof.
    unfold update_local. destruct (dev_seek d _) as [d1 [u1|e|p]] eqn:E1; try discriminate.
    destruct (dev_write_all d1 _) as [d2 [u2|e|p]] eqn:E2; try discriminate.
    pose proof (clean_trans _ _ _ (dev_seek_clean _ _ _ _ E1) (dev_write_all_clean _ _ _ _ E2)) as C.
    destruct (w_large f).
    - destruct (dev_seek d2 _) as [d3 [u3|e|p]] eqn:E3; try discriminate. intro H.
      exact (clean_trans _ _ _ C (clean_trans _ _ _ (dev_seek_clean _ _ _ _ E3) (dev_write_chunks_clean _ _ _ _ H))).
    - destruct (ZIP64_BYTES_THR <? w_csize f); [discriminate|]. intro H.
      exact (clean_trans _ _ _ C (dev_write_chunks_clean _ _ _ _ H)).
  Qed.

  Lemma end_extra_data_clean s s' v : end_extra_data enc s = (s', Ok v) -> clean (pl s) (pl s').
  Proof.
    unfold end_extra_data. destruct (negb (ws_to_extra s)); [discriminate|].
    intro H.
    assert (Hopen : is_closed (ws_inner s) = false) by (destruct (ws_inner s); [discriminate H|reflexivity..]).
    assert (H' : match last_file (ws_files s) with
      | None => (s, Panic PLastUnwrap)
      | Some f =>
        match validate_extra_data f with
        | Err e => (s, Err e)
        | Panic p => (s, Panic p)
        | Ok _ =>
            if ws_central_only s then
              (set_flags s (ws_to_file s) false false (ws_raw s), Ok (w_data_start f))
            else
              match with_plain s (fun d => dev_write_all d (w_extra f)) with
              | (s1, Ok _) =>
                  let header_end := w_data_start f + len (w_extra f) in
                  let s2 := set_files (set_stats s1 header_end (ws_written s1) (ws_hashed s1))
                                      (upd_last (ws_files s1) (fun g => wf_set_data_start g header_end)) in
                  match add_chk 16 (if w_large f then 20 else 0) (len (w_extra f) mod 65536) with
                  | None => (s2, Panic PExtraLenAdd)
                  | Some xl =>
                      match with_plain s2 (fun d =>
                              match dev_seek d (w_header_start f + 28) with
                              | (d1, Ok _) => match dev_write_all d1 (le16 xl) with
                                              | (d2, Ok _) => dev_seek d2 header_end
                                              | bad => bad end
                              | bad => bad end) with
                      | (s3, Ok _) =>
                          match switch_to enc s3 (w_method f) (w_level f) with
                          | (s4, Ok _) => (set_flags s4 (ws_to_file s4) false false (ws_raw s4), Ok header_end)
                          | (s4, Err e) => (s4, Err e)
                          | (s4, Panic p) => (s4, Panic p)
                          end
                      | (s3, Err e) => (s3, Err e)
                      | (s3, Panic p) => (s3, Panic p)
                      end
                  end
              | (s1, Err e) => (s1, Err e)
              | (s1, Panic p) => (s1, Panic p)
              end
        end end = (s', Ok v)) by (destruct (ws_inner s); try discriminate Hopen; exact H).
    clear H. rename H' into H.
    destruct (last_file (ws_files s)) as [f|]; [|discriminate].
    destruct (validate_extra_data f); try discriminate.
    destruct (ws_central_only s); [injection H as <- _; apply clean_refl|].
    destruct (with_plain s _) as [s1 [u1|e|p]] eqn:E1; try discriminate.
    pose proof (with_plain_clean _ _ _ _ E1 (fun d d' w X => dev_write_all_clean _ _ _ _ X)) as C1.
    cbv zeta in H. destruct (add_chk 16 _ _) as [xl|]; [|discriminate].
    match type of H with (match with_plain ?s2 ?k with _ => _ end) = _ => destruct (with_plain s2 k) as [s3 [u3|e|p]] eqn:E3 end; try discriminate.
    assert (C3 : clean (pl s1) (pl s3)).
    { refine (with_plain_clean _ _ _ _ E3 _). intros d d' w X.
      destruct (dev_seek d _) as [da [ua|e|p]] eqn:Ea; try discriminate.
      destruct (dev_write_all da _) as [db [ub|e|p]] eqn:Eb; try discriminate.
      exact (clean_trans _ _ _ (dev_seek_clean _ _ _ _ Ea) (clean_trans _ _ _ (dev_write_all_clean _ _ _ _ Eb) (dev_seek_clean _ _ _ _ X))). }
    destruct (switch_to enc s3 _ _) as [s4 [u4|e|p]] eqn:E4; try discriminate.
    injection H as <- _. exact (clean_trans _ _ _ C1 (clean_trans _ _ _ C3 (switch_to_clean _ _ _ _ _ E4))).
  Qed.

  Lemma finish_file_clean s s' u : finish_file enc crc s = (s', Ok u) -> clean (pl s) (pl s').
  Proof.
    unfold finish_file. intro H.
    match type of H with (let (_, _) := ?X in _) = _ => destruct X as [s0 r0] eqn:E0 end.
    assert (C0 : match r0 with Ok _ => clean (pl s) (pl s0) | _ => True end).
    { destruct (ws_to_extra s).
      - destruct (end_extra_data enc s) as [sa [va|e|p]] eqn:Ee; injection E0 as <- <-; auto. exact (end_extra_data_clean _ _ _ Ee).
      - injection E0 as <- <-. apply clean_refl. }
    clear E0. destruct r0 as [u0|e|p]; try discriminate.
    destruct (switch_to enc s0 CompressionMethod_Stored None) as [s1 [u1|e|p]] eqn:E1; try discriminate.
    pose proof (clean_trans _ _ _ C0 (switch_to_clean _ _ _ _ _ E1)) as C1.
    match type of H with (let (_, _) := ?X in _) = _ => destruct X as [s2 r2] eqn:E2 end.
    assert (C2 : match r2 with Ok _ => clean (pl s1) (pl s2) | _ => True end).
    { unfold pl. destruct (ws_inner s1) as [l|d|d b k|? ? ? ? ?] eqn:Ein; try (injection E2 as <- <-; auto; rewrite Ein; apply clean_refl).
      cbv zeta in E2. destruct (zc_encrypt k _) as [k' ct].
      destruct (dev_write_all d ct) as [d1 [ua|e|p]] eqn:Ew; try (injection E2 as <- <-; exact I).
      destruct (dev_flush d1) as [d2 [ub|e|p]] eqn:Ef; injection E2 as <- <-; auto.
      cbn. exact (clean_trans _ _ _ (dev_write_all_clean _ _ _ _ Ew) (dev_flush_clean _ _ _ Ef)). }
    clear E2. destruct r2 as [u2|e|p]; try discriminate.
    pose proof (clean_trans _ _ _ C1 C2) as C12.
    destruct (ws_inner s2) as [l|d2|? ? ?|? ? ? ? ?] eqn:Ein2; try discriminate.
    destruct (ws_raw s2); [injection H as <- _; unfold pl in *; cbn; now rewrite Ein2 in C12 |- *|].
    destruct (last_file (ws_files s2)) as [f|]; [|injection H as <- _; exact C12].
    destruct (with_plain s2 dev_pos) as [s3 [fe|e|p]] eqn:E3; try discriminate.
    pose proof (with_plain_clean _ _ _ _ E3 (fun d d' w X => dev_pos_clean _ _ _ X)) as C3.
    destruct (fe <? ws_start s3); [discriminate|].
    match type of H with (match with_plain ?s4 ?k with _ => _ end) = _ => destruct (with_plain s4 k) as [s5 [u5|e|p]] eqn:E5 end; try discriminate.
    assert (C5 : clean (pl s3) (pl s5)).
    { refine (with_plain_clean _ _ _ _ E5 _). intros d d' w X.
      destruct (update_local d _) as [da [ua|e|p]] eqn:Ea; try discriminate.
      exact (clean_trans _ _ _ (update_local_clean _ _ _ _ Ea) (dev_seek_clean _ _ _ _ X)). }
    injection H as <- _. exact (clean_trans _ _ _ C12 (clean_trans _ _ _ C3 C5)).
  Qed.

  Lemma start_entry_clean s name o raw s' u : start_entry enc crc s name o raw = (s', Ok u) -> clean (pl s) (pl s').
  Proof.
    unfold start_entry. destruct (65535 <? len name); [discriminate|].
    destruct (finish_file enc crc s) as [s1 [u1|e|p]] eqn:E1; try discriminate.
    pose proof (finish_file_clean _ _ _ E1) as C1.
    destruct (with_plain s1 dev_pos) as [s2 [hs|e|p]] eqn:E2; try discriminate.
    pose proof (with_plain_clean _ _ _ _ E2 (fun d d' w X => dev_pos_clean _ _ _ X)) as C2.
    cbv zeta. destruct (local_header_chunks _) as [cs|e|p]; try discriminate.
    destruct (with_plain s2 _) as [s3 [u3|e|p]] eqn:E3; try discriminate.
    pose proof (with_plain_clean _ _ _ _ E3 (fun d d' w X => dev_write_chunks_clean _ _ _ _ X)) as C3.
    destruct (with_plain s3 dev_pos) as [s4 [he|e|p]] eqn:E4; try discriminate.
    pose proof (with_plain_clean _ _ _ _ E4 (fun d d' w X => dev_pos_clean _ _ _ X)) as C4.
    pose proof (clean_trans _ _ _ C1 (clean_trans _ _ _ C2 (clean_trans _ _ _ C3 C4))) as C.
    destruct (o_encrypt o) as [pw|].
    - cbn [ws_inner set_files set_stats]. unfold pl in *. destruct (ws_inner s4) eqn:Ein; try discriminate.
      intro H. injection H as <- _. cbn. exact C.
    - intro H. injection H as <- _. exact C.
  Qed.

  Lemma zw_write_clean s buf s' k : zw_write s buf = (s', Ok k) -> clean (pl s) (pl s').
  Proof.
    unfold zw_write, pl. destruct (negb (ws_to_file s)); [discriminate|].
    destruct (ws_inner s) as [l|d|d b kk|m lvl d e pending] eqn:Ein; [discriminate|..];
      (destruct (ws_to_extra s); [intro H; injection H as <- _; cbn; rewrite Ein; apply clean_refl|]).
    - destruct (dev_write d buf) as [d' [c|e|p]] eqn:Ew; try discriminate.
      match goal with |- (if ?c then _ else _) = _ -> _ => destruct c end; [discriminate|].
      intro H. injection H as <- _. cbn. exact (dev_write_clean _ _ _ _ Ew).
    - match goal with |- (if ?c then _ else _) = _ -> _ => destruct c end; [discriminate|].
      intro H. injection H as <- _. cbn. apply clean_refl.
    - match goal with |- (if ?c then _ else _) = _ -> _ => destruct c end; [discriminate|].
      intro H. injection H as <- _. cbn. apply clean_refl.
  Qed.

  Lemma zw_write_all_fuel_clean : forall fuel s buf s' u, zw_write_all_fuel fuel s buf = (s', Ok u) -> clean (pl s) (pl s').
  Proof.
    induction fuel as [|f IH]; intros s buf s' u H; destruct buf as [|b rest]; cbn [zw_write_all_fuel] in H;
      try (injection H as <- _; apply clean_refl); try discriminate.
    destruct (zw_write s (b :: rest)) as [s1 [k|e|p]] eqn:E; try discriminate.
    destruct (k =? 0); [discriminate|]. exact (clean_trans _ _ _ (zw_write_clean _ _ _ _ E) (IH _ _ _ _ H)).
  Qed.
  Lemma zw_write_all_clean s buf s' u : zw_write_all s buf = (s', Ok u) -> clean (pl s) (pl s').
  Proof. apply zw_write_all_fuel_clean. Qed.

  Lemma start_file_clean s name o s' u : start_file enc crc s name o = (s', Ok u) -> clean (pl s) (pl s').
  Proof.
    unfold start_file. cbv zeta. destruct (start_entry enc crc s name _ None) as [s1 [u1|e|p]] eqn:E1; try discriminate.
    destruct (switch_to enc s1 _ _) as [s2 [u2|e|p]] eqn:E2; try discriminate.
    intro H. injection H as <- _. exact (clean_trans _ _ _ (start_entry_clean _ _ _ _ _ _ E1) (switch_to_clean _ _ _ _ _ E2)).
  Qed.

  Lemma start_extra_clean s name o s' v : start_file_with_extra_data enc crc s name o = (s', Ok v) -> clean (pl s) (pl s').
  Proof.
    unfold start_file_with_extra_data. cbv zeta. destruct (start_entry enc crc s name _ None) as [s1 [u1|e|p]] eqn:E1; try discriminate.
    destruct (last_file _); [|discriminate]. intro H. injection H as <- _. exact (start_entry_clean _ _ _ _ _ _ E1).
  Qed.

  Lemma end_local_clean s s' v : end_local_start_central enc s = (s', Ok v) -> clean (pl s) (pl s').
  Proof.
    unfold end_local_start_central. destruct (end_extra_data enc s) as [s1 [v1|e|p]] eqn:E1; try discriminate.
    intro H. injection H as <- _. exact (end_extra_data_clean _ _ _ E1).
  Qed.

  Lemma start_aligned_clean s name o align s' v : start_file_aligned enc crc s name o align = (s', Ok v) -> clean (pl s) (pl s').
  Proof.
    unfold start_file_aligned. destruct (start_file_with_extra_data enc crc s name o) as [s1 [dst|e|p]] eqn:E1; try discriminate.
    pose proof (start_extra_clean _ _ _ _ _ E1) as C1. intro H.
    match type of H with (let (_, _) := ?X in _) = _ => destruct X as [s2 r2] eqn:E2 end.
    assert (C2 : match r2 with Ok _ => clean (pl s1) (pl s2) | _ => True end).
    { destruct ((1 <? align) && negb (dst mod align =? 0)); [|injection E2 as <- <-; apply clean_refl].
      cbv zeta in E2.
      destruct (zw_write_all s1 _) as [sa [ua|e|p]] eqn:Ea; try (injection E2 as <- <-; exact I).
      destruct (zw_write_all sa _) as [sb [ub|e|p]] eqn:Eb; try (injection E2 as <- <-; exact I).
      destruct (zw_write_all sb _) as [sc [uc|e|p]] eqn:Ec; try (injection E2 as <- <-; exact I).
      destruct (end_local_start_central enc sc) as [sd [dd|e|p]] eqn:Ed; try (injection E2 as <- <-; exact I).
      pose proof (clean_trans _ _ _ (zw_write_all_clean _ _ _ _ Ea) (clean_trans _ _ _ (zw_write_all_clean _ _ _ _ Eb)
                   (clean_trans _ _ _ (zw_write_all_clean _ _ _ _ Ec) (end_local_clean _ _ _ Ed)))) as C.
      destruct (dd mod align =? 0); injection E2 as <- <-; auto. }
    clear E2. destruct r2 as [u2|e|p]; try discriminate.
    destruct (end_extra_data enc s2) as [s3 [ee|e|p]] eqn:E3; try discriminate.
    injection H as <- _. exact (clean_trans _ _ _ C1 (clean_trans _ _ _ C2 (end_extra_data_clean _ _ _ E3))).
  Qed.

  Lemma add_directory_clean s name o s' u : add_directory enc crc s name o = (s', Ok u) -> clean (pl s) (pl s').
  Proof.
    unfold add_directory. cbv zeta. destruct (start_entry enc crc s _ _ None) as [s1 [u1|e|p]] eqn:E1; try discriminate.
    intro H. injection H as <- _. exact (start_entry_clean _ _ _ _ _ _ E1).
  Qed.

  Lemma add_symlink_clean s name target o s' u : add_symlink enc crc s name target o = (s', Ok u) -> clean (pl s) (pl s').
  Proof.
    unfold add_symlink. cbv zeta. destruct (start_entry enc crc s _ _ None) as [s1 [u1|e|p]] eqn:E1; try discriminate.
    destruct (zw_write_all _ target) as [s2 [u2|e|p]] eqn:E2; try discriminate.
    intro H. injection H as <- _. exact (clean_trans _ _ _ (start_entry_clean _ _ _ _ _ _ E1) (zw_write_all_clean _ _ _ _ E2)).
  Qed.

  Lemma raw_copy_clean s src raw name s' u : raw_copy enc crc s src raw name = (s', Ok u) -> clean (pl s) (pl s').
  Proof.
    unfold raw_copy. cbv zeta. destruct (start_entry enc crc s name _ _) as [s1 [u1|e|p]] eqn:E1; try discriminate.
    intro H. exact (clean_trans _ _ _ (start_entry_clean _ _ _ _ _ _ E1) (zw_write_all_clean _ _ _ _ H)).
  Qed.

  Lemma write_central_all_clean : forall fs d d' u, write_central_all d fs = (d', Ok u) -> clean (d_plan d) (d_plan d').
  Proof.
    induction fs as [|f fs IH]; intros d d' u H; cbn [write_central_all] in H; [injection H as <- _; apply clean_refl|].
    destruct (central_header_chunks f) as [cs|e|p]; try discriminate.
    destruct (dev_write_chunks d cs) as [d1 [u1|e|p]] eqn:E; try discriminate.
    exact (clean_trans _ _ _ (dev_write_chunks_clean _ _ _ _ E) (IH _ _ _ H)).
  Qed.

  Lemma write_cd_footer_clean fs c d d' v : write_cd_footer fs c d = (d', Ok v) -> clean (d_plan d) (d_plan d').
  Proof.
    unfold write_cd_footer. destruct (dev_pos d) as [d1 [cs|e|p]] eqn:E1; try discriminate.
    destruct (write_central_all d1 fs) as [d2 [u2|e|p]] eqn:E2; try discriminate.
    destruct (dev_pos d2) as [d3 [ce|e|p]] eqn:E3; try discriminate.
    destruct (ce <? cs); [discriminate|].
    destruct (dev_write_chunks d3 _) as [d4 [u4|e|p]] eqn:E4; try discriminate.
    intro H. injection H as <- _.
    exact (clean_trans _ _ _ (dev_pos_clean _ _ _ E1) (clean_trans _ _ _ (write_central_all_clean _ _ _ _ E2)
             (clean_trans _ _ _ (dev_pos_clean _ _ _ E3) (dev_write_chunks_clean _ _ _ _ E4)))).
  Qed.

  Lemma finalize_clean s s' u : finalize enc crc s = (s', Ok u) -> clean (pl s) (pl s').
  Proof.
    unfold finalize. destruct (65535 <? len (ws_comment s)); [discriminate|].
    destruct (finish_file enc crc s) as [s1 [u1|e|p]] eqn:E1; try discriminate.
    intro H. refine (clean_trans _ _ _ (finish_file_clean _ _ _ E1) (with_plain_clean _ _ _ _ H _)).
    intros d d' w X.
    destruct (write_cd_footer _ _ d) as [da [cs|e|p]] eqn:Ea; try discriminate.
    destruct (dev_pos da) as [db [fe|e|p]] eqn:Eb; try discriminate.
    destruct (dev_seek_end db) as [dc [se|e|p]] eqn:Ec; try discriminate.
    pose proof (clean_trans _ _ _ (write_cd_footer_clean _ _ _ _ _ Ea) (clean_trans _ _ _ (dev_pos_clean _ _ _ Eb) (dev_seek_end_clean _ _ _ Ec))) as C.
    destruct (fe <? se); [|injection X as <- _; exact C].
    destruct (fe <? cs); [discriminate|].
    destruct (dev_seek dc _) as [dd [ud|e|p]] eqn:Ed; try discriminate.
    destruct (write_cd_footer _ _ dd) as [de [ce|e|p]] eqn:Ee; try discriminate.
    injection X as <- _. exact (clean_trans _ _ _ C (clean_trans _ _ _ (dev_seek_clean _ _ _ _ Ed) (write_cd_footer_clean _ _ _ _ _ Ee))).
  Qed.

  Lemma finish_clean s s' b : finish enc crc s = (s', Ok b) -> clean (pl s) (pl s').
  Proof.
    unfold finish. destruct (finalize enc crc s) as [s1 [u1|e|p]] eqn:E1; try discriminate.
    pose proof (finalize_clean _ _ _ E1) as C. unfold pl in *.
    destruct (ws_inner s1) eqn:Ein; try discriminate. intro H. injection H as <- _. cbn. exact C.
  Qed.

  (* ---------- calls and programs *)
  Definition is_ok (r : wresult) : bool :=
    match r with RUnit (Ok _) | RNum (Ok _) | RBytes (Ok _) => true | _ => false end.
  Definition not_drop (c : wcall) : Prop := c <> KDrop.

  Lemma do_call_clean s c s' r : not_drop c -> do_call enc crc s c = (s', r) -> is_ok r = true -> clean (pl s) (pl s').
  Proof.
    intros Hnd H Hok. destruct c; cbn [do_call] in H.
    - destruct (start_file enc crc s name o) as [s1 [u|e|p]] eqn:E; injection H as <- <-; try discriminate Hok. exact (start_file_clean _ _ _ _ _ E).
    - destruct (zw_write_all s data) as [s1 [u|e|p]] eqn:E; injection H as <- <-; try discriminate Hok. exact (zw_write_all_clean _ _ _ _ E).
    - destruct (start_file_with_extra_data enc crc s name o) as [s1 [u|e|p]] eqn:E; injection H as <- <-; try discriminate Hok. exact (start_extra_clean _ _ _ _ _ E).
    - destruct (start_file_aligned enc crc s name o align) as [s1 [u|e|p]] eqn:E; injection H as <- <-; try discriminate Hok. exact (start_aligned_clean _ _ _ _ _ _ E).
    - destruct (end_local_start_central enc s) as [s1 [u|e|p]] eqn:E; injection H as <- <-; try discriminate Hok. exact (end_local_clean _ _ _ E).
    - destruct (end_extra_data enc s) as [s1 [u|e|p]] eqn:E; injection H as <- <-; try discriminate Hok. exact (end_extra_data_clean _ _ _ E).
    - destruct (add_directory enc crc s name o) as [s1 [u|e|p]] eqn:E; injection H as <- <-; try discriminate Hok. exact (add_directory_clean _ _ _ _ _ E).
    - destruct (add_symlink enc crc s name target o) as [s1 [u|e|p]] eqn:E; injection H as <- <-; try discriminate Hok. exact (add_symlink_clean _ _ _ _ _ _ E).
    - injection H as <- _. apply clean_refl.
    - destruct (raw_copy enc crc s src raw name) as [s1 [u|e|p]] eqn:E; injection H as <- <-; try discriminate Hok. exact (raw_copy_clean _ _ _ _ _ _ E).
    - destruct (finish enc crc s) as [s1 [u|e|p]] eqn:E; injection H as <- <-; try discriminate Hok. exact (finish_clean _ _ _ E).
    - exfalso. now apply Hnd.
  Qed.

  Theorem run_calls_clean : forall cs s s' rs, Forall not_drop cs -> run_calls enc crc s cs = (s', rs) ->
    forallb is_ok rs = true -> clean (pl s) (pl s').
  Proof.
    induction cs as [|c cs IH]; intros s s' rs Hnd H Hok; cbn [run_calls] in H.
    - injection H as <- _. apply clean_refl.
    - destruct (do_call enc crc s c) as [s1 r1] eqn:E1. destruct (run_calls enc crc s1 cs) as [s2 rs2] eqn:E2.
      injection H as <- <-. cbn [forallb] in Hok. apply Bool.andb_true_iff in Hok. destruct Hok as [Ho1 Ho2].
      inversion Hnd as [|? ? Hc Hcs]. subst.
      exact (clean_trans _ _ _ (do_call_clean _ _ _ _ Hc E1 Ho1) (IH _ _ _ Hcs E2 Ho2)).
  Qed.
End W.
