(* Proofs/ExtractProofs.v — C07: confinement of ZipArchive::extract over the file tree of Spec/Fs.v.
   C06 (the depth walk of enclosed_name) lifted through create_dir_all / File::create / chmod. *)
From ZipV Require Import Base.Bytes Base.Outcome Spec.PathSpec Model.Path Spec.Fs Model.Extract Proofs.PathProofs.
Open Scope N_scope.

Theorem unsafe_entry_rejected umask root st e : x_open e = None -> enclosed_name (x_name e) = None ->
  extract_entry umask root st e = (st, XErr (EInvalid MInvalidFilePath)).
Proof. intros Ho He. unfold extract_entry. destruct st as [t lg]. now rewrite Ho, He. Qed.

(* ---------- locations under the root *)
Definition under (root l : loc) : Prop := is_prefix root l = true.

Lemma loc_eqb_refl l : loc_eqb l l = true.
Proof. induction l as [|x l IH]; cbn [loc_eqb]; [reflexivity|]. rewrite IH, andb_true_r. now apply bytes_eqb_eq. Qed.

Lemma under_app root rel : under root (root ++ rel).
Proof.
  unfold under. induction root as [|x r IH]; cbn [app is_prefix]; [reflexivity|].
  rewrite IH, andb_true_r. now apply bytes_eqb_eq.
Qed.

Lemma removelast_app_ne (root rel : loc) : rel <> [] -> removelast (root ++ rel) = root ++ removelast rel.
Proof. intro H. now apply removelast_app. Qed.

(* depth bookkeeping: d + normals - parents of a component list *)
Definition depth_after (d : N) (cs : list comp) : N := d + cnt_n cs - cnt_p cs.

Lemma never_above_nil d : never_above d [].
Proof. intro k. destruct k; cbn; lia. Qed.

Lemma never_above_cons d c cs :
  match c with
  | ParentDir => 1 <= d /\ never_above (d - 1) cs
  | Normal _ => never_above (d + 1) cs
  | _ => never_above d cs
  end -> never_above d (c :: cs).
Proof.
  intros H [|k]; cbn [firstn cnt_p cnt_n]; [lia|].
  destruct c; cbn [cnt_p cnt_n].
  - apply H.
  - apply H.
  - destruct H as [H1 H2]. specialize (H2 k). lia.
  - specialize (H k). lia.
Qed.

Lemma never_above_firstn d cs m : never_above d cs -> never_above d (firstn m cs).
Proof. intros H k. rewrite firstn_firstn. apply H. Qed.

Lemma removelast_firstn_len {A} (l : list A) : removelast l = firstn (length l - 1) l.
Proof.
  induction l as [|x l IH]; [reflexivity|]. destruct l as [|y l]; [reflexivity|].
  change (removelast (x :: y :: l)) with (x :: removelast (y :: l)). rewrite IH.
  cbn [length]. replace (S (S (length l)) - 1)%nat with (S (S (length l) - 1)) by lia. reflexivity.
Qed.

Lemma never_above_removelast d cs : never_above d cs -> never_above d (removelast cs).
Proof. intro H. rewrite removelast_firstn_len. now apply never_above_firstn. Qed.

Lemma never_above_no_curdir cs : forall d, never_above d cs -> never_above d (no_curdir cs).
Proof.
  induction cs as [|c cs IH]; intros d H; [exact H|].
  pose proof (never_above_cons_inv _ _ _ H) as Hi.
  destruct c; cbn [no_curdir filter].
  - apply never_above_cons. now apply IH.
  - now apply IH.
  - apply never_above_cons. destruct Hi as [H1 H2]. split; [assumption|now apply IH].
  - apply never_above_cons. now apply IH.
Qed.

Lemma no_root_no_curdir cs : ~ In RootDir cs -> ~ In RootDir (no_curdir cs).
Proof. intros H Hin. apply filter_In in Hin as [Hin _]. contradiction. Qed.

Lemma no_root_removelast (cs : list comp) : ~ In RootDir cs -> ~ In RootDir (removelast cs).
Proof.
  intros H Hin. apply H. rewrite removelast_firstn_len in Hin.
  rewrite <- (firstn_skipn (length cs - 1) cs). apply in_or_app. now left.
Qed.

(* ---------- create_dir_all never leaves the root when the component list never climbs above it *)
Lemma mkdir_all_confined umask root : forall cs t rel lg,
  never_above (N.of_nat (length rel)) cs -> ~ In RootDir cs -> Forall (under root) lg ->
  Forall (under root) (snd (fst (mkdir_all umask t (root ++ rel) cs lg))).
Proof.
  induction cs as [|c cs IH]; intros t rel lg Hn Hr Hl; cbn [mkdir_all]; [exact Hl|].
  pose proof (never_above_cons_inv _ _ _ Hn) as Hi.
  assert (Hr' : ~ In RootDir cs) by (intro; apply Hr; now right).
  destruct c.
  - exfalso. apply Hr. now left.
  - now apply IH.
  - destruct Hi as [Hd Hi]. destruct rel as [|x rel'] using rev_ind; [cbn in Hd; lia|].
    rewrite app_assoc, removelast_last. apply IH; try assumption.
    rewrite app_length in Hi. cbn [length] in Hi. replace (N.of_nat (length rel')) with (N.of_nat (length rel' + 1) - 1) by lia. exact Hi.
  - rewrite <- app_assoc.
    assert (Hi' : never_above (N.of_nat (length (rel ++ [n]))) cs).
    { rewrite app_length. cbn [length]. replace (N.of_nat (length rel + 1)) with (N.of_nat (length rel) + 1) by lia. exact Hi. }
    destruct (lookup t (root ++ rel ++ [n])) as [[m|c m]|].
    + now apply IH.
    + exact Hl.
    + apply IH; try assumption. apply Forall_app. split; [exact Hl|]. constructor; [apply under_app|constructor].
Qed.

(* ---------- kernel resolution of '/'-separated pieces walks [body pieces] *)
Lemma resolve_dir_confined root : forall pieces t rel l,
  never_above (N.of_nat (length rel)) (body pieces) ->
  resolve_dir t (root ++ rel) pieces = inl l ->
  exists rel', l = root ++ rel' /\ N.of_nat (length rel') = depth_after (N.of_nat (length rel)) (body pieces).
Proof.
  induction pieces as [|p ps IH]; intros t rel l Hn Hres; cbn [resolve_dir body] in *.
  - injection Hres as <-. exists rel. split; [reflexivity|]. unfold depth_after. cbn. lia.
  - unfold piece_comp in *. destruct (is_empty p || is_dot p) eqn:E1.
    + now apply (IH t rel l).
    + destruct (is_dotdot p) eqn:E2.
      * pose proof (never_above_cons_inv _ _ _ Hn) as [Hd Hi].
        destruct rel as [|x rel'] using rev_ind; [cbn in Hd; lia|].
        rewrite app_assoc, removelast_last in Hres.
        rewrite app_length in Hi, Hd |- *. cbn [length] in *.
        replace (N.of_nat (length rel' + 1) - 1) with (N.of_nat (length rel')) in Hi by lia.
        destruct (IH t rel' l Hi Hres) as (r2 & -> & Hlen). exists r2. split; [reflexivity|].
        unfold depth_after in *. cbn [cnt_n cnt_p]. specialize (Hi 0%nat). lia.
      * pose proof (never_above_cons_inv _ _ _ Hn) as Hi. cbv beta iota in Hi.
        rewrite <- app_assoc in Hres.
        destruct (lookup t (root ++ rel ++ [p])) as [[m|c m]|]; try discriminate.
        assert (Hi' : never_above (N.of_nat (length (rel ++ [p]))) (body ps)).
        { rewrite app_length. cbn [length]. replace (N.of_nat (length rel + 1)) with (N.of_nat (length rel) + 1) by lia. exact Hi. }
        destruct (IH t (rel ++ [p]) l Hi' Hres) as (r2 & -> & Hlen). exists r2. split; [reflexivity|].
        rewrite app_length in Hlen. cbn [length] in Hlen. unfold depth_after in *. cbn [cnt_n cnt_p].
        pose proof (Hi' (length (body ps))) as Hk. rewrite firstn_all in Hk. rewrite app_length in Hk. cbn [length] in Hk. lia.
Qed.

Lemma body_app ps qs : body (ps ++ qs) = body ps ++ body qs.
Proof.
  induction ps as [|p ps IH]; [reflexivity|]. cbn [app body]. destruct (piece_comp p); [cbn [app]|]; now rewrite IH.
Qed.

Lemma never_above_app_l d cs ds : never_above d (cs ++ ds) -> never_above d cs.
Proof.
  intro H. pose proof (never_above_firstn d (cs ++ ds) (length cs) H) as H'.
  rewrite firstn_app in H'. replace (length cs - length cs)%nat with 0%nat in H' by lia.
  rewrite firstn_all in H'. cbn [firstn] in H'. now rewrite app_nil_r in H'.
Qed.

Lemma cnt_n_app a b : cnt_n (a ++ b) = cnt_n a + cnt_n b.
Proof. induction a as [|c a IH]; [reflexivity|]. destruct c; cbn [app cnt_n]; rewrite ?IH; lia. Qed.
Lemma cnt_p_app a b : cnt_p (a ++ b) = cnt_p a + cnt_p b.
Proof. induction a as [|c a IH]; [reflexivity|]. destruct c; cbn [app cnt_p]; rewrite ?IH; lia. Qed.

Lemma depth_pos_of_parent d cs : never_above d (cs ++ [ParentDir]) -> 1 <= depth_after d cs.
Proof.
  intro H. specialize (H (length (cs ++ [ParentDir]))). rewrite firstn_all in H.
  rewrite cnt_n_app, cnt_p_app in H. cbn [cnt_n cnt_p] in H. unfold depth_after. lia.
Qed.

(* ---------- File::create and chmod stay under the root *)
Lemma create_file_confined umask root t pieces content lg :
  never_above 0 (body pieces) -> Forall (under root) lg ->
  Forall (under root) (snd (fst (create_file umask t root pieces content lg))).
Proof.
  intros Hn Hl. unfold create_file. destruct (rev pieces) as [|last rdir] eqn:Er; [exact Hl|].
  assert (Hp : pieces = rev rdir ++ [last]) by (rewrite <- (rev_involutive pieces), Er; reflexivity).
  destruct (resolve_dir t root (rev rdir)) as [d|e] eqn:Ed; [|exact Hl].
  assert (Hn' : never_above (N.of_nat (length (@nil bytes))) (body (rev rdir))).
  { cbn [length]. rewrite Hp, body_app in Hn. now apply never_above_app_l in Hn. }
  replace root with (root ++ []) in Ed by apply app_nil_r.
  destruct (resolve_dir_confined root _ _ _ _ Hn' Ed) as (rel' & -> & _).
  destruct (is_empty last || is_dot last || is_dotdot last); [exact Hl|].
  rewrite <- app_assoc.
  destruct (lookup t (root ++ rel' ++ [last])) as [[m|c m]|]; cbn [fst snd]; try exact Hl;
    (apply Forall_app; split; [exact Hl|constructor; [apply under_app|constructor]]).
Qed.

Lemma chmod_confined root t pieces mode lg :
  never_above 0 (body pieces) -> Forall (under root) lg ->
  Forall (under root) (snd (fst (chmod t root pieces mode lg))).
Proof.
  intros Hn Hl. unfold chmod. destruct (rev pieces) as [|last rdir] eqn:Er; [exact Hl|].
  assert (Hp : pieces = rev rdir ++ [last]) by (rewrite <- (rev_involutive pieces), Er; reflexivity).
  destruct (resolve_dir t root (rev rdir)) as [d|e] eqn:Ed; [|exact Hl].
  rewrite Hp, body_app in Hn.
  assert (Hn' : never_above (N.of_nat (length (@nil bytes))) (body (rev rdir))) by (cbn [length]; now apply never_above_app_l in Hn).
  replace root with (root ++ []) in Ed by apply app_nil_r.
  destruct (resolve_dir_confined root _ _ _ _ Hn' Ed) as (rel' & -> & Hlen). cbn [length] in Hlen.
  cbv zeta.
  assert (Hfin : forall l, under root l ->
            Forall (under root) (snd (fst (match lookup t l with
              | Some (NDir _) => ((update t l (NDir (N.land mode 4095)), lg ++ [l]), None)
              | Some (NFile c _) => if is_empty last then ((t, lg), Some FsNotDir)
                                    else ((update t l (NFile c (N.land mode 4095)), lg ++ [l]), None)
              | None => ((t, lg), Some FsNoEnt)
              end)))).
  { intros l Hu. destruct (lookup t l) as [[m|c m]|]; cbn [fst snd]; try exact Hl.
    - apply Forall_app. split; [exact Hl|constructor; [exact Hu|constructor]].
    - destruct (is_empty last); cbn [fst snd]; [exact Hl|]. apply Forall_app. split; [exact Hl|constructor; [exact Hu|constructor]]. }
  destruct (is_empty last || is_dot last) eqn:E1; [apply Hfin, under_app|].
  destruct (is_dotdot last) eqn:E2.
  - apply Hfin.
    assert (body [last] = [ParentDir]) as Hb by (cbn [body]; unfold piece_comp; now rewrite E1, E2).
    rewrite Hb in Hn. apply depth_pos_of_parent in Hn.
    change (N.of_nat 0) with 0 in Hlen.
    destruct rel' as [|x r] using rev_ind; [cbn [length] in Hlen; lia|].
    rewrite app_assoc, removelast_last. apply under_app.
  - apply Hfin. rewrite <- app_assoc. apply under_app.
Qed.

(* ---------- what enclosed_name guarantees about the pieces the kernel will see *)
Lemma body_dot_piece p0 rest : is_dot p0 = true -> body (p0 :: rest) = body rest.
Proof. intro H. cbn [body]. unfold piece_comp. rewrite H, orb_true_r. reflexivity. Qed.

Lemma enclosed_pieces n p : enclosed_name n = Some p ->
  never_above 0 (components p) /\ ~ In RootDir (components p) /\ never_above 0 (body (split_on slash p)).
Proof.
  intro H. apply enclosed_iff in H as [-> (Hnul & Hroot & Hna)]. split; [exact Hna|]. split; [exact Hroot|].
  unfold components in *. destruct n as [|b n']; [cbn; apply never_above_nil|].
  destruct (Byte.eqb b slash); [exfalso; apply Hroot; now left|].
  destruct (split_on slash (b :: n')) as [|p0 rest]; [apply never_above_nil|].
  destruct (is_dot p0) eqn:Ed.
  - rewrite (body_dot_piece _ _ Ed). exact (never_above_cons_inv _ _ _ Hna).
  - exact Hna.
Qed.

(* ---------- one entry, then the whole archive *)
Lemma extract_entry_confined umask root t lg e :
  Forall (under root) lg -> Forall (under root) (snd (fst (extract_entry umask root (t, lg) e))).
Proof.
  intro Hl. unfold extract_entry. destruct (x_open e); [exact Hl|].
  destruct (enclosed_name (x_name e)) as [p|] eqn:Ee; [|exact Hl].
  destruct (enclosed_pieces _ _ Ee) as (Hc & Hr & Hb).
  assert (Hafter : forall st1, Forall (under root) (snd st1) ->
            Forall (under root) (snd (fst (match x_mode e with
                                           | None => (st1, XOk)
                                           | Some m => match chmod (fst st1) root (split_on slash p) m (snd st1) with
                                                       | (st2, None) => (st2, XOk)
                                                       | (st2, Some fe) => (st2, XFs fe)
                                                       end
                                           end)))).
  { intros [t1 l1] H1. destruct (x_mode e) as [m|]; [|exact H1]. cbn [fst snd].
    pose proof (chmod_confined root t1 (split_on slash p) m l1 Hb H1) as Hc'.
    destruct (chmod t1 root (split_on slash p) m l1) as [st2 [fe|]]; exact Hc'. }
  assert (Hpc : never_above (N.of_nat (length (@nil bytes))) (removelast (no_curdir (components p)))).
  { cbn [length]. apply never_above_removelast. now apply never_above_no_curdir. }
  assert (Hpr : ~ In RootDir (removelast (no_curdir (components p)))) by (apply no_root_removelast; now apply no_root_no_curdir).
  destruct (ends_with_slash (x_name e)).
  - destruct (trailing_dot (split_on slash p) && negb match no_curdir (components p) with [] => true | _ => false end).
    { destruct (resolve_dir t root (split_on slash p)) as [d|fe].
      - exact (Hafter (t, lg) Hl).
      - pose proof (mkdir_all_confined umask root _ t [] lg Hpc Hpr Hl) as Hm. rewrite app_nil_r in Hm.
        destruct (mkdir_all umask t root (removelast (no_curdir (components p))) lg) as [st1 [[l|fe']|]]; cbn [fst snd] in Hm |- *;
          try exact Hm; (destruct (resolve_dir (fst st1) root (split_on slash p)); [now apply Hafter|exact Hm]). }
    pose proof (mkdir_all_confined umask root (components p) t [] lg Hc Hr Hl) as Hm. rewrite app_nil_r in Hm.
    destruct (mkdir_all umask t root (components p) lg) as [st1 [[l|fe]|]]; cbn [fst snd] in Hm |- *;
      try exact Hm. now apply Hafter.
  - pose proof (mkdir_all_confined umask root _ t [] lg Hpc Hpr Hl) as Hm. rewrite app_nil_r in Hm.
    destruct (mkdir_all umask t root (removelast (no_curdir (components p))) lg) as [[t1 l1] [[l|fe]|]];
      cbn [fst snd] in Hm |- *; try exact Hm.
    + pose proof (create_file_confined umask root t1 (split_on slash p) (x_data e) l1 Hb Hm) as Hcf.
      destruct (create_file umask t1 root (split_on slash p) (x_data e) l1) as [st2 [fe|]]; cbn [fst snd] in Hcf |- *; [exact Hcf|].
      destruct (x_read_err e); [exact Hcf|]. now apply Hafter.
    + pose proof (create_file_confined umask root t1 (split_on slash p) (x_data e) l1 Hb Hm) as Hcf.
      destruct (create_file umask t1 root (split_on slash p) (x_data e) l1) as [st2 [fe|]]; cbn [fst snd] in Hcf |- *; [exact Hcf|].
      destruct (x_read_err e); [exact Hcf|]. now apply Hafter.
Qed.

Theorem extract_confined umask root : forall es t lg t' lg' r,
  Forall (under root) lg -> extract umask root (t, lg) es = ((t', lg'), r) -> Forall (under root) lg'.
Proof.
  induction es as [|e es IH]; intros t lg t' lg' r Hl He; cbn [extract] in He.
  - now injection He as <- <- <-.
  - pose proof (extract_entry_confined umask root t lg e Hl) as H1.
    destruct (extract_entry umask root (t, lg) e) as [[t1 l1] r1]. cbn [fst snd] in H1.
    destruct r1; [exact (IH t1 l1 t' lg' r H1 He)| |]; now injection He as <- <- <-.
Qed.

(* ---------- the streaming extractor *)
Theorem sextract_files_confined umask root : forall es t lg t' lg' r,
  Forall (under root) lg -> sextract_files umask root (t, lg) es = ((t', lg'), r) -> Forall (under root) lg'.
Proof.
  induction es as [|e es IH]; intros t lg t' lg' r Hl He; cbn [sextract_files] in He.
  - now injection He as <- <- <-.
  - unfold sextract_file in He.
    pose proof (extract_entry_confined umask root t lg
      {| x_name := x_name e; x_open := x_open e; x_data := x_data e; x_read_err := x_read_err e; x_mode := None |} Hl) as H1.
    destruct (extract_entry umask root (t, lg) _) as [[t1 l1] r1]. cbn [fst snd] in H1.
    destruct r1; [exact (IH t1 l1 t' lg' r H1 He)| |]; now injection He as <- <- <-.
Qed.

Theorem sextract_metas_confined root : forall ms t lg t' lg' r,
  Forall (under root) lg -> sextract_metas root (t, lg) ms = ((t', lg'), r) -> Forall (under root) lg'.
Proof.
  induction ms as [|[n m] ms IH]; intros t lg t' lg' r Hl He; cbn [sextract_metas] in He.
  - now injection He as <- <- <-.
  - unfold sextract_meta in He. destruct (enclosed_name n) as [p|] eqn:Ee; [|now injection He as <- <- <-].
    destruct (enclosed_pieces _ _ Ee) as (_ & _ & Hb).
    destruct m as [m|].
    + cbn [fst snd] in He. pose proof (chmod_confined root t (split_on slash p) m lg Hb Hl) as Hc.
      destruct (chmod t root (split_on slash p) m lg) as [[t1 l1] [fe|]]; cbn [fst snd] in Hc.
      * now injection He as <- <- <-.
      * exact (IH t1 l1 t' lg' r Hc He).
    + exact (IH t lg t' lg' r Hl He).
Qed.
