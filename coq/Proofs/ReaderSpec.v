(* Proofs/ReaderSpec.v — functional facts about the reader model used by C03 (lookup by name, per-entry errors). *)
From ZipV Require Import Base.Bytes Base.Outcome Gen.GenLib Gen.CompressionGen Model.Readers Model.Reader.
Open Scope N_scope.

(* the name map: the last entry carrying the name wins *)
Lemma find_last_name_spec : forall files i name best,
  find_last_name files i name best =
  match find_last_name files i name None with Some j => Some j | None => best end.
Proof.
  induction files as [|f r IH]; intros i name best; cbn [find_last_name]; [reflexivity|].
  rewrite (IH (i + 1) name (if bytes_eqb (f_name f) name then Some i else best)).
  rewrite (IH (i + 1) name (if bytes_eqb (f_name f) name then Some i else None)).
  destruct (find_last_name r (i + 1) name None); [reflexivity|]. destruct (bytes_eqb (f_name f) name); reflexivity.
Qed.

Lemma find_last_name_none : forall files i name,
  find_last_name files i name None = None <-> Forall (fun f => f_name f <> name) files.
Proof.
  induction files as [|f r IH]; intros i name; cbn [find_last_name].
  - split; [constructor|reflexivity].
  - rewrite find_last_name_spec. split.
    + intro H. destruct (find_last_name r (i + 1) name None) eqn:E; [discriminate|].
      destruct (bytes_eqb (f_name f) name) eqn:Eb; [discriminate|].
      constructor; [intro Hn; apply bytes_eqb_eq in Hn; congruence|]. now apply (IH (i + 1) name).
    + intro H. inversion H as [|? ? Hf Hr]; subst.
      apply (IH (i + 1) name) in Hr. rewrite Hr.
      destruct (bytes_eqb (f_name f) name) eqn:Eb; [apply bytes_eqb_eq in Eb; contradiction|reflexivity].
Qed.

(* the index returned carries the name, and no later entry does *)
Lemma find_last_name_some : forall files i name j,
  find_last_name files i name None = Some j ->
  exists k f, j = i + N.of_nat k /\ nth_error files k = Some f /\ f_name f = name /\
              Forall (fun g => f_name g <> name) (skipn (S k) files).
Proof.
  induction files as [|f r IH]; intros i name j; cbn [find_last_name]; [discriminate|].
  rewrite find_last_name_spec. destruct (find_last_name r (i + 1) name None) as [j'|] eqn:E.
  - intros [= <-]. destruct (IH (i + 1) name j' E) as (k & g & -> & Hn & Hg & Hl).
    exists (S k), g. repeat split; try assumption. lia.
  - destruct (bytes_eqb (f_name f) name) eqn:Eb; [|discriminate]. intros [= <-].
    exists 0%nat, f. apply bytes_eqb_eq in Eb. repeat split; try assumption; [lia|].
    cbn [skipn]. now apply (find_last_name_none r (i + 1) name).
Qed.

Theorem by_name_last ar name j : index_of_name ar name = Some j ->
  exists f, nth_error (ar_files ar) (N.to_nat j) = Some f /\ f_name f = name /\
            Forall (fun g => f_name g <> name) (skipn (S (N.to_nat j)) (ar_files ar)).
Proof.
  unfold index_of_name. intro H. destruct (find_last_name_some _ _ _ _ H) as (k & f & -> & Hn & Hf & Hl).
  exists f. replace (N.to_nat (0 + N.of_nat k)) with k by lia. now repeat split.
Qed.

Theorem by_name_absent ar name : index_of_name ar name = None <-> Forall (fun f => f_name f <> name) (ar_files ar).
Proof. unfold index_of_name. apply find_last_name_none. Qed.

Theorem by_index_out_of_range kdf ar i pw : (length (ar_files ar) <= N.to_nat i)%nat ->
  by_index_opt kdf ar i pw = Err ENotFound.
Proof. intro H. unfold by_index_opt. apply nth_error_None in H. now rewrite H. Qed.

(* an entry with a method the crate cannot decode fails cleanly, and only that entry: opening any other
   index does not look at it (by_index_opt depends on the archive bytes and on its own record only) *)
Theorem unsupported_entry_error kdf ar i pw f ds s :
  nth_error (ar_files ar) (N.to_nat i) = Some f -> (opt_is_none pw && f_encrypted f) = false ->
  find_content (ar_data ar) f = Ok (ds, s) -> is_unsupported (f_method f) = true ->
  by_index_opt kdf ar i pw = Err (EUnsupported MMethodNotSupported).
Proof.
  intros Hn He Hf Hu. unfold by_index_opt. rewrite Hn, He, Hf. cbn [bind].
  unfold make_crypto_reader. now rewrite Hu.
Qed.
